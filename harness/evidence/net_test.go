//go:build verif

package evidence

import (
	"encoding/json"
	"fmt"
	"os"
	"sort"
	"testing"
	"time"

	"github.com/kardiachain/go-kardia/consensus"
	"github.com/kardiachain/go-kardia/lib/p2p/mock"
	kproto "github.com/kardiachain/go-kardia/proto/kardiachain/types"
	"github.com/kardiachain/go-kardia/trie"
	"github.com/kardiachain/go-kardia/types"
	evpool "github.com/kardiachain/go-kardia/types/evidence"

	"verifharness/internal/mbt"
)

// one height of a behaviour of MC_EvidenceNet
type netStep struct {
	Ev  []json.RawMessage `json:"ev"` // kind, round, type, observers, offender, block pair
	Iv  []AVote           `json:"iv"` // the two votes in the order in which the observers see them
	Rs  int               `json:"rs"`
	Pv  int               `json:"pv"` // the Byzantine validator that plays the private precommit (kind 4)
	E   json.RawMessage   `json:"e"`
	Bl  []AEv             `json:"bl"` // evidence list of the Byzantine proposal (kind 5)
	Br  [][2]string       `json:"br"` // per node: specified result of validating it, reason
	Blk []AEv             `json:"blk"`
	P   [][]AEv           `json:"p"`
	C   [][]AEv           `json:"c"`
}
type netLine struct {
	S []netStep `json:"s"`
}

type peerHeight uint64

func (p peerHeight) GetHeight() uint64 { return uint64(p) }

const pendingPrefix = "evidence-pending" // types/evidence/pool.go baseKeyPending

// pendingInDB lists what node nd's database holds under the pending prefix.
func pendingInDB(nd *Node) []types.Evidence {
	var out []types.Evidence
	it := nd.DB.NewIterator([]byte(pendingPrefix), nil)
	defer it.Release()
	for it.Next() {
		var pb kproto.Evidence
		if err := pb.Unmarshal(it.Value()); err != nil {
			continue
		}
		if ev, err := types.EvidenceFromProto(&pb); err == nil || ev != nil {
			out = append(out, ev)
		}
	}
	return out
}

// netRun executes one behaviour on real nodes.  It stops at the first divergence and reports it.
type netRun struct {
	f      *Fixture // the evidence-free reference chain of the same script (validator indices per height)
	net    *Net
	res    *mbt.Result
	detail map[string]interface{}
	// expected real evidence per specification evidence (key of the tuple), and back
	exp       map[string]*types.DuplicateVoteEvidence
	byHex     map[string]string
	rounds    map[string]uint32 // specification evidence with round 0 -> the commit round it stands for
	inBlk     map[string]uint64 // evidence hash -> height of the block that carried it
	wallclock bool              // genesis in the past: vote and block times are wall-clock
}

// fail reports the first deviation of a behaviour; the rest of the behaviour is not compared (after a deviation
// the real network and the specification's behaviour have nothing to do with each other any more).
func (r *netRun) fail(sig, text string) bool {
	r.res.Add("net_behaviours_stopped_at_first_deviation:"+os.Getenv("EV_TAG"), 1)
	r.res.Mismatch(sig, text, r.detail)
	return false
}

// concrete: the real evidence the specification's tuple stands for.  Round 0 = the commit round of that height
// (fixed when the event happens).  The evidence time is the time of the block of the evidence height IN THIS RUN
// (with a genesis in the future it equals the specification's tick; with a genesis in the past block times are
// wall-clock medians); nil until that block exists.
func (r *netRun) concrete(e AEv) *types.DuplicateVoteEvidence {
	key := e.Key()
	if ev, ok := r.exp[key]; ok {
		return ev
	}
	c := e
	if rr, ok := r.rounds[key]; ok {
		c.A[3], c.B[3] = int(rr), int(rr)
	}
	ev := r.f.Evidence(c)
	meta := r.net.Nodes[r.net.Order[0]].BC.LoadBlockMeta(uint64(e.A[2]))
	if meta == nil {
		return nil
	}
	if r.wallclock {
		ev.Timestamp = meta.Header.Time
	} else if !ev.Timestamp.Equal(meta.Header.Time) {
		r.res.Mismatch("infra:e2e-blocktime", fmt.Sprintf("block %d has time %v, the specification's tick maps to %v", e.A[2], meta.Header.Time, ev.Timestamp), nil)
	}
	r.exp[key] = ev
	r.byHex[ev.Hash().Hex()] = key
	return ev
}

func (r *netRun) hexOf(e AEv) string {
	if ev := r.concrete(e); ev != nil {
		return ev.Hash().Hex()
	}
	return "no-block-for-" + e.Key()
}

// gossip: one full-mesh round.  Every node offers every item of its list to every peer; the reactor's own rule
// (prepareEvidenceMessage, with the peer's consensus height) decides what is sent, the wire codec carries it,
// the peer's AddEvidence receives it.  A correct node's evidence must never be refused by a correct peer.
func (r *netRun) gossip(hh uint64, when string) bool {
	n := r.net
	for _, from := range n.Order {
		src := n.Nodes[from]
		reactor := evpool.NewReactor(src.EvPool)
		var list []types.Evidence
		for e := src.EvPool.EvidenceFront(); e != nil; e = e.Next() {
			list = append(list, e.Value.(types.Evidence))
		}
		for _, to := range n.Order {
			if to == from {
				continue
			}
			dst := n.Nodes[to]
			peer := mock.NewPeer(nil)
			peer.Set(types.PeerStateKey, peerHeight(dst.CS.GetRoundState().Height))
			for _, ev := range list {
				msg := reactor.VerifPrepare(peer, ev)
				if msg == nil {
					continue
				}
				bz, err := evpool.VerifEncodeMsg(msg)
				if err != nil {
					return r.fail("evidence:e2e:gossip-encode", err.Error())
				}
				evs, err := evpool.VerifDecodeMsg(bz)
				if err != nil {
					return r.fail("evidence:e2e:gossip-rejected:decode", fmt.Sprintf("node %d cannot decode the evidence node %d gossips: %v", to, from, err))
				}
				for _, x := range evs {
					if err := dst.EvPool.AddEvidence(x); err != nil {
						return r.fail("evidence:e2e:gossip-rejected:"+errClass(err), fmt.Sprintf("%s deciding height %d node %d refuses the evidence (%s) that correct node %d holds and gossips: %v",
							when, hh, to, describe(x), from, err))
					}
				}
			}
			peer.Stop()
		}
	}
	return true
}

// producedCheck: the observers' pools hold the evidence for the event, stating the facts of its height.
func (r *netRun) producedCheck(hh uint64, kind int, kindName string, obs []int, e AEv) bool {
	n := r.net
	want := r.concrete(e)
	if want == nil {
		return r.fail("infra:e2e-concrete", "no block for the evidence height after deciding it")
	}
	blk := n.Nodes[n.Order[0]].BC.GetBlockByHeight(hh)
	for _, o := range obs {
		nd := n.Nodes[o]
		var other *types.DuplicateVoteEvidence
		cands := pendingInDB(nd)
		if blk != nil {
			cands = append(cands, blk.Evidence().Evidence...)
		}
		for _, p := range cands {
			if d, ok := p.(*types.DuplicateVoteEvidence); ok && r.byHex[d.Hash().Hex()] == "" && stampDiff(d, want) != "" {
				other = d
			}
		}
		if other == nil {
			if kind == 3 || nd.EvPool.VerifIsPending(want) || nd.EvPool.VerifIsCommitted(want) {
				continue // (kind 3: replayed votes that the node no longer accepts: nothing to report)
			}
			return r.fail("evidence:e2e:not-produced:"+kindName, fmt.Sprintf("node %d at height %d saw validator %d's conflicting votes (%s) and reported no evidence", o, hh, e.A[0], describe(want)))
		}
		if stampDiff(other, want) == "order" {
			return r.fail("evidence:e2e:misstamped:order:"+kindName,
				fmt.Sprintf("node %d at height %d built evidence of validator %d's conflicting votes with the votes in the wrong order [%s]; VoteA has to carry the smaller BlockID.Key() [%s]: no decoding (the pool's own database, gossip, a block) takes it back, it is never proposed and every peer refuses it",
					o, hh, e.A[0], describe(other), describe(want)))
		}
		return r.fail("evidence:e2e:misstamped:"+stampDiff(other, want)+":"+kindName,
			fmt.Sprintf("node %d at height %d turned validator %d's conflicting votes of height %d into evidence stating [%s]; the facts of that height are [%s] (every other node verifies against those)",
				o, hh, e.A[0], want.VoteA.Height, describe(other), describe(want)))
	}
	return true
}

// syncCheck: a node that was not there (block sync, blockchain/processor_context.go: SaveBlock + ApplyBlock)
// must accept every committed block.
func (r *netRun) syncCheck(maxH uint64) bool {
	src := r.net.Nodes[r.net.Order[0]]
	nd, err := r.net.W.BuildNode(len(r.net.W.Privs), nil, true) // the key of a non-validator
	if err != nil {
		return r.fail("infra:e2e-sync", err.Error())
	}
	defer nd.Close()
	st := nd.Store.Load()
	for h := uint64(1); h <= maxH; h++ {
		b := src.BC.GetBlockByHeight(h)
		parts := b.MakePartSet(types.BlockPartSizeBytes)
		seen := src.BC.LoadSeenCommit(h)
		nd.BO.SaveBlock(b, parts, seen)
		var aerr error
		st, _, aerr = nd.BE.ApplyBlock(st, types.BlockID{Hash: b.Hash(), PartsHeader: parts.Header()}, b)
		if aerr != nil {
			return r.fail("evidence:e2e:sync-rejected:"+errClass(aerr), fmt.Sprintf("a node that syncs the chain refuses the COMMITTED block %d (%d evidence items): %v", h, len(b.Evidence().Evidence), aerr))
		}
	}
	return true
}

// byzProposal: every correct node validates (cstate.validateBlock through BlockExecutor.ValidateBlock, as
// defaultDoPrevote does) a real block of the current height whose evidence list is the specification's.
func (r *netRun) byzProposal(hh uint64, st netStep) bool {
	n := r.net
	base, _ := n.Nodes[n.Order[0]].CS.VerifCreateProposalBlock()
	if base == nil {
		return r.fail("infra:e2e-proposal", "no proposal block")
	}
	var list []types.Evidence
	for _, e := range st.Bl {
		// evidence of a proposal need not be in any pool: it is not registered as expected unless the specification
		// says it becomes pending (then concrete() is asked for it again and returns the same object)
		ev := r.concrete(e)
		if ev == nil {
			return r.fail("infra:e2e-concrete", "no block for the height of proposal evidence")
		}
		list = append(list, ev)
	}
	hdr := *base.Header()
	blk := types.NewBlock(&hdr, base.Transactions(), base.LastCommit(), list, trie.NewStackTrie(nil))
	for k, id := range n.Order {
		nd := n.Nodes[id]
		// through the block codec, as a proposal arrives
		pb, err := blk.ToProto()
		if err != nil {
			return r.fail("infra:e2e-proposal", err.Error())
		}
		bz, _ := pb.Marshal()
		var pb2 kproto.Block
		if err := pb2.Unmarshal(bz); err != nil {
			return r.fail("infra:e2e-proposal", err.Error())
		}
		got, class := "ok", "nil"
		dec, err := types.BlockFromProto(&pb2, trie.NewStackTrie(nil))
		if err != nil {
			got, class = "invalid", "decode:"+errClass(err)
		} else if err := nd.CS.VerifValidate(dec); err != nil {
			got, class = "invalid", errClass(err)
		}
		want, why := st.Br[k][0], st.Br[k][1]
		if got == want {
			continue
		}
		if got == "ok" {
			return r.fail("evidence:e2e:block:accepted-invalid:"+why, fmt.Sprintf("node %d at height %d accepts (validateBlock) a proposed block whose evidence list the specification refuses (%s): %v", id, hh, why, st.Bl))
		}
		return r.fail("evidence:e2e:block:rejected-valid:"+class, fmt.Sprintf("node %d at height %d refuses (%s) a proposed block whose evidence is a real, unexpired, uncommitted equivocation: %v", id, hh, class, st.Bl))
	}
	return true
}

func describe(ev types.Evidence) string {
	d, ok := ev.(*types.DuplicateVoteEvidence)
	if !ok {
		return fmt.Sprintf("%T", ev)
	}
	bid := func(b types.BlockID) string { // the test block ids differ in their last bytes
		h, p := b.Hash.Hex(), b.PartsHeader.Hash.Hex()
		return fmt.Sprintf("%s:%s#%d", h[len(h)-4:], p[len(p)-4:], b.PartsHeader.Total)
	}
	return fmt.Sprintf("height %d round %d type %d VoteA %s VoteB %s power %d total %d time %s", d.VoteA.Height, d.VoteA.Round, d.VoteA.Type,
		bid(d.VoteA.BlockID), bid(d.VoteB.BlockID), d.ValidatorPower, d.TotalVotingPower, d.Timestamp.UTC().Format("15:04:05.000000000"))
}

// how a real evidence differs from the expected one about the same votes
func stampDiff(got, want *types.DuplicateVoteEvidence) string {
	switch {
	case got.VoteA.Height == want.VoteA.Height && got.VoteA.Round == want.VoteA.Round && got.VoteA.Type == want.VoteA.Type &&
		got.VoteA.BlockID.Equal(want.VoteB.BlockID) && got.VoteB.BlockID.Equal(want.VoteA.BlockID):
		return "order" // the same two votes the other way round: no decoding (ValidateBasic) takes that
	case got.VoteA.Height != want.VoteA.Height || got.VoteA.Round != want.VoteA.Round || got.VoteA.Type != want.VoteA.Type ||
		!got.VoteA.BlockID.Equal(want.VoteA.BlockID) || !got.VoteB.BlockID.Equal(want.VoteB.BlockID):
		return ""
	case !got.Timestamp.Equal(want.Timestamp):
		return "time"
	case got.ValidatorPower != want.ValidatorPower:
		return "power"
	case got.TotalVotingPower != want.TotalVotingPower:
		return "total"
	}
	return "votes"
}

func (r *netRun) height(hh uint64, st netStep) bool {
	n := r.net
	var kind, round, typ int
	var obs []int
	json.Unmarshal(st.Ev[0], &kind)
	json.Unmarshal(st.Ev[1], &round)
	json.Unmarshal(st.Ev[2], &typ)
	json.Unmarshal(st.Ev[3], &obs)
	kindName := map[int]string{1: "cur", 2: "late", 3: "again", 4: "cur-private-precommit"}[kind]
	for _, id := range n.Order {
		if h := n.Nodes[id].CS.GetRoundState().Height; h != hh {
			return r.fail("infra:e2e-height", fmt.Sprintf("node %d is at height %d at the start of step %d", id, h, hh))
		}
	}
	// 1'. the Byzantine validator proposes: a block of this height that is fine except for its evidence list
	if kind == 5 {
		if !r.byzProposal(hh, st) {
			return false
		}
	}
	// 1. the Byzantine validator shows conflicting votes to the observers (NewHeight step of height hh)
	var evt *AEv
	if kind != 0 && kind != 5 {
		if len(st.Iv) != 2 {
			return r.fail("infra:parse", "an event without the two votes to show")
		}
		offender := st.Iv[0][0]
		ref := n.Nodes[n.Order[0]].CS.GetRoundState()
		showA, showB := st.Iv[0], st.Iv[1]
		if len(st.E) > 2 { // the event is an equivocation: the evidence the observers have to report
			var e AEv
			if err := json.Unmarshal(st.E, &e); err != nil {
				return r.fail("infra:parse", err.Error())
			}
			evt = &e
			if e.A[3] == 0 {
				if ref.LastCommit == nil {
					return r.fail("infra:e2e-lastcommit", "no last commit for a late event")
				}
				if _, ok := r.rounds[e.Key()]; !ok {
					r.rounds[e.Key()] = ref.LastCommit.GetRound()
				}
			}
			if rr, ok := r.rounds[e.Key()]; ok {
				showA[3], showB[3] = int(rr), int(rr)
			}
		}
		va, vb := r.f.Vote(showA), r.f.Vote(showB)
		for _, o := range obs {
			if kind == 4 {
				// Byz's own precommit of the previous height, for the decided block, with an early time, for the observers only
				lc := n.Nodes[o].CS.GetRoundState().LastCommit
				bid, ok := lc.TwoThirdsMajority()
				if !ok {
					return r.fail("infra:e2e-lastcommit", "the last commit has no majority")
				}
				pc := &types.Vote{ValidatorAddress: n.W.Addr(st.Pv), ValidatorIndex: r.f.indexOf(st.Pv, int(hh)-1), Height: hh - 1, Round: lc.GetRound(),
					Type: kproto.PrecommitType, BlockID: bid, Timestamp: n.W.TickTime(0)}
				pc.Signature = n.W.SignVote(st.Pv, chainID, pc)
				// (not if an earlier event already showed this observer precommits of Byz for that round: a third
				// one would be another offence, which the specification's behaviour does not contain)
				if lc.GetByIndex(pc.ValidatorIndex) == nil {
					n.Inject(o, st.Pv, &consensus.VoteMessage{Vote: pc})
				}
			}
			n.Inject(o, offender, &consensus.VoteMessage{Vote: va.Copy()})
			n.Inject(o, offender, &consensus.VoteMessage{Vote: vb.Copy()})
		}
	}
	// 1b. gossip while the height is being decided (late evidence travels, evidence of this height is held back)
	if evt != nil && (kind == 2 || kind == 3) {
		// late precommits: the block of the evidence height exists, the facts can be compared at once
		if !r.producedCheck(hh, kind, "late", obs, *evt) {
			return false
		}
	}
	if !r.gossip(hh, "while") {
		return false
	}
	// 2. the height is decided
	if !n.RunUntil(hh, 60000) {
		return r.fail("evidence:e2e:no-progress", fmt.Sprintf("height %d is not decided under timely delivery (steps %d)", hh, n.Steps))
	}
	// what did consensus hand to the observers' pools?  (the evidence states the facts of ITS height)
	if evt != nil && kind != 2 && kind != 3 {
		if !r.producedCheck(hh, kind, kindName, obs, *evt) {
			return false
		}
	}
	wantBlk := map[string]bool{}
	for _, e := range st.Blk {
		wantBlk[r.hexOf(e)] = true
	}
	for _, id := range n.Order {
		nd := n.Nodes[id]
		b := nd.BC.GetBlockByHeight(hh)
		if b == nil {
			return r.fail("evidence:e2e:no-progress", fmt.Sprintf("node %d has no block %d", id, hh))
		}
		got := map[string]bool{}
		for _, ev := range b.Evidence().Evidence {
			hx := ev.Hash().Hex()
			if got[hx] {
				return r.fail("evidence:e2e:committed-twice:same-block", fmt.Sprintf("block %d carries the same evidence twice (%s)", hh, describe(ev)))
			}
			got[hx] = true
			if prev, ok := r.inBlk[hx]; ok && prev != hh {
				return r.fail("evidence:e2e:committed-twice", fmt.Sprintf("block %d carries evidence (%s) that block %d carried already", hh, describe(ev), prev))
			}
			r.inBlk[hx] = hh
			if !wantBlk[hx] {
				if ev.Height() >= hh {
					r.syncCheck(hh) // the consequence: does a node that was not there accept this committed block?
					return r.fail("evidence:e2e:proposed-unverifiable", fmt.Sprintf("block %d (proposer %d) carries evidence of height %d (%s): a node that has not seen the votes itself cannot verify it before block %d exists",
						hh, r.net.W.IDOf(b.Header().ProposerAddress), ev.Height(), describe(ev), ev.Height()))
				}
				return r.fail("evidence:e2e:block-evidence:unexpected", fmt.Sprintf("block %d carries evidence the specification does not expect there (%s)", hh, describe(ev)))
			}
		}
		for hx := range wantBlk {
			if !got[hx] {
				prop := r.net.W.IDOf(b.Header().ProposerAddress)
				ev := r.exp[r.byHex[hx]]
				return r.fail("evidence:e2e:not-proposed", fmt.Sprintf("block %d (proposer %d) does not carry the evidence (%s) that was pending, verifiable and unexpired in the proposer's pool when it proposed",
					hh, prop, describe(ev)))
			}
		}
		// the application was told to slash exactly the validators named by the block's evidence
		var wantSlash, gotSlash []string
		for _, e := range st.Blk {
			ev := r.concrete(e)
			if ev == nil {
				continue
			}
			wantSlash = append(wantSlash, fmt.Sprintf("%s/%d/%d/%d", ev.VoteA.ValidatorAddress.Hex(), ev.VoteA.Height, ev.ValidatorPower, ev.TotalVotingPower))
		}
		for _, s := range nd.BO.Slash[hh] {
			gotSlash = append(gotSlash, fmt.Sprintf("%s/%d/%d/%d", s.Address.Hex(), s.Height, s.VotingPower.Int64(), s.TotalVotingPower))
		}
		sort.Strings(wantSlash)
		sort.Strings(gotSlash)
		if fmt.Sprint(wantSlash) != fmt.Sprint(gotSlash) || !nd.BO.ExecOK[hh] {
			return r.fail("evidence:e2e:slashing", fmt.Sprintf("block %d at node %d: DoubleSign was called for %v (execution ok: %v), the block's evidence names %v", hh, id, gotSlash, nd.BO.ExecOK[hh], wantSlash))
		}
	}
	// 3. gossip, as the evidence reactor decides it
	if !r.gossip(hh, "after") {
		return false
	}
	// 4. restart
	if st.Rs != 0 {
		old := n.Nodes[st.Rs]
		old.Close()
		nd, err := n.W.BuildNode(st.Rs, old.DB, false)
		if err != nil {
			return r.fail("evidence:e2e:restart", fmt.Sprintf("node %d does not restart after height %d: %v", st.Rs, hh, err))
		}
		nd.BO.Slash, nd.BO.ExecOK = old.BO.Slash, old.BO.ExecOK
		n.Nodes[st.Rs] = nd
		n.StartNode(nd)
		if h := nd.CS.GetRoundState().Height; h != hh+1 {
			return r.fail("evidence:e2e:restart", fmt.Sprintf("node %d restarts at height %d after deciding %d", st.Rs, h, hh))
		}
	}
	// 5. the pools
	for k, id := range n.Order {
		nd := n.Nodes[id]
		wantP, wantC := map[string]bool{}, map[string]bool{}
		for _, e := range st.P[k] {
			wantP[r.hexOf(e)] = true
		}
		for _, e := range st.C[k] {
			wantC[r.hexOf(e)] = true
		}
		gotP := map[string]bool{}
		for _, ev := range pendingInDB(nd) {
			gotP[ev.Hash().Hex()] = true
			if !wantP[ev.Hash().Hex()] {
				return r.fail("evidence:e2e:pending:unexpected", fmt.Sprintf("after height %d node %d holds pending evidence (%s) that the specification does not expect (already committed, or never reported)", hh, id, describe(ev)))
			}
		}
		for hx := range wantP {
			if !gotP[hx] {
				return r.fail("evidence:e2e:pending:missing", fmt.Sprintf("after height %d node %d does not hold evidence (%s) as pending", hh, id, describe(r.exp[r.byHex[hx]])))
			}
		}
		for key, ev := range r.exp {
			_ = key
			hx := ev.Hash().Hex()
			if c := nd.EvPool.VerifIsCommitted(ev); c != wantC[hx] {
				return r.fail("evidence:e2e:committed-mark", fmt.Sprintf("after height %d node %d: committed mark of evidence (%s) is %v, the specification says %v", hh, id, describe(ev), c, wantC[hx]))
			}
		}
		if int(nd.EvPool.Size()) != len(gotP) {
			return r.fail("evidence:e2e:size", fmt.Sprintf("after height %d node %d: Size() = %d with %d pending items", hh, id, nd.EvPool.Size(), len(gotP)))
		}
	}
	return true
}

// TestNetReplay executes every behaviour of MC_EvidenceNet on real consensus nodes.
func TestNetReplay(t *testing.T) {
	res := mbt.NewResult()
	defer res.Write()
	s, err := scriptFromEnv()
	if err != nil {
		res.Mismatch("infra:script", err.Error(), nil)
		return
	}
	f, err := GetFixture(s)
	if err != nil {
		res.Mismatch("infra:fixture", err.Error(), nil)
		return
	}
	path := os.Getenv("EV_DUMP")
	workers := mbt.EnvInt("EV_WORKERS", 0)
	n, err := mbt.EachLine(path, workers, mbt.EnvInt("EV_LIMIT", 0), mbt.EnvInt("EV_STRIDE", 1), mbt.Seed(), func(k int, raw []byte) {
		var ln netLine
		if err := json.Unmarshal(raw, &ln); err != nil || len(ln.S) == 0 {
			res.Mismatch("infra:parse", fmt.Sprint(err), string(raw))
			return
		}
		w := NewWorld(s)
		net, err := w.NewNet()
		if err != nil {
			res.Mismatch("infra:net", err.Error(), nil)
			return
		}
		defer net.Close()
		script := []interface{}{}
		events := 0
		for i, st := range ln.S {
			script = append(script, map[string]interface{}{"height": i + 1, "event": st.Ev, "evidence": json.RawMessage(st.E), "restart": st.Rs, "block": st.Blk})
			var kind int
			json.Unmarshal(st.Ev[0], &kind)
			if kind != 0 {
				events++
			}
		}
		r := &netRun{f: f, net: net, res: res, exp: map[string]*types.DuplicateVoteEvidence{}, byHex: map[string]string{}, inBlk: map[string]uint64{},
			rounds: map[string]uint32{}, wallclock: s.GenesisUnix != 0 && s.GenesisUnix < time.Now().Unix(),
			detail: map[string]interface{}{"behaviour": script, "seed": mbt.Seed(),
				"legend": "event = [kind 1 votes of the height being decided / 2 late precommits of the previous height / 3 the previous votes again / 4 like 1 after a private precommit / 5 Byzantine proposal (round = variant), round, type, observers, offender, block pair 0 different hashes / 1, 2 same hash, two part-set hashes, smaller / greater key shown first / 3 only the part-set total differs: no equivocation]"}}
		res.Count(1)
		res.Behaviour()
		if events > 0 {
			res.Distinct(fmt.Sprint(k))
		}
		func() {
			defer func() {
				if p := recover(); p != nil {
					res.Mismatch("evidence:e2e:panic", fmt.Sprintf("a real node panicked: %v", p), r.detail)
				}
			}()
			net.Start()
			for i, st := range ln.S {
				if !r.height(uint64(i+1), st) {
					return
				}
			}
			if !r.syncCheck(uint64(len(ln.S))) {
				return
			}
			if k%211 == 0 {
				res.Sample(map[string]interface{}{"behaviour": script})
			}
		}()
	})
	if err != nil || n == 0 {
		res.Mismatch("infra:dump", fmt.Sprintf("no behaviours executed from %q: %v", path, err), nil)
	}
	res.Set("net_behaviours:"+os.Getenv("EV_TAG"), n)
}
