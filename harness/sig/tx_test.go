package sig

import (
	"encoding/json"
	"fmt"
	"math/big"
	"math/rand"
	"os"
	"strings"
	"sync"
	"testing"

	"github.com/kardiachain/go-kardia/lib/common"
	"github.com/kardiachain/go-kardia/lib/crypto"
	"github.com/kardiachain/go-kardia/lib/log"
	"github.com/kardiachain/go-kardia/lib/rlp"
	"github.com/kardiachain/go-kardia/types"

	"verifharness/internal/mbt"
)

const noChain = -1

// atx is the abstract transaction of MC_SigTx: content fields 0..2, the chain marker carried by
// V (vc), the form of (V, R, S) and the verifier's signer (vs); k / ss / meth describe how the
// original was signed.
type atx struct {
	nonce, price, gas, to, value, data int
	k, ss                              int
	meth                               string
	vc, vs                             int
	f                                  string
}

type txLine struct {
	O []interface{}   `json:"o"`
	M [][]interface{} `json:"m"`
	X string          `json:"x"`
	E bool            `json:"e"` // TxMustFail: an error is specified, at every presentation
}

// signatureValuesVc mirrors SignatureValuesVc of SigAlgebra (needed only to start from the honest presentation).
func signatureValuesVc(ss int) int {
	if ss > 0 {
		return ss
	}
	return noChain
}

// parseTxOrig: o = <<nonce, price, gas, to, value, data, k, ss, meth>>
func parseTxOrig(o []interface{}) atx {
	a := atx{nonce: num(o[0]), price: num(o[1]), gas: num(o[2]), to: num(o[3]), value: num(o[4]), data: num(o[5]),
		k: num(o[6]), ss: num(o[7]), meth: o[8].(string), f: "valid"}
	a.vc, a.vs = signatureValuesVc(a.ss), a.ss
	return a
}

func mutateTx(q atx, fl string, v interface{}) atx {
	switch fl {
	case "id":
	case "f":
		q.f = v.(string)
	case "nonce":
		q.nonce = num(v)
	case "price":
		q.price = num(v)
	case "gas":
		q.gas = num(v)
	case "to":
		q.to = num(v)
	case "value":
		q.value = num(v)
	case "data":
		q.data = num(v)
	case "vc":
		q.vc = num(v)
	case "vs":
		q.vs = num(v)
	default:
		panic("unknown field " + fl)
	}
	return q
}

// signer: -1 = HomesteadSigner (FrontierSigner for odd alt: same rules), c >= 0 = ChainIDSigner(chainID[c])
func (t *table) signer(n, alt int) types.Signer {
	if n == noChain {
		if alt%2 == 1 {
			return types.FrontierSigner{}
		}
		return types.HomesteadSigner{}
	}
	return types.NewChainIDSigner(t.chainID[n])
}

func (t *table) mkTx(q atx) *types.Transaction {
	if t.to[q.to] == nil {
		return types.NewContractCreation(t.nonce[q.nonce], t.value[q.value], t.gas[q.gas], t.price[q.price], t.data[q.data])
	}
	return types.NewTransaction(t.nonce[q.nonce], *t.to[q.to], t.value[q.value], t.gas[q.gas], t.price[q.price], t.data[q.data])
}

type rsv struct {
	r, s  *big.Int
	recid int64
	v     *big.Int // V as the real code produced it
}

// signTxOrig signs the original with the real code: types.SignTx, or signer.Hash + crypto.Sign + WithSignature.
func (t *table) signTxOrig(o atx) (rsv, error) {
	ck := fmt.Sprint("tx", t.name, o.nonce, o.price, o.gas, o.to, o.value, o.data, o.k, o.ss, o.meth)
	if s, ok := sigCache.Load(ck); ok {
		return s.(rsv), nil
	}
	S := t.signer(o.ss, 0)
	tx0 := t.mkTx(o)
	var signed *types.Transaction
	var err error
	if o.meth == "signtx" {
		signed, err = types.SignTx(S, tx0, t.keys[o.k-1])
	} else {
		h := S.Hash(tx0)
		var sg []byte
		if sg, err = crypto.Sign(h[:], t.keys[o.k-1]); err == nil {
			signed, err = tx0.WithSignature(S, sg)
		}
	}
	if err != nil {
		return rsv{}, err
	}
	V, R, Sv := signed.RawSignatureValues()
	out := rsv{r: new(big.Int).Set(R), s: new(big.Int).Set(Sv), v: new(big.Int).Set(V)}
	base := t.vBase(signatureValuesVc(o.ss))
	out.recid = new(big.Int).Sub(V, base).Int64()
	sigCache.Store(ck, out)
	return out, nil
}

// vBase: V = vBase(vc) + recovery id
func (t *table) vBase(vc int) *big.Int {
	if vc == noChain {
		return big.NewInt(27)
	}
	b := new(big.Int).Mul(t.chainID[vc], big.NewInt(2))
	return b.Add(b, big.NewInt(35))
}

type vrs struct {
	v, r, s *big.Int
	sig65   []byte // r || s || recid when expressible through WithSignature, else nil
	raw     []byte // for the wrong-length forms: what is handed to WithSignature
}

// txForms makes the abstract form concrete from the honest (r, s, recid) for chain marker vc.
func (t *table) txForms(h rsv, vc int, f string, rng *rand.Rand) []vrs {
	base := t.vBase(vc)
	mk := func(r, s *big.Int, recid int64) vrs {
		x := vrs{v: new(big.Int).Add(base, big.NewInt(recid)), r: r, s: s}
		if r.BitLen() <= 256 && s.BitLen() <= 256 && recid >= 0 && recid < 200 {
			x.sig65 = make([]byte, 65)
			r.FillBytes(x.sig65[:32])
			s.FillBytes(x.sig65[32:64])
			x.sig65[64] = byte(recid)
		}
		return x
	}
	zero := new(big.Int)
	switch f {
	case "valid":
		return []vrs{mk(h.r, h.s, h.recid)}
	case "highs":
		// the twin of the honest signature (both recovery ids), and the boundary of the rule itself: the smallest
		// high s (N/2 + 1) and the largest one below 2^255 - values no honest twin ever hits
		halfN := new(big.Int).Rsh(curveN, 1)
		return []vrs{mk(h.r, new(big.Int).Sub(curveN, h.s), h.recid^1), mk(h.r, new(big.Int).Sub(curveN, h.s), h.recid),
			mk(h.r, new(big.Int).Add(halfN, big.NewInt(1)), h.recid), mk(h.r, new(big.Int).Add(halfN, big.NewInt(1)), h.recid^1),
			mk(h.r, pow2m1(255), h.recid)}
	case "vflip":
		return []vrs{mk(h.r, h.s, h.recid^1)}
	case "r0":
		return []vrs{mk(zero, h.s, h.recid)}
	case "s0":
		return []vrs{mk(h.r, zero, h.recid)}
	case "rN":
		return []vrs{mk(curveN, h.s, h.recid), mk(new(big.Int).Add(curveN, big.NewInt(1)), h.s, h.recid), mk(pow2m1(256), h.s, h.recid)}
	case "sN":
		return []vrs{mk(h.r, curveN, h.recid), mk(h.r, new(big.Int).Add(curveN, h.s), h.recid), mk(h.r, pow2m1(256), h.recid)}
	case "rwide":
		return []vrs{mk(new(big.Int).Add(pow2(256), h.r), h.s, h.recid), mk(h.r, new(big.Int).Add(pow2(256), h.s), h.recid)}
	case "zero":
		return []vrs{{v: new(big.Int), r: new(big.Int), s: new(big.Int)}, mk(zero, zero, 0)}
	case "rand":
		n := 4
		if mbt.Thorough() {
			n = 16
		}
		out := make([]vrs, n)
		for i := range out {
			b := make([]byte, 64)
			rng.Read(b)
			out[i] = mk(new(big.Int).SetBytes(b[:32]), new(big.Int).SetBytes(b[32:]), int64(rng.Intn(2)))
		}
		return out
	case "vraw": // V = recovery id, no offset at all
		return []vrs{{v: big.NewInt(h.recid), r: h.r, s: h.s}}
	case "v26": // just outside 27/28 and the recovery ids 2, 3
		out := []vrs{{v: big.NewInt(26), r: h.r, s: h.s}, {v: big.NewInt(34), r: h.r, s: h.s}}
		if vc == noChain { // (on a protected V, recovery id + 2 IS the next chain id: that is the vc mutation)
			out = append(out, mk(h.r, h.s, h.recid+2))
		}
		return out
	case "vhuge":
		v := new(big.Int).Add(base, big.NewInt(h.recid))
		return []vrs{{v: new(big.Int).Add(pow2(64), v), r: h.r, s: h.s}, {v: new(big.Int).Add(pow2(256), v), r: h.r, s: h.s}}
	case "len64", "len66":
		x := mk(h.r, h.s, h.recid)
		if f == "len64" {
			x.raw = x.sig65[:64]
		} else {
			x.raw = append(append([]byte{}, x.sig65...), 0)
		}
		return []vrs{x}
	}
	panic("unknown tx form " + f)
}

// wireTx builds the transaction exactly as a peer could send it: RLP of the nine fields, decoded
// by the real decoder.
func (t *table) wireTx(q atx, x vrs) (*types.Transaction, []byte, error) {
	var to []byte
	if a := t.to[q.to]; a != nil {
		to = a.Bytes()
	}
	bz, err := rlp.EncodeToBytes([]interface{}{t.nonce[q.nonce], t.price[q.price], t.gas[q.gas], to, t.value[q.value],
		t.data[q.data], x.v, x.r, x.s})
	if err != nil {
		return nil, nil, err
	}
	tx := new(types.Transaction)
	if err := rlp.DecodeBytes(bz, tx); err != nil {
		return nil, bz, err
	}
	return tx, bz, nil
}

var txPathName = map[string]string{"wire": "types.Sender(RLP-decoded)", "built": "types.Sender(WithSignature)",
	"msg": "Transaction.AsMessage", "cached": "types.Sender(after Sender under the signing signer)", "api": "Transaction.WithSignature", "repeat": "types.Sender(same object, repeatedly)"}

func ssKind(ss int) string {
	switch {
	case ss == noChain:
		return "homestead"
	case ss == 0:
		return "chainid0"
	}
	return "chainid"
}

// evalTx returns, per real path, "signer" (the address of the original key comes out) or "other".
func (t *table) evalTx(o, q atx, x vrs, alt int) (map[string]string, map[string]interface{}) {
	out, pans := map[string]string{}, map[string]interface{}{}
	want := t.txAddr(o.k)
	V := t.signer(q.vs, alt)
	verdict := func(a common.Address, err error) string {
		if err == nil && a == want {
			return "signer"
		}
		return "other"
	}
	run := func(path string, f func() string) {
		r, p := guard(f)
		out[path] = r
		if p != nil {
			pans[path] = p
		}
	}
	if x.raw != nil { // wrong-length signature handed to the API: must not yield a transaction of the signer
		r, p := guard(func() string {
			tx, err := t.mkTx(q).WithSignature(t.signer(q.vc, 0), x.raw)
			if err != nil {
				return "other"
			}
			return verdict(types.Sender(V, tx))
		})
		if p != nil {
			r = "other" // documented panic of the local API ("wrong size for signature"); nothing is accepted
		}
		out["api"] = r
		return out, pans
	}
	run("wire", func() string {
		tx, _, err := t.wireTx(q, x)
		if err != nil {
			return "other"
		}
		return verdict(types.Sender(V, tx))
	})
	run("msg", func() string {
		tx, _, err := t.wireTx(q, x)
		if err != nil {
			return "other"
		}
		m, err := tx.AsMessage(V)
		return verdict(m.From(), err)
	})
	run("cached", func() string {
		tx, _, err := t.wireTx(q, x)
		if err != nil {
			return "other"
		}
		types.Sender(t.signer(o.ss, 0), tx) // fills the sender cache under the signing signer
		types.Sender(t.signer(q.vc, 0), tx) // and under the signer the V claims
		return verdict(types.Sender(V, tx))
	})
	// the same object presented again and again (types.Sender caches per transaction object): TxSender is a function
	// of (signer, transaction) - the answers must not change, and an error stays an error
	run("repeat", func() string {
		tx, _, err := t.wireTx(q, x)
		if err != nil {
			return "stable-err"
		}
		type ans struct {
			a   common.Address
			bad bool
		}
		var as []ans
		a, err := types.Sender(V, tx)
		as = append(as, ans{a, err != nil})
		a, err = types.Sender(V, tx)
		as = append(as, ans{a, err != nil})
		m, err := tx.AsMessage(V)
		as = append(as, ans{m.From(), err != nil})
		a, err = types.Sender(V, tx)
		as = append(as, ans{a, err != nil})
		for _, y := range as[1:] {
			if y.bad != as[0].bad || (!y.bad && y.a != as[0].a) {
				return fmt.Sprintf("unstable: %v", as)
			}
		}
		if as[0].bad {
			return "stable-err"
		}
		return "stable-addr"
	})
	if x.sig65 != nil && q.vc != 0 {
		run("built", func() string {
			tx, err := t.mkTx(q).WithSignature(t.signer(q.vc, 0), x.sig65)
			if err != nil {
				return "other"
			}
			if v, _, _ := tx.RawSignatureValues(); v.Cmp(x.v) != 0 {
				return "skip" // WithSignature cannot express this V; the wire path has it
			}
			return verdict(types.Sender(V, tx))
		})
		if out["built"] == "skip" {
			delete(out, "built")
		}
	}
	return out, pans
}

// judgeTx runs one line (original, mutations, expected verdict) on table tb.
func judgeTx(tb *table, l *txLine, n int, rng *rand.Rand) (fs []finding, evals int, sample interface{}) {
	o := parseTxOrig(l.O)
	q := o
	for _, a := range l.M {
		q = mutateTx(q, a[0].(string), a[1])
	}
	mk := mutKey(l.M)
	h, err := tb.signTxOrig(o)
	if err != nil {
		return []finding{{"sign", "refused", "sig:tx:" + o.meth + ":" + ssKind(o.ss) + ":sign-error", "signing failed: " + err.Error(), nil}}, 0, nil
	}
	for vi, x := range tb.txForms(h, q.vc, q.f, rng) {
		got, pans := tb.evalTx(o, q, x, n)
		evals++
		if vi == 0 {
			sample = map[string]interface{}{"table": tb.name, "o": l.O, "m": l.M, "expected": l.X, "real": got, "V": x.v.String()}
		}
		for path, real := range got {
			detail := map[string]interface{}{"table": tb.name, "o": l.O, "m": l.M, "variant": vi, "path": txPathName[path],
				"expected": l.X, "real": got, "V": x.v.String(), "R": x.r.Text(16), "S": x.s.Text(16), "seed": mbt.Seed(),
				"signer_of_original": fmt.Sprint(tb.signer(o.ss, 0).ChainID()), "verifier_signer": fmt.Sprintf("%T %v", tb.signer(q.vs, n), tb.signer(q.vs, n).ChainID()),
				"tx": fmt.Sprintf("nonce=%d price=%v gas=%d to=%v value=%v data=%x", tb.nonce[q.nonce], tb.price[q.price], tb.gas[q.gas], tb.to[q.to], tb.value[q.value], tb.data[q.data])}
			pfx := "sig:tx:" + o.meth + ":" + ssKind(o.ss) + ":" + mk + ":" + txPathName[path]
			if path == "repeat" {
				switch {
				case real == "PANIC":
					fs = append(fs, finding{path, "panic", "sig:panic:tx:" + q.f + ":repeat",
						fmt.Sprintf("repeated types.Sender / AsMessage panics (%v) on a transaction with signature form %q", pans[path], q.f), detail})
				case strings.HasPrefix(real, "unstable"):
					fs = append(fs, finding{path, "unstable", "sig:tx:" + o.meth + ":" + ssKind(o.ss) + ":repeat:unstable",
						fmt.Sprintf("the same transaction object (signed by %s under a %s signer, presented with [%s]) answers differently when its sender is derived again with the same signer (Sender, Sender, AsMessage, Sender: {address, failed} = %s); specified: TxSender is a function of signer and transaction",
							o.meth, ssKind(o.ss), mk, real), detail})
				case l.E && real != "stable-err":
					fs = append(fs, finding{path, "accepted", pfx + ":no-error",
						fmt.Sprintf("types.Sender returns NO error for a transaction (signed by %s under a %s signer) presented with [%s]; specified: rejected (foreign chain marker or malleable / malformed signature values)",
							o.meth, ssKind(o.ss), mk), detail})
				}
				continue
			}
			switch {
			case real == "PANIC":
				fs = append(fs, finding{path, "panic", "sig:panic:tx:" + q.f + ":" + txPathName[path],
					fmt.Sprintf("%s panics (%v) on a transaction with signature form %q; specified: rejected", txPathName[path], pans[path], q.f), detail})
			case real == "signer" && l.X != "signer":
				fs = append(fs, finding{path, "forged", pfx + ":forged",
					fmt.Sprintf("%s returns the ORIGINAL signer for a transaction (signed by %s under a %s signer) presented with [%s]; specified: rejected or another sender",
						txPathName[path], o.meth, ssKind(o.ss), mk), detail})
			case real != "signer" && l.X == "signer":
				fs = append(fs, finding{path, "refused", pfx + ":refused",
					fmt.Sprintf("%s does not return the signer for a transaction (signed by %s under a %s signer) presented with [%s]; specified: the signer's address",
						txPathName[path], o.meth, ssKind(o.ss), mk), detail})
			}
		}
	}
	return fs, evals, sample
}

// TestTx replays every transition of MC_SigTx into the real code.
func TestTx(t *testing.T) {
	log.Root().SetHandler(log.DiscardHandler())
	res := mbt.NewResult()
	defer res.Write()
	tabs := tables(mbt.Seed())
	allTables := os.Getenv("SIG_TABLES") == "all"
	extraKeys := mkKeys(fmt.Sprintf("extra-%d", mbt.Seed()), 8)
	if mbt.Thorough() {
		extraKeys = mkKeys(fmt.Sprintf("extra-%d", mbt.Seed()), 64)
	}
	var obsMu sync.Mutex
	obs := map[string]int{}
	singles, err := indexSingles(os.Getenv("SIG_DUMP"), func(raw []byte) (string, interface{}, bool) {
		var l txLine
		if json.Unmarshal(raw, &l) != nil || len(l.M) != 1 {
			return "", nil, false
		}
		return lineKey(l.O, l.M), l.X, true
	})
	if err != nil {
		res.Mismatch("infra:read", err.Error(), nil)
		return
	}
	sent, err := mbt.EachLine(os.Getenv("SIG_DUMP"), 0, mbt.EnvInt("SIG_LIMIT", 0), mbt.EnvInt("SIG_STRIDE", 1), mbt.Seed(), func(n int, raw []byte) {
		var l txLine
		if err := json.Unmarshal(raw, &l); err != nil || len(l.O) != 9 {
			res.Mismatch("infra:parse", fmt.Sprint(err), string(raw))
			return
		}
		o := parseTxOrig(l.O)
		identity := len(l.M) == 1 && l.M[0][0].(string) == "id"
		rng := rand.New(rand.NewSource(mbt.Seed()*1000003 + int64(n)))
		for ti, tb := range tabs {
			if !allTables && ti != (n+int(mbt.Seed()))%len(tabs) {
				continue
			}
			fs, evals, sample := judgeTx(tb, &l, n, rng)
			res.Count(evals)
			for _, f := range fs {
				if len(l.M) >= 2 && (f.dir == "forged" || f.dir == "refused") {
					for _, mi := range l.M {
						sm := [][]interface{}{mi}
						x, ok := singles.Load(lineKey(l.O, sm))
						if !ok {
							continue
						}
						sfs, _, _ := judgeTx(tb, &txLine{O: l.O, M: sm, X: x.(string)}, n, rng)
						if r := hasFinding(sfs, f.path, f.dir); r != nil {
							f.sig, f.text = r.sig, r.text+" [also seen with a second mutation: "+mutKey(l.M)+"]"
							break
						}
					}
				}
				res.Mismatch(f.sig, f.text, f.detail)
			}
			if !identity {
				res.Distinct(tb.name + string(raw))
			}
			if n%4999 == 1 {
				res.Sample(sample)
			}
			if identity {
				// sign-then-recover for a seeded set of further keys, same content, same signer, same method
				S := tb.signer(o.ss, 0)
				for _, k := range extraKeys {
					tx0 := tb.mkTx(o)
					var signed *types.Transaction
					var err error
					if o.meth == "signtx" {
						signed, err = types.SignTx(S, tx0, k)
					} else {
						hh := S.Hash(tx0)
						sg, _ := crypto.Sign(hh[:], k)
						signed, err = tx0.WithSignature(S, sg)
					}
					res.Count(1)
					var from common.Address
					if err == nil {
						from, err = types.Sender(S, signed)
					}
					ok := err == nil && from == crypto.PubkeyToAddress(k.PublicKey)
					if o.ss == 0 {
						obsMu.Lock()
						obs[fmt.Sprintf("chainid0:%s:roundtrip=%v", o.meth, ok)]++
						obsMu.Unlock()
					}
					if ok != (l.X == "signer") {
						res.Mismatch("sig:tx:"+o.meth+":"+ssKind(o.ss)+":roundtrip", fmt.Sprintf("sign (%s under a %s signer) then types.Sender: signer recovered = %v, specified %v",
							o.meth, ssKind(o.ss), ok, l.X == "signer"), map[string]interface{}{"table": tb.name, "o": l.O, "chain": fmt.Sprint(S.ChainID()), "err": fmt.Sprint(err)})
					}
				}
			}
		}
	})
	if err != nil {
		res.Mismatch("infra:read", err.Error(), nil)
	}
	res.Behaviours = sent
	res.Set("tx_lines"+os.Getenv("SIG_TAG"), sent)
	res.Set("observations_tx"+os.Getenv("SIG_TAG"), obs)
}
