package sig

import (
	"encoding/json"
	"fmt"
	"math/big"
	"math/rand"
	"os"
	"sort"
	"strings"
	"sync"
	"testing"

	"github.com/gogo/protobuf/proto"

	"github.com/kardiachain/go-kardia/consensus"
	cstypes "github.com/kardiachain/go-kardia/consensus/types"
	"github.com/kardiachain/go-kardia/lib/crypto"
	"github.com/kardiachain/go-kardia/lib/log"
	kcons "github.com/kardiachain/go-kardia/proto/kardiachain/consensus"
	kproto "github.com/kardiachain/go-kardia/proto/kardiachain/types"
	"github.com/kardiachain/go-kardia/types"
	"github.com/kardiachain/go-kardia/types/evidence"

	"verifharness/internal/mbt"
)

// amsg is the abstract consensus message of MC_SigCons (fields 0..2, keys 1..3).
type amsg struct {
	typ                              string
	chain, h, r, pol, bh, pt, ph, ts int
	va, vi                           int
	f                                string
}

type consLine struct {
	O []interface{}     `json:"o"`
	M [][]interface{}   `json:"m"`
	X map[string]string `json:"x"`
}

func num(x interface{}) int { return int(x.(float64)) }

// parseOrig: o = <<type, chain, h, r, pol, bh, pt, ph, ts, k>>
func parseOrig(o []interface{}) amsg {
	k := num(o[9])
	return amsg{typ: o[0].(string), chain: num(o[1]), h: num(o[2]), r: num(o[3]), pol: num(o[4]), bh: num(o[5]),
		pt: num(o[6]), ph: num(o[7]), ts: num(o[8]), va: k, vi: k, f: "valid"}
}

// mutate mirrors Apply of MC_SigCons.
func mutate(q amsg, fl string, v interface{}) amsg {
	switch fl {
	case "id":
	case "type":
		q.typ = v.(string)
		if q.typ == "proposal" {
			q.va = q.vi
		} else {
			q.pol = 0
		}
	case "f":
		q.f = v.(string)
	case "signer":
		q.va, q.vi = num(v), num(v)
	case "vi":
		q.vi = num(v)
		if q.typ == "proposal" {
			q.va = q.vi
		}
	case "va":
		q.va = num(v)
	case "chain":
		q.chain = num(v)
	case "h":
		q.h = num(v)
	case "r":
		q.r = num(v)
	case "pol":
		q.pol = num(v)
	case "bh":
		q.bh = num(v)
	case "pt":
		q.pt = num(v)
	case "ph":
		q.ph = num(v)
	case "ts":
		q.ts = num(v)
	default:
		panic("unknown field " + fl)
	}
	return q
}

func (t *table) blockID(m amsg) types.BlockID {
	return types.BlockID{Hash: t.bh[m.bh], PartsHeader: types.PartSetHeader{Total: t.pt[m.pt], Hash: t.ph[m.ph]}}
}

func voteType(s string) kproto.SignedMsgType {
	if s == "precommit" {
		return kproto.PrecommitType
	}
	return kproto.PrevoteType
}

func (t *table) vote(m amsg) *types.Vote {
	return &types.Vote{ValidatorAddress: t.addr(m.va), ValidatorIndex: uint32(m.vi - 1), Height: t.h[m.h], Round: t.r[m.r],
		Timestamp: t.ts[m.ts], Type: voteType(m.typ), BlockID: t.blockID(m)}
}

func (t *table) proposal(m amsg) *types.Proposal {
	bid := t.blockID(m)
	bid.PartsHeader.Total = t.ptP[m.pt]
	return &types.Proposal{Height: t.h[m.h], Round: t.r[m.r], POLRound: t.pol[m.pol], Timestamp: t.ts[m.ts], POLBlockID: bid}
}

var sigCache sync.Map

// signOrig signs the original with the real signing code (DefaultPrivValidator).
func (t *table) signOrig(o amsg) []byte {
	key := fmt.Sprint(t.name, o)
	if s, ok := sigCache.Load(key); ok {
		return s.([]byte)
	}
	var sig []byte
	pv := t.privs[o.vi-1]
	if o.typ == "proposal" {
		pb := t.proposal(o).ToProto()
		if err := pv.SignProposal(t.chain[o.chain], pb); err != nil {
			panic(err)
		}
		sig = pb.Signature
	} else {
		pb := t.vote(o).ToProto()
		if err := pv.SignVote(t.chain[o.chain], pb); err != nil {
			panic(err)
		}
		sig = pb.Signature
	}
	sigCache.Store(key, sig)
	return sig
}

// honestVote returns a vote like m but signed honestly by validator i (1-based) for block id bid.
func (t *table) honestVote(m amsg, i int, bid types.BlockID, bidKey string) *types.Vote {
	v := t.vote(m)
	v.ValidatorAddress, v.ValidatorIndex, v.BlockID = t.addr(i), uint32(i-1), bid
	key := fmt.Sprint("hv", t.name, m.typ, m.chain, m.h, m.r, m.ts, i, bidKey)
	if s, ok := sigCache.Load(key); ok {
		v.Signature = s.([]byte)
		return v
	}
	pb := v.ToProto()
	if err := t.privs[i-1].SignVote(t.chain[m.chain], pb); err != nil {
		panic(err)
	}
	sigCache.Store(key, pb.Signature)
	v.Signature = pb.Signature
	return v
}

var curveN = crypto.S256().Params().N

// consForms makes the abstract form of the 65 signature bytes concrete (see SigAlgebra.tla).
func consForms(sig []byte, f string, rng *rand.Rand) [][]byte {
	c := func() []byte { return append([]byte{}, sig...) }
	setV := func(v byte) []byte { s := c(); s[64] = v; return s }
	zero32 := make([]byte, 32)
	switch f {
	case "valid":
		return [][]byte{c()}
	case "highs":
		s := c()
		S := new(big.Int).SetBytes(s[32:64])
		S.Sub(curveN, S).FillBytes(s[32:64])
		s[64] ^= 1
		return [][]byte{s}
	case "comp":
		return [][]byte{setV(sig[64] + 4)}
	case "len66":
		return [][]byte{append(c(), 0), append(c(), 0xff), append(c(), make([]byte, 100)...)}
	case "vflip":
		return [][]byte{setV(sig[64] ^ 1), setV((sig[64] ^ 1) + 4)}
	case "v2":
		return [][]byte{setV(sig[64] + 2), setV((sig[64] ^ 1) + 2)}
	case "vbig":
		return [][]byte{setV(8), setV(27 + sig[64]), setV(255), setV(229), setV(128 + sig[64])}
	case "r0":
		s := c()
		copy(s[:32], zero32)
		return [][]byte{s}
	case "r0v2":
		a, b := c(), c()
		copy(a[:32], zero32)
		copy(b[:32], zero32)
		a[64], b[64] = 2, 3
		return [][]byte{a, b}
	case "s0":
		s := c()
		copy(s[32:64], zero32)
		return [][]byte{s}
	case "rN":
		a, b := c(), c()
		curveN.FillBytes(a[:32])
		curveN.FillBytes(b[:32])
		b[64] ^= 1
		return [][]byte{a, b}
	case "sN":
		s := c()
		curveN.FillBytes(s[32:64])
		return [][]byte{s}
	case "zero":
		return [][]byte{make([]byte, 65)}
	case "rand":
		n := 4
		if mbt.Thorough() {
			n = 16
		}
		out := make([][]byte, n)
		for i := range out {
			out[i] = make([]byte, 65)
			rng.Read(out[i])
			if i%2 == 0 {
				out[i][64] &= 7 // the only recovery bytes btcec looks at further
			}
		}
		return out
	case "len64":
		return [][]byte{c()[:64]}
	case "len1":
		return [][]byte{c()[:1]}
	case "len0":
		return [][]byte{nil, {}}
	}
	panic("unknown form " + f)
}

// guard runs one real acceptance path; a panic is reported as verdict "PANIC".
func guard(f func() string) (res string, pan interface{}) {
	defer func() {
		if r := recover(); r != nil {
			res, pan = "PANIC", r
		}
	}()
	return f(), nil
}

var accepting = map[string]bool{"ok": true, "added": true, "set": true}

var pathName = map[string]string{"ve": "Vote.Verify", "av": "VoteSet.AddVote", "cm": "ValidatorSet.VerifyCommit",
	"ev": "evidence.VerifyDuplicateVote", "wi": "wire+Verify", "sp": "setProposal", "rv": "types.VerifySignature(sign bytes)", "cv": "crypto.VerifySignature(sign bytes)", "hv": "HeightVoteSet.AddVote"}

func mutKey(m [][]interface{}) string {
	var parts []string
	for _, a := range m {
		fl := a[0].(string)
		if fl == "type" || fl == "f" {
			parts = append(parts, fl+"="+a[1].(string))
		} else {
			parts = append(parts, fl)
		}
	}
	sort.Strings(parts) // the order of the mutations is not part of the signature
	return strings.Join(parts, "+")
}

// wireVote sends the vote through the consensus reactor's codec (MustEncode -> bytes ->
// MsgFromProto -> ValidateBasic) as manager.Receive does.
func wireVote(v *types.Vote) (*types.Vote, error) {
	bz := consensus.MustEncode(&consensus.VoteMessage{Vote: v})
	var pb kcons.Message
	if err := proto.Unmarshal(bz, &pb); err != nil {
		return nil, err
	}
	msg, err := consensus.MsgFromProto(&pb)
	if err != nil {
		return nil, err
	}
	if err := msg.ValidateBasic(); err != nil {
		return nil, err
	}
	return msg.(*consensus.VoteMessage).Vote, nil
}

func wireProposal(p *types.Proposal) (*types.Proposal, error) {
	bz := consensus.MustEncode(&consensus.ProposalMessage{Proposal: p})
	var pb kcons.Message
	if err := proto.Unmarshal(bz, &pb); err != nil {
		return nil, err
	}
	msg, err := consensus.MsgFromProto(&pb)
	if err != nil {
		return nil, err
	}
	if err := msg.ValidateBasic(); err != nil {
		return nil, err
	}
	return msg.(*consensus.ProposalMessage).Proposal, nil
}

// evalCons asks every real acceptance path about the presented message q carrying sig.
func (t *table) evalCons(q amsg, sig []byte) (map[string]string, map[string]interface{}) {
	out, pans := map[string]string{}, map[string]interface{}{}
	run := func(path string, f func() string) {
		r, p := guard(f)
		out[path] = r
		if p != nil {
			pans[path] = p
		}
	}
	chain := t.chain[q.chain]
	yes := func(ok bool) string {
		if ok {
			return "ok"
		}
		return "rejected"
	}
	if q.typ == "proposal" {
		vs := t.vset.Copy()
		vs.Proposer = vs.Validators[q.vi-1]
		mk := func() *types.Proposal { p := t.proposal(q); p.Signature = sig; return p }
		// a proposal that is malformed BY VALUE (POL round not below its round, more parts than a block can have) is
		// refused before anybody looks at the signature (setProposal / ValidateBasic, repaired in d00f155 / 2c4d547):
		// like ValidateBasic on the wire path this is not the property; the raw verification paths still judge it
		malformed := func(p *types.Proposal) bool {
			return (p.POLRound != 0 && p.POLRound >= p.Round) || p.POLBlockID.PartsHeader.Total > types.MaxBlockPartsCount
		}
		run("sp", func() string {
			if malformed(mk()) {
				return "basic"
			}
			set, err := consensus.VerifSetProposalBare(chain, t.h[q.h], t.r[q.r], vs, mk())
			return yes(set && err == nil)
		})
		run("rv", func() string {
			return yes(types.VerifySignature(t.addr(q.vi), crypto.Keccak256(types.ProposalSignBytes(chain, mk().ToProto())), sig))
		})
		run("cv", func() string {
			return yes(crypto.VerifySignature(t.addr(q.vi), crypto.Keccak256(types.ProposalSignBytes(chain, mk().ToProto())), sig))
		})
		run("wi", func() string {
			p2, err := wireProposal(mk())
			if err != nil || malformed(p2) {
				return "basic"
			}
			set, err := consensus.VerifSetProposalBare(chain, t.h[q.h], t.r[q.r], vs, p2)
			return yes(set && err == nil)
		})
		return out, pans
	}
	mk := func() *types.Vote { v := t.vote(q); v.Signature = sig; return v }
	run("rv", func() string {
		return yes(types.VerifySignature(t.addr(q.vi), crypto.Keccak256(types.VoteSignBytes(chain, mk().ToProto())), sig))
	})
	run("cv", func() string {
		return yes(crypto.VerifySignature(t.addr(q.vi), crypto.Keccak256(types.VoteSignBytes(chain, mk().ToProto())), sig))
	})
	run("ve", func() string { return yes(mk().Verify(chain, t.addr(q.vi)) == nil) })
	run("av", func() string {
		set := types.NewVoteSet(chain, t.h[q.h], t.r[q.r], voteType(q.typ), t.vset)
		added, err := set.AddVote(mk())
		if added != (err == nil) {
			return "INCONSISTENT"
		}
		return yes(added)
	})
	run("hv", func() string { // the consensus state's per-height container: routes by the vote's own round and type
		added, err := cstypes.NewHeightVoteSet(log.New(), chain, t.h[q.h], t.vset).AddVote(mk(), "peer")
		if added != (err == nil) {
			return "INCONSISTENT"
		}
		return yes(added)
	})
	if q.typ == "precommit" {
		run("cm", func() string {
			v := mk()
			cb, key := v.BlockID, fmt.Sprint("own", q.bh, q.pt, q.ph)
			flag := types.BlockIDFlagCommit
			if v.BlockID.IsZero() {
				cb, key, flag = types.BlockID{Hash: hashOf(0xfe, 9), PartsHeader: types.PartSetHeader{Total: 9, Hash: hashOf(0xfd, 9)}}, "filler", types.BlockIDFlagNil
			}
			sigs := make([]types.CommitSig, len(t.privs))
			for i := 1; i <= len(t.privs); i++ {
				if i == q.vi {
					sigs[i-1] = types.CommitSig{BlockIDFlag: flag, ValidatorAddress: v.ValidatorAddress, Timestamp: v.Timestamp, Signature: sig}
				} else {
					hv := t.honestVote(q, i, cb, key) // (Vote.CommitSig panics on the incomplete block ids tried here)
					sigs[i-1] = types.CommitSig{BlockIDFlag: types.BlockIDFlagCommit, ValidatorAddress: hv.ValidatorAddress, Timestamp: hv.Timestamp, Signature: hv.Signature}
				}
			}
			c := types.NewCommit(v.Height, v.Round, cb, sigs)
			return yes(t.vset.VerifyCommit(chain, cb, v.Height, c) == nil)
		})
	}
	run("ev", func() string {
		v := mk()
		ob, key := types.BlockID{Hash: hashOf(0xfc, 8), PartsHeader: types.PartSetHeader{Total: 8, Hash: hashOf(0xfb, 8)}}, "filler2"
		w := t.honestVote(q, q.va, ob, key)
		e := types.NewDuplicateVoteEvidence(v, w, t.ts[1], t.vset)
		if e == nil {
			return "rejected"
		}
		return yes(evidence.VerifyDuplicateVote(e, chain, t.vset) == nil)
	})
	run("wi", func() string {
		v2, err := wireVote(mk())
		if err != nil {
			return "basic"
		}
		return yes(v2.Verify(chain, t.addr(q.vi)) == nil)
	})
	return out, pans
}

// finding is one disagreement between a real acceptance path and the specification.
type finding struct {
	path, dir string // dir: "forged" | "refused" | "panic" | "inconsistent"
	sig, text string
	detail    map[string]interface{}
}

func hasFinding(fs []finding, path, dir string) *finding {
	for i := range fs {
		if fs[i].path == path && fs[i].dir == dir {
			return &fs[i]
		}
	}
	return nil
}

func lineKey(o []interface{}, m [][]interface{}) string { return fmt.Sprint(o, m) }

// indexSingles reads the expectations of all single-mutation lines of a dump that also holds
// two-mutation lines: a disagreement on [m1, m2] that [m1] or [m2] alone already shows is reported
// under the single mutation's signature (the root cause), so that signatures stay few and stable.
func indexSingles(path string, keep func(raw []byte) (string, interface{}, bool)) (*sync.Map, error) {
	idx := new(sync.Map)
	if os.Getenv("SIG_DEPTH2") == "" {
		return idx, nil
	}
	_, err := mbt.EachLine(path, 0, 0, 1, 0, func(n int, raw []byte) {
		if k, v, ok := keep(raw); ok {
			idx.Store(k, v)
		}
	})
	return idx, err
}

// judgeCons runs one line (original, mutations, expected verdicts) on table tb.
func judgeCons(tb *table, l *consLine, rng *rand.Rand, twin func(string)) (fs []finding, evals int, sample interface{}) {
	o := parseOrig(l.O)
	q := o
	for _, a := range l.M {
		q = mutate(q, a[0].(string), a[1])
	}
	mk := mutKey(l.M)
	sig := tb.signOrig(o)
	if len(sig) != 65 {
		return []finding{{"sign", "refused", "sig:sign:length", fmt.Sprintf("signature of %d bytes from the signer", len(sig)), nil}}, 0, nil
	}
	for vi, fsig := range consForms(sig, q.f, rng) {
		got, pans := tb.evalCons(q, fsig)
		evals++
		if vi == 0 {
			sample = map[string]interface{}{"table": tb.name, "o": l.O, "m": l.M, "expected": l.X, "real": got}
		}
		detail := func(path string) map[string]interface{} {
			return map[string]interface{}{"table": tb.name, "o": l.O, "m": l.M, "variant": vi, "path": pathName[path],
				"expected": l.X, "real": got, "signature": fmt.Sprintf("%x", fsig), "seed": mbt.Seed(),
				"presented": fmt.Sprintf("%+v chain=%q", q, tb.chain[q.chain])}
		}
		for path, real := range got {
			exp := l.X[path]
			switch path {
			case "cv":
				exp = l.X["rv"]
			case "hv":
				exp = l.X["av"]
			}
			if real == "PANIC" {
				fs = append(fs, finding{path, "panic", "sig:panic:" + q.f + ":" + pathName[path],
					fmt.Sprintf("%s panics (%v) on a %s whose signature has form %q (%d bytes); specified: verification fails", pathName[path], pans[path], q.typ, q.f, len(fsig)), detail(path)})
				continue
			}
			if real == "INCONSISTENT" {
				fs = append(fs, finding{path, "inconsistent", "sig:" + o.typ + ":" + mk + ":" + pathName[path] + ":inconsistent",
					"AddVote returned added != (err == nil) on an empty set", detail(path)})
				continue
			}
			if exp == "any" {
				if twin != nil {
					twin(q.f + ":" + path + ":" + real)
				}
				continue
			}
			if real == "basic" && q.typ == "proposal" && path == "sp" {
				continue // malformed by value, see evalCons
			}
			core := exp
			if path == "wi" && real == "basic" && q.typ == "proposal" {
				continue
			}
			if path == "wi" && exp == "basic" {
				// ValidateBasic is not the property: if the real decoder lets the message through, the
				// signature verdict must still be the specified one
				if real == "basic" {
					continue
				}
				core = l.X["ve"]
				if q.typ == "proposal" {
					core = l.X["sp"]
				}
				if core == "any" {
					continue
				}
			}
			switch {
			case real == "ok" && !accepting[core]:
				fs = append(fs, finding{path, "forged", "sig:" + o.typ + ":" + mk + ":" + pathName[path] + ":forged",
					fmt.Sprintf("%s ACCEPTS the signature of a %s for a message that differs in [%s] (specified %q: rejected)", pathName[path], o.typ, mk, core), detail(path)})
			case real != "ok" && accepting[core]:
				fs = append(fs, finding{path, "refused", "sig:" + o.typ + ":" + mk + ":" + pathName[path] + ":refused",
					fmt.Sprintf("%s rejects (%s) a %s presented with [%s] (specified %q: accepted)", pathName[path], real, o.typ, mk, core), detail(path)})
			}
		}
	}
	return fs, evals, sample
}

// TestCons replays every transition of MC_SigCons into the real code.
func TestCons(t *testing.T) {
	log.Root().SetHandler(log.DiscardHandler())
	res := mbt.NewResult()
	defer res.Write()
	tabs := tables(mbt.Seed())
	allTables := os.Getenv("SIG_TABLES") == "all"
	var twinMu sync.Mutex
	twin := map[string]int{} // what the code does where the specification leaves the outcome open
	note := func(k string) { twinMu.Lock(); twin[k]++; twinMu.Unlock() }
	singles, err := indexSingles(os.Getenv("SIG_DUMP"), func(raw []byte) (string, interface{}, bool) {
		var l consLine
		if json.Unmarshal(raw, &l) != nil || len(l.M) != 1 {
			return "", nil, false
		}
		return lineKey(l.O, l.M), l.X, true
	})
	if err != nil {
		res.Mismatch("infra:read", err.Error(), nil)
		return
	}
	sent, err := mbt.EachLine(os.Getenv("SIG_DUMP"), 0, mbt.EnvInt("SIG_LIMIT", 0), mbt.EnvInt("SIG_STRIDE", 1), mbt.Seed(), func(n int, raw []byte) {
		var l consLine
		if err := json.Unmarshal(raw, &l); err != nil || len(l.O) != 10 {
			res.Mismatch("infra:parse", fmt.Sprint(err), string(raw))
			return
		}
		rng := rand.New(rand.NewSource(mbt.Seed()*1000003 + int64(n)))
		for ti, tb := range tabs {
			if !allTables && ti != (n+int(mbt.Seed()))%len(tabs) {
				continue
			}
			fs, evals, sample := judgeCons(tb, &l, rng, note)
			res.Count(evals)
			for _, f := range fs {
				if len(l.M) >= 2 && (f.dir == "forged" || f.dir == "refused") {
					for _, mi := range l.M {
						sm := [][]interface{}{mi}
						x, ok := singles.Load(lineKey(l.O, sm))
						if !ok {
							continue
						}
						sfs, _, _ := judgeCons(tb, &consLine{O: l.O, M: sm, X: x.(map[string]string)}, rng, nil)
						if r := hasFinding(sfs, f.path, f.dir); r != nil {
							f.sig, f.text = r.sig, r.text+" [also seen with a second mutation: "+mutKey(l.M)+"]"
							break
						}
					}
				}
				res.Mismatch(f.sig, f.text, f.detail)
			}
			if !(len(l.M) == 1 && l.M[0][0].(string) == "id") {
				res.Distinct(tb.name + string(raw))
			}
			if n%4999 == 1 {
				res.Sample(sample)
			}
		}
	})
	if err != nil {
		res.Mismatch("infra:read", err.Error(), nil)
	}
	res.Behaviours = sent
	res.Set("cons_lines"+os.Getenv("SIG_TAG"), sent)
	res.Set("open_outcomes_cons"+os.Getenv("SIG_TAG"), twin)
}
