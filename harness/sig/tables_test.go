// Package sig binds specs/sig (SigAlgebra.tla) to the real signing / verification code (C11).
//
// TLC enumerates abstract cases (an original message with every field in 0..2, the mutations
// applied to what is presented, the expected verdict of every acceptance path); this package
// makes each case concrete through a CONCRETISATION TABLE (abstract value -> real value of the
// field's Go type), signs the original with the real signing code, builds the presented
// message around the SAME signature bytes and asks the real acceptance paths.
//
// Several tables are used so that the three abstract values of a field are tried as zero
// values, as near-collisions (values that differ in one bit / share numeric values with the
// neighbouring fields), as extreme values of the Go types and as seeded random values.
// Abstract 0 always stands for the Go zero value of block hash, part-set total and part-set
// hash (the specification distinguishes zero / complete block ids) and for the nil recipient
// of a transaction.
package sig

import (
	"crypto/ecdsa"
	"fmt"
	"math/big"
	"math/rand"
	"sort"
	"time"

	"github.com/kardiachain/go-kardia/lib/common"
	"github.com/kardiachain/go-kardia/lib/crypto"
	"github.com/kardiachain/go-kardia/types"

	"verifharness/internal/mbt"
)

type table struct {
	name string
	// consensus messages
	chain [3]string
	h     [3]uint64
	r     [3]uint32
	pol   [3]uint32
	bh    [3]common.Hash
	pt    [3]uint32
	ptP   [3]uint32 // part-set totals used in proposals: setProposal allocates Total slots once the signature verified
	ph    [3]common.Hash
	ts    [3]time.Time
	privs []*types.DefaultPrivValidator // validators 1..4 in validator-set order
	vset  *types.ValidatorSet
	// transactions
	nonce   [3]uint64
	price   [3]*big.Int
	gas     [3]uint64
	to      [3]*common.Address
	value   [3]*big.Int
	data    [3][]byte
	chainID [4]*big.Int // abstract chain ids 0..3 (0 is always the real 0)
	keys    [3]*ecdsa.PrivateKey
}

func (t *table) addr(k int) common.Address { return t.privs[k-1].GetAddress() }
func (t *table) txAddr(k int) common.Address {
	return crypto.PubkeyToAddress(t.keys[k-1].PublicKey)
}

func hashOf(b ...byte) common.Hash           { return common.BytesToHash(b) }
func hashHi(b byte) common.Hash              { var h common.Hash; h[0] = b; return h }
func addrP(a common.Address) *common.Address { return &a }
func pow2(n uint) *big.Int                   { return new(big.Int).Lsh(big.NewInt(1), n) }
func pow2m1(n uint) *big.Int                 { return new(big.Int).Sub(pow2(n), big.NewInt(1)) }

func mkKeys(tag string, n int) []*ecdsa.PrivateKey {
	out := make([]*ecdsa.PrivateKey, n)
	for i := range out {
		k, err := crypto.ToECDSA(crypto.Keccak256([]byte(fmt.Sprintf("verif-sig-%s-%d", tag, i))))
		if err != nil {
			panic(err)
		}
		out[i] = k
	}
	return out
}

// finish derives keys and the validator set (equal powers: index order = address order).
func (t *table) finish(seed int64) *table {
	ks := mkKeys(fmt.Sprintf("val-%s-%d", t.name, seed), 4)
	for _, k := range ks {
		t.privs = append(t.privs, types.NewDefaultPrivValidator(k))
	}
	sort.Slice(t.privs, func(a, b int) bool {
		return string(t.privs[a].GetAddress().Bytes()) < string(t.privs[b].GetAddress().Bytes())
	})
	vals := make([]*types.Validator, len(t.privs))
	for i, p := range t.privs {
		vals[i] = types.NewValidator(p.GetAddress(), 10)
	}
	t.vset = types.NewValidatorSet(vals)
	for i, p := range t.privs {
		if !t.vset.Validators[i].Address.Equal(p.GetAddress()) {
			panic("validator order assumption broken")
		}
	}
	copy(t.keys[:], mkKeys(fmt.Sprintf("acct-%s-%d", t.name, seed), 3))
	for i, v := range t.pt {
		t.ptP[i] = v
		if v > 1<<16 {
			t.ptP[i] = 1<<15 + v%(1<<15) + uint32(i)
		}
	}
	t.chainID[0] = new(big.Int)
	return t
}

func distinct3(r *rand.Rand, gen func() string) [3]string {
	var out [3]string
	seen := map[string]bool{}
	for i := 0; i < 3; {
		s := gen()
		if !seen[s] {
			seen[s] = true
			out[i] = s
			i++
		}
	}
	return out
}

func tables(seed int64) []*table {
	y9999 := time.Date(9999, 12, 31, 23, 59, 59, 999999999, time.UTC)
	small := &table{name: "small",
		chain:   [3]string{"", "a", "b"},
		h:       [3]uint64{1, 2, 3},
		r:       [3]uint32{0, 1, 2},
		pol:     [3]uint32{0, 1, 2},
		bh:      [3]common.Hash{{}, hashOf(1), hashOf(2)},
		pt:      [3]uint32{0, 1, 2},
		ph:      [3]common.Hash{{}, hashOf(1), hashOf(2)},
		ts:      [3]time.Time{{}, time.Unix(0, 0).UTC(), time.Unix(0, 1).UTC()},
		nonce:   [3]uint64{0, 1, 2},
		price:   [3]*big.Int{big.NewInt(0), big.NewInt(1), big.NewInt(2)},
		gas:     [3]uint64{0, 21000, 21001},
		to:      [3]*common.Address{nil, addrP(common.Address{}), addrP(common.BytesToAddress([]byte{1}))},
		value:   [3]*big.Int{big.NewInt(0), big.NewInt(1), big.NewInt(2)},
		data:    [3][]byte{nil, {0}, {0, 0}},
		chainID: [4]*big.Int{nil, big.NewInt(1), big.NewInt(24), big.NewInt(1<<31 - 1)},
	}
	// the same numbers in every numeric field, hashes that differ in the first / last byte only,
	// strings that are prefixes of each other
	collide := &table{name: "collide",
		chain:   [3]string{"1", "2", "12"},
		h:       [3]uint64{1, 2, 256},
		r:       [3]uint32{1, 2, 256},
		pol:     [3]uint32{1, 2, 256},
		bh:      [3]common.Hash{{}, hashHi(1), hashOf(1)},
		pt:      [3]uint32{0, 1, 256},
		ph:      [3]common.Hash{{}, hashHi(1), hashOf(1)},
		ts:      [3]time.Time{time.Unix(1, 2).UTC(), time.Unix(2, 1).UTC(), time.Unix(256, 0).UTC()},
		nonce:   [3]uint64{1, 256, 65536},
		price:   [3]*big.Int{big.NewInt(1), big.NewInt(256), big.NewInt(65536)},
		gas:     [3]uint64{1, 256, 65536},
		to:      [3]*common.Address{nil, addrP(common.BytesToAddress([]byte{1})), addrP(common.HexToAddress("0x0100000000000000000000000000000000000000"))},
		value:   [3]*big.Int{big.NewInt(1), big.NewInt(256), big.NewInt(65536)},
		data:    [3][]byte{nil, {1}, {1, 0}},
		chainID: [4]*big.Int{nil, big.NewInt(24), big.NewInt(25), big.NewInt(12)},
	}
	extreme := &table{name: "extreme",
		chain:   [3]string{"kai-mainnet-1", "kai-mainnet-1\x00", "kai-mainnet-1-kai-mainnet-1-kai-mainnet-1-kai-mainn"},
		h:       [3]uint64{1<<63 - 1, 1 << 63, 1<<64 - 1},
		r:       [3]uint32{1<<31 - 1, 1 << 31, 1<<32 - 1},
		pol:     [3]uint32{1<<31 - 1, 1 << 31, 1<<32 - 1},
		bh:      [3]common.Hash{{}, common.BytesToHash(pow2m1(256).Bytes()), hashHi(0x80)},
		pt:      [3]uint32{0, 1<<32 - 1, 1 << 31},
		ph:      [3]common.Hash{{}, common.BytesToHash(pow2m1(256).Bytes()), hashHi(0x80)},
		ts:      [3]time.Time{y9999, y9999.Add(-time.Nanosecond), time.Unix(1<<31, 0).UTC()},
		nonce:   [3]uint64{1<<64 - 1, 1 << 63, 1 << 32},
		price:   [3]*big.Int{pow2m1(256), pow2(255), pow2(64)},
		gas:     [3]uint64{1<<64 - 1, 1 << 63, 1 << 32},
		to:      [3]*common.Address{nil, addrP(common.BytesToAddress(pow2m1(160).Bytes())), addrP(common.BytesToAddress(pow2(159).Bytes()))},
		value:   [3]*big.Int{pow2m1(256), pow2(255), pow2(64)},
		data:    [3][]byte{nil, make([]byte, 55), make([]byte, 56)},
		chainID: [4]*big.Int{nil, pow2m1(63), pow2(64), pow2(200)},
	}
	out := []*table{small, collide, extreme, randomTable(seed, "random")}
	if mbt.Thorough() {
		out = append(out, randomTable(seed+1000003, "random2"), randomTable(seed+2000003, "random3"))
	}
	for _, t := range out {
		t.finish(seed)
	}
	return out
}

// randomTable: three distinct seeded random values per field (zero values kept where the
// specification needs them).
func randomTable(seed int64, name string) *table {
	r := rand.New(rand.NewSource(seed*7919 + 17))
	rnd := &table{name: name}
	rnd.chain = distinct3(r, func() string { b := make([]byte, 1+r.Intn(20)); r.Read(b); return string(b) })
	for i, s := range distinct3(r, func() string { return fmt.Sprint(1 + r.Uint64()>>1) }) {
		fmt.Sscan(s, &rnd.h[i])
	}
	for i, s := range distinct3(r, func() string { return fmt.Sprint(r.Uint32()) }) {
		fmt.Sscan(s, &rnd.r[i])
	}
	for i, s := range distinct3(r, func() string { return fmt.Sprint(r.Uint32()) }) {
		fmt.Sscan(s, &rnd.pol[i])
	}
	rh := func() common.Hash { var h common.Hash; r.Read(h[:]); return h }
	rnd.bh = [3]common.Hash{{}, rh(), rh()}
	rnd.ph = [3]common.Hash{{}, rh(), rh()}
	rnd.pt = [3]uint32{0, 1 + r.Uint32()>>1, 1<<31 + r.Uint32()>>1}
	for i, s := range distinct3(r, func() string { return fmt.Sprint(r.Int63n(4e9), " ", r.Int63n(1e9)) }) {
		var sec, ns int64
		fmt.Sscan(s, &sec, &ns)
		rnd.ts[i] = time.Unix(sec, ns).UTC()
	}
	for i, s := range distinct3(r, func() string { return fmt.Sprint(r.Uint64()) }) {
		fmt.Sscan(s, &rnd.nonce[i])
	}
	for i, s := range distinct3(r, func() string { return fmt.Sprint(r.Uint64()) }) {
		fmt.Sscan(s, &rnd.gas[i])
	}
	rb := func(n int) *big.Int { b := make([]byte, 1+r.Intn(n)); r.Read(b); return new(big.Int).SetBytes(b) }
	for i, s := range distinct3(r, func() string { return rb(32).String() }) {
		rnd.price[i], _ = new(big.Int).SetString(s, 10)
	}
	for i, s := range distinct3(r, func() string { return rb(32).String() }) {
		rnd.value[i], _ = new(big.Int).SetString(s, 10)
	}
	ra := func() *common.Address { var a common.Address; r.Read(a[:]); return &a }
	rnd.to = [3]*common.Address{nil, ra(), ra()}
	for i, s := range distinct3(r, func() string { b := make([]byte, r.Intn(80)); r.Read(b); return string(b) }) {
		rnd.data[i] = []byte(s)
	}
	for i, s := range distinct3(r, func() string { return new(big.Int).Add(rb(12), big.NewInt(1)).String() }) {
		rnd.chainID[i+1], _ = new(big.Int).SetString(s, 10)
	}
	return rnd
}
