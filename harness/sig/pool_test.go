package sig

import (
	"encoding/json"
	"fmt"
	"math/big"
	"math/rand"
	"os"
	"testing"
	"time"

	"github.com/kardiachain/go-kardia/configs"
	"github.com/kardiachain/go-kardia/kai/events"
	"github.com/kardiachain/go-kardia/kai/kaidb/memorydb"
	"github.com/kardiachain/go-kardia/kai/state"
	"github.com/kardiachain/go-kardia/lib/common"
	"github.com/kardiachain/go-kardia/lib/event"
	"github.com/kardiachain/go-kardia/lib/log"
	"github.com/kardiachain/go-kardia/mainchain/tx_pool"
	"github.com/kardiachain/go-kardia/trie"
	"github.com/kardiachain/go-kardia/types"

	"verifharness/internal/mbt"
)

type stubChain struct {
	statedb *state.StateDB
	feed    *event.Feed
}

func (bc *stubChain) CurrentBlock() *types.Block {
	return types.NewBlock(&types.Header{GasLimit: 10000000}, nil, nil, nil, trie.NewStackTrie(nil))
}
func (bc *stubChain) GetBlock(hash common.Hash, number uint64) *types.Block { return bc.CurrentBlock() }
func (bc *stubChain) StateAt(height uint64) (*state.StateDB, error)         { return bc.statedb, nil }
func (bc *stubChain) SubscribeChainHeadEvent(ch chan<- events.ChainHeadEvent) event.Subscription {
	return bc.feed.Subscribe(ch)
}

// poolTable: values with which an honest transaction passes every non-signature test of the pool
// (price >= limit, gas above the intrinsic gas, funded accounts, nonces from 0).
func poolTable(seed int64) *table {
	gw := big.NewInt(1e9)
	t := &table{name: "pool",
		nonce:   [3]uint64{0, 1, 2},
		price:   [3]*big.Int{gw, new(big.Int).Mul(gw, big.NewInt(2)), new(big.Int).Mul(gw, big.NewInt(3))},
		gas:     [3]uint64{100000, 100001, 100002},
		to:      [3]*common.Address{nil, addrP(common.BytesToAddress([]byte{1})), addrP(common.BytesToAddress([]byte{2}))},
		value:   [3]*big.Int{big.NewInt(0), big.NewInt(1), big.NewInt(2)},
		data:    [3][]byte{nil, {1}, {1, 2}},
		chainID: [4]*big.Int{nil, big.NewInt(1), big.NewInt(24), big.NewInt(1<<31 - 1)},
	}
	return t.finish(seed)
}

// TestPool offers a stride of the MC_SigTx cases to a real transaction pool whose signer is the
// verifier's: the transaction must end up in the pool under the original signer's account iff the
// specification says the signer is recovered.
func TestPool(t *testing.T) {
	log.Root().SetHandler(log.DiscardHandler())
	res := mbt.NewResult()
	defer res.Write()
	tb := poolTable(mbt.Seed())
	zero := uint64(0)
	cfg := tx_pool.TxPoolConfig{PriceLimit: 1, PriceBump: 10, AccountSlots: 16, GlobalSlots: 64, AccountQueue: 16, GlobalQueue: 64,
		Lifetime: 3 * time.Hour, NoLocals: true}
	sent, err := mbt.EachLine(os.Getenv("SIG_DUMP"), 0, mbt.EnvInt("SIG_LIMIT", 0), mbt.EnvInt("SIG_STRIDE", 1), mbt.Seed(), func(n int, raw []byte) {
		var l txLine
		if err := json.Unmarshal(raw, &l); err != nil || len(l.O) != 9 {
			res.Mismatch("infra:parse", fmt.Sprint(err), string(raw))
			return
		}
		o := parseTxOrig(l.O)
		q := o
		for _, a := range l.M {
			q = mutateTx(q, a[0].(string), a[1])
		}
		if q.f == "len64" || q.f == "len66" {
			return // not expressible on the wire
		}
		mk := mutKey(l.M)
		h, err := tb.signTxOrig(o)
		if err != nil {
			res.Mismatch("sig:tx:"+o.meth+":"+ssKind(o.ss)+":sign-error", "signing failed: "+err.Error(), l)
			return
		}
		chainCfg := &configs.ChainConfig{Kaicon: &configs.KaiconConfig{}}
		if q.vs != noChain {
			chainCfg.ChainID, chainCfg.GalaxiasBlock = tb.chainID[q.vs], &zero
		}
		rng := rand.New(rand.NewSource(mbt.Seed()*1000003 + int64(n)))
		want := tb.txAddr(o.k)
		for vi, x := range tb.txForms(h, q.vc, q.f, rng) {
			real, pan := guard(func() string {
				tx, _, err := tb.wireTx(q, x)
				if err != nil {
					return "other"
				}
				sdb, _ := state.New(common.Hash{}, state.NewDatabase(memorydb.New()), nil)
				for k := 1; k <= 3; k++ {
					sdb.SetBalance(tb.txAddr(k), pow2(100))
				}
				pool := tx_pool.NewTxPool(cfg, chainCfg, &stubChain{sdb, new(event.Feed)})
				defer pool.Stop()
				if err := pool.AddRemotesSync([]*types.Transaction{tx})[0]; err != nil {
					return "other"
				}
				pend, queued := pool.ContentFrom(want)
				for _, p := range append(pend, queued...) {
					if p.Hash() == tx.Hash() {
						return "signer"
					}
				}
				return "other"
			})
			res.Count(1)
			detail := map[string]interface{}{"table": tb.name, "o": l.O, "m": l.M, "variant": vi, "expected": l.X, "real": real,
				"V": x.v.String(), "R": x.r.Text(16), "S": x.s.Text(16), "seed": mbt.Seed(), "pool_chain_id": fmt.Sprint(chainCfg.ChainID)}
			pfx := "sig:tx:" + o.meth + ":" + ssKind(o.ss) + ":" + mk + ":TxPool.AddRemotesSync"
			switch {
			case real == "PANIC":
				res.Mismatch("sig:panic:tx:"+q.f+":TxPool.AddRemotesSync", fmt.Sprintf("the pool panics (%v) on a transaction with signature form %q", pan, q.f), detail)
			case real == "signer" && l.X != "signer":
				res.Mismatch(pfx+":forged", fmt.Sprintf("the pool books a transaction (signed by %s under a %s signer) presented with [%s] under the ORIGINAL signer's account; specified: rejected or another sender",
					o.meth, ssKind(o.ss), mk), detail)
			case real != "signer" && l.X == "signer":
				res.Mismatch(pfx+":refused", fmt.Sprintf("the pool does not accept a transaction (signed by %s under a %s signer) presented with [%s] for its signer; specified: the signer's",
					o.meth, ssKind(o.ss), mk), detail)
			}
			if !(len(l.M) == 1 && l.M[0][0].(string) == "id") {
				res.Distinct("pool" + string(raw))
			}
		}
	})
	if err != nil {
		res.Mismatch("infra:read", err.Error(), nil)
	}
	res.Behaviours = sent
	res.Set("pool_lines"+os.Getenv("SIG_TAG"), sent)
}
