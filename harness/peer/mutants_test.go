//go:build verif

package peer

// TestConsMutants: byte-level mutations of the messages the specification accepts.  The BASES are
// chosen by TLC (the transitions of MC_PeerMsgs whose last message is specified "ok", in their state
// class and with their peer-state preamble); the driver derives from the concrete bytes of each base:
// truncation at every length, every bit of the leading bytes and seeded single bits further on, every
// protobuf tag rewritten to other field numbers / wire types (two nesting levels), every length prefix
// set to len-1 / len+1 / huge, every varint set to its maximum, seeded random bodies behind the first
// tag and seeded random strings.  Each mutant goes through the real Receive (+ real handleMsg) of a
// real node in that state; specified for ALL of them (PeerMsgs.tla: Receive is total, rejected messages
// are inert): no panic, hang, big allocation, stuck mutex; peer state structurally sound; the round
// state unchanged unless the mutant decodes to the very message the base decodes to.

import (
	"bytes"
	"encoding/json"
	"fmt"
	"math/rand"
	"os"
	"reflect"
	"sync"
	"testing"
	"time"

	"github.com/gogo/protobuf/proto"
	"github.com/kardiachain/go-kardia/consensus"

	"verifharness/internal/mbt"
)

type tagPos struct {
	off, n int // offset and length of the tag varint
	wt     int
	lenOff int // offset of the length varint (wire type 2), else of the value varint (wire type 0); -1 otherwise
	lenN   int
	body   [2]int // payload range for wire type 2
}

// walk lists the fields of a protobuf message (best effort; stops at the first thing that does not parse).
func walk(b []byte, base int, depth int, out *[]tagPos) {
	i := 0
	for i < len(b) {
		key, n := proto.DecodeVarint(b[i:])
		if n == 0 {
			return
		}
		t := tagPos{off: base + i, n: n, wt: int(key & 7), lenOff: -1}
		i += n
		switch t.wt {
		case 0:
			_, m := proto.DecodeVarint(b[i:])
			if m == 0 {
				return
			}
			t.lenOff, t.lenN = base+i, m
			i += m
		case 1:
			i += 8
		case 5:
			i += 4
		case 2:
			l, m := proto.DecodeVarint(b[i:])
			if m == 0 || i+m+int(l) > len(b) {
				return
			}
			t.lenOff, t.lenN = base+i, m
			t.body = [2]int{base + i + m, base + i + m + int(l)}
			if depth > 0 {
				walk(b[i+m:i+m+int(l)], base+i+m, depth-1, out)
			}
			i += m + int(l)
		default:
			return
		}
		*out = append(*out, t)
	}
}

func splice(b []byte, off, n int, repl []byte) []byte {
	out := make([]byte, 0, len(b)+len(repl))
	out = append(out, b[:off]...)
	out = append(out, repl...)
	return append(out, b[off+n:]...)
}

type mutant struct {
	kind string
	b    []byte
}

func makeMutants(base []byte, rng *rand.Rand, full bool) []mutant {
	var ms []mutant
	add := func(k string, b []byte) { ms = append(ms, mutant{k, b}) }
	// truncations
	step := 1
	if len(base) > 300 {
		step = len(base) / 300
	}
	for n := 0; n < len(base); n += step {
		add("truncate", append([]byte{}, base[:n]...))
	}
	// bit flips
	for i := 0; i < len(base); i++ {
		if i < 40 {
			for bit := 0; bit < 8; bit++ {
				m := append([]byte{}, base...)
				m[i] ^= 1 << uint(bit)
				add("bitflip-head", m)
			}
		}
	}
	nflip := 48
	if !full {
		nflip = 12
	}
	for k := 0; k < nflip && len(base) > 40; k++ {
		m := append([]byte{}, base...)
		i := 40 + rng.Intn(len(base)-40)
		m[i] ^= 1 << uint(rng.Intn(8))
		add("bitflip-body", m)
	}
	// structure-aware
	var tags []tagPos
	walk(base, 0, 2, &tags)
	huge := []byte{0xff, 0xff, 0xff, 0xff, 0x0f}
	maxv := []byte{0xff, 0xff, 0xff, 0xff, 0xff, 0xff, 0xff, 0xff, 0xff, 0x01}
	for _, t := range tags {
		for fn := 1; fn <= 15; fn++ {
			for _, wt := range []int{0, 1, 2, 5} {
				if !full && (fn > 9 || wt == 1) {
					continue
				}
				nb := byte(fn<<3 | wt)
				if t.n == 1 && base[t.off] == nb {
					continue
				}
				add("tag", splice(base, t.off, t.n, []byte{nb}))
			}
		}
		if t.wt == 2 && t.lenOff >= 0 {
			l, _ := proto.DecodeVarint(base[t.lenOff:])
			add("len-huge", splice(base, t.lenOff, t.lenN, huge))
			add("len-max", splice(base, t.lenOff, t.lenN, maxv))
			add("len+1", splice(base, t.lenOff, t.lenN, proto.EncodeVarint(l+1)))
			if l > 0 {
				add("len-1", splice(base, t.lenOff, t.lenN, proto.EncodeVarint(l-1)))
			}
			add("len0", splice(base, t.lenOff, t.lenN, []byte{0}))
			// empty the sub-message / duplicate the field
			add("empty-field", splice(base, t.lenOff, t.lenN+(t.body[1]-t.body[0]), []byte{0}))
			add("dup-field", splice(base, t.off, 0, base[t.off:t.body[1]]))
		}
		if t.wt == 0 && t.lenOff >= 0 {
			add("varint-max", splice(base, t.lenOff, t.lenN, maxv))
			add("varint-2^31", splice(base, t.lenOff, t.lenN, proto.EncodeVarint(1<<31)))
			add("varint-2^63", splice(base, t.lenOff, t.lenN, proto.EncodeVarint(1<<63)))
			add("varint-0", splice(base, t.lenOff, t.lenN, []byte{0}))
			add("varint-overlong", splice(base, t.lenOff, t.lenN, []byte{0xff, 0xff, 0xff, 0xff, 0xff, 0xff, 0xff, 0xff, 0xff, 0xff, 0x01}))
		}
	}
	// seeded random bodies behind the first tag, and random strings
	nr := 24
	if !full {
		nr = 8
	}
	for k := 0; k < nr; k++ {
		m := make([]byte, 1+rng.Intn(80))
		rng.Read(m)
		if len(base) > 0 {
			m[0] = base[0]
		}
		add("random-body", m)
		m2 := make([]byte, rng.Intn(64))
		rng.Read(m2)
		add("random", m2)
	}
	// unknown trailing field (must not change the meaning)
	add("unknown-trailing-field", append(append([]byte{}, base...), 0xf8, 0x07, 0x01))
	return ms
}

func decodeOrNil(b []byte) consensus.Message {
	var m consensus.Message
	func() {
		defer func() { recover() }()
		x, err := consensus.VerifDecodeMsg(b)
		if err == nil {
			m = x
		}
	}()
	return m
}

// trace writer (ndjson for PeerMsgsTrace.tla)
type traceWriter struct {
	mu sync.Mutex
	f  *os.File
	n  int
}

func (w *traceWriter) write(e map[string]interface{}) {
	w.mu.Lock()
	defer w.mu.Unlock()
	if w.f == nil {
		return
	}
	b, _ := json.Marshal(e)
	w.f.Write(append(b, '\n'))
	w.n++
}

var tw traceWriter

func redProj(p map[string]interface{}) map[string]interface{} {
	out := map[string]interface{}{}
	for _, k := range []string{"h", "r", "step", "hasProp", "pol", "pblock", "pparts", "lockedB", "validB", "rounds"} {
		out[k] = p[k]
	}
	return out
}

func TestConsMutants(t *testing.T) {
	res := mbt.NewResult()
	defer res.Write()
	if tp := os.Getenv("PEER_TRACE"); tp != "" {
		f, err := os.Create(tp)
		if err != nil {
			res.Mismatch("infra:trace", err.Error(), nil)
			return
		}
		tw.f = f
		defer func() { f.Close(); res.Set("trace_events", tw.n) }()
	}
	path := os.Getenv("PEER_DUMP")
	classes, err := readClasses(path)
	if err != nil {
		res.Mismatch("infra:classes", err.Error(), nil)
		return
	}
	cp := &classPool{classes: classes, idle: map[int][]*ClassNode{}}
	defer cp.closeAll()
	full := mbt.Thorough()
	kinds := map[string]int{}
	sent, err := mbt.EachLine(path, mbt.EnvInt("PEER_WORKERS", 0), mbt.EnvInt("PEER_LIMIT", 0), mbt.EnvInt("PEER_MUT_STRIDE", 40), mbt.Seed(), func(n int, raw []byte) {
		var l xLine
		if json.Unmarshal(raw, &l) != nil || l.Last == nil || l.Last.Res != "ok" || l.Last.M.T == "unknown" {
			return
		}
		for _, st := range l.Pre {
			if st.M.T == "maj" || st.Sc {
				return // bases in the class state only (the trace validation starts from it: no claims, class round state)
			}
		}
		rng := rand.New(rand.NewSource(mbt.Seed()*1000003 + int64(n)))
		world.RLock()
		defer world.RUnlock()
		mutateLine(res, cp, &l, rng, full, kinds)
	})
	if err != nil {
		res.Mismatch("infra:read", err.Error(), nil)
	}
	res.Set("mutant_bases_offered", sent)
	lmuKinds.Lock()
	res.Set("mutants_by_kind", kinds)
	lmuKinds.Unlock()
}

var lmuKinds sync.Mutex

func mutateLine(res *mbt.Result, cp *classPool, l *xLine, rng *rand.Rand, full bool, kinds map[string]int) {
	d, err := cp.get(l.K)
	if err != nil {
		res.Mismatch("infra:class", err.Error(), nil)
		return
	}
	dirty := false
	defer func() { cp.put(l.K, d, dirty) }()
	cls := d.C
	var p *StubPeer
	fresh := func() bool {
		if p != nil {
			d.Rig.DropPeer(p)
		}
		p = d.Rig.NewPeer(false)
		for _, st := range l.Pre {
			bz, err := d.Concretize(&st.M)
			if err != nil {
				return false
			}
			o := d.realStep(p, byte(st.Ch), bz, cls.Sync)
			if o.out.Panic != "" || o.out.Hung || o.hpanic != "" || o.stopped != st.St || !reflect.DeepEqual(o.projA, o.projB) != st.Sc {
				return false
			}
			if st.Sc {
				dirty = true
			}
		}
		return true
	}
	if !fresh() {
		dirty = true
		return
	}
	defer func() { d.Rig.DropPeer(p) }()
	base, err := d.Concretize(&l.Last.M)
	if err != nil {
		return
	}
	ms := makeMutants(base, rng, full)
	res.Distinct(fmt.Sprintf("base/%d/%s/%s/%d", l.K, l.Last.M.T, l.Last.Tag, len(l.Pre)))
	res.Behaviour()
	for nth, mu := range ms {
		if bytes.Equal(mu.b, base) {
			continue
		}
		if !p.BaseService.IsRunning() || PeerState(p) == nil {
			if !fresh() {
				dirty = true
				return
			}
		}
		res.Count(1)
		lmuKinds.Lock()
		kinds[mu.kind]++
		lmuKinds.Unlock()
		// the projection probes the rounds it knows of: a vote for another round creates that round's vote sets
		if vm, ok := decodeOrNil(mu.b).(*consensus.VoteMessage); ok {
			d.rounds[vm.Vote.Round] = true
		}
		o := d.realStep(p, byte(l.Last.Ch), mu.b, cls.Sync)
		detail := map[string]interface{}{"class": cls.N, "pre": l.Pre, "base": l.Last.M, "base_bytes": fmt.Sprintf("%x", base[:minInt(len(base), 300)]),
			"mutation": mu.kind, "bytes": fmt.Sprintf("%x", mu.b[:minInt(len(mu.b), 300)]), "channel": l.Last.Ch}
		// fallback signature (mutants the specification cannot be asked about): by the type the mutant DECODES to
		sig := func(kind string) string {
			dt := "undecodable"
			if mm := decodeOrNil(mu.b); mm != nil {
				if am, _ := d.Abstract(mm); am != nil {
					dt = fmt.Sprint(am["t"])
				} else {
					dt = fmt.Sprintf("%T", mm)
				}
			}
			return fmt.Sprintf("peer:cons:mutant-%s:%s", kind, dt)
		}
		where := fmt.Sprintf("class %s, %s of a well-formed %s message (%d bytes) on channel %#x", cls.N, mu.kind, l.Last.M.T, len(mu.b), l.Last.Ch)
		bad := false
		// a mutant the decoder takes is named by what it decodes to: the event goes to the trace validation, which
		// labels it with the branch of the specification (same signatures as the replay of the catalogue)
		logBad := func(kind, text string) bool {
			mm := decodeOrNil(mu.b)
			if mm == nil {
				return false
			}
			d.lenientBA = true
			am, ok := d.Abstract(mm)
			d.lenientBA = false
			if !ok {
				return false
			}
			tw.write(map[string]interface{}{"k": l.K, "sync": cls.Sync, "ch": l.Last.Ch, "m": am, "p0": cprsJSON(o.prsB), "p1": cprsJSON(o.prsB),
				"stopped": false, "sc": false, "o": redProj(o.projB), "class": cls.N, "mutation": mu.kind, "bad": kind, "text": text, "nth": nth,
				"bytes": fmt.Sprintf("%x", mu.b[:minInt(len(mu.b), 300)]), "base": l.Last.M.T})
			return true
		}
		switch {
		case o.out.Panic != "":
			if !logBad("panic", o.out.Panic) {
				res.Mismatch(sig("panic"), fmt.Sprintf("%s: the real Receive PANICKED (%s)", where, o.out.Panic), detail)
			}
			bad = true
		case o.out.Hung:
			res.Mismatch(sig("hang"), where+": the real Receive did not return", detail)
			bad = true
		case o.hpanic != "":
			if !logBad("handler-panic", o.hpanic) {
				res.Mismatch(sig("handler-panic"), fmt.Sprintf("%s: queued, and the real handleMsg PANICKED (%s)", where, o.hpanic), detail)
			}
			bad = true
		case !d.Rig.LockHealthy(5 * time.Second):
			res.Mismatch(sig("lock"), where+": the consensus state's mutex is not released", detail)
			bad = true
		case o.allocB > uint64(allocBase+64*o.msgLen+(1<<20)) && reflect.DeepEqual(o.projA, o.projB):
			// measured with other workers running: confirm alone
			world.RUnlock()
			world.Lock()
			p2 := d.Rig.NewPeer(false)
			o2 := d.realStep(p2, byte(l.Last.Ch), mu.b, cls.Sync)
			d.Rig.DropPeer(p2)
			world.Unlock()
			world.RLock()
			if o2.allocB > uint64(allocBase+64*o2.msgLen) {
				res.Mismatch(sig("alloc"), fmt.Sprintf("%s: the node allocated %d MB", where, o2.allocB>>20), detail)
			}
			bad = true
		}
		if bad {
			dirty = true
			return
		}
		if o.hasPRS && !o.stopped {
			for name, a := range o.prsA.arrays() {
				if !a.sound() {
					text := fmt.Sprintf("the peer state's bit array %s now claims %d bits but has %d words", name, a.Bits, a.Elems)
					if !logBad("peerstate-unsound", text) {
						res.Mismatch(sig("peerstate-unsound"), where+": "+text, detail)
					}
					dirty = true
					return
				}
			}
		}
		stateChanged := !reflect.DeepEqual(o.projA, o.projB)
		prsChanged := o.hasPRS && !reflect.DeepEqual(o.prsA, o.prsB)
		if stateChanged || prsChanged {
			// an effect: the specification must explain it (trace validation by PeerMsgsTrace.tla)
			mm := decodeOrNil(mu.b)
			if mm == nil {
				res.Mismatch(sig("effect-undecodable"), fmt.Sprintf("%s: the mutant had an effect (peer state %v, round state %v) although the decoder refuses it", where, prsChanged, stateChanged), detail)
			} else if am, ok := d.Abstract(mm); ok && !o.stopped {
				tw.write(map[string]interface{}{"k": l.K, "sync": cls.Sync, "ch": l.Last.Ch, "m": am, "p0": cprsJSON(o.prsB), "p1": cprsJSON(o.prsA),
					"stopped": o.stopped, "sc": stateChanged, "o": redProj(o.projA), "class": cls.N, "mutation": mu.kind,
					"bytes": fmt.Sprintf("%x", mu.b[:minInt(len(mu.b), 300)]), "base": l.Last.M.T})
				res.Add("mutants_with_effect_logged", 1)
			} else {
				res.Add("mutants_with_effect_not_abstractable", 1)
			}
		}
		if stateChanged || len(o.outs) > 0 {
			dirty = true
			return
		}
		if _, isMaj := decodeOrNil(mu.b).(*consensus.VoteSetMaj23Message); isMaj && !o.stopped {
			// a majority claim is remembered by the node's vote sets (per peer, and as a per-block entry that
			// changes the answers to later VoteSetBits): this node is not in its class state any more
			dirty = true
			return
		}
	}
	// the gossip routines on whatever peer state the mutants have left
	if p.BaseService.IsRunning() {
		if bad := d.gossipProbe(p); bad != "" {
			dirty = true
			res.Mismatch(fmt.Sprintf("peer:cons:mutant-gossip-panic:%s", l.Last.M.T), fmt.Sprintf("class %s: after the mutants of a %s message the node's own %s", cls.N, l.Last.M.T, bad),
				map[string]interface{}{"class": cls.N, "pre": l.Pre, "base": l.Last.M})
		}
	}
	if bad := d.honestFollowUp(); bad != "" {
		dirty = true
		res.Mismatch(fmt.Sprintf("peer:cons:mutant-honest-after:%s", l.Last.M.T), fmt.Sprintf("class %s: after the mutants of a %s message an honest peer is not served: %s", cls.N, l.Last.M.T, bad), nil)
	}
}
