//go:build verif

package peer

// Abstraction: a consensus message as the REAL decoder returned it -> the abstract message of
// specs/peer/PeerMsgs.tla (the inverse of msgs.go Concretize).  Used for trace validation: what the
// real reactor did with a mutated message is checked by TLC against Receive / Handle of the
// specification evaluated on the abstraction.  ok = false: some field has a value the 32-bit model
// cannot represent exactly (the mutant is then covered by the crash-freedom checks only).

import (
	"bytes"
	"math"

	"github.com/kardiachain/go-kardia/consensus"
	cmn "github.com/kardiachain/go-kardia/lib/common"
	"github.com/kardiachain/go-kardia/lib/crypto"
	kproto "github.com/kardiachain/go-kardia/proto/kardiachain/types"
	"github.com/kardiachain/go-kardia/types"

	"verifharness/node"
)

func rep64(v uint64) (int64, bool) {
	switch {
	case v <= 1900000000:
		return int64(v), true
	case v >= math.MaxInt32 && v < math.MaxInt32+1000:
		return mBig + int64(v-math.MaxInt32), true
	case v > math.MaxUint64-1000:
		return mMax - int64(math.MaxUint64-v), true
	}
	return 0, false
}
func rep32(v uint32) (int64, bool) {
	switch {
	case v <= 1900000000:
		return int64(v), true
	case v >= math.MaxInt32 && v < math.MaxInt32+1000:
		return mBig + int64(v-math.MaxInt32), true
	case v > math.MaxUint32-1000:
		return mMax - int64(math.MaxUint32-v), true
	}
	return 0, false
}

type aMsg map[string]interface{}

func (d *ClassNode) absBA(a *cmn.BitArray) (map[string]interface{}, bool) {
	if a == nil {
		return map[string]interface{}{"present": false, "bits": 0, "elems": 0, "ones": []int{}}, true
	}
	bits := int64(a.Bits)
	var mb int64
	switch {
	case bits < 0:
		mb = -1
	case bits <= 1900000000:
		mb = bits
	case bits >= math.MaxInt32 && bits < math.MaxInt32+1000:
		mb = mBig + (bits - math.MaxInt32)
	case bits > math.MaxInt64-1000:
		mb = mMax - (math.MaxInt64 - bits)
	default:
		return nil, false
	}
	if len(a.Elems) > 400 {
		return nil, false
	}
	ones := []int{}
	// every position set in the words that are present - also beyond Bits (BitArray.Update copies whole words)
	for i := 0; i < 128 && i/64 < len(a.Elems); i++ {
		if a.Elems[i/64]&(1<<uint(i%64)) != 0 {
			ones = append(ones, i)
		}
	}
	// the model tracks positions of the first two words only: refuse arrays with bits set beyond, unless only
	// the structure matters (d.lenientBA: events about a panic / an unsound peer state)
	for w := 2; w < len(a.Elems) && !d.lenientBA; w++ {
		if a.Elems[w] != 0 {
			return nil, false
		}
	}
	return map[string]interface{}{"present": true, "bits": mb, "elems": len(a.Elems), "ones": ones}, true
}

func (d *ClassNode) absHash(h cmn.Hash, parts bool) string {
	if h.IsZero() {
		return "zero"
	}
	hb := d.hb[d.bindH]
	if hb != nil {
		if parts && hb.id["A"].PartsHeader.Hash == h {
			return "A"
		}
		if !parts && hb.id["A"].Hash == h {
			return "A"
		}
	}
	if h == zHash {
		return "Z"
	}
	return "other"
}

func (d *ClassNode) absBid(b types.BlockID) (map[string]interface{}, bool) {
	t, ok := rep32(b.PartsHeader.Total)
	hc, pc := d.absHash(b.Hash, false), d.absHash(b.PartsHeader.Hash, true)
	if !ok || hc == "other" || pc == "other" {
		return nil, false
	}
	x := &xBid{Hash: hc, Total: t, Phash: pc}
	if bidTag(x) == "?" {
		return nil, false // not one of the catalogue's ids: the specification has no name for it
	}
	return map[string]interface{}{"hash": hc, "total": t, "phash": pc}, true
}

// Abstract returns the abstract message, or ok = false.
func (d *ClassNode) Abstract(m consensus.Message) (aMsg, bool) {
	w := d.Rig.W
	all := func(oks ...bool) bool {
		for _, o := range oks {
			if !o {
				return false
			}
		}
		return true
	}
	switch x := m.(type) {
	case *consensus.NewRoundStepMessage:
		h, o1 := rep64(x.Height)
		r, o2 := rep32(x.Round)
		l, o3 := rep32(x.LastCommitRound)
		s, o4 := rep64(x.SecondsSinceStartTime)
		return aMsg{"t": "nrs", "h": h, "r": r, "step": int(x.Step), "lcr": l, "secs": s}, all(o1, o2, o3, o4)
	case *consensus.NewValidBlockMessage:
		h, o1 := rep64(x.Height)
		r, o2 := rep32(x.Round)
		t, o3 := rep32(x.BlockPartsHeader.Total)
		ba, o4 := d.absBA(x.BlockParts)
		ph := d.absHash(x.BlockPartsHeader.Hash, true)
		if ph == "other" {
			ph = "Z"
		}
		return aMsg{"t": "nvb", "h": h, "r": r, "total": t, "phash": ph, "ba": ba, "commit": x.IsCommit}, all(o1, o2, o3, o4)
	case *consensus.HasVoteMessage:
		h, o1 := rep64(x.Height)
		r, o2 := rep32(x.Round)
		i, o3 := rep32(x.Index)
		return aMsg{"t": "hv", "h": h, "r": r, "type": int(x.Type), "idx": i}, all(o1, o2, o3)
	case *consensus.VoteSetMaj23Message:
		h, o1 := rep64(x.Height)
		r, o2 := rep32(x.Round)
		b, o3 := d.absBid(x.BlockID)
		return aMsg{"t": "maj", "h": h, "r": r, "type": int(x.Type), "bid": b}, all(o1, o2, o3)
	case *consensus.VoteSetBitsMessage:
		h, o1 := rep64(x.Height)
		r, o2 := rep32(x.Round)
		b, o3 := d.absBid(x.BlockID)
		ba, o4 := d.absBA(x.Votes)
		return aMsg{"t": "vsb", "h": h, "r": r, "type": int(x.Type), "bid": b, "ba": ba}, all(o1, o2, o3, o4)
	case *consensus.ProposalPOLMessage:
		h, o1 := rep64(x.Height)
		r, o2 := rep32(x.ProposalPOLRound)
		ba, o3 := d.absBA(x.ProposalPOL)
		return aMsg{"t": "pol", "h": h, "r": r, "ba": ba}, all(o1, o2, o3)
	case *consensus.ProposalMessage:
		p := x.Proposal
		h, o1 := rep64(p.Height)
		r, o2 := rep32(p.Round)
		pol, o3 := rep32(p.POLRound)
		b, o4 := d.absBid(p.POLBlockID)
		sig, who := "bad", 1
		sb := crypto.Keccak256(types.ProposalSignBytes(node.ChainID, p.ToProto()))
		for i, pv := range w.Privs {
			if types.VerifySignature(pv.GetAddress(), sb, p.Signature) {
				sig, who = "ok", i+1
			}
		}
		return aMsg{"t": "prop", "h": h, "r": r, "pol": pol, "bid": b, "sig": sig, "who": who}, all(o1, o2, o3, o4)
	case *consensus.BlockPartMessage:
		h, o1 := rep64(x.Height)
		r, o2 := rep32(x.Round)
		i, o3 := rep32(x.Part.Index)
		kind := "junk"
		if hb := d.hb[d.bindH]; hb != nil && len(hb.parts["A"]) > 0 {
			g := hb.parts["A"][0]
			if bytes.Equal(g.Bytes, x.Part.Bytes) && g.Proof.Total == x.Part.Proof.Total && g.Proof.Index == x.Part.Proof.Index &&
				bytes.Equal(g.Proof.LeafHash, x.Part.Proof.LeafHash) && len(g.Proof.Aunts) == len(x.Part.Proof.Aunts) {
				kind = "A0"
			} else if bytes.Equal(g.Bytes, x.Part.Bytes) || bytes.Equal(g.Proof.LeafHash, x.Part.Proof.LeafHash) {
				return nil, false // a partly genuine part: neither of the model's two kinds
			}
		}
		return aMsg{"t": "part", "h": h, "r": r, "idx": i, "kind": kind}, all(o1, o2, o3)
	case *consensus.VoteMessage:
		v := x.Vote
		h, o1 := rep64(v.Height)
		r, o2 := rep32(v.Round)
		i, o3 := rep32(v.ValidatorIndex)
		b, o4 := d.absBid(v.BlockID)
		who := 0
		for k, pv := range w.Privs {
			if pv.GetAddress().Equal(v.ValidatorAddress) {
				who = k + 1
			}
		}
		sig := "bad"
		if who > 0 {
			pvote := v.ToProto()
			if types.VerifySignature(v.ValidatorAddress, crypto.Keccak256(types.VoteSignBytes(node.ChainID, pvote)), v.Signature) {
				sig = "ok"
			}
		}
		d.rounds[v.Round] = true
		return aMsg{"t": "vote", "kind": "vote", "type": int(v.Type), "h": h, "r": r, "idx": i, "who": who, "bid": b, "sig": sig}, all(o1, o2, o3, o4)
	}
	return nil, false
}

var _ = kproto.PrevoteType

// cprsJSON is the peer state in the tuple form CPRS of MC_PeerMsgs.tla.
func cprsJSON(p prsProj) []interface{} {
	ba := func(b baProj) []interface{} {
		if b.Nil {
			return []interface{}{}
		}
		return []interface{}{b.Bits, b.Elems, b.Ones}
	}
	return []interface{}{p.H, p.R, p.Step, p.Prop, p.Total, p.Hash, ba(p.Pbp), p.PolR, ba(p.Pol), ba(p.Pv), ba(p.Pc), p.LcR, ba(p.Lc), p.CcR, ba(p.Cc)}
}
