//go:build verif

package peer

// The node state classes of specs/peer/PeerNodeStates.tla on a REAL node: the scripted prefix of a
// class is replayed through the real handlers (cs.VerifHandleMsg / VerifHandleTimeout, real signed
// messages, real blocks), exactly as harness/node/env_test.go replays MC_NodeEnv behaviours (the
// step function below is a copy of that driver, reduced to the script actions).

import (
	"encoding/json"
	"fmt"
	"reflect"
	"sort"
	"time"

	"github.com/kardiachain/go-kardia/consensus"
	"github.com/kardiachain/go-kardia/lib/common"
	"github.com/kardiachain/go-kardia/lib/p2p"
	kproto "github.com/kardiachain/go-kardia/proto/kardiachain/types"
	"github.com/kardiachain/go-kardia/trie"
	"github.com/kardiachain/go-kardia/types"

	"verifharness/node"
)

// ---- what MC_PeerMsgs prints ----
type xVotes struct {
	Pv []string `json:"pv"`
	Pc []string `json:"pc"`
}
type xProj struct {
	H       uint64          `json:"h"`
	R       uint32          `json:"r"`
	Step    int             `json:"step"`
	HasProp bool            `json:"hasProp"`
	Pol     uint32          `json:"pol"`
	Pblock  string          `json:"pblock"`
	Pparts  string          `json:"pparts"`
	LockedR uint32          `json:"lockedR"`
	LockedB string          `json:"lockedB"`
	ValidR  uint32          `json:"validR"`
	ValidB  string          `json:"validB"`
	CommitR uint32          `json:"commitR"`
	Ttp     bool            `json:"ttp"`
	Rounds  []int           `json:"rounds"`
	Votes   json.RawMessage `json:"votes"`
	Last    []string        `json:"last"`
}
type xTimer struct {
	H     uint64 `json:"h"`
	R     uint32 `json:"r"`
	Step  int    `json:"step"`
	Armed bool   `json:"armed"`
}
type xClass struct {
	N     string          `json:"n"`
	Me    int             `json:"me"`
	Sync  bool            `json:"sync"`
	P     [][]interface{} `json:"p"`
	O     xProj           `json:"o"`
	Inq   int             `json:"inq"`
	Timer xTimer          `json:"timer"`
}

// votes may be serialised as an array (domain 1..n) or an object keyed by round
func (p *xProj) votesMap() map[int]xVotes {
	out := map[int]xVotes{}
	if len(p.Votes) == 0 {
		return out
	}
	if p.Votes[0] == '[' {
		var arr []xVotes
		json.Unmarshal(p.Votes, &arr)
		for i, v := range arr {
			out[i+1] = v
		}
		return out
	}
	var m map[string]xVotes
	json.Unmarshal(p.Votes, &m)
	for k, v := range m {
		var r int
		fmt.Sscan(k, &r)
		out[r] = v
	}
	return out
}

func (p *xProj) asMap() map[string]interface{} {
	rounds := append([]int{}, p.Rounds...)
	sort.Ints(rounds)
	return map[string]interface{}{
		"h": p.H, "r": p.R, "step": p.Step, "hasProp": p.HasProp, "pol": p.Pol, "pblock": p.Pblock, "pparts": p.Pparts,
		"lockedR": p.LockedR, "lockedB": p.LockedB, "validR": p.ValidR, "validB": p.ValidB, "commitR": p.CommitR, "ttp": p.Ttp,
		"rounds": rounds, "votes": p.votesMap(), "last": p.Last,
	}
}

func num(x interface{}) int { return int(x.(float64)) }

// ---- blocks of one height ----
type hblocks struct {
	parts    map[string][]*types.Part
	id       map[string]types.BlockID
	name     map[common.Hash]string
	pname    map[common.Hash]string
	ownOpen  bool
	lastProp string
}

// ClassNode is a real node driven into a state class, behind its reactors.
type ClassNode struct {
	Rig       *Rig
	C         xClass
	me        int
	tick      node.Ticker
	inq       []consensus.Message
	hb        map[uint64]*hblocks
	extra     map[string]string // names of the catalogue's other block ids / part-set headers (by idKey / psKey)
	rounds    map[uint32]bool   // rounds mentioned by delivered messages (the projection probes them)
	bindH     uint64            // the class's height: block \"A\" of the catalogue is block A of this height
	lenientBA bool              // see absBA
}

const myBid = "M"

func (d *ClassNode) blocksAt(h uint64) (*hblocks, error) {
	if b, ok := d.hb[h]; ok {
		return b, nil
	}
	cs := d.Rig.Nd.CS
	if cs.GetRoundState().Height != h {
		return nil, fmt.Errorf("blocks of height %d requested while the node is at %d", h, cs.GetRoundState().Height)
	}
	hb := &hblocks{parts: map[string][]*types.Part{}, id: map[string]types.BlockID{}, name: map[common.Hash]string{}, pname: map[common.Hash]string{}}
	good, _ := cs.VerifCreateProposalBlock()
	if good == nil {
		return nil, fmt.Errorf("node cannot create a block")
	}
	hd := good.Header()
	lc := good.LastCommit().Copy()
	hd.LastCommitHash = common.Hash{}
	// block A: proposed by "another" validator, as in harness/node
	n := len(d.Rig.W.Privs)
	m := d.me
	if m == 0 {
		m = 2
	}
	hd.ProposerAddress = d.Rig.W.Privs[m%n].GetAddress()
	a := types.NewBlock(hd, good.Transactions(), lc, nil, trie.NewStackTrie(nil))
	hb.add("A", a)
	d.hb[h] = hb
	return hb, nil
}

func (hb *hblocks) add(name string, b *types.Block) {
	ps := b.MakePartSet(types.BlockPartSizeBytes)
	for i := 0; i < int(ps.Total()); i++ {
		hb.parts[name] = append(hb.parts[name], ps.GetPart(i))
	}
	hb.id[name] = types.BlockID{Hash: b.Hash(), PartsHeader: ps.Header()}
	hb.name[b.Hash()] = name
	hb.pname[ps.Header().Hash] = name
}

func (d *ClassNode) nameOf(h uint64, hash common.Hash) string {
	if hash.IsZero() {
		return "nil"
	}
	if hb, ok := d.hb[h]; ok {
		if n, ok := hb.name[hash]; ok {
			return n
		}
	}
	return "?" + hash.Hex()[2:10]
}

func idKey(id types.BlockID) string {
	return fmt.Sprintf("%x/%d/%x", id.Hash.Bytes(), id.PartsHeader.Total, id.PartsHeader.Hash.Bytes())
}
func psKey(h types.PartSetHeader) string { return fmt.Sprintf("%d/%x", h.Total, h.Hash.Bytes()) }

// idName names a full block id (vote sets key their entries by the full id, not by the block hash).
func (d *ClassNode) idName(h uint64, id types.BlockID) string {
	if id.IsZero() {
		return "nil"
	}
	if hb, ok := d.hb[h]; ok {
		for n, x := range hb.id {
			x := x
			if x.Equal(id) {
				return n
			}
		}
	}
	if n, ok := d.extra[idKey(id)]; ok {
		return n
	}
	return "?" + id.Hash.Hex()[2:10]
}

// collect: after every handler call the node's own messages go to inq, timeouts to the ticker.
// Returns the published outputs as the specification lists them.
type xOut struct {
	O    string `json:"o"`
	Type int    `json:"type"`
	H    uint64 `json:"h"`
	R    uint32 `json:"r"`
	Bid  string `json:"bid"`
	Pol  uint32 `json:"pol"`
	I    int    `json:"i"`
	A    string `json:"a"`
	B    string `json:"b"`
}

func (d *ClassNode) collect() ([]xOut, error) {
	var outs []xOut
	for _, m := range d.Rig.Nd.CS.VerifDrainInternal() {
		d.inq = append(d.inq, m)
		switch mm := m.(type) {
		case *consensus.ProposalMessage:
			p := mm.Proposal
			hb, err := d.blocksAt(p.Height)
			if err != nil {
				return nil, err
			}
			hb.ownOpen = false
			if _, known := hb.name[p.POLBlockID.Hash]; !known {
				if _, dup := hb.id[myBid]; dup {
					return nil, fmt.Errorf("node created a second own block at one height")
				}
				hb.id[myBid] = p.POLBlockID
				hb.name[p.POLBlockID.Hash] = myBid
				hb.pname[p.POLBlockID.PartsHeader.Hash] = myBid
				hb.ownOpen = true
			}
			hb.lastProp = d.nameOf(p.Height, p.POLBlockID.Hash)
			outs = append(outs, xOut{O: "proposal", H: p.Height, R: p.Round, Pol: p.POLRound, Bid: hb.lastProp, I: d.me})
		case *consensus.BlockPartMessage:
			hb, err := d.blocksAt(mm.Height)
			if err != nil {
				return nil, err
			}
			if hb.ownOpen {
				hb.parts[myBid] = append(hb.parts[myBid], mm.Part)
			}
			if mm.Part.Index == 0 {
				outs = append(outs, xOut{O: "part", H: mm.Height, R: mm.Round, Bid: hb.lastProp})
			}
		case *consensus.VoteMessage:
			v := mm.Vote
			outs = append(outs, xOut{O: "vote", Type: int(v.Type), H: v.Height, R: v.Round, Bid: d.nameOf(v.Height, v.BlockID.Hash), I: int(v.ValidatorIndex) + 1})
		}
	}
	for _, ti := range d.Rig.Nd.TakeSched() {
		d.tick.Schedule(ti)
	}
	return outs, nil
}

func peerOf(i int) p2p.ID { return p2p.ID(fmt.Sprintf("p%d", i)) }

// do performs one script action on the real node.
func (d *ClassNode) do(a []interface{}) error {
	cs := d.Rig.Nd.CS
	rs := cs.GetRoundState()
	h := rs.Height
	bid := func(name string) (types.BlockID, error) {
		if name == "nil" {
			return types.BlockID{}, nil
		}
		hb, err := d.blocksAt(h)
		if err != nil {
			return types.BlockID{}, err
		}
		id, ok := hb.id[name]
		if !ok {
			return id, fmt.Errorf("unbound block %s", name)
		}
		return id, nil
	}
	switch a[0].(string) {
	case "own":
		if len(d.inq) == 0 {
			return fmt.Errorf("script delivers an own message but the real node has none queued")
		}
		m := d.inq[0]
		d.inq = d.inq[1:]
		cs.VerifHandleMsg(m, "")
	case "fire":
		if !d.tick.Armed {
			return fmt.Errorf("script fires a timeout but the real ticker holds none")
		}
		d.tick.Armed = false
		cs.VerifHandleTimeout(d.tick.TI)
	case "prop":
		r, b, pol, signer := uint32(num(a[1])), a[2].(string), uint32(num(a[3])), num(a[4])
		id, err := bid(b)
		if err != nil {
			return err
		}
		cs.VerifHandleMsg(&consensus.ProposalMessage{Proposal: d.Rig.W.SignProposalFor(signer, h, r, pol, id)}, peerOf(signer))
	case "part":
		hb, err := d.blocksAt(h)
		if err != nil {
			return err
		}
		parts, ok := hb.parts[a[1].(string)]
		if !ok {
			return fmt.Errorf("unbound block %s", a[1])
		}
		for _, p := range parts {
			cs.VerifHandleMsg(&consensus.BlockPartMessage{Height: h, Round: rs.Round, Part: p}, peerOf(9))
		}
	case "vote":
		i, typ, r, b := num(a[1]), num(a[2]), uint32(num(a[3])), a[4].(string)
		id, err := bid(b)
		if err != nil {
			return err
		}
		v := d.Rig.W.SignVoteFor(i, kproto.SignedMsgType(typ), h, r, id, time.Now())
		cs.VerifHandleMsg(&consensus.VoteMessage{Vote: v}, peerOf(i))
	case "bundle":
		typ, r, b := num(a[1]), uint32(num(a[2])), a[3].(string)
		id, err := bid(b)
		if err != nil {
			return err
		}
		for i := 1; i <= len(d.Rig.W.Privs); i++ {
			if i == d.me {
				continue
			}
			if cs.GetRoundState().Height != h {
				break
			}
			v := d.Rig.W.SignVoteFor(i, kproto.SignedMsgType(typ), h, r, id, time.Now())
			cs.VerifHandleMsg(&consensus.VoteMessage{Vote: v}, peerOf(i))
		}
	default:
		return fmt.Errorf("unknown script action %v", a)
	}
	return nil
}

// Proj is the projection of the real node that the specification's Proj must equal.
func (d *ClassNode) Proj() map[string]interface{} {
	rs := d.Rig.Nd.CS.GetRoundState()
	n := len(d.Rig.W.Privs)
	h := rs.Height
	blk := func(b *types.Block) string {
		if b == nil {
			return "none"
		}
		return d.nameOf(b.Height(), b.Hash())
	}
	vlist := func(vs *types.VoteSet, hh uint64) []string {
		out := make([]string, n)
		for i := 0; i < n; i++ {
			out[i] = "none"
			if vs != nil {
				if v := vs.GetByIndex(uint32(i)); v != nil {
					out[i] = d.idName(hh, v.BlockID)
				}
			}
		}
		return out
	}
	rounds := []int{}
	votes := map[int]xVotes{}
	probe := map[uint32]bool{}
	for r := uint32(0); r <= rs.Round+8; r++ {
		probe[r] = true
	}
	for r := range d.rounds {
		probe[r] = true
	}
	for r := range probe {
		if pv := rs.Votes.Prevotes(r); pv != nil {
			rounds = append(rounds, modelNum32(r))
			votes[modelNum32(r)] = xVotes{vlist(pv, h), vlist(rs.Votes.Precommits(r), h)}
		}
	}
	sort.Ints(rounds)
	pparts := "none"
	if rs.ProposalBlockParts != nil {
		pparts = "?"
		hd := rs.ProposalBlockParts.Header()
		if hb, ok := d.hb[h]; ok {
			if nme, ok := hb.pname[hd.Hash]; ok && hd.Total == uint32(len(hb.parts[nme])) {
				pparts = nme
			}
		}
		if pparts == "?" {
			if nme, ok := d.extra[psKey(hd)]; ok {
				pparts = nme
			}
		}
	}
	pol := uint32(0)
	if rs.Proposal != nil {
		pol = rs.Proposal.POLRound
	}
	return map[string]interface{}{
		"h": rs.Height, "r": rs.Round, "step": int(rs.Step), "hasProp": rs.Proposal != nil, "pol": uint32(modelNum32(pol)),
		"pblock": blk(rs.ProposalBlock), "pparts": pparts,
		"lockedR": rs.LockedRound, "lockedB": blk(rs.LockedBlock), "validR": rs.ValidRound, "validB": blk(rs.ValidBlock),
		"commitR": rs.CommitRound, "ttp": rs.TriggeredTimeoutPrecommit, "rounds": rounds, "votes": votes,
		"last": vlist(rs.LastCommit, h-1),
	}
}

func diffMaps(real, spec map[string]interface{}) []string {
	var out []string
	keys := make([]string, 0, len(spec))
	for k := range spec {
		keys = append(keys, k)
	}
	sort.Strings(keys)
	for _, k := range keys {
		if !reflect.DeepEqual(real[k], spec[k]) {
			out = append(out, fmt.Sprintf("%s: real %v, specified %v", k, real[k], spec[k]))
		}
	}
	return out
}

// BuildClass builds a real node, drives it through the class script and checks that it is where the
// specification says the script leads.
func BuildClass(c xClass) (*ClassNode, error) {
	return buildClassOpts(c, RigOpts{Me: c.Me, Syncing: c.Sync}, true)
}

// buildClassOpts: check = compare the node with the specification's projection of the class.
func buildClassOpts(c xClass, o RigOpts, check bool) (*ClassNode, error) {
	rig, err := NewRig(o)
	if err != nil {
		return nil, err
	}
	d := &ClassNode{Rig: rig, C: c, me: c.Me, hb: map[uint64]*hblocks{}, extra: map[string]string{}, rounds: map[uint32]bool{}}
	rig.Nd.CS.VerifScheduleRound0()
	for _, ti := range rig.Nd.TakeSched() {
		d.tick.Schedule(ti)
	}
	for i, a := range c.P {
		if err := d.do(a); err != nil {
			rig.Close()
			return nil, fmt.Errorf("class %s step %d %v: %v", c.N, i+1, a, err)
		}
		if _, err := d.collect(); err != nil {
			rig.Close()
			return nil, err
		}
	}
	if check {
		if df := diffMaps(d.Proj(), c.O.asMap()); len(df) > 0 {
			rig.Close()
			return nil, fmt.Errorf("class %s: the real node is not in the state the script leads to in the specification: %v", c.N, df)
		}
		if len(d.inq) != c.Inq {
			rig.Close()
			return nil, fmt.Errorf("class %s: %d own messages pending, specified %d", c.N, len(d.inq), c.Inq)
		}
	}
	// bind block A of the current height (needed by the catalogue even when the script never used it)
	d.bindH = rig.Nd.CS.GetRoundState().Height
	if _, err := d.blocksAt(d.bindH); err != nil {
		rig.Close()
		return nil, err
	}
	return d, nil
}
