//go:build verif

package peer

// TestLenPrefix: every (length-prefix class, consumer) pair of MC_LenPrefix against the real readers a peer
// reaches: (a) protoio.NewDelimitedReader directly, (b) the NodeInfo handshake - the REAL transport upgrade
// (MultiplexTransport.VerifUpgrade = upgrade: secret connection, then transport.handshake, whose reading goroutine
// has no recover), run in a CHILD PROCESS so that a panic there is a verdict and not the end of the driver,
// (c) MConnection.recvRoutine, (d) the auth-message read inside conn.MakeSecretConnection (the peer holds the
// session keys and seals whatever plaintext it likes).  Specified (LenPrefix.tla): a prefix above the
// consumer's maximum or malformed is refused with an error - never a panic, nothing allocated beyond the maximum.

import (
	"bytes"
	"encoding/binary"
	"encoding/json"
	"fmt"
	"io"
	"math/big"
	"net"
	"os"
	"os/exec"
	"strings"
	"sync"
	"testing"
	"time"

	"github.com/gogo/protobuf/proto"
	gogotypes "github.com/gogo/protobuf/types"
	"github.com/kardiachain/go-kardia/configs"
	"github.com/kardiachain/go-kardia/lib/crypto"
	"github.com/kardiachain/go-kardia/lib/log"
	"github.com/kardiachain/go-kardia/lib/p2p"
	"github.com/kardiachain/go-kardia/lib/p2p/conn"
	"github.com/kardiachain/go-kardia/lib/protoio"

	"verifharness/internal/mbt"
)

type lpLine struct {
	N   string `json:"n"`
	B   []int  `json:"b"`
	Rel string `json:"rel"`
	C   string `json:"c"`
	Out string `json:"out"`
}

func lpBytes(l *lpLine, max int) []byte {
	switch l.N {
	case "max":
		return proto.EncodeVarint(uint64(max))
	case "max+1":
		return proto.EncodeVarint(uint64(max) + 1)
	}
	b := make([]byte, len(l.B))
	for i, x := range l.B {
		b[i] = byte(x)
	}
	return b
}

// lpSane: the catalogue's byte string is what its name says (checked with math/big, not with the code under test)
func lpSane(l *lpLine, b []byte, max int) string {
	v := new(big.Int)
	ok := true
	for i, x := range b {
		v.Or(v, new(big.Int).Lsh(big.NewInt(int64(x&0x7f)), uint(7*i)))
		if x < 0x80 {
			ok = i == len(b)-1
			break
		}
		ok = false
	}
	two64 := new(big.Int).Lsh(big.NewInt(1), 64)
	isUvarint := ok && len(b) <= 10 && v.Cmp(two64) < 0
	switch l.Rel {
	case "bad":
		if isUvarint {
			return "class is named malformed but is a uvarint64"
		}
	case "fits":
		if !isUvarint || v.Cmp(big.NewInt(int64(max))) > 0 {
			return "class is named fitting but is not"
		}
	case "above":
		if !isUvarint || v.Cmp(big.NewInt(int64(max))) <= 0 {
			return "class is named above the maximum but is not"
		}
	}
	return ""
}

const lpChildEnv = "PEER_LP_CHILD"

// child: the real transport upgrade against an adversary that completes the secret handshake and then sends the
// prefix (and a few bytes) where the NodeInfo message belongs.  Exit 0 = upgrade returned (with an error).
func lpChild(hexPrefix string) {
	var b []byte
	fmt.Sscanf(hexPrefix, "%x", &b)
	k, _ := crypto.ToECDSA(crypto.Keccak256([]byte("verif-lp-node")))
	nk := p2p.NodeKey{PrivKey: k}
	ni := p2p.DefaultNodeInfo{DefaultNodeID: nk.ID(), ListenAddr: "127.0.0.1:26656", Network: "verif", Version: "1", Moniker: "verif"}
	mt := p2p.NewMultiplexTransport(ni, nk, p2p.MConnConfig(configs.DefaultP2PConfig()))
	srv, cli := net.Pipe()
	go func() {
		advKey, _ := crypto.ToECDSA(crypto.Keccak256([]byte("verif-lp-adversary")))
		adv, err := advHandshake(cli, advKey, 7)
		if err != nil {
			fmt.Println("CHILD-INFRA adversary handshake:", err)
			os.Exit(3)
		}
		go io.Copy(io.Discard, cli) // the node's own NodeInfo
		if os.Getenv("PEER_LP_TRUNC") == "true" {
			adv.writeData(b)
			cli.Close()
			return
		}
		adv.writeData(append(append([]byte{}, b...), 0, 0, 0, 0))
	}()
	_, _, err := mt.VerifUpgrade(srv, nil)
	fmt.Println("CHILD-RETURNED", err)
	os.Exit(0)
}

func TestLenPrefix(t *testing.T) {
	if h := os.Getenv(lpChildEnv); h != "" {
		lpChild(h)
		return
	}
	res := mbt.NewResult()
	defer res.Write()
	var wg sync.WaitGroup
	sem := make(chan struct{}, 8)
	sent, err := mbt.EachLine(os.Getenv("PEER_DUMP"), 1, 0, 1, mbt.Seed(), func(n int, raw []byte) {
		var l lpLine
		if json.Unmarshal(raw, &l) != nil || l.C == "" {
			return
		}
		wg.Add(1)
		sem <- struct{}{}
		go func() {
			defer wg.Done()
			defer func() { <-sem }()
			lpReplay(res, &l)
		}()
	})
	wg.Wait()
	if err != nil {
		res.Mismatch("infra:read", err.Error(), nil)
	}
	res.Set("lenprefix_lines", sent)
}

func lpReplay(res *mbt.Result, l *lpLine) {
	max := map[string]int{"reader": 1000, "nodeinfo-handshake": p2p.MaxNodeInfoSize(), "mconnection": 1034, "secret-auth": 1024 * 1024}[l.C]
	b := lpBytes(l, max)
	if l.C == "mconnection" {
		// the connection computes its own maximum: take it from a packet of maximal payload
		max = len(packetMsg(1, true, 1024)) - 2
		b = lpBytes(l, max)
	}
	detail := map[string]interface{}{"class": l.N, "prefix_bytes": fmt.Sprintf("%x", b), "consumer": l.C, "maximum": max, "specified": l.Out}
	if bad := lpSane(l, b, max); bad != "" {
		res.Mismatch("infra:lenprefix-catalogue", l.N+": "+bad, detail)
		return
	}
	res.Count(1)
	res.Behaviour()
	sig := func(kind string) string { return fmt.Sprintf("peer:lenprefix:%s:%s", kind, l.C) }
	where := fmt.Sprintf("length prefix %s (%x) to %s (maximum %d)", l.N, b, l.C, max)
	refused := l.Out == "refused"
	// what follows the prefix on the wire: a few bytes - nothing (end of stream) for the truncated varint
	filler := func(n int) []byte {
		if l.N == "truncated" {
			return nil
		}
		return make([]byte, n)
	}
	if refused {
		res.Distinct(l.N + "/" + l.C)
	}
	switch l.C {
	case "reader":
		body := []byte{}
		if l.N == "1" {
			body = []byte{0x0a}[:0]
		}
		_ = body
		var msg gogotypes.BytesValue
		var rerr error
		a0 := allocBytes()
		o := Guard(5*time.Second, false, func() {
			rerr = protoio.NewDelimitedReader(bytes.NewReader(append(append([]byte{}, b...), filler(16)...)), max).ReadMsg(&msg)
		})
		al := allocBytes() - a0
		switch {
		case o.Panic != "":
			res.Mismatch(sig("panic"), where+": ReadMsg PANICKED ("+o.Panic+"); specified: "+l.Out, detail)
		case o.Hung:
			res.Mismatch(sig("hang"), where+": ReadMsg did not return", detail)
		case refused && rerr == nil:
			res.Mismatch(sig("accepted"), where+": ReadMsg returned no error; specified: refused", detail)
		case refused && al > uint64(max)+(4<<20):
			res.Mismatch(sig("alloc"), fmt.Sprintf("%s: %d bytes allocated for a refused prefix", where, al), detail)
		case !refused && rerr != nil && strings.Contains(rerr.Error(), "exceeds max size"):
			res.Mismatch(sig("refused-fitting"), where+": refused as too large: "+rerr.Error(), detail)
		}
	case "mconnection":
		if !refused {
			return // fitting prefixes with bodies are the items of Framing.tla
		}
		srv, cli := net.Pipe()
		defer cli.Close()
		s := &fSession{}
		s.cond = sync.NewCond(&s.mu)
		descs := []*conn.ChannelDescriptor{{ID: 0x20, Priority: 1, SendQueueCapacity: 4, RecvMessageCapacity: 2000, RecvBufferCapacity: 1024}}
		cfg := p2p.MConnConfig(configs.DefaultP2PConfig())
		cfg.RecvRate, cfg.SendRate = 1<<40, 1<<40
		mc := conn.NewMConnectionWithConfig(srv, descs, func(ch byte, m []byte) {}, func(r interface{}) {
			s.mu.Lock()
			if s.err == nil {
				s.err = r
			}
			s.cond.Broadcast()
			s.mu.Unlock()
		}, cfg)
		mc.SetLogger(log.New())
		if mc.Start() != nil {
			return
		}
		defer mc.Stop()
		go io.Copy(io.Discard, cli)
		cli.SetWriteDeadline(time.Now().Add(5 * time.Second))
		cli.Write(append(append([]byte{}, b...), filler(8)...))
		if l.N == "truncated" {
			cli.Close()
		}
		if !s.wait(10*time.Second, func() bool { return s.err != nil }) {
			res.Mismatch(sig("not-stopped"), where+": the connection neither stopped nor failed within 10 s", detail)
			return
		}
		s.mu.Lock()
		e := s.err
		s.mu.Unlock()
		if stopClass(e) == "PANIC" {
			res.Mismatch(sig("panic"), fmt.Sprintf("%s: recvRoutine PANICKED (%v); specified: refused with an error", where, e), detail)
		}
	case "secret-auth":
		if !refused {
			return
		}
		srv, cli := net.Pipe()
		defer cli.Close()
		defer srv.Close()
		nodeKey, _ := crypto.ToECDSA(crypto.Keccak256([]byte("verif-secret-node")))
		type scRes struct {
			err error
			pan interface{}
		}
		scc := make(chan scRes, 1)
		go func() {
			var r scRes
			defer func() { r.pan = recover(); scc <- r }()
			_, r.err = conn.MakeSecretConnection(srv, nodeKey)
		}()
		// the adversary's half: ephemeral keys as usual, then the prefix where the auth message belongs
		advKey, _ := crypto.ToECDSA(crypto.Keccak256([]byte("verif-secret-adversary")))
		go func() {
			_, _ = advHandshakeWith(cli, advKey, 11, append(append([]byte{}, b...), filler(4)...))
			if l.N == "truncated" {
				cli.Close()
			}
		}()
		select {
		case r := <-scc:
			if r.pan != nil || (r.err != nil && strings.Contains(strings.ToLower(r.err.Error()), "panic")) {
				res.Mismatch(sig("panic"), fmt.Sprintf("%s: MakeSecretConnection PANICKED (%v / %v)", where, r.pan, r.err), detail)
			} else if r.err == nil {
				res.Mismatch(sig("accepted"), where+": MakeSecretConnection succeeded", detail)
			}
		case <-time.After(10 * time.Second):
			res.Mismatch(sig("hang"), where+": MakeSecretConnection did not return within 10 s", detail)
		}
	case "nodeinfo-handshake":
		if !refused {
			return
		}
		cmd := exec.Command(os.Args[0], "-test.run", "^TestLenPrefix$")
		cmd.Env = append(os.Environ(), fmt.Sprintf("%s=%x", lpChildEnv, b), "VERIF_OUT=", "PEER_LP_TRUNC="+fmt.Sprint(l.N == "truncated"))
		var out bytes.Buffer
		cmd.Stdout, cmd.Stderr = &out, &out
		done := make(chan error, 1)
		if err := cmd.Start(); err != nil {
			res.Mismatch("infra:lenprefix-child", err.Error(), nil)
			return
		}
		go func() { done <- cmd.Wait() }()
		select {
		case <-done:
		case <-time.After(40 * time.Second):
			_ = cmd.Process.Kill()
			res.Mismatch(sig("hang"), where+": the transport upgrade did not return within 40 s", detail)
			return
		}
		o := out.String()
		switch {
		case strings.Contains(o, "CHILD-RETURNED"):
			if strings.Contains(o, "CHILD-RETURNED <nil>") {
				res.Mismatch(sig("accepted"), where+": the handshake succeeded", detail)
			}
		case strings.Contains(o, "CHILD-INFRA"):
			res.Mismatch("infra:lenprefix-child", o[:minInt(len(o), 300)], nil)
		case strings.Contains(o, "panic:"):
			i := strings.Index(o, "panic:")
			res.Mismatch(sig("crash"), fmt.Sprintf("%s: a freshly connected peer sends it where its NodeInfo belongs and the NODE PROCESS EXITS: the reading goroutine of transport.handshake panics and nobody recovers (%s); specified: refused with an error", where, strings.SplitN(o[i:], "\n", 2)[0]), detail)
		default:
			res.Mismatch("infra:lenprefix-child", "child ended without verdict: "+o[:minInt(len(o), 300)], nil)
		}
	}
}

var _ = binary.MaxVarintLen64
