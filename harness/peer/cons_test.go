//go:build verif

package peer

// TestConsReplay: every transition printed by MC_PeerMsgs (state class, messages leading to the
// pre-state, last message with the specified outcome) is replayed on a real node of that class behind
// the real ConsensusManager: Receive under recover with deadline and allocation guard, then the
// receiveRoutine step (real handleMsg) on whatever Receive queued.  Compared with the specification:
// panic / hang / allocation / lock health, stopped-or-not, effect-or-no-effect, the peer state, the
// round state, the messages the node signs, the VoteSetBits answer; then the real gossip routines run
// a few iterations on the resulting peer state under recover, and an honest peer is served.

import (
	"bufio"
	"encoding/json"
	"fmt"
	"io"
	"net"
	"os"
	"reflect"
	"runtime/metrics"
	"sort"
	"strings"
	"sync"
	"testing"
	"time"

	"github.com/kardiachain/go-kardia/configs"
	"github.com/kardiachain/go-kardia/consensus"
	cstypes "github.com/kardiachain/go-kardia/consensus/types"
	cmn "github.com/kardiachain/go-kardia/lib/common"
	"github.com/kardiachain/go-kardia/lib/log"
	"github.com/kardiachain/go-kardia/lib/p2p"
	p2pconn "github.com/kardiachain/go-kardia/lib/p2p/conn"
	kcons "github.com/kardiachain/go-kardia/proto/kardiachain/consensus"

	"verifharness/internal/mbt"
)

type xStep struct {
	M  xMsg `json:"m"`
	Ch int  `json:"ch"`
	St bool `json:"st"` // specified: the peer is stopped by this message
	Pc bool `json:"pc"` // specified: it changes the peer state
	Sc bool `json:"sc"` // specified: it changes the round state
}
type xLast struct {
	M      xMsg              `json:"m"`
	Ch     int               `json:"ch"`
	Tag    string            `json:"tag"`
	Res    string            `json:"res"`
	Why    string            `json:"why"`
	Q      string            `json:"q"`
	Reply  bool              `json:"reply"`
	Huge   bool              `json:"huge"`
	Hpanic bool              `json:"hpanic"`
	Hw     string            `json:"hw"`
	P      []json.RawMessage `json:"p"`
	Ncl    int               `json:"ncl"`
	O      []xProj           `json:"o"`
	Out    []xOut            `json:"out"`
}
type xLine struct {
	K       int      `json:"k"`
	Pre     []xStep  `json:"pre"`
	Last    *xLast   `json:"last"`
	Classes []xClass `json:"classes"`
	Catchup int      `json:"catchup"`
}

// catchupLimit is PeerMsgs!CatchupLimit as printed with the class table.
var catchupLimit = -1

// ---- peer-state projection ----
type baProj struct {
	Nil   bool
	Bits  int
	Elems int
	Ones  []int
}
type prsProj struct {
	H, R, Step       int
	Prop             bool
	Total            int
	Hash             string
	Pbp, Pol, Pv, Pc baProj
	PolR, LcR, CcR   int
	Lc, Cc           baProj
}

func projBA(a *cmn.BitArray) baProj {
	if a == nil {
		return baProj{Nil: true, Ones: []int{}}
	}
	b := baProj{Bits: modelBits(int64(a.Bits)), Elems: len(a.Elems), Ones: []int{}}
	if int64(a.Bits) < 0 {
		b.Bits = int(int64(a.Bits))
	}
	// every position set in the (first two) words that are present, straggler bits beyond Bits included
	for i := 0; i < 128 && i/64 < len(a.Elems); i++ {
		if a.Elems[i/64]&(1<<uint(i%64)) != 0 {
			b.Ones = append(b.Ones, i)
		}
	}
	return b
}
func (b baProj) sound() bool {
	if b.Nil {
		return true
	}
	if b.Bits < 0 {
		return false
	}
	if b.Bits >= mBig {
		return false // 2^31-1 bits and more: the word count on a 1 MB message cannot match
	}
	return b.Elems == (b.Bits+63)/64
}

func (d *ClassNode) hashClass(h cmn.Hash) string {
	if h.IsZero() {
		return "zero"
	}
	if hb, ok := d.hb[d.bindH]; ok && hb.id["A"].PartsHeader.Hash == h {
		return "A"
	}
	return "Z"
}

func (d *ClassNode) projPRS(prs *cstypes.PeerRoundState) prsProj {
	return prsProj{H: modelNum64(prs.Height), R: modelNum32(prs.Round), Step: int(prs.Step), Prop: prs.Proposal,
		Total: modelNum32(prs.ProposalBlockPartsHeader.Total), Hash: d.hashClass(prs.ProposalBlockPartsHeader.Hash),
		Pbp: projBA(prs.ProposalBlockParts), PolR: modelNum32(prs.ProposalPOLRound), Pol: projBA(prs.ProposalPOL),
		Pv: projBA(prs.Prevotes), Pc: projBA(prs.Precommits), LcR: modelNum32(prs.LastCommitRound), Lc: projBA(prs.LastCommit),
		CcR: modelNum32(prs.CatchupCommitRound), Cc: projBA(prs.CatchupCommit)}
}
func (p prsProj) arrays() map[string]baProj {
	return map[string]baProj{"pbp": p.Pbp, "pol": p.Pol, "pv": p.Pv, "pc": p.Pc, "lc": p.Lc, "cc": p.Cc}
}

func parseCBA(raw json.RawMessage) (baProj, error) {
	var t []json.RawMessage
	if err := json.Unmarshal(raw, &t); err != nil {
		return baProj{}, err
	}
	if len(t) == 0 {
		return baProj{Nil: true, Ones: []int{}}, nil
	}
	b := baProj{Ones: []int{}}
	if err := json.Unmarshal(t[0], &b.Bits); err != nil {
		return b, err
	}
	json.Unmarshal(t[1], &b.Elems)
	json.Unmarshal(t[2], &b.Ones)
	if b.Ones == nil {
		b.Ones = []int{}
	}
	sort.Ints(b.Ones)
	return b, nil
}

// CPRS of MC_PeerMsgs: <<h, r, step, prop, total, hash, pbp, polR, pol, pv, pc, lcR, lc, ccR, cc>>
func parseCPRS(raw json.RawMessage) (prsProj, error) {
	var t []json.RawMessage
	var p prsProj
	if err := json.Unmarshal(raw, &t); err != nil || len(t) != 15 {
		return p, fmt.Errorf("bad peer-state tuple %s", string(raw))
	}
	json.Unmarshal(t[0], &p.H)
	json.Unmarshal(t[1], &p.R)
	json.Unmarshal(t[2], &p.Step)
	json.Unmarshal(t[3], &p.Prop)
	json.Unmarshal(t[4], &p.Total)
	json.Unmarshal(t[5], &p.Hash)
	var err error
	for i, dst := range map[int]*baProj{6: &p.Pbp, 8: &p.Pol, 9: &p.Pv, 10: &p.Pc, 12: &p.Lc, 14: &p.Cc} {
		if *dst, err = parseCBA(t[i]); err != nil {
			return p, err
		}
	}
	json.Unmarshal(t[7], &p.PolR)
	json.Unmarshal(t[11], &p.LcR)
	json.Unmarshal(t[13], &p.CcR)
	return p, nil
}

// the huge classes of a proposal's part total are scaled by the driver (msgs.go cvTotal): the
// specification's array size is mapped the same way before comparing
func scaleSpecPRS(p prsProj, real prsProj) prsProj {
	if p.Total >= mBig && real.Total < mBig && (real.Total == 1<<24 || real.Total == 1<<25 || real.Total == 1<<28 || real.Total == 1<<29) {
		p.Total = real.Total
		if !p.Pbp.Nil && p.Pbp.Bits >= mBig {
			p.Pbp.Bits = real.Total
			p.Pbp.Elems = (real.Total + 63) / 64
		}
	}
	return p
}

// ---- allocation counter (no stop-the-world) ----
func allocBytes() uint64 {
	s := []metrics.Sample{{Name: "/gc/heap/allocs:bytes"}}
	metrics.Read(s)
	return s[0].Value.Uint64()
}

// ---- pool of class nodes ----
type classPool struct {
	mu      sync.Mutex
	classes []xClass
	idle    map[int][]*ClassNode
	built   int
}

func (cp *classPool) get(k int) (*ClassNode, error) {
	cp.mu.Lock()
	if l := cp.idle[k]; len(l) > 0 {
		d := l[len(l)-1]
		cp.idle[k] = l[:len(l)-1]
		cp.mu.Unlock()
		return d, nil
	}
	cp.built++
	cp.mu.Unlock()
	return BuildClass(cp.classes[k-1])
}
func (cp *classPool) put(k int, d *ClassNode, dirty bool) {
	if dirty {
		d.Rig.Close()
		return
	}
	cp.mu.Lock()
	if len(cp.idle[k]) < 24 {
		cp.idle[k] = append(cp.idle[k], d)
		d = nil
	}
	cp.mu.Unlock()
	if d != nil {
		d.Rig.Close()
	}
}
func (cp *classPool) closeAll() {
	for _, l := range cp.idle {
		for _, d := range l {
			d.Rig.Close()
		}
	}
}

func readClasses(path string) ([]xClass, error) {
	f, err := os.Open(path)
	if err != nil {
		return nil, err
	}
	defer f.Close()
	sc := bufio.NewScanner(f)
	sc.Buffer(make([]byte, 1<<20), 1<<26)
	for sc.Scan() {
		line := sc.Bytes()
		if len(line) < 2 || line[0] != '"' {
			continue
		}
		var inner string
		if json.Unmarshal(line, &inner) != nil || !strings.Contains(inner, `"classes":[`) {
			continue
		}
		var l xLine
		if err := json.Unmarshal([]byte(inner), &l); err != nil {
			return nil, err
		}
		if l.Catchup > 0 {
			catchupLimit = l.Catchup
		}
		return l.Classes, nil
	}
	return nil, fmt.Errorf("no class table in %s", path)
}

// ---- one step on the real reactor ----
type stepObs struct {
	out     Outcome
	stopped bool
	queued  []consensus.Message
	hpanic  string
	outs    []xOut
	reply   bool
	prsB    prsProj
	prsA    prsProj
	hasPRS  bool
	projB   map[string]interface{}
	projA   map[string]interface{}
	allocB  uint64
	msgLen  int
}

const allocBase = 8 << 20

func (d *ClassNode) realStep(p *StubPeer, ch byte, bz []byte, sync bool) stepObs {
	var o stepObs
	o.msgLen = len(bz)
	cs := d.Rig.Nd.CS
	if ps := PeerState(p); ps != nil {
		o.prsB = d.projPRS(ps.GetRoundState())
	}
	o.projB = d.Proj()
	p.TakeSent()
	a0 := allocBytes()
	o.out = Guard(5*time.Second, false, func() { d.Rig.ConR.Receive(ch, p, bz) })
	o.stopped = !p.BaseService.IsRunning()
	for {
		m, id, ok := cs.VerifTakePeerMsg()
		if !ok {
			break
		}
		o.queued = append(o.queued, m)
		if !sync && !o.out.Hung {
			h := Guard(5*time.Second, false, func() { cs.VerifHandleMsg(m, id) })
			if h.Panic != "" {
				o.hpanic = h.Panic
			}
			if h.Hung {
				o.hpanic = "handleMsg did not return"
			}
		}
	}
	o.allocB = allocBytes() - a0
	outs, err := d.collect()
	if err != nil {
		o.hpanic = "driver: " + err.Error()
	}
	o.outs = outs
	for _, s := range p.TakeSent() {
		if s.Ch == consensus.VoteSetBitsChannel {
			o.reply = true
		}
	}
	if ps := PeerState(p); ps != nil {
		o.prsA = d.projPRS(ps.GetRoundState())
		o.hasPRS = true
	}
	o.projA = d.Proj()
	return o
}

func outKeys(outs []xOut) []string {
	var s []string
	for _, o := range outs {
		switch o.O {
		case "vote", "proposal", "part":
			s = append(s, fmt.Sprintf("%s/%d/%d/%d/%s", o.O, o.Type, o.H, o.R, o.Bid))
		case "evidence":
			s = append(s, "evidence")
		}
	}
	return s
}

// gossipProbe runs the three per-peer routines of the consensus reactor on the peer state as it is now.
func (d *ClassNode) gossipProbe(p *StubPeer) string {
	ps := PeerState(p)
	if ps == nil || !p.BaseService.IsRunning() {
		return ""
	}
	res := make(chan string, 3)
	run := func(name string, f func() interface{}) {
		go func() {
			if r := f(); r != nil {
				s := fmt.Sprint(r)
				if len(s) > 200 {
					s = s[:200]
				}
				res <- name + ": " + s
			} else {
				res <- ""
			}
		}()
	}
	run("gossipDataRoutine", func() interface{} { return d.Rig.ConR.VerifGossipDataRoutine(p, ps) })
	run("gossipVotesRoutine", func() interface{} { return d.Rig.ConR.VerifGossipVotesRoutine(p, ps) })
	run("queryMaj23Routine", func() interface{} { return d.Rig.ConR.VerifQueryMaj23Routine(p, ps) })
	p.WaitPolls(12, 2*time.Second)
	_ = p.Stop()
	bad := ""
	for i := 0; i < 3; i++ {
		select {
		case s := <-res:
			if s != "" && bad == "" {
				bad = s
			}
		case <-time.After(5 * time.Second):
			if bad == "" {
				bad = "a gossip routine did not stop after the peer was stopped"
			}
		}
	}
	return bad
}

// honestFollowUp: a fresh, honest peer announces the node's own position; it must be taken.
func (d *ClassNode) honestFollowUp() string {
	rs := d.Rig.Nd.CS.GetRoundState()
	p := d.Rig.NewPeer(false)
	defer d.Rig.DropPeer(p)
	lcr := uint32(0)
	if rs.Height > 1 {
		lcr = 1
		if rs.LastCommit != nil {
			lcr = rs.LastCommit.GetRound()
		}
	}
	step := rs.Step
	if step == 0 {
		step = cstypes.RoundStepNewHeight
	}
	bz := consensus.MustEncode(&consensus.NewRoundStepMessage{Height: rs.Height, Round: rs.Round, Step: step, LastCommitRound: lcr})
	o := Guard(5*time.Second, false, func() { d.Rig.ConR.Receive(consensus.StateChannel, p, bz) })
	if o.Panic != "" || o.Hung {
		return fmt.Sprintf("panic=%q hung=%v", o.Panic, o.Hung)
	}
	ps := PeerState(p)
	if ps == nil || !p.BaseService.IsRunning() {
		return "the honest peer was stopped"
	}
	prs := ps.GetRoundState()
	if prs.Height != rs.Height || prs.Round != rs.Round || prs.Step != step {
		return fmt.Sprintf("honest NewRoundStep %d/%d/%d not recorded: peer state %d/%d/%d", rs.Height, rs.Round, step, prs.Height, prs.Round, prs.Step)
	}
	return ""
}

// DropPeer removes a stub peer from the switch and all reactors.
func (r *Rig) DropPeer(p *StubPeer) {
	if p.BaseService.IsRunning() {
		r.Sw.StopPeerGracefully(p)
		return
	}
	if r.Sw.Peers().Has(p.ID()) {
		// stopped by somebody else than the switch (the gossip probe): complete the removal
		_ = p.Start()
		r.Sw.StopPeerGracefully(p)
	}
}

var world sync.RWMutex // exclusive mode for precise allocation measurements

func TestConsReplay(t *testing.T) {
	res := mbt.NewResult()
	defer res.Write()
	path := os.Getenv("PEER_DUMP")
	classes, err := readClasses(path)
	if err != nil {
		res.Mismatch("infra:classes", err.Error(), nil)
		return
	}
	cp := &classPool{classes: classes, idle: map[int][]*ClassNode{}}
	defer cp.closeAll()
	// every class must be enterable
	for k := range classes {
		d, err := cp.get(k + 1)
		if err != nil {
			res.Mismatch("infra:class", err.Error(), nil)
			return
		}
		cp.put(k+1, d, false)
	}
	lockstep := map[string]int{}
	var lmu sync.Mutex
	note := func(k string) { lmu.Lock(); lockstep[k]++; lmu.Unlock() }
	workers := mbt.EnvInt("PEER_WORKERS", 0)
	deepStride := mbt.EnvInt("PEER_DEEP_STRIDE", 1)
	sent, err := mbt.EachLine(path, workers, mbt.EnvInt("PEER_LIMIT", 0), mbt.EnvInt("PEER_STRIDE", 1), mbt.Seed(), func(n int, raw []byte) {
		var l xLine
		if err := json.Unmarshal(raw, &l); err != nil {
			res.Mismatch("infra:parse", err.Error(), string(raw[:minInt(len(raw), 300)]))
			return
		}
		if l.Last == nil {
			return
		}
		// one-message lines (after the preamble) are all replayed; the deeper ones are sampled
		if deepStride > 1 && len(l.Pre)%2 == 1 && (n+int(mbt.Seed()))%deepStride != 0 {
			return
		}
		world.RLock()
		again := replayLine(res, cp, &l, false, note)
		world.RUnlock()
		if again {
			world.Lock()
			replayLine(res, cp, &l, true, note)
			world.Unlock()
		}
		if n%997 == 1 {
			res.Sample(map[string]interface{}{"class": classes[l.K-1].N, "pre": l.Pre, "msg": l.Last.M, "channel": l.Last.Ch, "specified": l.Last.Res + "/" + l.Last.Why})
		}
	})
	if err != nil {
		res.Mismatch("infra:read", err.Error(), nil)
	}
	res.Set("cons_lines", sent)
	res.Set("class_nodes_built", cp.built)
	if len(lockstep) > 0 {
		res.Set("cons_lockstep_differences", lockstep)
	}
}

func minInt(a, b int) int {
	if a < b {
		return a
	}
	return b
}

// replayLine returns true when the line has to be repeated in exclusive mode (suspicious allocation).
func replayLine(res *mbt.Result, cp *classPool, l *xLine, exclusive bool, note func(string)) bool {
	d, err := cp.get(l.K)
	if err != nil {
		res.Mismatch("infra:class", err.Error(), nil)
		return false
	}
	dirty := false
	defer func() { cp.put(l.K, d, dirty) }()
	cls := d.C
	p := d.Rig.NewPeer(false)
	defer func() { d.Rig.DropPeer(p) }()
	detail := map[string]interface{}{"class": cls.N, "pre": l.Pre, "msg": l.Last.M, "channel": l.Last.Ch, "tag": l.Last.Tag,
		"specified": map[string]interface{}{"res": l.Last.Res, "why": l.Last.Why, "queued": l.Last.Q, "reply": l.Last.Reply}}
	// the steps leading to the pre-state
	for i, st := range l.Pre {
		bz, err := d.Concretize(&st.M)
		if err != nil {
			res.Mismatch("infra:concretize", err.Error(), detail)
			dirty = true
			return false
		}
		o := d.realStep(p, byte(st.Ch), bz, cls.Sync)
		if !reflect.DeepEqual(o.projA, o.projB) || len(o.outs) > 0 {
			dirty = true
		}
		if st.M.T == "maj" {
			dirty = true
		}
		realPC := o.hasPRS && !reflect.DeepEqual(o.prsA, o.prsB)
		realSC := !reflect.DeepEqual(o.projA, o.projB)
		if o.out.Panic != "" || o.out.Hung || o.hpanic != "" || o.stopped != st.St || realPC != st.Pc || realSC != st.Sc {
			// the real node has left the specified path at an EARLIER message: that divergence is reported on
			// the line on which that message is the last one; what follows it here is not attributable
			note(fmt.Sprintf("pre-step-diverged:%s", st.M.T))
			dirty = true
			_ = i
			return false
		}
	}
	last := l.Last
	bz, err := d.Concretize(&last.M)
	if err != nil {
		res.Mismatch("infra:concretize", err.Error(), detail)
		dirty = true
		return false
	}
	res.Count(1)
	res.Behaviour()
	o := d.realStep(p, byte(last.Ch), bz, cls.Sync)
	if !reflect.DeepEqual(o.projA, o.projB) || len(o.outs) > 0 || len(last.O) > 0 || len(last.Out) > 0 || last.M.T == "maj" {
		dirty = true
	}
	detail["bytes"] = fmt.Sprintf("%x", bz[:minInt(len(bz), 200)])
	// signature: what went wrong, message type, the branch of the specification the message falls into (the
	// handler-level label where there is one): one signature per (defect, message type), whatever the field values
	label := last.Why
	if last.Hw != "" {
		label = last.Hw
	}
	sig := func(kind string) string { return fmt.Sprintf("peer:cons:%s:%s:%s", kind, last.M.T, label) }
	where := fmt.Sprintf("class %s, %s message (%s) on channel %#x after %d earlier messages", cls.N, last.M.T, last.Tag, last.Ch, len(l.Pre))

	// 1. no panic, no hang, healthy lock
	if o.out.Panic != "" {
		dirty = true
		res.Mismatch(sig("panic"), fmt.Sprintf("%s: the real Receive PANICKED (%s); specified: %s (%s)", where, o.out.Panic, last.Res, last.Why), detail)
		return false
	}
	if o.out.Hung {
		dirty = true
		res.Mismatch(sig("hang"), fmt.Sprintf("%s: the real Receive did not return within 5 s", where), detail)
		return false
	}
	if o.hpanic != "" {
		dirty = true
		res.Mismatch(sig("handler-panic"), fmt.Sprintf("%s: Receive queued the message and the real handleMsg PANICKED (%s) - receiveRoutine would halt consensus; specified: handled without effect or as its well-formed core", where, o.hpanic), detail)
		return false
	}
	if !d.Rig.LockHealthy(5 * time.Second) {
		dirty = true
		res.Mismatch(sig("lock"), where+": the consensus state's mutex is not released (GetRoundState blocks)", detail)
		return false
	}
	// 2. allocation bounded by a small multiple of the message size
	limit := uint64(allocBase + 64*o.msgLen)
	if len(last.O) > 0 {
		// the message is specified to move the round state (a vote that completes a quorum, the part that completes
		// the block: the node then executes and commits a block): that work is the node's own, not the message's
		limit += 256 << 20
	}
	if o.allocB > limit {
		if !exclusive {
			dirty = true
			return true // measure again with every other worker paused
		}
		res.Mismatch(sig("alloc"), fmt.Sprintf("%s: a %d-byte message made the node allocate %d MB (bound: 8 MB + 64 x message size); specified: %s (%s)",
			where, o.msgLen, o.allocB>>20, last.Res, last.Why), detail)
		dirty = true
		return false
	}
	// 3. stopped or not / effect or not
	specPRSChanged := len(last.P) > 0
	specEffect := specPRSChanged || (last.Q != "none") || last.Reply
	realPRSChanged := o.hasPRS && !reflect.DeepEqual(o.prsA, o.prsB)
	realEffect := realPRSChanged || len(o.queued) > 0 || o.reply
	realStateChanged := !reflect.DeepEqual(o.projA, o.projB)
	if last.Res == "stop" {
		if !o.stopped && (realEffect || realStateChanged) {
			res.Mismatch(sig("accepted-malformed"), fmt.Sprintf("%s: specified to be rejected (%s, peer stopped); the real reactor ACCEPTED it (peer state changed: %v, queued for consensus: %d, answered: %v)",
				where, last.Why, realPRSChanged, len(o.queued), o.reply), detail)
			// the damage the accepted message does is looked for below (gossip probe)
		} else if !o.stopped {
			note("spec-stop-real-ignore:" + last.Why)
		}
	} else {
		if o.stopped && specEffect {
			res.Mismatch(sig("rejected-wellformed"), fmt.Sprintf("%s: specified to be accepted (%s); the real reactor stopped the peer", where, last.Why), detail)
			return false
		} else if o.stopped {
			note("spec-ignore-real-stop:" + last.Why)
		}
		if !o.stopped {
			if !specEffect && (realEffect || realStateChanged) {
				res.Mismatch(sig("accepted-impossible"), fmt.Sprintf("%s: specified to have no effect (%s); in the real node it had one (peer state changed: %v, queued: %d, answered: %v, round state changed: %v)",
					where, last.Why, realPRSChanged, len(o.queued), o.reply, realStateChanged), detail)
			}
			if specEffect && !realEffect {
				res.Mismatch(sig("ignored-wellformed"), fmt.Sprintf("%s: specified effect (%s: peer state changed %v, queued %s, answer %v) did not happen in the real node", where, last.Why, specPRSChanged, last.Q, last.Reply), detail)
			}
			// lock-step details (not property level): which of the effects
			if (last.Q != "none") != (len(o.queued) > 0) {
				note("queued-differs:" + last.M.T + ":" + last.Why)
			}
			if last.Reply != o.reply {
				note("reply-differs:" + last.M.T + ":" + last.Why)
			}
		}
	}
	// 3b. every message the decoder takes survives encode/decode unchanged
	if last.Res == "ok" && !o.stopped {
		if bad := consRoundTrip(bz); bad != "" {
			res.Mismatch(fmt.Sprintf("peer:cons:roundtrip:%s", last.M.T), fmt.Sprintf("%s: %s", where, bad), detail)
		} else {
			res.Add("cons_roundtrips", 1)
		}
	}
	// 3c. a message that was already buffered when the peer was stopped is still handed to Receive by the
	//     connection (see lateDelivery): specified to be ignored (PeerMsgs!ReceiveRemoved)
	if o.stopped && last.Res == "stop" {
		rs := d.Rig.Nd.CS.GetRoundState()
		bz2 := consensus.MustEncode(&consensus.HasVoteMessage{Height: rs.Height, Round: rs.Round, Type: 1, Index: 0})
		o2 := Guard(5*time.Second, false, func() { d.Rig.ConR.Receive(consensus.StateChannel, p, bz2) })
		if o2.Panic != "" || o2.Hung {
			if lateDelivery() {
				res.Mismatch("peer:cons:panic:receive-after-stop", fmt.Sprintf("%s: the peer is stopped as specified; the next message of the same peer (already in the connection's read buffer, still delivered by MConnection.recvRoutine) makes the real Receive PANIC (%s); specified: ignored", where, o2.Panic), detail)
			} else {
				note("receive-after-stop-panics-but-not-deliverable")
			}
		}
	}
	// 4. the peer state: structurally sound in any case; equal to the specified one in lock-step
	if o.hasPRS && !o.stopped {
		for name, a := range o.prsA.arrays() {
			if !a.sound() {
				res.Mismatch(sig("peerstate-unsound"), fmt.Sprintf("%s: the peer state's bit array %s now claims %d bits but has %d words: the next SetIndex/Sub/Or/PickRandom on it indexes out of range; specified: %s (%s)",
					where, name, a.Bits, a.Elems, last.Res, last.Why), detail)
				break
			}
		}
		if last.Res == "ok" {
			want := o.prsB
			if specPRSChanged {
				w, err := parseCPRS(last.P[0])
				if err != nil {
					res.Mismatch("infra:parse-prs", err.Error(), detail)
					return false
				}
				want = scaleSpecPRS(w, o.prsA)
			}
			if len(l.Pre) == 0 || specPRSChanged {
				if specPRSChanged && !reflect.DeepEqual(o.prsA, want) {
					note("peerstate-differs:" + last.M.T + ":" + last.Why)
					if os.Getenv("PEER_DEBUG") != "" {
						fmt.Printf("PRS DIFF %s\n  real %+v\n  spec %+v\n", where, o.prsA, want)
					}
				}
			}
		}
	}
	// 5. the round state: unchanged, or changed exactly as by the well-formed core
	if len(last.O) == 0 {
		if realStateChanged {
			res.Mismatch(sig("roundstate-changed"), fmt.Sprintf("%s: specified not to touch the round state; real: %v", where, diffMaps(o.projA, o.projB)), detail)
		}
	} else {
		if df := diffMaps(o.projA, last.O[0].asMap()); len(df) > 0 {
			field := strings.SplitN(df[0], ":", 2)[0]
			res.Mismatch(sig("roundstate:"+field), fmt.Sprintf("%s: round state after the queued message differs from the specified handling of its core: %s", where, strings.Join(df, "; ")), detail)
		}
		if got, want := outKeys(o.outs), outKeys(last.Out); !reflect.DeepEqual(got, want) {
			res.Mismatch(sig("published"), fmt.Sprintf("%s: the real node signed/queued %v, specified %v", where, got, want), detail)
		}
	}
	if len(last.O) > 0 || specEffect {
		res.Distinct(fmt.Sprintf("%d/%v/%s/%s/%d", l.K, len(l.Pre), last.M.T, last.Tag, last.Ch))
	} else if last.Res == "stop" {
		res.Distinct(fmt.Sprintf("%d/%v/%s/%s/%d", l.K, len(l.Pre), last.M.T, last.Tag, last.Ch))
	}
	// 6. the gossip routines: on the sender's new peer state, and - when the round state changed - towards an
	//    honest observer that is at the node's height and round
	if realStateChanged {
		ob := d.Rig.NewPeer(false)
		rs := d.Rig.Nd.CS.GetRoundState()
		lcr := uint32(0)
		if rs.Height > 1 {
			lcr = 1
		}
		d.Rig.ConR.Receive(consensus.StateChannel, ob, consensus.MustEncode(&consensus.NewRoundStepMessage{Height: rs.Height, Round: rs.Round, Step: cstypes.RoundStepPropose, LastCommitRound: lcr}))
		bad := d.gossipProbe(ob)
		d.Rig.DropPeer(ob)
		if bad != "" {
			dirty = true
			res.Mismatch(sig("gossip-panic-own-state"), fmt.Sprintf("%s: the message was taken into the round state, and gossiping that state to an honest peer at the same height/round makes the node's own %s - an unrecovered panic in a reactor goroutine terminates the node", where, bad), detail)
			return false
		}
		res.Add("cons_gossip_probes", 1)
	}
	if realPRSChanged && !o.stopped {
		if bad := d.gossipProbe(p); bad != "" {
			dirty = true
			res.Mismatch(sig("gossip-panic"), fmt.Sprintf("%s: Receive returned, but the peer state it left makes the node's own %s - an unrecovered panic in a reactor goroutine terminates the node", where, bad), detail)
			return false
		}
		res.Add("cons_gossip_probes", 1)
	}
	// 7. an honest peer is still served
	if bad := d.honestFollowUp(); bad != "" {
		dirty = true
		res.Mismatch(sig("honest-after"), fmt.Sprintf("%s: afterwards an honest peer's NewRoundStep is not processed as specified: %s", where, bad), detail)
	}
	return false
}

var _ = kcons.Message{}

// consRoundTrip: M = decode(bytes) is a well-formed message; encode(M) must decode to M again and
// re-encode to the same bytes.
func consRoundTrip(bz []byte) (bad string) {
	defer func() {
		if r := recover(); r != nil {
			bad = fmt.Sprintf("encoding the decoded message PANICKED: %v", r)
		}
	}()
	m1, err := consensus.VerifDecodeMsg(bz)
	if err != nil {
		return ""
	}
	e1 := consensus.MustEncode(m1)
	m2, err := consensus.VerifDecodeMsg(e1)
	if err != nil {
		return fmt.Sprintf("the re-encoded message is refused by the decoder: %v", err)
	}
	if !reflect.DeepEqual(m1, m2) {
		return fmt.Sprintf("decode(encode(M)) differs from M: %+v vs %+v", m2, m1)
	}
	if e2 := consensus.MustEncode(m2); !bytesEqual(e1, e2) {
		return "encode(decode(encode(M))) differs from encode(M)"
	}
	return ""
}

func bytesEqual(a, b []byte) bool { return string(a) == string(b) }

// lateDelivery establishes, once, on a real MConnection, that a packet which is already in the read buffer
// when the connection is stopped from inside onReceive (what Switch.StopPeerForError -> peer.Stop does) is
// still handed to onReceive.
var (
	lateOnce sync.Once
	lateFact bool
)

func lateDelivery() bool {
	lateOnce.Do(func() {
		srv, cli := net.Pipe()
		defer cli.Close()
		var mc *p2pconn.MConnection
		var mu sync.Mutex
		n := 0
		done := make(chan struct{}, 4)
		descs := []*p2pconn.ChannelDescriptor{{ID: 0x20, Priority: 1, SendQueueCapacity: 4, RecvMessageCapacity: 1000, RecvBufferCapacity: 100}}
		cfg := p2p.MConnConfig(configs.DefaultP2PConfig())
		cfg.RecvRate = 1 << 40
		mc = p2pconn.NewMConnectionWithConfig(srv, descs, func(ch byte, b []byte) {
			mu.Lock()
			n++
			first := n == 1
			mu.Unlock()
			if first {
				_ = mc.Stop()
			}
			done <- struct{}{}
		}, func(r interface{}) { done <- struct{}{} }, cfg)
		mc.SetLogger(log.New())
		if mc.Start() != nil {
			return
		}
		go io.Copy(io.Discard, cli)
		two := append(packetMsg(0x20, true, 3), packetMsg(0x20, true, 3)...)
		cli.SetWriteDeadline(time.Now().Add(3 * time.Second))
		cli.Write(two)
		for i := 0; i < 2; i++ {
			select {
			case <-done:
			case <-time.After(3 * time.Second):
			}
		}
		mu.Lock()
		lateFact = n >= 2
		mu.Unlock()
	})
	return lateFact
}

// TestVoteRoundGrowth: the growth probe behind PeerMsgs!CatchupBounded.  ONE peer sends 300 well-formed votes of
// the node's height, each for a different round nobody tracks, in all verification classes (valid, broken
// signature, index out of range, address of another validator, key outside the set), through the real Receive
// and the real handleMsg.  Specified: the node creates vote sets for CatchupLimit of those rounds and refuses
// the rest; compared: the number of the 300 rounds the real HeightVoteSet tracks afterwards.
func TestVoteRoundGrowth(t *testing.T) {
	res := mbt.NewResult()
	defer res.Write()
	classes, err := readClasses(os.Getenv("PEER_DUMP"))
	if err != nil || catchupLimit < 0 {
		res.Mismatch("infra:classes", fmt.Sprint("no class table / catch-up limit: ", err), nil)
		return
	}
	kinds := []struct {
		tag string
		m   func(m *xMsg)
	}{
		{"badsig", func(m *xMsg) { m.Sig = "bad" }}, {"wrongindex", func(m *xMsg) { m.Idx = 4 }}, {"wrongaddr", func(m *xMsg) { m.Who = 3 }},
		{"outsider", func(m *xMsg) { m.Who = 0 }}, {"valid", func(m *xMsg) {}}, {"hugesig", func(m *xMsg) { m.Sig = "huge" }},
	}
	for _, first := range []int{0, 4} { // start the mix with an invalid vote / with a valid one
		for k, c := range classes {
			if c.Sync {
				continue
			}
			d, err := BuildClass(c)
			if err != nil {
				res.Mismatch("infra:class", err.Error(), nil)
				return
			}
			p := d.Rig.NewPeer(false)
			rs := d.Rig.Nd.CS.GetRoundState()
			h, r0 := rs.Height, rs.Round+3
			bad := ""
			for i := 0; i < 300 && bad == ""; i++ {
				m := &xMsg{T: "vote", Kind: "vote", Type: 1, H: int64(h), R: int64(r0) + int64(i), Idx: 0, Who: 1, Bid: &xBid{"zero", 0, "zero"}, Sig: "ok"}
				kinds[(i+first)%len(kinds)].m(m)
				bz, err := d.Concretize(m)
				if err != nil {
					res.Mismatch("infra:concretize", err.Error(), nil)
					return
				}
				o := d.realStep(p, consensus.VoteChannel, bz, false)
				if o.out.Panic != "" || o.out.Hung || o.hpanic != "" {
					bad = fmt.Sprintf("vote %d: panic=%q hung=%v handler=%q", i, o.out.Panic, o.out.Hung, o.hpanic)
				}
			}
			res.Count(300)
			res.Behaviour()
			tracked := 0
			votes := d.Rig.Nd.CS.GetRoundState().Votes
			for i := 0; i < 300; i++ {
				if votes.Prevotes(r0+uint32(i)) != nil {
					tracked++
				}
			}
			detail := map[string]interface{}{"class": c.N, "height": h, "first_round": r0, "votes": 300, "mix_starts_with": kinds[first].tag, "tracked": tracked, "specified": catchupLimit}
			if bad != "" {
				res.Mismatch("peer:cons:round-growth:panic", "class "+c.N+": "+bad, detail)
			} else if tracked != catchupLimit {
				res.Mismatch("peer:cons:round-growth:vote", fmt.Sprintf("class %s: one peer sent 300 well-formed votes for 300 different untracked rounds of height %d (valid / bad signature / wrong index / wrong address / unknown key, starting with %s); the real node now tracks %d of those rounds, specified: %d (PeerMsgs!CatchupLimit: the peer is charged when the round is created, before the vote is verified) - memory grows with every further vote and the peer is never refused",
					c.N, h, kinds[first].tag, tracked, catchupLimit), detail)
			}
			res.Distinct(fmt.Sprintf("growth/%d/%d", k, first))
			d.Rig.DropPeer(p)
			d.Rig.Close()
		}
	}
}
