//go:build verif

package peer

// TestSecretFraming: the frame layer below MConnection, against a peer that HOLDS THE SESSION KEYS and
// seals whatever it likes: frames whose length field is 0, 1025, 2^32-1, frames with a broken MAC, and
// the wire items of Framing.tla cut into properly sealed frames.  The node side is the real stack:
// conn.MakeSecretConnection (real handshake) and a real MConnection on top of it.  The adversary's
// cryptography (X25519, merlin transcript, HKDF-SHA256, ChaCha20-Poly1305, the frame layout) is written
// here from the protocol description, as in harness/conn/handshake_test.go.

import (
	"bytes"
	"crypto/ecdsa"
	"crypto/sha256"
	"encoding/binary"
	"encoding/json"
	"fmt"
	"io"
	"net"
	"os"
	"reflect"
	"sync"
	"testing"
	"time"

	"github.com/gogo/protobuf/proto"
	"github.com/gtank/merlin"
	"golang.org/x/crypto/chacha20poly1305"
	"golang.org/x/crypto/curve25519"
	"golang.org/x/crypto/hkdf"

	"github.com/kardiachain/go-kardia/configs"
	"github.com/kardiachain/go-kardia/lib/crypto"
	cryptoenc "github.com/kardiachain/go-kardia/lib/crypto/encoding"
	"github.com/kardiachain/go-kardia/lib/log"
	"github.com/kardiachain/go-kardia/lib/p2p"
	"github.com/kardiachain/go-kardia/lib/p2p/conn"
	kp2p "github.com/kardiachain/go-kardia/proto/kardiachain/p2p"

	"verifharness/internal/mbt"
)

type advSC struct {
	c          net.Conn
	send, recv [32]byte
	sn, rn     uint64
}

func nonce12(n uint64) []byte {
	b := make([]byte, 12)
	binary.LittleEndian.PutUint64(b[4:], n)
	return b
}

// sealFrame: a frame with an arbitrary length field.
func (a *advSC) sealFrame(lenField uint32, data []byte) []byte {
	frame := make([]byte, 1028)
	binary.LittleEndian.PutUint32(frame, lenField)
	copy(frame[4:], data)
	ae, _ := chacha20poly1305.New(a.send[:])
	out := ae.Seal(nil, nonce12(a.sn), frame, nil)
	a.sn++
	return out
}

func (a *advSC) writeData(b []byte) {
	for len(b) > 0 {
		n := len(b)
		if n > 1024 {
			n = 1024
		}
		a.c.SetWriteDeadline(time.Now().Add(5 * time.Second))
		a.c.Write(a.sealFrame(uint32(n), b[:n]))
		b = b[n:]
	}
}

// handshake with the node as an ordinary (authenticated) peer
func advHandshake(c net.Conn, key *ecdsa.PrivateKey, seed int64) (*advSC, error) {
	return advHandshakeWith(c, key, seed, nil)
}

// advHandshakeWith: custom != nil: after the key exchange the adversary sends these plaintext bytes (sealed) where
// its auth message belongs, and does not wait for the node's.
func advHandshakeWith(c net.Conn, key *ecdsa.PrivateKey, seed int64, custom []byte) (*advSC, error) {
	var priv, pub [32]byte
	h := sha256.Sum256([]byte(fmt.Sprintf("verif-adv-eph-%d", seed)))
	copy(priv[:], h[:])
	p, err := curve25519.X25519(priv[:], curve25519.Basepoint)
	if err != nil {
		return nil, err
	}
	copy(pub[:], p)
	errc := make(chan error, 1)
	go func() {
		c.SetWriteDeadline(time.Now().Add(5 * time.Second))
		_, err := c.Write(append([]byte{34, 0x0a, 32}, pub[:]...))
		errc <- err
	}()
	hdr := make([]byte, 35)
	c.SetReadDeadline(time.Now().Add(5 * time.Second))
	if _, err := io.ReadFull(c, hdr); err != nil {
		return nil, err
	}
	if err := <-errc; err != nil {
		return nil, err
	}
	var rem [32]byte
	copy(rem[:], hdr[3:])
	lo, hi := pub, rem
	if bytes.Compare(lo[:], hi[:]) >= 0 {
		lo, hi = rem, pub
	}
	locIsLeast := bytes.Equal(pub[:], lo[:])
	t := merlin.NewTranscript("TENDERMINT_SECRET_CONNECTION_TRANSCRIPT_HASH")
	t.AppendMessage([]byte("EPHEMERAL_LOWER_PUBLIC_KEY"), lo[:])
	t.AppendMessage([]byte("EPHEMERAL_UPPER_PUBLIC_KEY"), hi[:])
	dh, err := curve25519.X25519(priv[:], rem[:])
	if err != nil {
		return nil, err
	}
	t.AppendMessage([]byte("DH_SECRET"), dh)
	r := hkdf.New(sha256.New, dh, nil, []byte("TENDERMINT_SECRET_CONNECTION_KEY_AND_CHALLENGE_GEN"))
	var res [96]byte
	if _, err := io.ReadFull(r, res[:]); err != nil {
		return nil, err
	}
	a := &advSC{c: c}
	if locIsLeast {
		copy(a.recv[:], res[0:32])
		copy(a.send[:], res[32:64])
	} else {
		copy(a.send[:], res[0:32])
		copy(a.recv[:], res[32:64])
	}
	if custom != nil {
		go io.Copy(io.Discard, c)
		a.writeData(custom)
		return a, nil
	}
	challenge := t.ExtractBytes([]byte("SECRET_CONNECTION_MAC"), 32)
	sig, err := crypto.Sign(challenge, key)
	if err != nil {
		return nil, err
	}
	pk, _ := cryptoenc.PubKeyToProto(key.PublicKey)
	ab, _ := proto.Marshal(&kp2p.AuthSigMessage{PubKey: pk, Sig: sig})
	auth := append(proto.EncodeVarint(uint64(len(ab))), ab...)
	go func() {
		c.SetWriteDeadline(time.Now().Add(5 * time.Second))
		_, err := c.Write(a.sealFrame(uint32(len(auth)), auth))
		errc <- err
	}()
	sealed := make([]byte, 1028+16)
	c.SetReadDeadline(time.Now().Add(5 * time.Second))
	if _, err := io.ReadFull(c, sealed); err != nil {
		return nil, err
	}
	a.rn = 1 // the node's auth frame used its nonce 0
	if err := <-errc; err != nil {
		return nil, err
	}
	c.SetReadDeadline(time.Time{})
	return a, nil
}

type sItem struct {
	K   string `json:"k"`
	Ch  int    `json:"ch"`
	EOF bool   `json:"eof"`
	N   int    `json:"n"`
}

func TestSecretFraming(t *testing.T) {
	res := mbt.NewResult()
	defer res.Write()
	sent, err := mbt.EachLine(os.Getenv("PEER_DUMP"), mbt.EnvInt("PEER_WORKERS", 0), mbt.EnvInt("PEER_LIMIT", 0), mbt.EnvInt("PEER_STRIDE", 1), mbt.Seed(), func(n int, raw []byte) {
		var l fLine
		if err := json.Unmarshal(raw, &l); err != nil || len(l.Items) == 0 {
			return
		}
		replaySecret(res, &l, int64(n))
	})
	if err != nil {
		res.Mismatch("infra:read", err.Error(), nil)
	}
	res.Set("secret_framing_lines", sent)
}

func replaySecret(res *mbt.Result, l *fLine, seed int64) {
	srv, cli := net.Pipe()
	defer cli.Close()
	defer srv.Close()
	nodeKey, _ := crypto.ToECDSA(crypto.Keccak256([]byte("verif-secret-node")))
	advKey, _ := crypto.ToECDSA(crypto.Keccak256([]byte("verif-secret-adversary")))
	type scRes struct {
		sc  *conn.SecretConnection
		err error
	}
	scc := make(chan scRes, 1)
	go func() {
		sc, err := conn.MakeSecretConnection(srv, nodeKey)
		scc <- scRes{sc, err}
	}()
	adv, err := advHandshake(cli, advKey, seed)
	if err != nil {
		res.Mismatch("infra:adv-handshake", err.Error(), nil)
		return
	}
	var nsc scRes
	select {
	case nsc = <-scc:
	case <-time.After(10 * time.Second):
		res.Mismatch("infra:node-handshake", "MakeSecretConnection did not return", nil)
		return
	}
	if nsc.err != nil {
		res.Mismatch("infra:node-handshake", nsc.err.Error(), nil)
		return
	}
	s := &fSession{}
	s.cond = sync.NewCond(&s.mu)
	caps := []int{2000, 3000}
	var descs []*conn.ChannelDescriptor
	for i, id := range framingIDs {
		descs = append(descs, &conn.ChannelDescriptor{ID: id, Priority: 1, SendQueueCapacity: 4, RecvMessageCapacity: caps[i], RecvBufferCapacity: 1024})
	}
	descs = append(descs, &conn.ChannelDescriptor{ID: sentinelCh, Priority: 1, SendQueueCapacity: 4, RecvMessageCapacity: 16, RecvBufferCapacity: 16})
	cfg := p2p.MConnConfig(configs.DefaultP2PConfig())
	cfg.RecvRate, cfg.SendRate = 1<<40, 1<<40
	cfg.PingInterval, cfg.PongTimeout = time.Hour, 30*time.Minute
	cfg.FlushThrottle = time.Millisecond
	// MConnection wants a net.Conn: the secret connection implements it
	mc := conn.NewMConnectionWithConfig(nsc.sc, descs,
		func(ch byte, b []byte) {
			s.mu.Lock()
			if ch == sentinelCh {
				s.sentinel = true
			} else {
				s.delivered = append(s.delivered, fDelivery{ch, len(b)})
			}
			s.cond.Broadcast()
			s.mu.Unlock()
		},
		func(r interface{}) {
			s.mu.Lock()
			if s.err == nil {
				s.err = r
			}
			s.cond.Broadcast()
			s.mu.Unlock()
		}, cfg)
	mc.SetLogger(log.New())
	if err := mc.Start(); err != nil {
		res.Mismatch("infra:mconn", err.Error(), nil)
		return
	}
	defer mc.Stop()
	go io.Copy(io.Discard, cli) // what the node sends (sealed) is not inspected here
	id := func(ch int) int32 {
		switch {
		case ch > 0:
			return int32(framingIDs[ch-1])
		case ch < 0:
			return int32(framingIDs[-ch-1]) + 256
		}
		return 0x55
	}
	raw := func(b []byte) {
		cli.SetWriteDeadline(time.Now().Add(5 * time.Second))
		cli.Write(b)
	}
	closed := false
	for _, it := range l.Items {
		switch it.K {
		case "ping":
			adv.writeData(delimitedPacket(&kp2p.Packet{Sum: &kp2p.Packet_PacketPing{PacketPing: &kp2p.PacketPing{}}}))
		case "pong":
			adv.writeData(delimitedPacket(&kp2p.Packet{Sum: &kp2p.Packet_PacketPong{PacketPong: &kp2p.PacketPong{}}}))
		case "msg":
			adv.writeData(packetMsg(id(it.Ch), it.EOF, it.N))
		case "frame0":
			raw(adv.sealFrame(0, nil))
		case "frame0x200":
			for i := 0; i < 200; i++ {
				raw(adv.sealFrame(0, nil))
			}
		case "framebig":
			raw(adv.sealFrame(1025, bytes.Repeat([]byte{7}, 1024)))
		case "framemax":
			raw(adv.sealFrame(0xffffffff, bytes.Repeat([]byte{7}, 1024)))
		case "framebadmac":
			f := adv.sealFrame(3, []byte{1, 2, 3})
			f[100] ^= 1
			raw(f)
		case "frameshort":
			raw(adv.sealFrame(3, []byte{1, 2, 3})[:500])
			cli.Close()
			closed = true
		case "close":
			cli.Close()
			closed = true
		}
	}
	var wantDel []fDelivery
	wantStop := ""
	for _, rawE := range l.Effs {
		var e []interface{}
		json.Unmarshal(rawE, &e)
		switch e[0].(string) {
		case "deliver":
			wantDel = append(wantDel, fDelivery{framingIDs[int(e[1].(float64))-1], int(e[2].(float64))})
		case "stop":
			wantStop = e[1].(string)
		}
	}
	detail := map[string]interface{}{"wire_items": l.Items, "specified_effects": l.Effs}
	res.Count(1)
	res.Behaviour()
	if wantStop == "" && !closed {
		adv.writeData(packetMsg(sentinelCh, true, 1))
		if !s.wait(10*time.Second, func() bool { return s.sentinel || s.err != nil }) {
			res.Mismatch("peer:secretframing:hang", fmt.Sprintf("after %v the connection neither processed a following message nor stopped within 10 s", l.Items), detail)
			return
		}
	} else if !s.wait(10*time.Second, func() bool { return s.err != nil }) {
		res.Mismatch("peer:secretframing:not-stopped:"+wantStop, fmt.Sprintf("after %v the connection is specified to stop (%s); the real one is still running after 10 s", l.Items, wantStop), detail)
		return
	}
	s.mu.Lock()
	gotDel := append([]fDelivery{}, s.delivered...)
	gotErr := s.err
	s.mu.Unlock()
	gotStop := ""
	if gotErr != nil {
		gotStop = stopClass(gotErr)
	}
	if gotStop == "PANIC" {
		res.Mismatch("peer:secretframing:panic", fmt.Sprintf("wire items %v: the receive routine PANICKED (%v)", l.Items, gotErr), detail)
		return
	}
	if (wantStop == "") != (gotStop == "") {
		res.Mismatch("peer:secretframing:stop", fmt.Sprintf("wire items %v: real connection stopped=%q (%v), specified %q", l.Items, gotStop, gotErr, wantStop), detail)
		return
	}
	if (len(wantDel) > 0 || len(gotDel) > 0) && !reflect.DeepEqual(wantDel, gotDel) {
		res.Mismatch("peer:secretframing:delivered", fmt.Sprintf("wire items %v: delivered (channel, length) %v, specified %v", l.Items, gotDel, wantDel), detail)
		return
	}
	if wantStop != "" || len(wantDel) > 0 {
		res.Distinct(fmt.Sprint(l.Items))
	}
}
