//go:build verif

package peer

// Concretisation of the abstract consensus messages of specs/peer/PeerMsgs.tla into wire bytes.
// The messages are assembled from the generated protobuf types (not through MsgToProto), so that
// structurally impossible ones (bit arrays whose word count contradicts their size, absent
// sub-messages, ...) can be produced exactly as the model describes them.

import (
	"bytes"
	"fmt"
	"math"
	"time"

	"github.com/gogo/protobuf/proto"
	"github.com/kardiachain/go-kardia/lib/common"
	"github.com/kardiachain/go-kardia/lib/crypto"
	kcons "github.com/kardiachain/go-kardia/proto/kardiachain/consensus"
	kcrypto "github.com/kardiachain/go-kardia/proto/kardiachain/crypto"
	kbits "github.com/kardiachain/go-kardia/proto/kardiachain/libs/bits"
	kproto "github.com/kardiachain/go-kardia/proto/kardiachain/types"
	"github.com/kardiachain/go-kardia/types"

	"verifharness/node"
)

// model numbers: Big = 2^31-1 (+k just above), Max = maximum of the field's type (-k just below)
const (
	mBig = 2000000000
	mMax = 2147483647
)

func cv64(v int64) uint64 {
	switch {
	case v >= mMax-1000:
		return math.MaxUint64 - uint64(mMax-v)
	case v >= mBig:
		return uint64(math.MaxInt32) + uint64(v-mBig)
	default:
		return uint64(v)
	}
}
func cv32(v int64) uint32 {
	switch {
	case v >= mMax-1000:
		return math.MaxUint32 - uint32(mMax-v)
	case v >= mBig:
		return uint32(math.MaxInt32) + uint32(v-mBig)
	default:
		return uint32(v)
	}
}

// bit counts are int64 on the wire
func cvBits(v int64) int64 {
	switch {
	case v >= mMax-1000:
		return math.MaxInt64 - (mMax - v)
	case v >= mBig:
		return int64(math.MaxInt32) + (v - mBig)
	default:
		return v
	}
}

// inverse mappings (for the projections)
func modelNum64(v uint64) int {
	switch {
	case v > math.MaxUint64-1000:
		return mMax - int(math.MaxUint64-v)
	case v >= math.MaxInt32 && v < math.MaxInt32+1000000:
		return mBig + int(v-math.MaxInt32)
	default:
		return int(v)
	}
}
func modelNum32(v uint32) int {
	switch {
	case v > math.MaxUint32-1000:
		return mMax - int(math.MaxUint32-v)
	case v >= math.MaxInt32 && v < math.MaxInt32+1000000:
		return mBig + int(v-math.MaxInt32)
	default:
		return int(v)
	}
}
func modelBits(v int64) int {
	switch {
	case v > math.MaxInt64-1000:
		return mMax - int(math.MaxInt64-v)
	case v >= math.MaxInt32 && v < math.MaxInt32+1000000:
		return mBig + int(v-math.MaxInt32)
	default:
		return int(v)
	}
}

// ---- abstract messages as TLC prints them ----
type xBA struct {
	Present bool  `json:"present"`
	Bits    int64 `json:"bits"`
	Elems   int   `json:"elems"`
	Ones    []int `json:"ones"`
}
type xBid struct {
	Hash  string `json:"hash"`
	Total int64  `json:"total"`
	Phash string `json:"phash"`
}
type xMsg struct {
	T      string `json:"t"`
	H      int64  `json:"h"`
	R      int64  `json:"r"`
	Step   int64  `json:"step"`
	Lcr    int64  `json:"lcr"`
	Secs   int64  `json:"secs"`
	Total  int64  `json:"total"`
	Phash  string `json:"phash"`
	Ba     *xBA   `json:"ba"`
	Commit bool   `json:"commit"`
	Type   int64  `json:"type"`
	Idx    int64  `json:"idx"`
	Bid    *xBid  `json:"bid"`
	Pol    int64  `json:"pol"`
	Sig    string `json:"sig"`
	Who    int    `json:"who"`
	Kind   string `json:"kind"`
}

func (w *xBA) proto() *kbits.BitArray {
	if w == nil || !w.Present {
		return nil
	}
	b := &kbits.BitArray{Bits: cvBits(w.Bits)}
	if w.Elems > 0 {
		b.Elems = make([]uint64, w.Elems)
		for _, i := range w.Ones {
			if i/64 < w.Elems {
				b.Elems[i/64] |= 1 << uint(i%64)
			}
		}
	}
	return b
}

var zHash = common.BytesToHash([]byte("ZZZZZZZZZZZZZZZZZZZZZZZZZZZZZZZZ"))
var outsider = func() *types.DefaultPrivValidator {
	k, _ := crypto.ToECDSA(crypto.Keccak256([]byte("verif-outsider")))
	return types.NewDefaultPrivValidator(k)
}()

func (d *ClassNode) hashOf(class string, parts bool) []byte {
	h := d.bindH
	switch class {
	case "zero":
		return nil
	case "A":
		hb := d.hb[h]
		if parts {
			return hb.id["A"].PartsHeader.Hash.Bytes()
		}
		return hb.id["A"].Hash.Bytes()
	default:
		return zHash.Bytes()
	}
}

// scaled: the huge classes of a PROPOSAL's PartsHeader.Total are scaled down so that the real
// allocation can be survived and measured: 2^28 / 2^29 bits (32 / 64 MB) where only the peer-state bit
// array depends on it, 2^24 / 2^25 where the consensus state would also allocate 8 bytes per part.
func cvTotal(v int64, scale int) uint32 {
	if scale > 0 && v >= mBig {
		if v >= mMax-1000 {
			return 1 << uint(scale+1)
		}
		return 1 << uint(scale)
	}
	return cv32(v)
}

func (d *ClassNode) bidProto(b *xBid, scale int) kproto.BlockID {
	return kproto.BlockID{Hash: d.hashOf(b.Hash, false),
		PartSetHeader: kproto.PartSetHeader{Total: cvTotal(b.Total, scale), Hash: d.hashOf(b.Phash, true)}}
}

// registerBid remembers the abstract name of a catalogue block id for the projections.
func (d *ClassNode) registerBid(name string, id kproto.BlockID) {
	if name == "nil" || name == "A" {
		return
	}
	ph := types.PartSetHeader{Total: id.PartSetHeader.Total, Hash: common.BytesToHash(id.PartSetHeader.Hash)}
	d.extra[idKey(types.BlockID{Hash: common.BytesToHash(id.Hash), PartsHeader: ph})] = name
	d.extra[psKey(ph)] = name
}

// bidTag is BidName of the specification.
func bidTag(b *xBid) string {
	is := func(h string, t int64, p string) bool { return b.Hash == h && b.Total == t && b.Phash == p }
	switch {
	case is("zero", 0, "zero"):
		return "nil"
	case is("A", 1, "A"):
		return "A"
	case is("Z", 1, "Z"):
		return "Z"
	case is("A", 0, "zero"):
		return "hashonly"
	case is("zero", 1, "A"):
		return "partsonly"
	case is("A", 2, "A"):
		return "total2"
	case is("A", 1601, "A"):
		return "total1601"
	case is("A", 1602, "A"):
		return "total1602"
	case is("A", mBig, "A"):
		return "totalbig"
	case is("A", mMax, "A"):
		return "totalmax"
	}
	return "?" // not one of the wire ids of PeerMsgs!BidsW
}

// Concretize returns the wire bytes of the abstract message, or an error if it cannot be bound.
// acceptable: the proposal would be taken by setProposal (the consensus state then allocates too).
func (d *ClassNode) Concretize(m *xMsg) ([]byte, error) {
	rs := d.Rig.Nd.CS.GetRoundState()
	w := d.Rig.W
	var pb kcons.Message
	switch m.T {
	case "unknown":
		switch m.Kind {
		case "empty":
			return []byte{}, nil
		case "field15":
			return []byte{0x7a, 0x02, 0x08, 0x01}, nil // field 15, length-delimited: not a member of the oneof
		default:
			return []byte{0xff, 0xff, 0xff, 0xff}, nil
		}
	case "nrs":
		pb.Sum = &kcons.Message_NewRoundStep{NewRoundStep: &kcons.NewRoundStep{Height: cv64(m.H), Round: cv32(m.R), Step: cv32(m.Step),
			SecondsSinceStartTime: cv64(m.Secs), LastCommitRound: cv32(m.Lcr)}}
	case "nvb":
		pb.Sum = &kcons.Message_NewValidBlock{NewValidBlock: &kcons.NewValidBlock{Height: cv64(m.H), Round: cv32(m.R),
			BlockPartSetHeader: kproto.PartSetHeader{Total: cv32(m.Total), Hash: d.hashOf(m.Phash, true)}, BlockParts: m.Ba.proto(), IsCommit: m.Commit}}
	case "hv":
		pb.Sum = &kcons.Message_HasVote{HasVote: &kcons.HasVote{Height: cv64(m.H), Round: cv32(m.R), Type: kproto.SignedMsgType(m.Type), Index: cv32(m.Idx)}}
	case "maj":
		id := d.bidProto(m.Bid, 0)
		d.registerBid(bidTag(m.Bid), id)
		pb.Sum = &kcons.Message_VoteSetMaj23{VoteSetMaj23: &kcons.VoteSetMaj23{Height: cv64(m.H), Round: cv32(m.R), Type: kproto.SignedMsgType(m.Type), BlockID: id}}
	case "vsb":
		id := d.bidProto(m.Bid, 0)
		v := &kcons.VoteSetBits{Height: cv64(m.H), Round: cv32(m.R), Type: kproto.SignedMsgType(m.Type), BlockID: id}
		if b := m.Ba.proto(); b != nil {
			v.Votes = *b
		}
		pb.Sum = &kcons.Message_VoteSetBits{VoteSetBits: v}
	case "pol":
		v := &kcons.ProposalPOL{Height: cv64(m.H), ProposalPolRound: cv32(m.R)}
		if b := m.Ba.proto(); b != nil {
			v.ProposalPol = *b
		}
		pb.Sum = &kcons.Message_ProposalPol{ProposalPol: v}
	case "prop":
		scale := 28
		if m.Sig == "ok" && uint64(m.H) == rs.Height && uint32(m.R) == rs.Round && rs.Proposal == nil && rs.ProposalBlockParts == nil {
			scale = 24
		}
		id := d.bidProto(m.Bid, scale)
		d.registerBid(bidTag(m.Bid), id)
		p := &kproto.Proposal{Height: cv64(m.H), Round: cv32(m.R), PolRound: cv32(m.Pol), BlockID: id, Timestamp: time.Now()}
		if m.Sig != "none" {
			if err := w.Privs[m.Who-1].SignProposal(node.ChainID, p); err != nil {
				return nil, err
			}
			if m.Sig == "bad" {
				p.Signature[7] ^= 0x10
			}
		}
		pb.Sum = &kcons.Message_Proposal{Proposal: &kcons.Proposal{Proposal: *p}}
	case "part":
		hb := d.hb[d.bindH]
		var part kproto.Part
		switch m.Kind {
		case "A0":
			pp, err := hb.parts["A"][0].ToProto()
			if err != nil {
				return nil, err
			}
			part = *pp
			part.Index = cv32(m.Idx)
		case "big":
			part = kproto.Part{Index: cv32(m.Idx), Bytes: make([]byte, types.BlockPartSizeBytes+1), Proof: kcrypto.Proof{Total: 1, LeafHash: make([]byte, 32)}}
		case "badproof":
			part = kproto.Part{Index: cv32(m.Idx), Bytes: []byte{1, 2, 3}, Proof: kcrypto.Proof{Total: 1, LeafHash: make([]byte, 31)}}
		default: // junk
			part = kproto.Part{Index: cv32(m.Idx), Bytes: []byte{1, 2, 3}, Proof: kcrypto.Proof{Total: 1, LeafHash: make([]byte, 32)}}
		}
		pb.Sum = &kcons.Message_BlockPart{BlockPart: &kcons.BlockPart{Height: cv64(m.H), Round: cv32(m.R), Part: part}}
	case "vote":
		if m.Kind == "nil" {
			pb.Sum = &kcons.Message_Vote{Vote: &kcons.Vote{}}
			break
		}
		id := d.bidProto(m.Bid, 0)
		d.registerBid(bidTag(m.Bid), id)
		pv := outsider
		if m.Who >= 1 {
			pv = w.Privs[m.Who-1]
		}
		v := &kproto.Vote{Type: kproto.SignedMsgType(m.Type), Height: cv64(m.H), Round: cv32(m.R), BlockID: id, Timestamp: time.Now(),
			ValidatorAddress: pv.GetAddress().Bytes(), ValidatorIndex: cv32(m.Idx)}
		if m.Sig != "none" {
			if err := pv.SignVote(node.ChainID, v); err != nil {
				return nil, err
			}
			if m.Sig == "bad" {
				v.Signature[7] ^= 0x10
			}
			if m.Sig == "huge" {
				v.Signature = bytes.Repeat([]byte{1}, 500000)
			}
		}
		d.rounds[v.Round] = true
		pb.Sum = &kcons.Message_Vote{Vote: &kcons.Vote{Vote: v}}
	default:
		return nil, fmt.Errorf("unknown abstract message type %q", m.T)
	}
	return proto.Marshal(&pb)
}
