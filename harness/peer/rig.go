//go:build verif

// Package peer binds specs/peer (property C18: no message from a peer can crash the node) to the
// real reactors of /repo: ONE real consensus node (harness/node.BuildNode: real BlockChain on a
// staking genesis, stores, tx pool, evidence pool, BlockExecutor, ConsensusState with the mock
// ticker) behind the real ConsensusManager, block-sync reactor, tx-pool reactor, evidence reactor
// and PEX reactor, all registered in a real p2p.Switch.  Peers are stubs (StubPeer) whose Receive
// side is the driver: it calls Reactor.Receive(chID, peer, bytes) directly (or feeds a real
// MConnection) with the bytes chosen by the TLA+ model or derived from them by mutation.
package peer

import (
	"fmt"
	"net"
	"os"
	"path/filepath"
	"runtime"
	"sync"
	"sync/atomic"
	"time"

	bcr "github.com/kardiachain/go-kardia/blockchain"
	"github.com/kardiachain/go-kardia/configs"
	"github.com/kardiachain/go-kardia/consensus"
	"github.com/kardiachain/go-kardia/kai/state/cstate"
	"github.com/kardiachain/go-kardia/lib/crypto"
	"github.com/kardiachain/go-kardia/lib/log"
	"github.com/kardiachain/go-kardia/lib/p2p"
	"github.com/kardiachain/go-kardia/lib/p2p/conn"
	"github.com/kardiachain/go-kardia/lib/p2p/pex"
	"github.com/kardiachain/go-kardia/lib/service"
	"github.com/kardiachain/go-kardia/mainchain/tx_pool"
	"github.com/kardiachain/go-kardia/types"
	"github.com/kardiachain/go-kardia/types/evidence"

	"verifharness/node"
)

// ---------------------------------------------------------------- stub peer

// Sent is one message the node sent to the peer.
type Sent struct {
	Ch    byte
	Bytes []byte
}

// StubPeer implements p2p.Peer.  Everything the node sends is recorded; IsRunning calls are
// counted (every iteration of a gossip routine starts with one), so the driver can wait for "the
// routine has completed k iterations" without sleeping.
type StubPeer struct {
	*service.BaseService
	id       p2p.ID
	addr     *p2p.NetAddress
	outbound bool

	mu    sync.Mutex
	kv    map[string]interface{}
	sent  []Sent
	polls int64
	cond  *sync.Cond
}

var peerSeq int64

func NewStubPeer(outbound bool) *StubPeer {
	n := atomic.AddInt64(&peerSeq, 1)
	k, _ := crypto.ToECDSA(crypto.Keccak256([]byte(fmt.Sprintf("verif-peer-%d", n))))
	nk := p2p.NodeKey{PrivKey: k}
	addr := p2p.NewNetAddressIPPort(net.IPv4(8, byte(n>>16), byte(n>>8), byte(n)), 26656)
	addr.ID = nk.ID()
	p := &StubPeer{id: nk.ID(), addr: addr, outbound: outbound, kv: map[string]interface{}{}}
	p.cond = sync.NewCond(&p.mu)
	p.BaseService = service.NewBaseService(nil, "StubPeer", p)
	_ = p.Start()
	return p
}

func (p *StubPeer) FlushStop() { _ = p.Stop() }
func (p *StubPeer) record(ch byte, b []byte) bool {
	p.mu.Lock()
	if len(p.sent) < 64 {
		p.sent = append(p.sent, Sent{ch, append([]byte(nil), b...)})
	}
	p.mu.Unlock()
	return true
}
func (p *StubPeer) TrySend(ch byte, b []byte) bool { return p.record(ch, b) }
func (p *StubPeer) Send(ch byte, b []byte) bool    { return p.record(ch, b) }
func (p *StubPeer) TakeSent() []Sent {
	p.mu.Lock()
	defer p.mu.Unlock()
	s := p.sent
	p.sent = nil
	return s
}
func (p *StubPeer) NodeInfo() p2p.NodeInfo {
	return p2p.DefaultNodeInfo{DefaultNodeID: p.id, ListenAddr: p.addr.DialString()}
}
func (p *StubPeer) Status() conn.ConnectionStatus { return conn.ConnectionStatus{} }
func (p *StubPeer) ID() p2p.ID                    { return p.id }
func (p *StubPeer) IsOutbound() bool              { return p.outbound }
func (p *StubPeer) IsPersistent() bool            { return false }
func (p *StubPeer) Get(key string) interface{} {
	p.mu.Lock()
	defer p.mu.Unlock()
	return p.kv[key]
}
func (p *StubPeer) Set(key string, v interface{}) {
	p.mu.Lock()
	p.kv[key] = v
	p.mu.Unlock()
}
func (p *StubPeer) RemoteIP() net.IP            { return p.addr.IP }
func (p *StubPeer) SocketAddr() *p2p.NetAddress { return p.addr }
func (p *StubPeer) RemoteAddr() net.Addr        { return &net.TCPAddr{IP: p.addr.IP, Port: 8800} }
func (p *StubPeer) CloseConn() error            { return nil }

// IsRunning counts the polls of the gossip routines.
func (p *StubPeer) IsRunning() bool {
	p.mu.Lock()
	p.polls++
	p.cond.Broadcast()
	p.mu.Unlock()
	return p.BaseService.IsRunning()
}

// WaitPolls blocks until IsRunning has been called n more times (or the deadline passes: false).
func (p *StubPeer) WaitPolls(n int64, d time.Duration) bool {
	deadline := time.Now().Add(d)
	t := time.AfterFunc(d, func() { p.mu.Lock(); p.cond.Broadcast(); p.mu.Unlock() })
	defer t.Stop()
	p.mu.Lock()
	defer p.mu.Unlock()
	target := p.polls + n
	for p.polls < target {
		if time.Now().After(deadline) {
			return false
		}
		p.cond.Wait()
	}
	return true
}

// ---------------------------------------------------------------- rig

// RigOpts selects the node configuration of a state class.
type RigOpts struct {
	Me          int  // validator index of the node (1-based; 0 = not a validator)
	Syncing     bool // block sync active, consensus reactor in wait-sync
	NoBroadcast bool // TxPoolConfig.Broadcast = false (the tx fetcher only runs when broadcasting is on)
	SeedMode    bool // pex.ReactorConfig.SeedMode
	Powers      []int64
}

// Rig is one real node with all its reactors in a switch.
type Rig struct {
	O    RigOpts
	W    *node.World
	Nd   *node.Node
	Sw   *p2p.Switch
	ConR *consensus.ConsensusManager
	BcR  *bcr.BlockchainReactor
	TxR  *tx_pool.Reactor
	EvR  *evidence.Reactor
	PexR *pex.Reactor
	Book pex.AddrBook
	dir  string
}

var rigSeq int64

func NewRig(o RigOpts) (*Rig, error) {
	if o.Powers == nil {
		o.Powers = []int64{1, 1, 1, 1}
	}
	w := node.NewWorld(o.Powers)
	nd, err := node.BuildNode(w, o.Me, node.Opts{Fresh: true})
	if err != nil {
		return nil, err
	}
	r := &Rig{O: o, W: w, Nd: nd}
	if o.Me == 0 {
		// mainchain/backend.go gives every node a PrivValidator (the node key), validator or not
		nd.CS.SetPrivValidator(outsider)
	}
	// the switch, as node/node.go createSwitch builds it (transport not listening)
	k, _ := crypto.ToECDSA(crypto.Keccak256([]byte("verif-switch")))
	nk := p2p.NodeKey{PrivKey: k}
	ni := p2p.DefaultNodeInfo{DefaultNodeID: nk.ID(), ListenAddr: "127.0.0.1:26656", Network: node.ChainID, Version: "1", Moniker: "verif"}
	pcfg := configs.DefaultP2PConfig()
	tr := p2p.NewMultiplexTransport(ni, nk, p2p.MConnConfig(pcfg))
	sw := p2p.NewSwitch(pcfg, tr)
	sw.SetLogger(log.New())
	sw.SetNodeKey(&nk)
	sw.SetNodeInfo(ni)
	r.Sw = sw

	fs := configs.DefaultFastSyncConfig()
	fs.Enable = o.Syncing
	// mainchain/backend.go: block-sync reactor, consensus manager, tx-pool reactor, evidence reactor
	be := cstate.NewBlockExecutor(nd.Store, log.New(), nd.EvPool, nd.BO)
	r.BcR = bcr.NewBlockchainReactor(nd.CS.VerifState(), be, nd.BO, fs)
	r.ConR = consensus.NewConsensusManager(nd.CS, &configs.FastSyncConfig{Enable: true})
	r.ConR.SetLogger(log.New())
	r.ConR.SetEventBus(nd.Bus)
	tcfg := tx_pool.DefaultTxPoolConfig
	tcfg.Broadcast = !o.NoBroadcast
	r.TxR = tx_pool.NewReactor(tcfg, nd.TxPool)
	r.TxR.SetLogger(log.New())
	r.EvR = evidence.NewReactor(nd.EvPool)
	r.EvR.SetLogger(log.New())
	// node/node.go createPEXReactorAndAddToSwitch (never started: its routines dial out)
	n := atomic.AddInt64(&rigSeq, 1)
	r.dir = filepath.Join(scratch(), fmt.Sprintf("rig-%d-%d", os.Getpid(), n))
	_ = os.MkdirAll(r.dir, 0o755)
	r.Book = pex.NewAddrBook(filepath.Join(r.dir, "addrbook.json"), true)
	r.PexR = pex.NewReactor(r.Book, &pex.ReactorConfig{SeedMode: o.SeedMode})
	r.PexR.SetLogger(log.New())

	sw.AddReactor("BLOCKCHAIN", r.BcR)
	sw.AddReactor("CONSENSUS", r.ConR)
	sw.AddReactor("TXPOOL", r.TxR)
	sw.AddReactor("EVIDENCE", r.EvR)
	sw.AddReactor("PEX", r.PexR)

	// the consensus reactor is started in wait-sync mode (so that OnStart does not start the
	// consensus state's own goroutines: the driver is the receiveRoutine) and then switched
	if err := r.ConR.Start(); err != nil {
		return nil, err
	}
	r.ConR.VerifSetWaitSync(o.Syncing)
	nd.CS.VerifSetGossipSleep(time.Millisecond, time.Millisecond)
	if err := r.TxR.Start(); err != nil {
		return nil, err
	}
	if err := r.EvR.Start(); err != nil {
		return nil, err
	}
	return r, nil
}

func scratch() string {
	if s := os.Getenv("VERIF_SCRATCH"); s != "" {
		return s
	}
	return os.TempDir()
}

func (r *Rig) Close() {
	r.ConR.VerifSetWaitSync(true) // OnStop would otherwise wait for the (never started) consensus state
	_ = r.ConR.Stop()
	_ = r.TxR.Stop()
	_ = r.EvR.Stop()
	r.Nd.Close()
	os.RemoveAll(r.dir)
}

// NewPeer connects a stub peer the way Switch.addPeer does for the reactors that keep per-peer
// state, WITHOUT starting their per-peer goroutines (consensus gossip routines are run under
// recover by the gossip probe; the evidence broadcast routine is irrelevant for Receive).
func (r *Rig) NewPeer(outbound bool) *StubPeer {
	p := NewStubPeer(outbound)
	r.ConR.InitPeer(p)
	p2p.AddPeerToSwitchPeerSet(r.Sw, p)
	r.TxR.AddPeer(p)
	return p
}

// PeerState returns the consensus reactor's state for the peer (nil after RemovePeer).
func PeerState(p p2p.Peer) *consensus.PeerState {
	ps, _ := p.Get(types.PeerStateKey).(*consensus.PeerState)
	return ps
}

// ---------------------------------------------------------------- guarded call

// Outcome of one guarded call of real code.
type Outcome struct {
	Panic  string // non-empty: the call panicked
	Hung   bool   // the call did not return within the deadline
	AllocB uint64 // bytes allocated during the call (TotalAlloc delta; other goroutines idle)
	Wall   time.Duration
}

var allocMu sync.Mutex

// Guard runs f under recover with a deadline.  With measure=true the call is serialised with all
// other measured calls of the process and the TotalAlloc delta is returned.
func Guard(deadline time.Duration, measure bool, f func()) Outcome {
	var o Outcome
	done := make(chan struct{})
	if measure {
		allocMu.Lock()
		defer allocMu.Unlock()
	}
	var m1, m2 runtime.MemStats
	if measure {
		runtime.ReadMemStats(&m1)
	}
	t0 := time.Now()
	go func() {
		defer close(done)
		defer func() {
			if r := recover(); r != nil {
				s := fmt.Sprint(r)
				if len(s) > 300 {
					s = s[:300]
				}
				if s == "" {
					s = "panic"
				}
				o.Panic = s
			}
		}()
		f()
	}()
	select {
	case <-done:
	case <-time.After(deadline):
		o.Hung = true
	}
	o.Wall = time.Since(t0)
	if measure {
		runtime.ReadMemStats(&m2)
		o.AllocB = m2.TotalAlloc - m1.TotalAlloc
	}
	return o
}

// LockHealthy reports whether the consensus state's mutex can still be taken.
func (r *Rig) LockHealthy(d time.Duration) bool {
	done := make(chan struct{})
	go func() { r.Nd.CS.GetRoundState(); close(done) }()
	select {
	case <-done:
		return true
	case <-time.After(d):
		return false
	}
}
