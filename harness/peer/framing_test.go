//go:build verif

package peer

// TestFraming: every behaviour of MC_Framing (a sequence of wire items written by a hostile peer) is fed
// to a REAL MConnection through the driver's end of a pipe; compared with Framing.tla: what is delivered
// to onReceive (channel and length, in order), that pings are answered, whether and why the connection
// stops - and that it does so without panic (MConnection._recover would turn one into a stop with a
// "recovered from panic" reason) and without waiting for bytes that never come.

import (
	"encoding/json"
	"fmt"
	"io"
	"net"
	"os"
	"reflect"
	"strings"
	"sync"
	"testing"
	"time"

	"github.com/gogo/protobuf/proto"
	"github.com/kardiachain/go-kardia/configs"
	"github.com/kardiachain/go-kardia/lib/log"
	"github.com/kardiachain/go-kardia/lib/p2p"
	"github.com/kardiachain/go-kardia/lib/p2p/conn"
	kp2p "github.com/kardiachain/go-kardia/proto/kardiachain/p2p"

	"verifharness/internal/mbt"
	"verifharness/node"
)

type fItem struct {
	K   string `json:"k"`
	Ch  int    `json:"ch"`
	EOF bool   `json:"eof"`
	N   int    `json:"n"`
}
type fLine struct {
	Items []fItem           `json:"items"`
	Effs  []json.RawMessage `json:"effs"`
}

const sentinelCh = 0x7f

var framingIDs = []byte{0x20, 0x21}

func delimitedPacket(p *kp2p.Packet) []byte {
	b, err := proto.Marshal(p)
	if err != nil {
		panic(err)
	}
	return append(proto.EncodeVarint(uint64(len(b))), b...)
}

func packetMsg(id int32, eof bool, n int) []byte {
	data := make([]byte, n)
	for i := range data {
		data[i] = byte(i)
	}
	return delimitedPacket(&kp2p.Packet{Sum: &kp2p.Packet_PacketMsg{PacketMsg: &kp2p.PacketMsg{ChannelID: id, EOF: eof, Data: data}}})
}

type fDelivery struct {
	ch byte
	n  int
}

type fSession struct {
	mu        sync.Mutex
	cond      *sync.Cond
	delivered []fDelivery
	sentinel  bool
	err       interface{}
	pongs     int
}

func (s *fSession) wait(d time.Duration, pred func() bool) bool {
	deadline := time.Now().Add(d)
	t := time.AfterFunc(d, func() { s.mu.Lock(); s.cond.Broadcast(); s.mu.Unlock() })
	defer t.Stop()
	s.mu.Lock()
	defer s.mu.Unlock()
	for !pred() {
		if time.Now().After(deadline) {
			return false
		}
		s.cond.Wait()
	}
	return true
}

func stopClass(e interface{}) string {
	s := fmt.Sprint(e)
	switch {
	case strings.Contains(s, "recovered from panic"):
		return "PANIC"
	case strings.Contains(s, "unknown channel"):
		return "chan"
	case strings.Contains(s, "exceeds available capacity"):
		return "cap"
	case strings.Contains(s, "exceeds max size"):
		return "size"
	case strings.Contains(s, "unknown message type"):
		return "type"
	case strings.Contains(s, "EOF") || strings.Contains(s, "closed pipe"):
		return "eof"
	}
	return "decode"
}

func TestFraming(t *testing.T) {
	res := mbt.NewResult()
	defer res.Write()
	caps := envInts("PEER_FR_CAPS", []int{2000, 3000})
	maxPayload := mbt.EnvInt("PEER_FR_MAXPAYLOAD", 1024)
	sent, err := mbt.EachLine(os.Getenv("PEER_DUMP"), mbt.EnvInt("PEER_WORKERS", 0), mbt.EnvInt("PEER_LIMIT", 0), mbt.EnvInt("PEER_STRIDE", 1), mbt.Seed(), func(n int, raw []byte) {
		var l fLine
		if err := json.Unmarshal(raw, &l); err != nil || len(l.Items) == 0 {
			return
		}
		replayFraming(res, &l, caps, maxPayload)
		if n%401 == 1 {
			res.Sample(map[string]interface{}{"wire_items": l.Items, "specified_effects": l.Effs})
		}
	})
	if err != nil {
		res.Mismatch("infra:read", err.Error(), nil)
	}
	res.Set("framing_lines", sent)
}

func envInts(name string, def []int) []int {
	s := os.Getenv(name)
	if s == "" {
		return def
	}
	var out []int
	for _, f := range strings.Split(s, ",") {
		var v int
		fmt.Sscan(f, &v)
		out = append(out, v)
	}
	return out
}

func replayFraming(res *mbt.Result, l *fLine, caps []int, maxPayload int) {
	srv, cli := net.Pipe()
	defer cli.Close()
	s := &fSession{}
	s.cond = sync.NewCond(&s.mu)
	var descs []*conn.ChannelDescriptor
	for i, id := range framingIDs {
		descs = append(descs, &conn.ChannelDescriptor{ID: id, Priority: 1, SendQueueCapacity: 4, RecvMessageCapacity: caps[i], RecvBufferCapacity: 1024})
	}
	descs = append(descs, &conn.ChannelDescriptor{ID: sentinelCh, Priority: 1, SendQueueCapacity: 4, RecvMessageCapacity: 16, RecvBufferCapacity: 16})
	cfg := p2p.MConnConfig(configs.DefaultP2PConfig())
	cfg.MaxPacketMsgPayloadSize = maxPayload
	cfg.RecvRate = 1 << 40
	cfg.SendRate = 1 << 40
	cfg.PingInterval = time.Hour
	cfg.PongTimeout = 30 * time.Minute
	cfg.FlushThrottle = time.Millisecond
	mc := conn.NewMConnectionWithConfig(srv, descs,
		func(ch byte, b []byte) {
			s.mu.Lock()
			if ch == sentinelCh {
				s.sentinel = true
			} else {
				s.delivered = append(s.delivered, fDelivery{ch, len(b)})
			}
			s.cond.Broadcast()
			s.mu.Unlock()
		},
		func(r interface{}) {
			s.mu.Lock()
			if s.err == nil {
				s.err = r
			}
			s.cond.Broadcast()
			s.mu.Unlock()
		}, cfg)
	mc.SetLogger(log.New())
	if err := mc.Start(); err != nil {
		res.Mismatch("infra:mconn", err.Error(), nil)
		return
	}
	defer mc.Stop()
	// reader of the driver's end: counts the pongs the node sends
	go func() {
		buf := make([]byte, 4096)
		var acc []byte
		for {
			n, err := cli.Read(buf)
			acc = append(acc, buf[:n]...)
			for {
				ln, m := proto.DecodeVarint(acc)
				if m == 0 || len(acc) < m+int(ln) {
					break
				}
				var p kp2p.Packet
				if proto.Unmarshal(acc[m:m+int(ln)], &p) == nil {
					if _, ok := p.Sum.(*kp2p.Packet_PacketPong); ok {
						s.mu.Lock()
						s.pongs++
						s.cond.Broadcast()
						s.mu.Unlock()
					}
				}
				acc = acc[m+int(ln):]
			}
			if err != nil {
				return
			}
		}
	}()
	id := func(ch int) int32 {
		switch {
		case ch > 0:
			return int32(framingIDs[ch-1])
		case ch < 0:
			return int32(framingIDs[-ch-1]) + 256
		}
		return 0x55
	}
	maxPkt := len(packetMsg(1, true, maxPayload)) - len(proto.EncodeVarint(uint64(len(packetMsg(1, true, maxPayload))-2)))
	_ = maxPkt
	write := func(b []byte) {
		cli.SetWriteDeadline(time.Now().Add(5 * time.Second))
		cli.Write(b)
	}
	closed := false
	for _, it := range l.Items {
		switch it.K {
		case "ping":
			write(delimitedPacket(&kp2p.Packet{Sum: &kp2p.Packet_PacketPing{PacketPing: &kp2p.PacketPing{}}}))
		case "pong":
			write(delimitedPacket(&kp2p.Packet{Sum: &kp2p.Packet_PacketPong{PacketPong: &kp2p.PacketPong{}}}))
		case "msg":
			write(packetMsg(id(it.Ch), it.EOF, it.N))
		case "oversize":
			write(packetMsg(int32(framingIDs[0]), true, maxPayload+1))
		case "nosum":
			write([]byte{0})
		case "lenhuge":
			write(proto.EncodeVarint(uint64(maxPayload + 4096)))
		case "badvarint":
			write([]byte{0xff, 0xff, 0xff, 0xff, 0xff, 0xff, 0xff, 0xff, 0xff, 0xff, 0xff})
		case "garbage":
			write([]byte{5, 0xff, 0xff, 0xff, 0xff, 0xff})
		case "cut":
			write(append(proto.EncodeVarint(100), make([]byte, 50)...))
			cli.Close()
			closed = true
		case "close":
			cli.Close()
			closed = true
		}
	}
	// specified effects
	var wantDel []fDelivery
	wantStop, wantPongs := "", 0
	for _, raw := range l.Effs {
		var e []interface{}
		json.Unmarshal(raw, &e)
		switch e[0].(string) {
		case "deliver":
			wantDel = append(wantDel, fDelivery{framingIDs[int(e[1].(float64))-1], int(e[2].(float64))})
		case "pong":
			wantPongs++
		case "stop":
			wantStop = e[1].(string)
		}
	}
	detail := map[string]interface{}{"wire_items": l.Items, "specified_effects": l.Effs}
	res.Count(1)
	res.Behaviour()
	if wantStop == "" && !closed {
		write(packetMsg(sentinelCh, true, 1))
		if !s.wait(10*time.Second, func() bool { return s.sentinel || s.err != nil }) {
			res.Mismatch("peer:framing:hang", fmt.Sprintf("after %v the connection neither processed a following message nor stopped within 10 s", l.Items), detail)
			return
		}
	} else {
		if !s.wait(10*time.Second, func() bool { return s.err != nil }) {
			res.Mismatch("peer:framing:not-stopped:"+wantStop, fmt.Sprintf("after %v the connection is specified to stop (%s); the real one is still running after 10 s", l.Items, wantStop), detail)
			return
		}
	}
	if wantPongs > 0 {
		s.wait(3*time.Second, func() bool { return s.pongs >= 1 || s.err != nil })
	}
	s.mu.Lock()
	gotDel := append([]fDelivery{}, s.delivered...)
	gotErr := s.err
	pongs := s.pongs
	s.mu.Unlock()
	gotStop := ""
	if gotErr != nil {
		gotStop = stopClass(gotErr)
	}
	if gotStop == "PANIC" {
		res.Mismatch("peer:framing:panic", fmt.Sprintf("wire items %v: the receive routine PANICKED (%v)", l.Items, gotErr), detail)
		return
	}
	if (wantStop == "") != (gotStop == "") {
		res.Mismatch("peer:framing:stop", fmt.Sprintf("wire items %v: real connection stopped=%q (%v), specified %q", l.Items, gotStop, gotErr, wantStop), detail)
		return
	}
	if len(wantDel) == 0 && len(gotDel) == 0 {
	} else if !reflect.DeepEqual(wantDel, gotDel) {
		res.Mismatch("peer:framing:delivered", fmt.Sprintf("wire items %v: delivered (channel, length) %v, specified %v", l.Items, gotDel, wantDel), detail)
		return
	}
	if wantPongs > 0 && wantStop == "" && (pongs < 1 || pongs > wantPongs) {
		res.Mismatch("peer:framing:pong", fmt.Sprintf("wire items %v: %d pings sent, %d pongs received", l.Items, wantPongs, pongs), detail)
	}
	if wantStop != "" && wantStop != gotStop {
		// the reason is lock-step detail (error text), not property level
		res.Add("framing_stop_reason_differs", 1)
	}
	if wantStop != "" || len(wantDel) > 0 {
		res.Distinct(fmt.Sprint(l.Items))
	}
}

var _ = io.EOF

// TestPeerProposerTable prints the proposer table of the real validator set (model constant ProposerOf).
func TestPeerProposerTable(t *testing.T) {
	res := mbt.NewResult()
	defer res.Write()
	w := node.NewWorld([]int64{1, 1, 1, 1})
	res.Set("proposer_table", w.ProposerTable(4, 12))
	res.Count(1)
}
