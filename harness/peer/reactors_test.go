//go:build verif

package peer

// TestReactorsReplay: every transition of MC_PeerReactors (transaction-pool, evidence and peer-exchange
// reactors: state class, earlier messages, last message with the specified outcome) is replayed on the
// real reactor of a real node.  Compared: Receive returns (no panic, no hang), allocation, stopped or
// not, and the effect in observable units (transactions pooled, evidence pooled, addresses added,
// reply sent, address banned).

import (
	"encoding/json"
	"fmt"
	"math/big"
	"os"
	"reflect"
	"sync"
	"testing"
	"time"

	"github.com/gogo/protobuf/proto"
	bcr "github.com/kardiachain/go-kardia/blockchain"
	"github.com/kardiachain/go-kardia/lib/common"
	"github.com/kardiachain/go-kardia/lib/crypto"
	"github.com/kardiachain/go-kardia/lib/p2p"
	"github.com/kardiachain/go-kardia/lib/p2p/pex"
	"github.com/kardiachain/go-kardia/lib/rlp"
	"github.com/kardiachain/go-kardia/mainchain/tx_pool"
	kbc "github.com/kardiachain/go-kardia/proto/kardiachain/blockchain"
	kev "github.com/kardiachain/go-kardia/proto/kardiachain/evidence"
	kp2p "github.com/kardiachain/go-kardia/proto/kardiachain/p2p"
	ktx "github.com/kardiachain/go-kardia/proto/kardiachain/txpool"
	kproto "github.com/kardiachain/go-kardia/proto/kardiachain/types"
	"github.com/kardiachain/go-kardia/types"
	"github.com/kardiachain/go-kardia/types/evidence"

	"verifharness/internal/mbt"
	"verifharness/node"
)

type rMsg struct {
	T     string   `json:"t"`
	Kind  string   `json:"kind"`
	Txs   []string `json:"txs"`
	N     int      `json:"n"`
	Known int      `json:"known"`
	Evs   []string `json:"evs"`
	Addrs []string `json:"addrs"`
	H     int64    `json:"h"`
	Base  int64    `json:"base"`
}
type rLast struct {
	M   rMsg            `json:"m"`
	Res string          `json:"res"`
	Eff json.RawMessage `json:"eff"`
}
type rState struct {
	Reg     bool     `json:"reg"`
	Fetch   bool     `json:"fetch"`
	Have    []string `json:"have"`
	Lh      int      `json:"lh"`
	Pending bool     `json:"pending"`
	Reqs    int      `json:"reqs"`
	Asked   bool     `json:"asked"`
	Seed    bool     `json:"seed"`
	Inbound bool     `json:"inbound"`
	Book    []string `json:"book"`
	Sync    bool     `json:"sync"`
	Top     int      `json:"top"`
}
type rLine struct {
	Rx   string `json:"rx"`
	St0  rState `json:"st0"`
	Pre  []rMsg `json:"pre"`
	Last *rLast `json:"last"`
	Pst  rState `json:"pst"`
	Nst  rState `json:"nst"`
}

var fundedKey, _ = crypto.HexToECDSA("8843ebcb1021b00ae9a644db6617f9c6d870e5fd53624cefe374c1d2d710fd06")

// the script of class "height2" of PeerNodeStates.tla: block A of height 1 proposed, prevoted, locked, committed
var scriptHeight2 = [][]interface{}{{"fire"}, {"prop", 1.0, "A", 0.0, 1.0}, {"part", "A"}, {"own"}, {"bundle", 1.0, 1.0, "A"}, {"own"}, {"bundle", 2.0, 1.0, "A"}}

type rxRig struct {
	d    *ClassNode
	p    *StubPeer
	txs  map[string]*types.Transaction
	self *p2p.NetAddress
}

func buildRx(l *rLine) (*rxRig, error) {
	c := xClass{N: "rx-" + l.Rx, Me: 2}
	if (l.Rx == "ev" && l.St0.Lh >= 1) || (l.Rx == "bc" && l.St0.Top >= 1) {
		c.P = scriptHeight2
	}
	opts := RigOpts{Me: 2, NoBroadcast: l.Rx == "tx" && !l.St0.Fetch, SeedMode: l.Rx == "pex" && l.St0.Seed}
	d, err := buildClassOpts(c, opts, false)
	if err != nil {
		return nil, err
	}
	if h := d.Rig.Nd.CS.GetRoundState().Height; l.Rx == "ev" && int(h) != l.St0.Lh+1 {
		d.Rig.Close()
		return nil, fmt.Errorf("evidence class: node at height %d, wanted last block height %d", h, l.St0.Lh)
	}
	if l.Rx == "bc" {
		if int(d.Rig.Nd.BO.Height()) != l.St0.Top {
			d.Rig.Close()
			return nil, fmt.Errorf("block-sync class: store height %d, wanted %d", d.Rig.Nd.BO.Height(), l.St0.Top)
		}
		if l.St0.Sync {
			d.Rig.BcR.VerifPeerManualSync()
		} else {
			d.Rig.BcR.VerifPeerReporter()
		}
	}
	x := &rxRig{d: d, txs: map[string]*types.Transaction{}}
	x.p = NewStubPeer(l.Rx == "pex" && !l.St0.Inbound)
	d.Rig.ConR.InitPeer(x.p)
	p2p.AddPeerToSwitchPeerSet(d.Rig.Sw, x.p)
	if l.Rx != "tx" || l.St0.Reg {
		d.Rig.TxR.AddPeer(x.p)
	}
	x.self = p2p.NewNetAddressIPPort([]byte{9, 9, 9, 9}, 26656)
	x.self.ID = d.Rig.Sw.NodeInfo().ID()
	d.Rig.Book.AddOurAddress(x.self)
	if l.Rx == "pex" && l.St0.Asked {
		d.Rig.PexR.RequestAddrs(x.p)
		x.p.TakeSent()
	}
	return x, nil
}

func (x *rxRig) tx(kind string) ([]byte, error) {
	bc := x.d.Rig.Nd.BC
	signer := types.LatestSigner(bc.Config())
	to := common.HexToAddress("0x00000000000000000000000000000000000000aa")
	mk := func(nonce uint64, gas uint64, data []byte, key interface{}) (*types.Transaction, error) {
		raw := types.NewTransaction(nonce, to, big.NewInt(1), gas, big.NewInt(10), data)
		if key == nil {
			return types.SignTx(signer, raw, fundedKey)
		}
		k, _ := crypto.ToECDSA(crypto.Keccak256([]byte("verif-poor")))
		return types.SignTx(signer, raw, k)
	}
	var t *types.Transaction
	var err error
	switch kind {
	case "good", "trailing":
		t, err = mk(0, 100000, nil, nil)
	case "good2":
		t, err = mk(1, 100000, nil, nil)
	case "future":
		t, err = mk(5, 100000, nil, nil)
	case "nofunds":
		t, err = mk(0, 100000, nil, "poor")
	case "lowgas":
		t, err = mk(0, 1000, nil, nil)
	case "overgas":
		t, err = mk(0, 1<<62, nil, nil)
	case "huge":
		t, err = mk(0, 50000000, make([]byte, 200000), nil)
	case "badsig":
		return rlp.EncodeToBytes([]interface{}{uint64(0), big.NewInt(10), uint64(100000), to, big.NewInt(1), []byte{}, big.NewInt(27), big.NewInt(0), big.NewInt(0)})
	case "garbage":
		return []byte{0xc3, 0x01, 0xff}, nil
	case "empty":
		return []byte{}, nil
	default:
		return nil, fmt.Errorf("unknown tx kind %q", kind)
	}
	if err != nil {
		return nil, err
	}
	x.txs[kind] = t
	b, err := rlp.EncodeToBytes(t)
	if kind == "trailing" {
		b = append(b, 0x01)
	}
	return b, err
}

func unknownBytes(kind string) []byte {
	switch kind {
	case "empty":
		return []byte{}
	case "nomember":
		return []byte{0x7a, 0x02, 0x08, 0x01}
	default:
		return []byte{0xff, 0xff, 0xff, 0xff}
	}
}

func (x *rxRig) txMsg(m *rMsg, have []string) ([]byte, error) {
	if m.T == "unknown" {
		return unknownBytes(m.Kind), nil
	}
	var pb ktx.Message
	switch m.T {
	case "txs", "pooled":
		var raw [][]byte
		for _, k := range m.Txs {
			b, err := x.tx(k)
			if err != nil {
				return nil, err
			}
			raw = append(raw, b)
		}
		if m.T == "txs" {
			pb.Sum = &ktx.Message_Txs{Txs: &ktx.Txs{Txs: raw}}
		} else {
			pb.Sum = &ktx.Message_PooledTransactions{PooledTransactions: &ktx.PooledTransactions{Txs: raw}}
		}
	default:
		var hs [][]byte
		for i := 0; i < m.Known; i++ {
			if _, err := x.tx(have[i]); err != nil {
				return nil, err
			}
			hs = append(hs, x.txs[have[i]].Hash().Bytes())
		}
		for i := m.Known; i < m.N; i++ {
			hs = append(hs, crypto.Keccak256([]byte(fmt.Sprintf("unknown-tx-%d", i))))
		}
		if m.T == "hashes" {
			pb.Sum = &ktx.Message_PooledTransactionHashes{PooledTransactionHashes: &ktx.PooledTransactionHashes{Hashes: hs}}
		} else {
			pb.Sum = &ktx.Message_RequestPooledTransactions{RequestPooledTransactions: &ktx.RequestPooledTransactions{Hashes: hs}}
		}
	}
	return proto.Marshal(&pb)
}

func (x *rxRig) evProto(kind string) (*kproto.Evidence, error) {
	d := x.d
	w := d.Rig.W
	h := uint64(1)
	switch kind {
	case "future":
		h = 5
	case "height0":
		h = 0
	}
	tm := time.Unix(1700000000, 0)
	if meta := d.Rig.Nd.BC.LoadBlockMeta(1); meta != nil {
		tm = meta.Header.Time
	}
	idA := types.BlockID{Hash: common.BytesToHash([]byte("verif-ev-block-a")), PartsHeader: types.PartSetHeader{Total: 1, Hash: common.BytesToHash([]byte("pa"))}}
	idB := types.BlockID{Hash: common.BytesToHash([]byte("verif-ev-block-b")), PartsHeader: types.PartSetHeader{Total: 1, Hash: common.BytesToHash([]byte("pb"))}}
	var va, vb *types.Vote
	if kind == "nonval" {
		mk := func(id types.BlockID) *types.Vote {
			v := &types.Vote{ValidatorAddress: outsider.GetAddress(), ValidatorIndex: 2, Height: h, Round: 1, Timestamp: tm, Type: kproto.PrevoteType, BlockID: id}
			pv := v.ToProto()
			_ = outsider.SignVote(node.ChainID, pv)
			v.Signature = pv.Signature
			return v
		}
		va, vb = mk(idA), mk(idB)
	} else {
		va = w.SignVoteFor(3, kproto.PrevoteType, h, 1, idA, tm)
		vb = w.SignVoteFor(3, kproto.PrevoteType, h, 1, idB, tm)
	}
	if va.BlockID.Key() > vb.BlockID.Key() {
		va, vb = vb, va
	}
	ev := &types.DuplicateVoteEvidence{VoteA: va, VoteB: vb, TotalVotingPower: 4, ValidatorPower: 1, Timestamp: tm}
	switch kind {
	case "badtime":
		ev.Timestamp = tm.Add(time.Second)
	case "badpower":
		ev.ValidatorPower = 2
	case "badsig":
		vb.Signature = append([]byte{}, vb.Signature...)
		vb.Signature[9] ^= 0x40
	case "bigsig":
		va.Signature = make([]byte, 600000)
	case "unordered":
		ev.VoteA, ev.VoteB = vb, va
	case "sameblock":
		ev.VoteB = va
	}
	if kind == "nosum" {
		return &kproto.Evidence{}, nil
	}
	pb, err := types.EvidenceToProto(ev)
	if err != nil {
		return nil, err
	}
	dv := pb.Sum.(*kproto.Evidence_DuplicateVoteEvidence).DuplicateVoteEvidence
	switch kind {
	case "nilvote":
		dv.VoteA = nil
	case "badvote":
		dv.VoteA.Type = 7
	}
	return pb, nil
}

func (x *rxRig) evMsg(m *rMsg) ([]byte, error) {
	if m.T == "unknown" {
		if m.Kind == "empty" {
			// an empty byte string is the encoding of the empty list: not an unknown message for this reactor
			return []byte{0x7a, 0x02, 0x08}, nil // truncated field
		}
		if m.Kind == "nomember" {
			return []byte{0x0a, 0x03, 0xff, 0xff, 0xff}, nil // an Evidence entry that does not parse
		}
		return unknownBytes(m.Kind), nil
	}
	l := kev.List{}
	for _, k := range m.Evs {
		e, err := x.evProto(k)
		if err != nil {
			return nil, err
		}
		l.Evidence = append(l.Evidence, e)
	}
	return l.Marshal()
}

func (x *rxRig) bcMsg(m *rMsg) ([]byte, error) {
	if m.T == "unknown" {
		return unknownBytes(m.Kind), nil
	}
	switch m.T {
	case "statusreq":
		return bcr.EncodeMsg(&kbc.StatusRequest{})
	case "request":
		return bcr.EncodeMsg(&kbc.BlockRequest{Height: cv64(m.H)})
	case "noblock":
		return bcr.EncodeMsg(&kbc.NoBlockResponse{Height: cv64(m.H)})
	case "status":
		return bcr.EncodeMsg(&kbc.StatusResponse{Base: cv64(m.Base), Height: cv64(m.H)})
	}
	// block: the proto of block A of the node's current height, reassembled from its parts
	h := x.d.Rig.Nd.CS.GetRoundState().Height
	hb, err := x.d.blocksAt(h)
	if err != nil {
		return nil, err
	}
	var raw []byte
	for _, p := range hb.parts["A"] {
		raw = append(raw, p.Bytes...)
	}
	pb := new(kproto.Block)
	if err := proto.Unmarshal(raw, pb); err != nil {
		return nil, err
	}
	switch m.Kind {
	case "good":
	case "nil":
		pb = nil
	case "noheader":
		pb.Header = kproto.Header{}
	case "nocommit":
		pb.LastCommit = nil
	case "junkcommit":
		if pb.LastCommit == nil {
			pb.LastCommit = &kproto.Commit{}
		}
		pb.LastCommit.Signatures = append(pb.LastCommit.Signatures, kproto.CommitSig{BlockIdFlag: 9, ValidatorAddress: []byte{1, 2, 3}})
	}
	return bcr.EncodeMsg(&kbc.BlockResponse{Block: pb})
}

func (x *rxRig) pexMsg(m *rMsg) ([]byte, error) {
	if m.T == "unknown" {
		return unknownBytes(m.Kind), nil
	}
	var pb kp2p.Message
	if m.T == "request" {
		pb.Sum = &kp2p.Message_PexRequest{PexRequest: &kp2p.PexRequest{}}
		return pb.Marshal()
	}
	id := func(s string) string { return fmt.Sprintf("%x", crypto.Keccak256([]byte(s))[:20]) }
	var as []kp2p.NetAddress
	for _, k := range m.Addrs {
		switch k {
		case "good":
			as = append(as, kp2p.NetAddress{ID: id("good"), IP: "1.2.3.4", Port: 26656})
		case "good2":
			as = append(as, kp2p.NetAddress{ID: id("good2"), IP: "5.6.7.8", Port: 26656})
		case "self":
			as = append(as, kp2p.NetAddress{ID: string(x.self.ID), IP: "9.9.9.9", Port: 26656})
		case "private":
			as = append(as, kp2p.NetAddress{ID: id("private"), IP: "192.168.1.1", Port: 26656})
		case "badip":
			as = append(as, kp2p.NetAddress{ID: id("badip"), IP: "not-an-ip", Port: 26656})
		case "badport":
			as = append(as, kp2p.NetAddress{ID: id("badport"), IP: "1.2.3.9", Port: 70000})
		case "badid":
			as = append(as, kp2p.NetAddress{ID: "xyz", IP: "1.2.3.10", Port: 26656})
		case "many":
			for i := 0; i < 300; i++ {
				as = append(as, kp2p.NetAddress{ID: id(fmt.Sprint("many", i)), IP: fmt.Sprintf("%d.%d.%d.7", 11+i%200, i/200+1, i%251), Port: 26656})
			}
		}
	}
	pb.Sum = &kp2p.Message_PexAddrs{PexAddrs: &kp2p.PexAddrs{Addrs: as}}
	return pb.Marshal()
}

type rxObs struct {
	out     Outcome
	alloc   uint64
	n       int
	stopped bool
	pooled  int
	evs     int
	book    int
	reply   bool
	banned  bool
	bcEff   string
}

func (x *rxRig) counts() (int, int, int) {
	pend, queued := x.d.Rig.Nd.TxPool.Stats()
	return pend + queued, int(x.d.Rig.Nd.EvPool.Size()), x.d.Rig.Book.Size()
}

func (x *rxRig) step(rx string, bz []byte) rxObs {
	var o rxObs
	o.n = len(bz)
	t0, e0, b0 := x.counts()
	x.p.TakeSent()
	a0 := allocBytes()
	switch rx {
	case "tx":
		dl := 10 * time.Second
		if x.d.Rig.O.NoBroadcast {
			dl = 1500 * time.Millisecond // the class in which Receive is known to block for ever
		}
		o.out = Guard(dl, false, func() { x.d.Rig.TxR.Receive(tx_pool.TxpoolChannel, x.p, bz) })
	case "ev":
		o.out = Guard(5*time.Second, false, func() { x.d.Rig.EvR.Receive(evidence.EvidenceChannel, x.p, bz) })
	case "bc":
		o.out = Guard(5*time.Second, false, func() { x.d.Rig.BcR.Receive(bcr.BlockchainChannel, x.p, bz) })
	default:
		o.out = Guard(5*time.Second, false, func() { x.d.Rig.PexR.Receive(pex.PexChannel, x.p, bz) })
	}
	o.alloc = allocBytes() - a0
	t1, e1, b1 := x.counts()
	o.pooled, o.evs, o.book = t1-t0, e1-e0, b1-b0
	o.stopped = !x.p.BaseService.IsRunning()
	o.bcEff = "none"
	for _, s := range x.p.TakeSent() {
		if (rx == "tx" && s.Ch == tx_pool.TxpoolChannel) || (rx == "pex" && s.Ch == pex.PexChannel) {
			o.reply = true
		}
		if rx == "bc" && s.Ch == bcr.BlockchainChannel {
			o.reply = true
			if m, err := bcr.DecodeMsg(s.Bytes); err == nil {
				switch m.(type) {
				case *kbc.StatusResponse:
					o.bcEff = "reply-status"
				case *kbc.BlockResponse:
					o.bcEff = "reply-block"
				case *kbc.NoBlockResponse:
					o.bcEff = "reply-noblock"
				}
			}
		}
	}
	if rx == "bc" {
		for {
			kind, id, _, ok := x.d.Rig.BcR.VerifPeerNextEvent()
			if !ok {
				break
			}
			if id == x.p.ID() && kind != "removepeer" {
				o.bcEff = "event-" + kind
			}
		}
	}
	o.banned = x.d.Rig.Book.IsBanned(x.p.SocketAddr())
	return o
}

func TestReactorsReplay(t *testing.T) {
	res := mbt.NewResult()
	defer res.Write()
	var lmu sync.Mutex
	lockstep := map[string]int{}
	note := func(k string) { lmu.Lock(); lockstep[k]++; lmu.Unlock() }
	sent, err := mbt.EachLine(os.Getenv("PEER_DUMP"), mbt.EnvInt("PEER_WORKERS", 0), mbt.EnvInt("PEER_LIMIT", 0), mbt.EnvInt("PEER_STRIDE", 1), mbt.Seed(), func(n int, raw []byte) {
		var l rLine
		if err := json.Unmarshal(raw, &l); err != nil || l.Last == nil {
			if err != nil {
				res.Mismatch("infra:parse", err.Error(), string(raw[:minInt(len(raw), 300)]))
			}
			return
		}
		world.RLock()
		again := replayRx(res, &l, note, false)
		world.RUnlock()
		if again {
			world.Lock()
			replayRx(res, &l, note, true)
			world.Unlock()
		}
		if n%211 == 1 {
			res.Sample(map[string]interface{}{"reactor": l.Rx, "state": l.St0, "pre": l.Pre, "msg": l.Last.M, "specified": l.Last.Res})
		}
	})
	if err != nil {
		res.Mismatch("infra:read", err.Error(), nil)
	}
	res.Set("reactor_lines", sent)
	if len(lockstep) > 0 {
		res.Set("reactor_lockstep_differences", lockstep)
	}
}

func (x *rxRig) encode(rx string, m *rMsg, have []string) ([]byte, error) {
	switch rx {
	case "tx":
		return x.txMsg(m, have)
	case "ev":
		return x.evMsg(m)
	case "bc":
		return x.bcMsg(m)
	default:
		return x.pexMsg(m)
	}
}

func (x *rxRig) close() {
	// in the no-fetcher class RemovePeer itself blocks (TxFetcher.Drop): stop the reactor first (closes the fetcher's quit channel)
	_ = x.d.Rig.TxR.Stop()
	done := make(chan struct{})
	go func() { x.d.Rig.DropPeer(x.p); x.d.Rig.Close(); close(done) }()
	select {
	case <-done:
	case <-time.After(10 * time.Second):
	}
}

func replayRx(res *mbt.Result, l *rLine, note func(string), exclusive bool) (again bool) {
	x, err := buildRx(l)
	if err != nil {
		res.Mismatch("infra:rx-rig", err.Error(), nil)
		return
	}
	defer x.close()
	detail := map[string]interface{}{"reactor": l.Rx, "state": l.St0, "pre": l.Pre, "msg": l.Last.M, "specified": l.Last.Res}
	have := append([]string{}, l.St0.Have...)
	for _, m := range l.Pre {
		m := m
		bz, err := x.encode(l.Rx, &m, have)
		if err != nil {
			res.Mismatch("infra:rx-encode", err.Error(), detail)
			return
		}
		o := x.step(l.Rx, bz)
		if o.out.Panic != "" || o.out.Hung || o.stopped {
			note("pre-step-diverged:" + l.Rx)
			return
		}
	}
	last := l.Last
	bz, err := x.encode(l.Rx, &last.M, l.Pst.Have)
	if err != nil {
		res.Mismatch("infra:rx-encode", err.Error(), detail)
		return
	}
	o := x.step(l.Rx, bz)
	if o.alloc > uint64(allocBase+64*o.n) && !exclusive && o.out.Panic == "" && !o.out.Hung {
		return true // measure again with every other worker paused
	}
	res.Count(1)
	res.Behaviour()
	label := last.M.T
	sig := func(kind string) string { return fmt.Sprintf("peer:%s:%s:%s", l.Rx, kind, label) }
	where := fmt.Sprintf("%s reactor in state %+v, message %+v after %d earlier messages", l.Rx, l.St0, last.M, len(l.Pre))
	if o.out.Panic != "" {
		res.Mismatch(sig("panic"), fmt.Sprintf("%s: the real Receive PANICKED (%s); specified: %s", where, o.out.Panic, last.Res), detail)
		return
	}
	if o.out.Hung {
		if l.Rx == "tx" && !l.St0.Fetch {
			res.Mismatch("peer:tx:hang:nofetcher", fmt.Sprintf("%s: with TxPoolConfig.Broadcast = false the transaction fetcher is never started and the real Receive never returns (TxFetcher.Enqueue / Notify / Drop block on their channels; the same blocks Switch.stopAndRemovePeer -> RemovePeer for every peer); specified: Receive returns", where), detail)
		} else {
			res.Mismatch(sig("hang"), fmt.Sprintf("%s: the real Receive did not return; specified: %s", where, last.Res), detail)
		}
		return
	}
	if o.alloc > uint64(allocBase+64*o.n) {
		res.Mismatch(sig("alloc"), fmt.Sprintf("%s: a %d-byte message made the node allocate %d MB", where, o.n, o.alloc>>20), detail)
	}
	if last.Res == "stopgraceful" {
		// asynchronous: the reactor stops the peer from a goroutine
		deadline := time.Now().Add(3 * time.Second)
		for x.p.BaseService.IsRunning() && time.Now().Before(deadline) {
			time.Sleep(time.Millisecond)
		}
		o.stopped = !x.p.BaseService.IsRunning()
	}
	wantStop := last.Res == "stop" || last.Res == "stopgraceful"
	// effect in observable units
	var eff string
	var effN int
	if json.Unmarshal(last.Eff, &eff) != nil {
		json.Unmarshal(last.Eff, &effN)
	}
	realEffect := o.pooled != 0 || o.evs != 0 || o.book != 0 || o.reply || (l.Rx == "bc" && o.bcEff != "none")
	switch {
	case wantStop && !o.stopped && realEffect:
		res.Mismatch(sig("accepted-malformed"), fmt.Sprintf("%s: specified to be rejected with the peer stopped; the real reactor kept the peer and acted on it (pooled %d txs, %d evidence, %d addresses, reply %v)", where, o.pooled, o.evs, o.book, o.reply), detail)
	case wantStop && !o.stopped:
		note("spec-stop-real-ignore:" + l.Rx + ":" + last.M.T)
	case !wantStop && o.stopped:
		specEffect := eff == "reply" || (l.Rx == "bc" && eff != "none") || effN > 0 || len(l.Nst.Have) != len(l.Pst.Have) || len(l.Nst.Book) != len(l.Pst.Book)
		if specEffect {
			res.Mismatch(sig("rejected-wellformed"), fmt.Sprintf("%s: specified to be accepted; the real reactor stopped the peer", where), detail)
		} else {
			note("spec-ignore-real-stop:" + l.Rx + ":" + last.M.T)
		}
	}
	// the effect itself
	switch l.Rx {
	case "tx":
		want := len(l.Nst.Have) - len(l.Pst.Have)
		if o.pooled != want {
			res.Mismatch(sig("pooled"), fmt.Sprintf("%s: %d transactions entered the real pool, specified %d", where, o.pooled, want), detail)
		}
		if (eff == "reply") != o.reply {
			res.Mismatch(sig("reply"), fmt.Sprintf("%s: real reply %v, specified %q", where, o.reply, eff), detail)
		}
	case "ev":
		if o.evs != effN {
			res.Mismatch(sig("evidence-pooled"), fmt.Sprintf("%s: %d pieces of evidence entered the real pool, specified %d", where, o.evs, effN), detail)
		}
	case "bc":
		if !o.stopped && !wantStop && o.bcEff != eff {
			res.Mismatch(sig("effect"), fmt.Sprintf("%s: the real reactor did %q, specified %q", where, o.bcEff, eff), detail)
		}
	case "pex":
		want := len(l.Nst.Book) - len(l.Pst.Book)
		many := false
		for _, a := range last.M.Addrs {
			many = many || a == "many"
		}
		if many {
			if want > 0 && (o.book < 1 || o.book > 300) {
				res.Mismatch(sig("book"), fmt.Sprintf("%s: 300 routable addresses offered, the real book grew by %d", where, o.book), detail)
			}
		} else if o.book != want {
			res.Mismatch(sig("book"), fmt.Sprintf("%s: the real address book grew by %d, specified %d", where, o.book, want), detail)
		}
		if (eff == "reply") != o.reply {
			res.Mismatch(sig("reply"), fmt.Sprintf("%s: real reply %v, specified %q", where, o.reply, eff), detail)
		}
		// (addrBook.MarkBad bans only addresses the book already knows: the stub peer's is not, nothing to compare)
	}
	if wantStop || realEffect {
		res.Distinct(fmt.Sprintf("%s/%+v/%d/%+v", l.Rx, l.St0, len(l.Pre), last.M))
	}
	// the aftermath: whatever the message was (accepted, refused, peer stopped), the reactor must still serve an
	// honest peer on its writer paths and stop - each step under a timeout
	if bad := x.aftermath(l); bad != "" {
		t := last.M.T
		if l.Rx == "bc" {
			res.Mismatch("peer:bc:hang:"+t, fmt.Sprintf("%s: Receive returned, but afterwards %s; specified (PeerReactors!BcMutexFree): no lock outlives Receive, the aftermath returns", where, bad), detail)
		} else {
			res.Mismatch(sig("hang-aftermath"), fmt.Sprintf("%s: Receive returned, but afterwards %s", where, bad), detail)
		}
	}
	if !wantStop {
		if bad := rxRoundTrip(l.Rx, bz); bad != "" {
			res.Mismatch(sig("roundtrip"), fmt.Sprintf("%s: %s", where, bad), detail)
		} else {
			res.Add("reactor_roundtrips", 1)
		}
	}
	return false
}

// rxRoundTrip: the decoded form of an accepted message must survive encode/decode unchanged.
func rxRoundTrip(rx string, bz []byte) (bad string) {
	defer func() {
		if r := recover(); r != nil {
			bad = fmt.Sprintf("encoding the decoded message PANICKED: %v", r)
		}
	}()
	switch rx {
	case "bc":
		m1, err := bcr.DecodeMsg(bz)
		if err != nil {
			return ""
		}
		e1, err := bcr.EncodeMsg(m1)
		if err != nil {
			return "EncodeMsg refuses what DecodeMsg returned: " + err.Error()
		}
		m2, err := bcr.DecodeMsg(e1)
		if err != nil || !proto.Equal(m1, m2) {
			return fmt.Sprintf("decode(encode(M)) differs from M (%v)", err)
		}
		if string(e1) != string(bz) {
			return "encode(decode(bytes)) differs from the canonical bytes"
		}
	case "ev":
		m1, err := evidence.VerifDecodeMsg(bz)
		if err != nil {
			return ""
		}
		e1, err := evidence.VerifEncodeMsg(m1)
		if err != nil {
			return "encodeMsg refuses what decodeMsg returned: " + err.Error()
		}
		m2, err := evidence.VerifDecodeMsg(e1)
		if err != nil || len(m1) != len(m2) {
			return fmt.Sprintf("decode(encode(M)) differs from M (%v)", err)
		}
		for i := range m1 {
			if m1[i].Hash() != m2[i].Hash() || string(m1[i].Bytes()) != string(m2[i].Bytes()) {
				return fmt.Sprintf("evidence #%d differs after encode/decode", i)
			}
		}
		if string(e1) != string(bz) {
			return "encode(decode(bytes)) differs from the canonical bytes"
		}
	case "pex":
		m1, err := pex.VerifDecodeMsg(bz)
		if err != nil {
			return ""
		}
		e1 := pex.VerifEncodeMsg(m1)
		m2, err := pex.VerifDecodeMsg(e1)
		if err != nil || !proto.Equal(m1, m2) {
			return fmt.Sprintf("decode(encode(M)) differs from M (%v)", err)
		}
		if string(e1) != string(bz) {
			return "encode(decode(bytes)) differs from the canonical bytes"
		}
	case "tx":
		m1, err := tx_pool.VerifDecodeMsg(bz)
		if err != nil {
			return ""
		}
		msg, ok := m1.(tx_pool.Message)
		if !ok {
			return "" // TxsMessage: the reactor has no encoder for it (peers build the protobuf by hand)
		}
		e1 := tx_pool.MustEncode(msg)
		m2, err := tx_pool.VerifDecodeMsg(e1)
		if err != nil {
			return "the re-encoded message is refused by the decoder: " + err.Error()
		}
		switch a := m1.(type) {
		case tx_pool.PooledTransactions:
			b, ok := m2.(tx_pool.PooledTransactions)
			if !ok || len(a) != len(b) {
				return "decode(encode(M)) differs from M"
			}
			for i := range a {
				if a[i].Hash() != b[i].Hash() {
					return fmt.Sprintf("transaction #%d differs after encode/decode", i)
				}
			}
		default:
			if !reflect.DeepEqual(m1, m2) {
				return "decode(encode(M)) differs from M"
			}
		}
	}
	return ""
}

// aftermath: after the message under test an honest second peer uses the reactor's writer / reader paths, then the
// reactor is stopped; every step under a timeout.  Returns "" or what did not return.
func (x *rxRig) aftermath(l *rLine) string {
	r := x.d.Rig
	p2 := NewStubPeer(false)
	r.ConR.InitPeer(p2)
	p2p.AddPeerToSwitchPeerSet(r.Sw, p2)
	step := func(what string, f func()) string {
		o := Guard(3*time.Second, false, f)
		if o.Hung {
			return what + " did not return within 3 s"
		}
		if o.Panic != "" {
			return what + " panicked: " + o.Panic
		}
		return ""
	}
	var steps []struct {
		what string
		f    func()
	}
	add := func(what string, f func()) {
		steps = append(steps, struct {
			what string
			f    func()
		}{what, f})
	}
	switch l.Rx {
	case "bc":
		if !r.BcR.VerifPeerMutexFree() {
			return "the reactor's mutex is still held (TryLock fails): a lock taken in Receive was not released"
		}
		top := uint64(l.St0.Top)
		status, _ := bcr.EncodeMsg(&kbc.StatusResponse{Base: 0, Height: top + 5})
		noblock, _ := bcr.EncodeMsg(&kbc.NoBlockResponse{Height: top + 1})
		good, _ := x.bcMsg(&rMsg{T: "block", Kind: "good"})
		add("an honest peer's StatusResponse (Receive)", func() { r.BcR.Receive(bcr.BlockchainChannel, p2, status) })
		add("the event loop's setMaxPeerHeight for it (a writer on r.mtx)", func() { r.BcR.VerifPeerSetMaxPeerHeight(top + 5) })
		add("the honest peer's BlockResponse (Receive)", func() { r.BcR.Receive(bcr.BlockchainChannel, p2, good) })
		add("the honest peer's NoBlockResponse (Receive)", func() { r.BcR.Receive(bcr.BlockchainChannel, p2, noblock) })
		add("BlockchainReactor.Stop", func() { _ = r.BcR.Stop() })
	case "tx":
		r.TxR.AddPeer(p2)
		ann, _ := x.txMsg(&rMsg{T: "hashes", N: 1, Known: 0}, nil)
		req, _ := x.txMsg(&rMsg{T: "request", N: 1, Known: 0}, nil)
		add("an honest peer's transaction announcement (Receive)", func() { r.TxR.Receive(tx_pool.TxpoolChannel, p2, ann) })
		add("an honest peer's transaction request (Receive)", func() { r.TxR.Receive(tx_pool.TxpoolChannel, p2, req) })
		add("removing the honest peer (RemovePeer)", func() { r.TxR.RemovePeer(p2, "done") })
		add("tx Reactor.Stop", func() { _ = r.TxR.Stop() })
	case "ev":
		empty, _ := x.evMsg(&rMsg{T: "list"})
		add("an honest peer's empty evidence list (Receive)", func() { r.EvR.Receive(evidence.EvidenceChannel, p2, empty) })
		add("reading the evidence pool", func() { _ = r.Nd.EvPool.Size(); _, _ = r.Nd.EvPool.PendingEvidence(1 << 20) })
		add("evidence Reactor.Stop", func() { _ = r.EvR.Stop() })
	case "pex":
		req, _ := x.pexMsg(&rMsg{T: "request"})
		add("an honest peer's PexRequest (Receive)", func() { r.PexR.Receive(pex.PexChannel, p2, req) })
		add("writing the address book", func() { r.Book.MarkGood(p2.ID()); _ = r.Book.Size() })
	}
	for _, s := range steps {
		if bad := step(s.what, s.f); bad != "" {
			return bad
		}
	}
	return ""
}
