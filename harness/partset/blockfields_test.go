package partset

// TestBlockFields: MBT of MC_BlockFields.  Every behaviour (a sequence of validations of catalogue blocks by one
// block executor) is executed on a real chain state: the mutation is applied BY NAME to the proto encoding of a
// real valid block, the bytes go through the part set and the wire decoder exactly as a proposal block does
// (NewPartSetFromData -> AddPart -> ReadAll -> Unmarshal -> BlockFromProto incl. ValidateBasic), and then through
// BlockExecutor.ValidateBlock of ONE executor per behaviour (fresh at the first step, warm afterwards).

import (
	"bytes"
	"encoding/json"
	"fmt"
	"math/big"
	"os"
	"sort"
	"strings"
	"sync"
	"testing"
	"time"

	"github.com/gogo/protobuf/proto"

	"github.com/kardiachain/go-kardia/kai/state/cstate"
	"github.com/kardiachain/go-kardia/lib/common"
	"github.com/kardiachain/go-kardia/lib/crypto"
	"github.com/kardiachain/go-kardia/lib/merkle"
	kproto "github.com/kardiachain/go-kardia/proto/kardiachain/types"
	"github.com/kardiachain/go-kardia/types"

	"verifharness/internal/mbt"
)

// scene: a real chain state and a real valid block on it (MC_BlockFields Base / S).
type scene struct {
	mu       sync.Mutex
	initial  bool
	nw       *network
	node     *cnode // the validating node
	st       cstate.LatestBlockState
	base     *types.Block
	basePB   *kproto.Block
	baseBz   []byte
	baseID   types.BlockID
	e4       *kproto.Evidence
	tx3, tx5 []byte
	bogusSig []byte         // a valid signature of validator 1 over something else
	otherVal common.Address // a current validator that is not the base proposer
	val2     common.Address // address of validator index 1 (abstract validator 2)
}

func mkTx(n uint64, salt byte) *types.Transaction {
	return types.NewTransaction(n, common.BytesToAddress([]byte{0x77, salt}), big.NewInt(int64(n)), 30000, big.NewInt(1), []byte{salt, 1, 2, 3})
}

func rlpTx(tx *types.Transaction) []byte {
	pb := types.Transactions{tx}.ToProto()
	return pb.Txs[0]
}

func (nw *network) signedVote(idx int, typ kproto.SignedMsgType, h uint64, r uint32, bid types.BlockID, ts time.Time) *types.Vote {
	v := &types.Vote{ValidatorAddress: nw.privs[idx].GetAddress(), ValidatorIndex: uint32(idx), Height: h, Round: r, Timestamp: ts, Type: typ, BlockID: bid}
	pb := v.ToProto()
	if err := nw.privs[idx].SignVote(chainID, pb); err != nil {
		panic(err)
	}
	v.Signature = pb.Signature
	return v
}

// sceneChanged: the height-3 scene is built on a chain whose validator set changes between heights 2 and 3
// (block 1's execution reports validator 1 with power 40; in force from height 3)
var sceneChanged = false

func newScene(initial bool) (sc *scene, err error) {
	defer func() {
		if r := recover(); r != nil {
			err = fmt.Errorf("scene: %v", r)
		}
	}()
	var nw *network
	if sceneChanged && !initial {
		nw, err = newNetworkChanging(4, 1, []int64{40, 10, 10, 10})
	} else {
		nw, err = newNetwork(4)
	}
	if err != nil {
		return nil, err
	}
	sc = &scene{initial: initial, nw: nw}
	if !initial {
		if err := nw.runTo(3); err != nil {
			return nil, err
		}
	}
	sc.node = nw.nodes[1]
	sc.st = sc.node.cs.VerifState()
	good, _ := nw.nodes[0].cs.VerifCreateProposalBlock()
	if good == nil {
		return nil, fmt.Errorf("createProposalBlock returned nil")
	}
	h := good.Header()
	txs := []*types.Transaction{mkTx(1, 1), mkTx(2, 2)}
	sc.tx3, sc.tx5 = rlpTx(mkTx(3, 3)), rlpTx(mkTx(1, 5))
	var lc *types.Commit
	var evs []types.Evidence
	if initial {
		lc = good.LastCommit()
	} else {
		// the last commit: all four validators, round 1, timestamps T+1s .. T+4s in validator order
		T := sc.st.LastBlockTime.Add(10 * time.Second)
		var sigs []types.CommitSig
		for i := range nw.privs {
			sigs = append(sigs, nw.signedVote(i, kproto.PrecommitType, sc.st.LastBlockHeight, 1, sc.st.LastBlockID, T.Add(time.Duration(i+1)*time.Second)).CommitSig())
		}
		lc = types.NewCommit(sc.st.LastBlockHeight, 1, sc.st.LastBlockID, sigs)
		h.Time = cstate.MedianTime(lc, sc.st.LastValidators)
		// evidence: validators 4 (E1) and 3 (E4) equivocated at height 2
		meta := sc.node.bo.LoadBlockMeta(2)
		vs2, err := sc.node.store.LoadValidators(2)
		if err != nil {
			return nil, err
		}
		mkEv := func(idx int) types.Evidence {
			bid := func(b byte) types.BlockID {
				return types.BlockID{Hash: common.BytesToHash([]byte{b}), PartsHeader: types.PartSetHeader{Total: 1, Hash: common.BytesToHash([]byte{b, 1})}}
			}
			return types.NewDuplicateVoteEvidence(nw.signedVote(idx, kproto.PrevoteType, 2, 1, bid(1), meta.Header.Time),
				nw.signedVote(idx, kproto.PrevoteType, 2, 1, bid(2), meta.Header.Time), meta.Header.Time, vs2)
		}
		evs = []types.Evidence{mkEv(3)}
		sc.e4, err = types.EvidenceToProto(mkEv(2))
		if err != nil {
			return nil, err
		}
	}
	if sc.e4 == nil {
		// initial scene: no earlier height exists, so the added evidence (for height 1) cannot verify
		ev := types.NewDuplicateVoteEvidence(nw.signedVote(2, kproto.PrevoteType, 1, 1, types.BlockID{Hash: common.BytesToHash([]byte{1}), PartsHeader: types.PartSetHeader{Total: 1, Hash: common.BytesToHash([]byte{1, 1})}}, sc.st.LastBlockTime),
			nw.signedVote(2, kproto.PrevoteType, 1, 1, types.BlockID{Hash: common.BytesToHash([]byte{2}), PartsHeader: types.PartSetHeader{Total: 1, Hash: common.BytesToHash([]byte{2, 1})}}, sc.st.LastBlockTime),
			sc.st.LastBlockTime, sc.st.Validators)
		sc.e4, err = types.EvidenceToProto(ev)
		if err != nil {
			return nil, err
		}
	}
	h.LastCommitHash = common.Hash{}
	sc.base = types.NewBlock(h, txs, lc, evs, hasher())
	sc.basePB, err = sc.base.ToProto()
	if err != nil {
		return nil, err
	}
	sc.baseBz, err = proto.Marshal(sc.basePB)
	if err != nil {
		return nil, err
	}
	sc.baseID = types.BlockID{Hash: sc.base.Hash(), PartsHeader: types.NewPartSetFromData(sc.baseBz, types.BlockPartSizeBytes).Header()}
	for _, v := range nw.vals {
		if !v.Address.Equal(sc.base.ProposerAddress()) {
			sc.otherVal = v.Address
		}
	}
	sc.val2 = nw.vals[1].Address
	sc.bogusSig = nw.signedVote(0, kproto.PrecommitType, 999, 9, types.BlockID{}, time.Unix(1, 0).UTC()).Signature
	return sc, nil
}

func keccakHash(bz []byte) []byte { return crypto.Keccak256(bz) }

// applyMut applies one catalogue mutation (MC_BlockFields.Apply1 / Rehash) to a proto block.
func (sc *scene) applyMut(pb *kproto.Block, name string, rehash bool) error {
	if err := sc.mutate(pb, name); err != nil {
		return err
	}
	if rehash {
		sc.rehash(pb, name)
	}
	return nil
}

// mutate: MC_BlockFields.Apply1 (a no-op when the mutation finds nothing to act on).
func (sc *scene) mutate(pb *kproto.Block, name string) error {
	other := bytes.Repeat([]byte{0xee}, 32)
	stranger := common.BytesToAddress([]byte{9}).Bytes()
	lc := pb.LastCommit
	// a mutation that finds nothing to act on (only in pairs, e.g. after the commit was removed) is a no-op, exactly as
	// MC_BlockFields.Applicable says
	errNA := fmt.Errorf("not applicable")
	needSigs := func(n int) error {
		if lc == nil || len(lc.Signatures) < n {
			return errNA
		}
		return nil
	}
	if strings.HasPrefix(name, "lc.") && name != "lc.nil" && lc == nil {
		return nil
	}
	switch name {
	case "txs.drop", "txs.alter":
		if len(pb.Data.Txs) < 1 {
			return nil
		}
	case "txs.swap":
		if len(pb.Data.Txs) < 2 {
			return nil
		}
	case "ev.alter", "ev.dup", "ev.malformed":
		if len(pb.Evidence.Evidence) < 1 {
			return nil
		}
	}
	absent := *(&types.CommitSig{BlockIDFlag: types.BlockIDFlagAbsent}).ToProto()
	dve := func(i int) *kproto.DuplicateVoteEvidence {
		return pb.Evidence.Evidence[i].Sum.(*kproto.Evidence_DuplicateVoteEvidence).DuplicateVoteEvidence
	}
	switch name {
	case "none":
	case "h.height+1":
		pb.Header.Height++
	case "h.height-1":
		pb.Header.Height--
	case "h.time+1":
		pb.Header.Time = pb.Header.Time.Add(time.Nanosecond)
	case "h.time-early":
		pb.Header.Time = sc.st.LastBlockTime.Add(-time.Hour)
	case "h.numTxs":
		pb.Header.NumTxs = 7
	case "h.gasLimit":
		pb.Header.GasLimit++
	case "h.lastBlockID.hash":
		pb.Header.LastBlockId.Hash = other
	case "h.lastBlockID.phash":
		pb.Header.LastBlockId.PartSetHeader.Hash = other
	case "h.lastBlockID.ptotal":
		pb.Header.LastBlockId.PartSetHeader.Total++
	case "h.proposer.validator":
		pb.Header.ProposerAddress = sc.otherVal.Bytes()
	case "h.proposer.stranger":
		pb.Header.ProposerAddress = stranger
	case "h.lcHash":
		pb.Header.LastCommitHash = other
	case "h.dataHash":
		pb.Header.DataHash = other
	case "h.evHash":
		pb.Header.EvidenceHash = other
	case "h.valHash":
		pb.Header.ValidatorsHash = other
	case "h.nextValHash":
		pb.Header.NextValidatorsHash = other
	case "h.consHash":
		pb.Header.ConsensusHash = other
	case "h.appHash":
		pb.Header.AppHash = other
	case "txs.drop":
		pb.Data.Txs = pb.Data.Txs[:len(pb.Data.Txs)-1]
	case "txs.add":
		pb.Data.Txs = append(pb.Data.Txs, sc.tx3)
	case "txs.swap":
		pb.Data.Txs[0], pb.Data.Txs[1] = pb.Data.Txs[1], pb.Data.Txs[0]
	case "txs.alter":
		pb.Data.Txs[0] = sc.tx5
	case "txs.garbage":
		pb.Data.Txs = append(pb.Data.Txs, []byte{0xff, 0x01, 0x02})
	case "lc.height-1":
		lc.Height--
	case "lc.height+1":
		lc.Height++
	case "lc.round+1":
		lc.Round++
	case "lc.bid.hash":
		lc.BlockID.Hash = other
	case "lc.bid.phash":
		lc.BlockID.PartSetHeader.Hash = other
	case "lc.bid.ptotal":
		lc.BlockID.PartSetHeader.Total++
	case "lc.nil":
		pb.LastCommit = nil
	case "lc.sigs.extra":
		lc.Signatures = append(lc.Signatures, absent)
	case "lc.sigs.droplast":
		if err := needSigs(1); err != nil {
			return nil
		}
		lc.Signatures = lc.Signatures[:len(lc.Signatures)-1]
	case "lc.sig1.absent", "lc.sig4.absent", "lc.two-absent", "lc.sig34.absent", "lc.sig34.absent-retimed":
		need := map[string]int{"lc.sig1.absent": 1, "lc.sig4.absent": 4, "lc.two-absent": 2, "lc.sig34.absent": 4, "lc.sig34.absent-retimed": 4}[name]
		if err := needSigs(need); err != nil {
			return nil
		}
		switch name {
		case "lc.sig1.absent":
			lc.Signatures[0] = absent
		case "lc.sig4.absent":
			lc.Signatures[3] = absent
		case "lc.sig34.absent":
			lc.Signatures[2], lc.Signatures[3] = absent, absent
		case "lc.sig34.absent-retimed":
			lc.Signatures[2], lc.Signatures[3] = absent, absent
			if cm, err := types.CommitFromProto(lc); err == nil && sc.st.LastValidators != nil {
				pb.Header.Time = cstate.MedianTime(cm, sc.st.LastValidators)
			}
		default:
			lc.Signatures[0], lc.Signatures[1] = absent, absent
		}
	case "lc.sig34.nil-signed":
		if err := needSigs(4); err != nil {
			return nil
		}
		for _, k := range []int{2, 3} {
			s := &lc.Signatures[k]
			if s.BlockIdFlag != kproto.BlockIDFlag(types.BlockIDFlagCommit) {
				continue
			}
			for i, pv := range sc.nw.privs {
				if bytes.Equal(pv.GetAddress().Bytes(), s.ValidatorAddress) {
					v := sc.nw.signedVote(i, kproto.PrecommitType, lc.Height, lc.Round, types.BlockID{}, s.Timestamp)
					s.BlockIdFlag = kproto.BlockIDFlag(types.BlockIDFlagNil)
					s.Signature = v.Signature
				}
			}
		}
	case "lc.sig1.nilflag", "lc.sig1.ts", "lc.sig1.addr-stranger", "lc.sig1.addr-validator", "lc.sig1.badsig", "lc.sig.swap12", "lc.sig1.nosig", "lc.sig1.flag0":
		need := 1
		if name == "lc.sig.swap12" {
			need = 2
		}
		if err := needSigs(need); err != nil {
			return nil
		}
		s := &lc.Signatures[0]
		switch name {
		case "lc.sig1.nilflag":
			s.BlockIdFlag = kproto.BlockIDFlag(types.BlockIDFlagNil)
		case "lc.sig1.ts":
			s.Timestamp = s.Timestamp.Add(time.Nanosecond)
		case "lc.sig1.addr-stranger":
			s.ValidatorAddress = stranger
		case "lc.sig1.addr-validator":
			s.ValidatorAddress = sc.val2.Bytes()
		case "lc.sig1.badsig":
			// a well-formed signature that is nobody's (idempotent, like the abstract sig.by = 0)
			s.Signature = append(append([]byte{}, sc.bogusSig[:32]...), sc.bogusSig[32:]...)
		case "lc.sig.swap12":
			lc.Signatures[0].Signature, lc.Signatures[1].Signature = lc.Signatures[1].Signature, lc.Signatures[0].Signature
		case "lc.sig1.nosig":
			s.Signature = nil
		case "lc.sig1.flag0":
			s.BlockIdFlag = 0
		}
	case "ev.drop":
		pb.Evidence.Evidence = nil
	case "ev.alter":
		d := *dve(0)
		d.ValidatorPower = 11 // the validator's power is 10
		pb.Evidence.Evidence[0] = kproto.Evidence{Sum: &kproto.Evidence_DuplicateVoteEvidence{DuplicateVoteEvidence: &d}}
	case "ev.add":
		pb.Evidence.Evidence = append(pb.Evidence.Evidence, *sc.e4)
	case "ev.dup":
		pb.Evidence.Evidence = append(pb.Evidence.Evidence, pb.Evidence.Evidence[0])
	case "ev.malformed":
		d := *dve(0)
		ka, _ := types.BlockIDFromProto(&d.VoteA.BlockID)
		kb, _ := types.BlockIDFromProto(&d.VoteB.BlockID)
		if ka != nil && kb != nil && ka.Key() < kb.Key() {
			d.VoteA, d.VoteB = d.VoteB, d.VoteA // votes in the wrong order (idempotent)
		}
		pb.Evidence.Evidence[0] = kproto.Evidence{Sum: &kproto.Evidence_DuplicateVoteEvidence{DuplicateVoteEvidence: &d}}
	default:
		return fmt.Errorf("unknown mutation %q", name)
	}
	return nil
}

// rehash: MC_BlockFields.Rehash - recompute the header's content hash of the group the mutation belongs to.
func (sc *scene) rehash(pb *kproto.Block, name string) {
	dve := func(i int) *kproto.DuplicateVoteEvidence {
		return pb.Evidence.Evidence[i].Sum.(*kproto.Evidence_DuplicateVoteEvidence).DuplicateVoteEvidence
	}
	switch {
	case strings.HasPrefix(name, "txs."):
		txs, err := types.DataFromProto(&pb.Data)
		if err != nil {
			// (pairs only) bytes that are not a transaction cannot be hashed as one; the block is refused by the
			// decoder whatever the header says
			pb.Header.DataHash = bytes.Repeat([]byte{0xdd}, 32)
			return
		}
		hh := types.EmptyRootHash
		if len(txs) > 0 {
			hh = types.DeriveSha(txs, hasher())
		}
		pb.Header.DataHash = hh.Bytes()
	case strings.HasPrefix(name, "lc."):
		hh := common.Hash{}
		if pb.LastCommit != nil {
			var bs [][]byte
			for i := range pb.LastCommit.Signatures {
				bz, err := pb.LastCommit.Signatures[i].Marshal()
				if err != nil {
					panic(err)
				}
				bs = append(bs, bz)
			}
			hh = common.BytesToHash(merkle.SimpleHashFromByteSlices(bs))
		}
		pb.Header.LastCommitHash = hh.Bytes()
	case strings.HasPrefix(name, "ev."):
		hh := common.Hash{}
		if len(pb.Evidence.Evidence) > 0 {
			var bs [][]byte
			for i := range pb.Evidence.Evidence {
				bz, err := dve(i).Marshal()
				if err != nil {
					panic(err)
				}
				bs = append(bs, keccakHash(bz))
			}
			hh = common.BytesToHash(merkle.SimpleHashFromByteSlices(bs))
		}
		pb.Header.EvidenceHash = hh.Bytes()
	}
}

func clonePB(sc *scene) *kproto.Block {
	var pb kproto.Block
	if err := proto.Unmarshal(sc.baseBz, &pb); err != nil {
		panic(err)
	}
	return &pb
}

type recvResult struct {
	stage      string // "decode", "basic", "state", "ok", or "PANIC: .."
	err        string
	hdrChanged bool
	idChanged  bool
	id         types.BlockID
	bz         []byte
	refAccept  bool // verdict of the uncached validateBlock (only when the block decoded and passed ValidateBasic)
	refRan     bool
}

// receive: what a node does with the bytes of a proposal block.
func (sc *scene) receive(exec *cstate.BlockExecutor, pb *kproto.Block) (r recvResult) {
	bz, err := proto.Marshal(pb)
	if err != nil {
		return recvResult{stage: "PANIC: marshal " + err.Error()}
	}
	r.bz = bz
	// proposer side: split; receiver side: reassemble from the parts (reverse order)
	tx := types.NewPartSetFromData(bz, types.BlockPartSizeBytes)
	rx := types.NewPartSetFromHeader(tx.Header())
	for i := int(tx.Total()) - 1; i >= 0; i-- {
		if c, _ := addPart(rx, tx.GetPart(i)); c != "added" {
			return recvResult{stage: "PANIC: genuine part refused: " + c}
		}
	}
	got, err := readAll(rx)
	if err != nil || !bytes.Equal(got, bz) {
		return recvResult{stage: fmt.Sprintf("PANIC: reassembly differs (%v)", err)}
	}
	hb, _ := pb.Header.Marshal()
	hb0, _ := sc.basePB.Header.Marshal()
	r.hdrChanged = !bytes.Equal(hb, hb0)
	r.id = types.BlockID{Hash: common.BytesToHash(keccakHash(hb)), PartsHeader: tx.Header()}
	func() {
		defer func() {
			if p := recover(); p != nil {
				r.stage = fmt.Sprintf("PANIC: %v", p)
			}
		}()
		var back kproto.Block
		if err := proto.Unmarshal(got, &back); err != nil {
			r.stage, r.err = "decode", err.Error()
			return
		}
		blk, err := types.BlockFromProto(&back, hasher())
		if err != nil {
			r.err = err.Error()
			if blk == nil {
				r.stage = "decode"
			} else {
				r.stage = "basic"
			}
			return
		}
		// the decoded block is the block: hash of the header as the code computes it
		r.hdrChanged = blk.Hash() != sc.base.Hash()
		r.id.Hash = blk.Hash()
		func() {
			defer func() {
				if p := recover(); p != nil {
					r.refRan = false
				}
			}()
			r.refAccept = cstate.VerifValidateBlock(sc.node.evp, sc.node.store, sc.st, blk) == nil
			r.refRan = true
		}()
		if err := exec.ValidateBlock(sc.st, blk); err != nil {
			r.stage, r.err = "state", err.Error()
			return
		}
		r.stage = "ok"
	}()
	r.idChanged = !r.id.Equal(sc.baseID)
	return r
}

type bfLine struct {
	H [][]json.RawMessage `json:"h"`
}
type bfStep struct {
	muts  [][2]string
	class string
	hdr   bool
	id    bool
}

func parseBFStep(raw []json.RawMessage) (s bfStep, err error) {
	if len(raw) != 4 {
		return s, fmt.Errorf("step with %d elements", len(raw))
	}
	var ms [][]string
	if err = json.Unmarshal(raw[0], &ms); err != nil {
		return
	}
	for _, m := range ms {
		s.muts = append(s.muts, [2]string{m[0], m[1]})
	}
	if err = json.Unmarshal(raw[1], &s.class); err != nil {
		return
	}
	if err = json.Unmarshal(raw[2], &s.hdr); err != nil {
		return
	}
	err = json.Unmarshal(raw[3], &s.id)
	return
}

// groupOf names the part of the block a mutation list touches (stable signatures)
func groupOf(ms [][2]string) string {
	g := map[string]bool{}
	for _, m := range ms {
		n := m[0]
		switch {
		case strings.HasPrefix(n, "lc.height"), strings.HasPrefix(n, "lc.round"), strings.HasPrefix(n, "lc.bid"):
			g["lastcommit-height-round-blockid"] = true
		default:
			g[strings.SplitN(n, ".", 2)[0]] = true
		}
	}
	var out []string
	for k := range g {
		out = append(out, k)
	}
	sort.Strings(out)
	return strings.Join(out, "+")
}

func mutName(ms [][2]string) string {
	var parts []string
	for _, m := range ms {
		n := m[0]
		if m[1] == "yes" {
			n += "(rehashed)"
		}
		parts = append(parts, n)
	}
	return strings.Join(parts, "+")
}

func TestBlockFields(t *testing.T) {
	res := mbt.NewResult()
	defer res.Write()
	initial := os.Getenv("BF_INITIAL") == "1"
	sceneChanged = os.Getenv("BF_CHANGED") == "1"
	sceneName := "height3"
	if initial {
		sceneName = "initial"
	} else if sceneChanged {
		sceneName = "changed"
	}
	nScenes := mbt.EnvInt("BF_SCENES", 4)
	var scenes []*scene
	for i := 0; i < nScenes; i++ {
		sc, err := newScene(initial)
		if err != nil {
			res.Mismatch("infra:scene", err.Error(), nil)
			return
		}
		scenes = append(scenes, sc)
	}
	// the genuine block must be valid, otherwise nothing below means anything
	for _, sc := range scenes {
		r := sc.receive(sc.node.newExecutor(), clonePB(sc))
		if r.stage != "ok" || r.hdrChanged || r.idChanged {
			sig := "infra:base-invalid"
			if sceneChanged {
				// the scene is the static one plus a set change the code performed itself: a genuine block (last commit
				// and median time by the PREVIOUS set) that is refused here is a verdict, not a broken harness
				sig = "blockfields:changed:genuine-block-rejected"
			}
			res.Mismatch(sig, fmt.Sprintf("the genuine block of scene %s is not accepted: %s %s (hdrChanged=%v idChanged=%v)", sceneName, r.stage, r.err, r.hdrChanged, r.idChanged), nil)
			return
		}
	}
	pfx := "blockfields:" + sceneName + ":"
	var mu sync.Mutex
	accepted := map[string][]byte{} // BlockID -> bytes of an accepted block
	stricter := map[string]int{}
	laxer := map[string]int{}
	stageDiff := map[string]int{}
	observations := map[string]string{}
	sent, err := mbt.EachLine(os.Getenv("BF_DUMP"), nScenes, mbt.EnvInt("BF_LIMIT", 0), mbt.EnvInt("BF_STRIDE", 1), mbt.Seed(), func(n int, raw []byte) {
		var l bfLine
		if err := json.Unmarshal(raw, &l); err != nil {
			res.Mismatch("infra:parse", err.Error(), string(raw))
			return
		}
		sc := scenes[n%len(scenes)]
		sc.mu.Lock()
		defer sc.mu.Unlock()
		exec := sc.node.newExecutor()
		cachedHdr := map[common.Hash]bool{} // header hashes of the blocks this executor has accepted
		var names []string
		for k, rawStep := range l.H {
			st, err := parseBFStep(rawStep)
			if err != nil {
				res.Mismatch("infra:parse", err.Error(), string(raw))
				return
			}
			name := mutName(st.muts)
			names = append(names, name)
			pb := clonePB(sc)
			for _, m := range st.muts {
				if err := sc.applyMut(pb, m[0], m[1] == "yes"); err != nil {
					res.Mismatch("infra:mutation", err.Error(), string(raw))
					return
				}
			}
			r := sc.receive(exec, pb)
			mode := "fresh"
			if k > 0 {
				mode = "warm"
			}
			detail := map[string]interface{}{"scene": sceneName, "validations": names, "step": k + 1, "real_stage": r.stage, "real_error": r.err,
				"specified": st.class, "executor": mode, "seed": mbt.Seed()}
			if strings.HasPrefix(r.stage, "PANIC") {
				// stable signature: the mechanism, not the mutation list
				what := groupOf(st.muts)
				if pb.LastCommit == nil {
					what = "nil-last-commit"
				}
				res.Mismatch(pfx+"panic:"+what, fmt.Sprintf("receiving block [%s] (validations by this executor so far %v): %s; specified outcome %q", name, names, r.stage, st.class), detail)
				return
			}
			realAccept := r.stage == "ok"
			specAccept := st.class == "ok"
			tampered := !bytes.Equal(r.bz, sc.baseBz)
			// C13, first wording, evaluated on the real values: a changed block has another block hash (header hash)
			// or fails validation.  A block that is accepted although the specification refuses it, but whose hash
			// changed, does not falsify this statement (it is C03's concern) and is only counted.
			switch {
			case realAccept && !specAccept && !r.hdrChanged:
				sig := pfx + "accepted-invalid:" + mode + ":" + name
				if cachedHdr[r.id.Hash] {
					// one mechanism, one signature: this executor has accepted a block with the same HEADER hash before
					sig = pfx + "accepted-invalid:warm:same-header-hash-as-accepted-block"
				}
				res.Mismatch(sig,
					fmt.Sprintf("a %s executor ACCEPTED block [%s] (validations by this executor so far: %v) although it differs from the genuine block, has the SAME block hash and is invalid (specified: refused, %s). BlockID changed=%v; uncached validateBlock accepts=%v",
						mode, name, names, st.class, r.idChanged, r.refAccept), detail)
				return
			case realAccept && !specAccept && os.Getenv("BF_STRICT") == "1":
				// C03's validity clause: the validator votes for and commits only valid extensions of its chain.  A block
				// the specification refuses (wrong height / parent, last commit that does not verify against the PREVIOUS
				// set, hashes differing from the own state, time other than the prescribed median) and the real
				// validateBlock accepts is a violation of that clause whether or not its hash changed
				res.Mismatch(pfx+"invalid-extension-accepted:"+name,
					fmt.Sprintf("a %s executor ACCEPTED block [%s] (validations by this executor so far: %v); specified: refused, %s", mode, name, names, st.class), detail)
				return
			case realAccept && !specAccept:
				mu.Lock()
				laxer[name+" ("+mode+" executor; specified "+st.class+"; block hash changed)"]++
				mu.Unlock()
				return
			case !realAccept && specAccept:
				// stricter than specified: does not falsify the statement (Rule 2)
				mu.Lock()
				stricter[name+" -> refused at stage "+r.stage]++
				mu.Unlock()
				return
			case !realAccept && !strings.HasPrefix(st.class, r.stage):
				mu.Lock()
				stageDiff[name+": real "+r.stage+" / specified "+st.class]++
				mu.Unlock()
			}
			if r.refRan && r.refAccept && !specAccept && !r.hdrChanged {
				res.Mismatch(pfx+"validateBlock:"+name, fmt.Sprintf("uncached validateBlock ACCEPTS block [%s] (same block hash as the genuine block, specified %q)", name, st.class), detail)
			}
			if st.hdr && !r.hdrChanged {
				res.Mismatch(pfx+"header-hash-unchanged:"+name, fmt.Sprintf("block [%s]: the header hash did NOT change; specified: it changes", name), detail)
			}
			if tampered && !r.idChanged && realAccept {
				res.Mismatch(pfx+"tamper-not-evident:"+name, fmt.Sprintf("block [%s] differs from the genuine block, has the same BlockID and is accepted", name), detail)
			}
			if tampered && !r.hdrChanged && realAccept && specAccept {
				// acceptable by the specification as well: the fields of the (empty) last commit at the initial height, which
				// only the part-set hash covers (BlockFields.tla CommitHash; TLC refutes TamperEvidentHash for that scene)
				res.Mismatch(pfx+"acceptable-with-unchanged-block-hash:"+groupOf(st.muts),
					fmt.Sprintf("block [%s] differs from the genuine block, keeps the SAME block hash (header hash) and is acceptable (also by the specification as transcribed); only the part-set hash of its BlockID differs", name), detail)
				mu.Lock()
				observations[name] = "accepted with UNCHANGED header hash (BlockID differs through the part-set hash only)"
				mu.Unlock()
			}
			if realAccept {
				cachedHdr[r.id.Hash] = true
				key := string(r.id.Hash.Bytes()) + string(r.id.PartsHeader.Hash.Bytes()) + fmt.Sprint(r.id.PartsHeader.Total)
				mu.Lock()
				if prev, ok := accepted[key]; ok && !bytes.Equal(prev, r.bz) {
					res.Mismatch(pfx+"shared-id", fmt.Sprintf("two different acceptable blocks share BlockID %v (second one: [%s])", r.id, name), detail)
				}
				accepted[key] = r.bz
				mu.Unlock()
			}
		}
		res.Count(1)
		if last := names[len(names)-1]; last != "none" {
			res.Distinct(strings.Join(names, " ; "))
		}
		if n%211 == 1 {
			res.Sample(map[string]interface{}{"scene": sceneName, "validations_by_one_executor": names, "specified_last": string(l.H[len(l.H)-1][1])})
		}
	})
	if err != nil {
		res.Mismatch("infra:read", err.Error(), nil)
	}
	if sent == 0 {
		res.Mismatch("infra:empty-dump", "no behaviours in "+os.Getenv("BF_DUMP"), nil)
	}
	res.Behaviours = sent
	// keep the evidence file readable: the first dozen entries of each map plus the number of entries
	trim := func(m map[string]int) map[string]int {
		if len(m) <= 12 {
			return m
		}
		keys := make([]string, 0, len(m))
		for k := range m {
			keys = append(keys, k)
		}
		sort.Strings(keys)
		out := map[string]int{fmt.Sprintf("(%d entries, first 12 shown)", len(m)): len(m)}
		for _, k := range keys[:12] {
			out[k] = m[k]
		}
		return out
	}
	stricter, laxer, stageDiff = trim(stricter), trim(laxer), trim(stageDiff)
	res.Set("blockfields_"+sceneName+"_replayed", sent)
	res.Set("blockfields_"+sceneName+"_distinct_acceptable_block_ids", len(accepted))
	if len(stricter) > 0 {
		res.Set("blockfields_"+sceneName+"_stricter_than_specified", stricter)
	}
	if len(laxer) > 0 {
		res.Set("blockfields_"+sceneName+"_accepted_though_specified_invalid_with_changed_block_hash", laxer)
	}
	if len(stageDiff) > 0 {
		res.Set("blockfields_"+sceneName+"_stage_differences", stageDiff)
	}
	if len(observations) > 0 {
		res.Set("blockfields_"+sceneName+"_observations", observations)
	}
}
