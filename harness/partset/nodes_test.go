package partset

// Real nodes for the block-field catalogue: four real ConsensusState instances (real BlockChain with the
// staking genesis, TxPool, evidence pool, BlockExecutor, cstate.Store on a memorydb) driven synchronously
// through the consensus export hooks, as in the design pilots (/verif/proto/h_test.go.txt, crash_test.go.txt).

import (
	"fmt"
	"math/big"
	"sort"
	"time"

	"github.com/kardiachain/go-kardia/configs"
	"github.com/kardiachain/go-kardia/consensus"
	"github.com/kardiachain/go-kardia/kai/kaidb"
	"github.com/kardiachain/go-kardia/kai/kaidb/memorydb"
	"github.com/kardiachain/go-kardia/kai/state/cstate"
	"github.com/kardiachain/go-kardia/lib/common"
	"github.com/kardiachain/go-kardia/lib/crypto"
	"github.com/kardiachain/go-kardia/lib/log"
	"github.com/kardiachain/go-kardia/lib/p2p"
	"github.com/kardiachain/go-kardia/mainchain/blockchain"
	"github.com/kardiachain/go-kardia/mainchain/genesis"
	"github.com/kardiachain/go-kardia/mainchain/staking"
	stypes "github.com/kardiachain/go-kardia/mainchain/staking/types"
	"github.com/kardiachain/go-kardia/mainchain/tx_pool"
	"github.com/kardiachain/go-kardia/types"
	"github.com/kardiachain/go-kardia/types/evidence"
)

const chainID = "verif"

func mkGenesis() *genesis.Genesis {
	initValue, _ := big.NewInt(0).SetString("10000000000000000", 10)
	accts := map[string]*big.Int{"0xc1fe56E3F58D3244F606306611a5d10c8333f1f6": initValue}
	configs.AddDefaultContract()
	gc := make(map[string]string)
	for key, c := range configs.GetContracts() {
		configs.LoadGenesisContract(key, c.Address, c.ByteCode, c.ABI)
		if key != configs.StakingContractKey {
			gc[c.Address] = c.ByteCode
		}
	}
	g := genesis.DefaulTestnetFullGenesisBlock(accts, gc)
	g.Timestamp = time.Unix(1700000000, 0)
	g.ChainID = chainID
	return g
}

type cnode struct {
	id      int
	cs      *consensus.ConsensusState
	pending []consensus.VerifTimeout
	db      kaidb.Database
	store   cstate.Store
	evp     *evidence.Pool
	bo      *blockchain.BlockOperations
	bc      *blockchain.BlockChain
	started bool
}

// newExecutor returns a FRESH BlockExecutor (empty validation cache) over the node's stores.
func (n *cnode) newExecutor() *cstate.BlockExecutor {
	return cstate.NewBlockExecutor(n.store, log.New(), n.evp, n.bo)
}

// boOps is what the consensus state and the block executor need from the chain
type boOps interface {
	consensus.BaseBlockOperations
	cstate.BlockStore
}

// changingOps reports, for the block of height `at`, the validator set `vals` as the application's result (what the
// staking contract would return after a power change); everything else is the real BlockOperations
type changingOps struct {
	*blockchain.BlockOperations
	at   uint64
	vals []*types.Validator
}

func (o *changingOps) CommitAndValidateBlockTxs(b *types.Block, lci stypes.LastCommitInfo, byz []stypes.Evidence) ([]*types.Validator, common.Hash, error) {
	vals, app, err := o.BlockOperations.CommitAndValidateBlockTxs(b, lci, byz)
	if err == nil && b.Height() == o.at {
		vals = nil
		for _, v := range o.vals {
			vals = append(vals, types.NewValidator(v.Address, v.VotingPower))
		}
	}
	return vals, app, err
}

func buildNode(i int, priv types.PrivValidator, vals []*types.Validator, wrap ...func(*blockchain.BlockOperations) boOps) (*cnode, error) {
	db := memorydb.New()
	g := mkGenesis()
	bc, err := blockchain.NewBlockChain(db, &blockchain.CacheConfig{TrieCleanLimit: 16, TrieDirtyDisabled: true, TrieTimeLimit: 5 * time.Minute}, g)
	if err != nil {
		return nil, err
	}
	store := cstate.NewStore(db)
	vs := types.NewValidatorSet(vals)
	st := cstate.LatestBlockState{
		ChainID: chainID, InitialHeight: 1, LastBlockHeight: 0, LastBlockID: types.BlockID{},
		LastBlockTime: g.Timestamp, Validators: vs, NextValidators: vs.CopyIncrementProposerPriority(1),
		LastHeightValidatorsChanged: 1, ConsensusParams: *configs.DefaultConsensusParams(), LastHeightConsensusParamsChanged: 1,
	}
	st.AppHash = bc.CurrentBlock().AppHash()
	store.Save(st)
	stk, _ := staking.NewSmcStakingUtil()
	pool := tx_pool.NewTxPool(tx_pool.TxPoolConfig{GlobalSlots: 64, GlobalQueue: 64}, bc.Config(), bc)
	evp, err := evidence.NewPool(store, db, bc)
	if err != nil {
		return nil, err
	}
	bo := blockchain.NewBlockOperations(log.New(), bc, pool, evp, stk)
	var ops boOps = bo
	if len(wrap) > 0 && wrap[0] != nil {
		ops = wrap[0](bo)
	}
	be := cstate.NewBlockExecutor(store, log.New(), evp, ops)
	cs := consensus.NewConsensusState(log.New(), configs.TestConsensusConfig(), st, ops, be, evp)
	nd := &cnode{id: i, cs: cs, db: db, store: store, evp: evp, bo: bo, bc: bc}
	cs.SetPrivValidator(priv)
	eb := types.NewEventBus()
	eb.SetLogger(log.New())
	if err := eb.Start(); err != nil {
		return nil, err
	}
	cs.SetEventBus(eb)
	cs.VerifSetTicker(func(ti consensus.VerifTimeout) { nd.pending = append(nd.pending, ti) })
	return nd, nil
}

type network struct {
	privs []*types.DefaultPrivValidator // in validator-set order (equal powers: by address)
	vals  []*types.Validator
	nodes []*cnode
}

// newNetwork builds n nodes with equal voting power 10; privs[i] is the key of validator index i.
func newNetwork(n int) (*network, error) {
	log.Root().SetHandler(log.DiscardHandler())
	nw := &network{}
	for i := 0; i < n; i++ {
		k, _ := crypto.ToECDSA(crypto.Keccak256([]byte(fmt.Sprintf("val%d", i))))
		nw.privs = append(nw.privs, types.NewDefaultPrivValidator(k))
	}
	sort.Slice(nw.privs, func(a, b int) bool {
		return string(nw.privs[a].GetAddress().Bytes()) < string(nw.privs[b].GetAddress().Bytes())
	})
	for i := 0; i < n; i++ {
		nw.vals = append(nw.vals, types.NewValidator(nw.privs[i].GetAddress(), 10))
	}
	for i := 0; i < n; i++ {
		nd, err := buildNode(i, nw.privs[i], nw.vals)
		if err != nil {
			return nil, err
		}
		nw.nodes = append(nw.nodes, nd)
	}
	return nw, nil
}

// newNetworkChanging: as newNetwork, but the execution of block `at` changes the powers to `powers` (in force from
// height at+2); the order of the validators stays the same as long as `powers` is non-increasing
func newNetworkChanging(n int, at uint64, powers []int64) (*network, error) {
	log.Root().SetHandler(log.DiscardHandler())
	nw := &network{}
	for i := 0; i < n; i++ {
		k, _ := crypto.ToECDSA(crypto.Keccak256([]byte(fmt.Sprintf("val%d", i))))
		nw.privs = append(nw.privs, types.NewDefaultPrivValidator(k))
	}
	sort.Slice(nw.privs, func(a, b int) bool {
		return string(nw.privs[a].GetAddress().Bytes()) < string(nw.privs[b].GetAddress().Bytes())
	})
	var changed []*types.Validator
	for i := 0; i < n; i++ {
		nw.vals = append(nw.vals, types.NewValidator(nw.privs[i].GetAddress(), 10))
		changed = append(changed, types.NewValidator(nw.privs[i].GetAddress(), powers[i]))
	}
	for i := 0; i < n; i++ {
		nd, err := buildNode(i, nw.privs[i], nw.vals, func(bo *blockchain.BlockOperations) boOps {
			return &changingOps{BlockOperations: bo, at: at, vals: changed}
		})
		if err != nil {
			return nil, err
		}
		nw.nodes = append(nw.nodes, nd)
	}
	return nw, nil
}

// runTo drives the network (every message delivered to everybody, lowest timeout fired when idle) until
// every node works on `height`.
func (nw *network) runTo(height uint64) error {
	type env struct {
		to, from int
		msg      consensus.Message
	}
	var q []env
	for _, nd := range nw.nodes {
		if !nd.started {
			nd.started = true
			nd.cs.VerifScheduleRound0()
		}
	}
	collect := func(nd *cnode) {
		for _, m := range nd.cs.VerifDrainInternal() {
			for j := range nw.nodes {
				q = append(q, env{j, nd.id, m})
			}
		}
	}
	done := func() bool {
		for _, nd := range nw.nodes {
			if nd.cs.GetRoundState().Height < height {
				return false
			}
		}
		return true
	}
	for steps := 0; steps < 200000; steps++ {
		if done() && len(q) == 0 {
			return nil
		}
		if len(q) > 0 {
			e := q[0]
			q = q[1:]
			peer := p2p.ID("")
			if e.from != e.to {
				peer = p2p.ID(fmt.Sprintf("n%d", e.from))
			}
			nw.nodes[e.to].cs.VerifHandleMsg(e.msg, peer)
			collect(nw.nodes[e.to])
			continue
		}
		fired := false
		for _, nd := range nw.nodes {
			if len(nd.pending) == 0 || nd.cs.GetRoundState().Height >= height {
				continue
			}
			sort.SliceStable(nd.pending, func(a, b int) bool {
				x, y := nd.pending[a], nd.pending[b]
				return consensus.CompareHRS(x.Height, x.Round, x.Step, y.Height, y.Round, y.Step) < 0
			})
			ti := nd.pending[len(nd.pending)-1]
			nd.pending = nil
			nd.cs.VerifHandleTimeout(ti)
			collect(nd)
			fired = true
		}
		if !fired {
			break
		}
	}
	if !done() {
		hs := ""
		for _, nd := range nw.nodes {
			rs := nd.cs.GetRoundState()
			hs += fmt.Sprintf(" %d/%d/%v(pending %d)", rs.Height, rs.Round, rs.Step, len(nd.pending))
		}
		return fmt.Errorf("network did not reach height %d:%s", height, hs)
	}
	return nil
}
