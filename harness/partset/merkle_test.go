package partset

import (
	"bytes"
	"encoding/json"
	"fmt"
	"math/rand"
	"os"
	"testing"

	"github.com/kardiachain/go-kardia/lib/merkle"

	"verifharness/internal/mbt"
)

type mkLine struct {
	C struct {
		N   int    `json:"n"`
		I   int    `json:"i"`
		Jdx int    `json:"jdx"`
		Tot int    `json:"tot"`
		Lf  int    `json:"lf"`
		Lh  string `json:"lh"`
		Av  string `json:"av"`
	} `json:"c"`
	R bool `json:"r"`
}

// merkleItems: N distinct leaves; several content families (seeded lengths, an empty leaf, leaves that are
// 64 bytes long like the preimage of an inner node, leaves that differ in their last byte only).
func merkleItems(n int, family int, rng *rand.Rand) ([][]byte, []byte) {
	items := make([][]byte, n)
	for i := range items {
		var b []byte
		switch family % 4 {
		case 0: // seeded random lengths 1..300
			b = make([]byte, 1+rng.Intn(300))
			rng.Read(b)
			b[0] = byte(i)
		case 1: // 64-byte leaves
			b = make([]byte, 64)
			rng.Read(b)
			b[0] = byte(i)
		case 2: // common prefix, last byte differs; leaf 0 is empty
			if i > 0 {
				b = append(bytes.Repeat([]byte{0xab}, 40), byte(i))
			} else {
				b = []byte{}
			}
		case 3: // one-byte leaves
			b = []byte{byte(i)}
		}
		items[i] = b
	}
	return items, []byte("foreign-leaf-zz")
}

// TestMerkle: every abstract proof check of MC_Merkle against the real SimpleProof.Verify.
func TestMerkle(t *testing.T) {
	res := mbt.NewResult()
	defer res.Write()
	type fam struct {
		items   [][]byte
		foreign []byte
		root    []byte
		proofs  []*merkle.SimpleProof
	}
	famsOf := map[int][]fam{}
	for n := 1; n <= 9; n++ {
		rng := rand.New(rand.NewSource(mbt.Seed()*1000 + int64(n)))
		var fams []fam
		for f := 0; f < 4; f++ {
			items, foreign := merkleItems(n, f, rng)
			root, proofs := merkle.SimpleProofsFromByteSlices(items)
			fams = append(fams, fam{items, foreign, root, proofs})
			res.Count(1)
			if !bytes.Equal(root, merkle.SimpleHashFromByteSlices(items)) {
				res.Mismatch("merkle:root:two-constructions", fmt.Sprintf("SimpleProofsFromByteSlices and SimpleHashFromByteSlices give different roots for %d leaves", n), nil)
			}
			for i, p := range proofs {
				if int(p.Index) != i || int(p.Total) != n || !bytes.Equal(p.ComputeRootHash(), root) {
					res.Mismatch("merkle:proof:genuine", fmt.Sprintf("genuine proof %d of %d is malformed", i, n), nil)
				}
			}
			if n >= 2 {
				// domain separation: the concatenation of the root's children is not a one-leaf tree with that root
				k := split(n)
				pre := append(append([]byte{}, merkle.SimpleHashFromByteSlices(items[:k])...), merkle.SimpleHashFromByteSlices(items[k:])...)
				if bytes.Equal(merkle.SimpleHashFromByteSlices([][]byte{pre}), root) {
					res.Mismatch("merkle:domain-separation", "the preimage of the root, offered as a single leaf, hashes to the root (leaf/inner prefixes missing)", nil)
				}
			}
		}
		famsOf[n] = fams
	}
	pfx := "merkle:"
	sent, err := mbt.EachLine(os.Getenv("MK_DUMP"), 0, mbt.EnvInt("MK_LIMIT", 0), mbt.EnvInt("MK_STRIDE", 1), mbt.Seed(), func(ln int, raw []byte) {
		var l mkLine
		if err := json.Unmarshal(raw, &l); err != nil {
			res.Mismatch("infra:parse", err.Error(), string(raw))
			return
		}
		n := l.C.N
		fams := famsOf[n]
		if fams == nil {
			res.Mismatch("infra:merkle-n", fmt.Sprintf("no tree with %d leaves prepared", n), string(raw))
			return
		}
		f := fams[ln%len(fams)]
		p := cloneProof(*f.proofs[l.C.I])
		p.Index, p.Total = uint64(l.C.Jdx), uint64(l.C.Tot)
		leaf := f.foreign
		if l.C.Lf < n {
			leaf = f.items[l.C.Lf]
		}
		if l.C.Lh == "fix" {
			p.LeafHash = leafHashOf(leaf)
		}
		p.Aunts = mutAunts(p.Aunts, l.C.Av)
		var verr error
		func() {
			defer func() {
				if r := recover(); r != nil {
					verr = fmt.Errorf("PANIC: %v", r)
				}
			}()
			verr = p.Verify(f.root, leaf)
		}()
		res.Count(1)
		genuine := l.C.Jdx == l.C.I && l.C.Tot == n && l.C.Lf == l.C.I && l.C.Av == "same"
		if !genuine {
			res.Distinct(string(raw))
		}
		got := verr == nil
		if got != l.R || (verr != nil && len(verr.Error()) > 5 && verr.Error()[:5] == "PANIC") {
			kind := "rejects-valid"
			if got {
				kind = "accepts-invalid"
			}
			res.Mismatch(pfx+"verify:"+kind, fmt.Sprintf("N=%d family %d: Verify of proof(leaf %d) with Index=%d Total=%d aunts=%s leafhash=%s against leaf %d: real %v (%v), specified %v",
				n, ln%len(fams), l.C.I, l.C.Jdx, l.C.Tot, l.C.Av, l.C.Lh, l.C.Lf, got, verr, l.R), json.RawMessage(raw))
		}
		if ln%4999 == 1 {
			res.Sample(map[string]interface{}{"check": json.RawMessage(raw), "real_error": fmt.Sprint(verr)})
		}
	})
	if err != nil {
		res.Mismatch("infra:read", err.Error(), nil)
	}
	if sent == 0 {
		res.Mismatch("infra:empty-dump", "no checks in "+os.Getenv("MK_DUMP"), nil)
	}
	res.Behaviours = sent
	res.Set("merkle_checked", sent)
}
