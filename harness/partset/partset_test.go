// Package partset binds specs/partset (PartSet.tla, Merkle.tla, BlockFields.tla, Codec.tla) to the real
// code (property C13):
//
//	TestReplay     every transition of MC_PartSet replayed into a real types.PartSet built from real block bytes
//	TestMerkle     every abstract proof mutation of MC_Merkle against lib/merkle SimpleProof.Verify
//	TestBlockFields every behaviour of MC_BlockFields (validate(mutant) sequences) against the real decode +
//	               ValidateBasic + cstate validateBlock / BlockExecutor.ValidateBlock on a real chain state
//	TestCodec      every abstract record of MC_Codec through the real proto wire codecs and kai/rawdb
package partset

import (
	"bytes"
	"encoding/json"
	"fmt"
	"io/ioutil"
	"math/big"
	"math/rand"
	"os"
	"runtime/debug"
	"sync"
	"testing"
	"time"

	"github.com/gogo/protobuf/proto"

	"github.com/kardiachain/go-kardia/lib/common"
	"github.com/kardiachain/go-kardia/lib/merkle"
	kproto "github.com/kardiachain/go-kardia/proto/kardiachain/types"
	"github.com/kardiachain/go-kardia/trie"
	"github.com/kardiachain/go-kardia/types"

	"verifharness/internal/mbt"
)

func hasher() types.TrieHasher { return trie.NewStackTrie(nil) }

// ---------------------------------------------------------------------------------------------
// real block bytes of a chosen size

// sizedBlock returns a real types.Block (header with every field set, two transactions, a last commit with
// three signatures) whose proto encoding satisfies pred, searching transaction payload lengths around
// `about` bytes.  tag makes the content of different blocks different.
func sizedBlock(tag byte, about int, pred func(n int) bool) (*types.Block, []byte) {
	mk := func(p0, p1 int) (*types.Block, []byte) {
		pay := func(n int, salt byte) []byte {
			// deterministic and NOT periodic: two parts of one block never have the same bytes
			b := make([]byte, n)
			rand.New(rand.NewSource(int64(tag)*1000 + int64(salt))).Read(b)
			return b
		}
		to := common.BytesToAddress([]byte{tag, 0x11})
		txs := []*types.Transaction{
			types.NewTransaction(1, to, big.NewInt(5), 30000, big.NewInt(1), pay(p0, 1)),
			types.NewTransaction(2, to, big.NewInt(7), 30000, big.NewInt(1), pay(p1, 2)),
		}
		bid := types.BlockID{Hash: common.BytesToHash([]byte{tag, 1}), PartsHeader: types.PartSetHeader{Total: 3, Hash: common.BytesToHash([]byte{tag, 2})}}
		var sigs []types.CommitSig
		for i := 0; i < 3; i++ {
			sigs = append(sigs, types.CommitSig{BlockIDFlag: types.BlockIDFlagCommit, ValidatorAddress: common.BytesToAddress([]byte{byte(i + 1)}),
				Timestamp: time.Unix(1700000000+int64(i), int64(tag)).UTC(), Signature: bytes.Repeat([]byte{byte(i + 1), tag}, 32)})
		}
		lc := types.NewCommit(6, 1, bid, sigs)
		h := &types.Header{Height: 7, Time: time.Unix(1700000100, 5).UTC(), GasLimit: 20000000, LastBlockID: bid,
			ProposerAddress: common.BytesToAddress([]byte{1}), ValidatorsHash: common.BytesToHash([]byte{tag, 3}),
			NextValidatorsHash: common.BytesToHash([]byte{tag, 4}), ConsensusHash: common.BytesToHash([]byte{tag, 5}),
			AppHash: common.BytesToHash([]byte{tag, 6})}
		b := types.NewBlock(h, txs, lc, nil, hasher())
		pb, err := b.ToProto()
		if err != nil {
			panic(err)
		}
		bz, err := proto.Marshal(pb)
		if err != nil {
			panic(err)
		}
		return b, bz
	}
	// the encoded size grows by one byte per payload byte except at length-prefix boundaries: walk p0 towards
	// the target, and change the second payload when a boundary makes the target unreachable
	for p1 := 0; p1 < 64; p1++ {
		p0 := 0
		for it := 0; it < 12; it++ {
			b, bz := mk(p0, p1)
			if pred(len(bz)) {
				return b, bz
			}
			p0 += about - len(bz)
			if p0 < 0 {
				break
			}
		}
	}
	panic(fmt.Sprintf("no block of the requested size near %d", about))
}

// ---------------------------------------------------------------------------------------------
// worlds: the concrete blocks A (original), B (same number of parts), C (one part more)

type world struct {
	name     string
	total    int
	partSize uint32
	realBlk  bool // data is the proto encoding of a real block
	dataA    []byte
	blockA   *types.Block
	A, B, C  *types.PartSet
	hdr      types.PartSetHeader // header the receiver is built from (A's; for total 0 the zero header)
	// the parts of A, B, C (read once: PartSet.GetPart takes the set's mutex, which all workers would fight for)
	pA, pB, pC []*types.Part
}

func rawData(n int, salt byte) []byte {
	b := make([]byte, n)
	rand.New(rand.NewSource(7000 + int64(salt))).Read(b)
	return b
}

// lastLen: length of the last part for the named shape
func lastLen(shape string, partSize int) int {
	switch shape {
	case "exact":
		return partSize
	case "one":
		return 1
	default:
		return partSize/2 + 1
	}
}

// mkWorld: realPartSize = 0 gives raw bytes in 5-byte parts, otherwise the proto encoding of a real block split into
// parts of that size (types.BlockPartSizeBytes is what consensus uses).
func mkWorld(total int, shape string, realPartSize uint32) *world {
	w := &world{name: fmt.Sprintf("total=%d/%s/partsize=%d", total, shape, realPartSize), total: total, realBlk: realPartSize > 0 && total > 0}
	if realPartSize == 0 {
		w.name = fmt.Sprintf("total=%d/%s/raw bytes, partsize=5", total, shape)
	}
	if !w.realBlk {
		w.partSize = 5
		sz := func(k int) int {
			if k == 0 {
				return 0
			}
			return (k-1)*5 + lastLen(shape, 5)
		}
		w.dataA = rawData(sz(total), 1)
		if total > 0 {
			w.A = types.NewPartSetFromData(w.dataA, w.partSize)
			w.B = types.NewPartSetFromData(rawData(sz(total), 2), w.partSize)
		}
		// total 0: no block encodes to zero bytes and NewPartSetFromData(empty) cannot even be built (see TestReplay);
		// the receiver is built from the header {0, zero hash} that such data would have
		w.C = types.NewPartSetFromData(rawData(sz(total+1), 3), w.partSize)
	} else {
		w.partSize = realPartSize
		ps := int(w.partSize)
		// a block cannot be smaller than its header and commit: a single-part block is at least that long
		_, minBz := sizedBlock(1, 0, func(int) bool { return true })
		size := func(k int) int {
			n := (k-1)*ps + lastLen(shape, ps)
			if n < len(minBz)+8 {
				n = len(minBz) + 8
			}
			return n
		}
		want := func(k int) func(int) bool {
			n := size(k)
			return func(l int) bool { return l == n }
		}
		var bzB, bzC []byte
		w.blockA, w.dataA = sizedBlock(1, size(total), want(total))
		_, bzB = sizedBlock(2, size(total), want(total))
		_, bzC = sizedBlock(3, size(total+1), want(total+1))
		w.A = w.blockA.MakePartSet(w.partSize)
		w.B = types.NewPartSetFromData(bzB, w.partSize)
		w.C = types.NewPartSetFromData(bzC, w.partSize)
	}
	if total > 0 {
		w.hdr = w.A.Header()
	}
	for i := 0; i < int(w.A.Total()); i++ {
		w.pA = append(w.pA, w.A.GetPart(i))
	}
	for i := 0; i < int(w.B.Total()); i++ {
		w.pB = append(w.pB, w.B.GetPart(i))
	}
	for i := 0; i < int(w.C.Total()); i++ {
		w.pC = append(w.pC, w.C.GetPart(i))
	}
	if int(w.A.Total()) != total || int(w.B.Total()) != total || int(w.C.Total()) != total+1 {
		panic(fmt.Sprintf("world %s: totals %d %d %d", w.name, w.A.Total(), w.B.Total(), w.C.Total()))
	}
	return w
}

// split point of the simple Merkle tree (Merkle.tla Split)
func split(n int) int {
	k := 1
	for 2*k < n {
		k *= 2
	}
	return k
}

func leafHashOf(b []byte) []byte {
	_, pr := merkle.SimpleProofsFromByteSlices([][]byte{b})
	return pr[0].LeafHash
}

func cloneProof(p merkle.SimpleProof) merkle.SimpleProof {
	q := merkle.SimpleProof{Total: p.Total, Index: p.Index, LeafHash: append([]byte{}, p.LeafHash...)}
	for _, a := range p.Aunts {
		q.Aunts = append(q.Aunts, append([]byte{}, a...))
	}
	return q
}

func clonePart(p *types.Part) *types.Part {
	return &types.Part{Index: p.Index, Bytes: append([]byte{}, p.Bytes...), Proof: cloneProof(p.Proof)}
}

func mutAunts(a [][]byte, how string) [][]byte {
	switch how {
	case "droplast":
		if len(a) > 0 {
			return a[:len(a)-1]
		}
	case "dropfirst":
		if len(a) > 0 {
			return a[1:]
		}
	case "extra":
		return append(append([][]byte{}, a...), leafHashOf([]byte("junk")))
	case "rev":
		r := make([][]byte, len(a))
		for i := range a {
			r[len(a)-1-i] = a[i]
		}
		return r
	}
	return a
}

func partsBytes(ps *types.PartSet) [][]byte {
	var out [][]byte
	for i := 0; i < int(ps.Total()); i++ {
		out = append(out, ps.GetPart(i).Bytes)
	}
	return out
}

// mkPart builds the real part for the offer descriptor <<kind, i, j>> (MC_PartSet.MkPart).
func (w *world) mkPart(kind string, i, j int, variant int) *types.Part {
	// shallow copy: byte slices are shared with the sender's part and never written to (every mutation below
	// builds a new slice)
	g := func(k int) *types.Part { p := *w.pA[k]; return &p }
	switch kind {
	case "nil":
		return nil
	case "gen":
		return g(i)
	case "reidx":
		p := g(j)
		p.Index = uint32(i)
		return p
	case "pswap":
		p := g(i)
		p.Proof = g(j).Proof
		return p
	case "pidx":
		p := g(i)
		p.Proof.Index = uint64(j)
		return p
	case "ptot":
		p := g(i)
		p.Proof.Total = uint64(j)
		return p
	case "trunc":
		p := g(i)
		p.Bytes = p.Bytes[:len(p.Bytes)-1]
		return p
	case "ext":
		p := g(i)
		p.Bytes = append(append(make([]byte, 0, len(p.Bytes)+1), p.Bytes...), 0x5a)
		return p
	case "truncfix":
		p := g(i)
		p.Bytes = p.Bytes[:len(p.Bytes)-1]
		p.Proof.LeafHash = leafHashOf(p.Bytes)
		return p
	case "empty":
		p := g(i)
		p.Bytes = []byte{}
		return p
	case "adrop":
		p := g(i)
		p.Proof.Aunts = mutAunts(p.Proof.Aunts, "droplast")
		return p
	case "afirst":
		p := g(i)
		p.Proof.Aunts = mutAunts(p.Proof.Aunts, "dropfirst")
		return p
	case "aextra":
		p := g(i)
		p.Proof.Aunts = mutAunts(p.Proof.Aunts, "extra")
		return p
	case "arev":
		p := g(i)
		p.Proof.Aunts = mutAunts(p.Proof.Aunts, "rev")
		return p
	case "other":
		p := *w.pB[i]
		return &p
	case "oproof":
		p := g(i)
		p.Proof = w.pB[i].Proof
		return p
	case "obytes":
		p := g(i)
		p.Bytes = w.pB[i].Bytes
		return p
	case "obytesfix":
		p := g(i)
		p.Bytes = w.pB[i].Bytes
		p.Proof.LeafHash = leafHashOf(p.Bytes)
		return p
	case "bigger":
		p := *w.pC[i]
		return &p
	case "oob":
		p := g(i)
		p.Index = uint32(w.total + j)
		if j == 1 && variant%2 == 1 {
			p.Index = ^uint32(0)
		}
		return p
	case "inner", "innerl":
		var items [][]byte
		for _, q := range w.pA {
			items = append(items, q.Bytes)
		}
		var l, r []byte
		var pr merkle.SimpleProof
		if kind == "inner" {
			k := split(len(items))
			l, r = merkle.SimpleHashFromByteSlices(items[:k]), merkle.SimpleHashFromByteSlices(items[k:])
			pr = merkle.SimpleProof{Total: 1, Index: 0}
		} else {
			k := split(len(items))
			left := items[:k]
			k2 := split(len(left))
			l, r = merkle.SimpleHashFromByteSlices(left[:k2]), merkle.SimpleHashFromByteSlices(left[k2:])
			pr = merkle.SimpleProof{Total: 2, Index: 0, Aunts: [][]byte{merkle.SimpleHashFromByteSlices(items[k:])}}
		}
		bz := append(append([]byte{}, l...), r...)
		pr.LeafHash = leafHashOf(bz)
		return &types.Part{Index: 0, Bytes: bz, Proof: pr}
	}
	panic("unknown offer kind " + kind)
}

// viaWire sends a part through its wire encoding (Part.ToProto -> Marshal -> Unmarshal -> PartFromProto).
func viaWire(p *types.Part) (*types.Part, error) {
	pb, err := p.ToProto()
	if err != nil {
		return nil, err
	}
	bz, err := proto.Marshal(pb)
	if err != nil {
		return nil, err
	}
	var back kproto.Part
	if err := proto.Unmarshal(bz, &back); err != nil {
		return nil, err
	}
	return types.PartFromProto(&back)
}

// addPart calls the real AddPart under recover and classifies the outcome like PartSet.tla.
func addPart(ps *types.PartSet, p *types.Part) (class string, added bool) {
	defer func() {
		if r := recover(); r != nil {
			class, added = fmt.Sprintf("PANIC: %v", r), false
		}
	}()
	ok, err := ps.AddPart(p)
	switch {
	case ok && err == nil:
		return "added", true
	case ok:
		return "ADDED-WITH-ERROR: " + err.Error(), true
	case err == nil:
		return "dup", false
	case err == types.ErrPartSetUnexpectedIndex:
		return "index", false
	case err == types.ErrPartSetInvalidProof:
		return "proof", false
	}
	return "error: " + err.Error(), false
}

func readAll(ps *types.PartSet) (bz []byte, err error) {
	defer func() {
		if r := recover(); r != nil {
			err = fmt.Errorf("PANIC: %v", r)
		}
	}()
	return ioutil.ReadAll(ps.GetReader())
}

type psLine struct {
	H [][]interface{} `json:"h"`
	O struct {
		C int    `json:"c"`
		B []bool `json:"b"`
		D bool   `json:"d"`
	} `json:"o"`
}

func atoi(x interface{}) int { return int(x.(float64)) }

var shapes = []string{"exact", "one", "half"}

// TestReplay: MBT of MC_PartSet.
func TestReplay(t *testing.T) {
	res := mbt.NewResult()
	defer res.Write()
	total := mbt.EnvInt("PS_TOTAL", 3)
	// worlds: 3 shapes x {real block bytes in parts of BlockPartSizeBytes (every 16th transition: each AddPart
	// allocates and hashes 64 kB, which serialises the workers on the heap lock), real block bytes in 2 kB parts,
	// raw bytes in 5-byte parts}
	var worlds, bigWorlds []*world
	func() {
		defer func() {
			if r := recover(); r != nil {
				res.Mismatch("infra:world", fmt.Sprint(r), string(debug.Stack()))
			}
		}()
		for _, sh := range shapes {
			bigWorlds = append(bigWorlds, mkWorld(total, sh, types.BlockPartSizeBytes))
			worlds = append(worlds, mkWorld(total, sh, 2048), mkWorld(total, sh, 0))
		}
	}()
	if len(worlds) == 0 || len(bigWorlds) == 0 {
		return
	}
	// sender side, once per world
	for _, w := range append(append([]*world{}, worlds...), bigWorlds...) {
		res.Count(1)
		if total > 0 && (!w.A.IsComplete() || int(w.A.Count()) != total) {
			res.Mismatch("partset:sender:incomplete", "NewPartSetFromData returns an incomplete set in "+w.name, nil)
		}
		if total > 0 {
			bz, err := readAll(w.A)
			if err != nil || !bytes.Equal(bz, w.dataA) {
				res.Mismatch("partset:sender:read", fmt.Sprintf("reading the sender's set back does not give the data (%v) in %s", err, w.name), nil)
			}
			if w.A.Hash() != common.BytesToHash(merkle.SimpleHashFromByteSlices(partsBytes(w.A))) {
				res.Mismatch("partset:sender:hash", "header hash is not the Merkle root of the parts in "+w.name, nil)
			}
			if c, _ := addPart(w.A, clonePart(w.A.GetPart(0))); c != "dup" {
				res.Mismatch("partset:sender:dup", "adding a part to the full sender set returned "+c, nil)
			}
		} else {
			// total = 0 never occurs for a block (its encoding is never empty): recorded, not a verdict
			func() {
				defer func() {
					if r := recover(); r != nil {
						res.Set("observation_empty_data_sender", fmt.Sprintf("NewPartSetFromData(empty data) panics: %v", r))
					}
				}()
				types.NewPartSetFromData(nil, w.partSize)
			}()
			if _, err := readAll(types.NewPartSetFromHeader(w.hdr)); err != nil {
				res.Set("observation_empty_set_reader", "GetReader on the (complete) part set of the empty header {0, zero} fails: "+err.Error())
			}
		}
	}
	pfx := fmt.Sprintf("partset:")
	var lenient, classDiff int64
	lenientKinds := map[string]int{}
	var mu sync.Mutex
	sent, err := mbt.EachLine(os.Getenv("PS_DUMP"), 0, mbt.EnvInt("PS_LIMIT", 0), mbt.EnvInt("PS_STRIDE", 1), mbt.Seed(), func(n int, raw []byte) {
		var l psLine
		if err := json.Unmarshal(raw, &l); err != nil {
			res.Mismatch("infra:parse", err.Error(), string(raw))
			return
		}
		k := n + int(mbt.Seed()%1000)
		w := worlds[k%len(worlds)]
		if k%16 == 0 {
			w = bigWorlds[(k/16)%len(bigWorlds)]
		}
		wire := (k/6)%2 == 1
		rx := types.NewPartSetFromHeader(w.hdr)
		detail := map[string]interface{}{"hist": l.H, "world": w.name, "wire": wire}
		for k, a := range l.H {
			kind, i, j, want := a[0].(string), atoi(a[1]), atoi(a[2]), a[3].(string)
			p := w.mkPart(kind, i, j, n)
			var got string
			var added bool
			decodeRejected := false
			if wire && p != nil {
				q, err := viaWire(p)
				if err != nil {
					decodeRejected = true
					got = "decode"
				} else {
					// the wire must not change the part
					if q.Index != p.Index || !bytes.Equal(q.Bytes, p.Bytes) || q.Proof.Total != p.Proof.Total || q.Proof.Index != p.Proof.Index ||
						!bytes.Equal(q.Proof.LeafHash, p.Proof.LeafHash) || len(q.Proof.Aunts) != len(p.Proof.Aunts) {
						res.Mismatch(pfx+"wire:part-changed", fmt.Sprintf("part %v changed by its wire encoding", a), detail)
					}
					p = q
				}
			}
			if !decodeRejected {
				got, added = addPart(rx, p)
			}
			wantAdded := want == "added"
			if kind == "nil" {
				// specified: rejected, set unchanged.  The code dereferences the nil part (panic); the wire decoder
				// never yields nil, so this is recorded and not judged.
				if added {
					res.Mismatch(pfx+"addpart:nil-added", "AddPart(nil) reported added", detail)
					return
				}
				continue
			}
			if added != wantAdded || len(got) > 5 && got[:5] == "PANIC" || len(got) > 5 && got[:5] == "ADDED" {
				if added && !wantAdded && len(got) == 5 {
					// (a duplicate that is added again is not harmless: the count runs ahead of the slots)
					belongs := want == "proof" && int(p.Index) < w.total && bytes.Equal(p.Bytes, w.pA[p.Index].Bytes)
					if belongs {
						// proof metadata differs but the bytes are the genuine ones for that index: the statement
						// is not falsified (Rule 2) - counted, and the rest of the line cannot be compared
						mu.Lock()
						lenient++
						key := fmt.Sprintf("%s(%d,%d)/total=%d", kind, i, j, w.total)
						if len(a) > 4 && a[4].(string) != "added" {
							key += " NOT explained by AddPartAsWritten"
						}
						lenientKinds[key]++
						mu.Unlock()
						return
					}
					if want == "dup" {
						res.Mismatch(pfx+"addpart:filled-slot-added-again:"+kind,
							fmt.Sprintf("step %d of %v: AddPart reported ADDED for index %d whose slot is already filled (kind %s); specified (false, nil) [%s]", k+1, l.H, p.Index, kind, w.name), detail)
						return
					}
					res.Mismatch(pfx+"addpart:accepted-not-belonging:"+kind,
						fmt.Sprintf("step %d of %v: AddPart ACCEPTED a part that does not belong at index %d under the header hash (kind %s: %s); specified %q [%s]",
							k+1, l.H, p.Index, kind, kindText(kind), want, w.name), detail)
					w.consequence(res, rx, int(p.Index), kind, detail)
					return
				}
				res.Mismatch(pfx+"addpart:result:"+kind+":"+want, fmt.Sprintf("step %d of %v: real result %q, specified %q [%s wire=%v]", k+1, l.H, got, want, w.name, wire), detail)
				return
			}
			if got != want && !decodeRejected {
				mu.Lock()
				classDiff++
				mu.Unlock()
			}
		}
		res.Count(1)
		last := l.H[len(l.H)-1]
		if last[0].(string) != "gen" || last[3].(string) != "added" {
			res.Distinct(fmt.Sprint(l.H))
		}
		fail := func(what, text string) {
			res.Mismatch(pfx+"obs:"+what, fmt.Sprintf("after %v [%s]: %s", l.H, w.name, text), detail)
		}
		if int(rx.Count()) != l.O.C {
			fail("count", fmt.Sprintf("Count = %d, specified %d", rx.Count(), l.O.C))
		}
		if rx.IsComplete() != l.O.D {
			fail("complete", fmt.Sprintf("IsComplete = %v, specified %v", rx.IsComplete(), l.O.D))
		}
		ba := rx.BitArray()
		for i, b := range l.O.B {
			if ba.GetIndex(i) != b {
				fail("bitarray", fmt.Sprintf("BitArray[%d] = %v, specified %v", i, ba.GetIndex(i), b))
			}
			if (rx.GetPart(i) != nil) != b {
				fail("getpart", fmt.Sprintf("GetPart(%d) present = %v, specified %v", i, rx.GetPart(i) != nil, b))
			}
		}
		if l.O.D && rx.IsComplete() && w.total > 0 {
			bz, err := readAll(rx)
			if err != nil {
				fail("read", "GetReader/ReadAll failed on a complete set: "+err.Error())
			} else if !bytes.Equal(bz, w.dataA) {
				fail("read-not-original", "the complete set does not read back the original bytes")
			} else if w.realBlk {
				// the reassembled bytes are the block: same hash, same encoding
				var pb kproto.Block
				if err := proto.Unmarshal(bz, &pb); err != nil {
					fail("block-unmarshal", err.Error())
				} else if b, err := types.BlockFromProto(&pb, hasher()); err != nil {
					fail("block-decode", err.Error())
				} else if b.Hash() != w.blockA.Hash() {
					fail("block-hash", "reassembled block has another hash")
				} else if pb2, _ := b.ToProto(); pb2 != nil {
					if bz2, _ := proto.Marshal(pb2); !bytes.Equal(bz2, w.dataA) {
						fail("block-reencode", "reassembled block re-encodes to other bytes")
					}
				}
			}
		}
		if n%4999 == 1 || (len(l.H) >= 5 && n%97 == 0) {
			res.Sample(map[string]interface{}{"behaviour": l.H, "expected": l.O, "world": w.name, "wire": wire})
		}
	})
	if err != nil {
		res.Mismatch("infra:read", err.Error(), nil)
	}
	if sent == 0 {
		res.Mismatch("infra:empty-dump", "no transitions in "+os.Getenv("PS_DUMP"), nil)
	}
	res.Behaviours = sent
	res.Set(fmt.Sprintf("partset_total%d_replayed", total), sent)
	res.Set(fmt.Sprintf("partset_total%d_lenient_accepts", total), lenient)
	res.Set(fmt.Sprintf("partset_total%d_error_class_differences", total), classDiff)
	if len(lenientKinds) > 0 {
		res.Set(fmt.Sprintf("partset_total%d_lenient_kinds", total), lenientKinds)
	}
}

func kindText(k string) string {
	switch k {
	case "reidx":
		return "the genuine part of ANOTHER index, with its own valid proof, offered under this index"
	case "ptot":
		return "Proof.Total altered"
	case "pidx":
		return "Proof.Index altered"
	case "inner", "innerl":
		return "the preimage of an inner node offered as a leaf"
	}
	return k
}

// consequence demonstrates what an accepted foreign part leads to (the two part clauses of C13).
func (w *world) consequence(res *mbt.Result, rx *types.PartSet, idx int, kind string, detail map[string]interface{}) {
	c, added := addPart(rx, w.pA[idx])
	if !added {
		res.Mismatch("partset:genuine-blocked:"+kind, fmt.Sprintf("after the bogus part was accepted at index %d the GENUINE part %d is refused (%s): it can never be added [%s]", idx, idx, c, w.name), detail)
	}
	for i := 0; i < w.total; i++ {
		addPart(rx, w.pA[i])
	}
	if rx.IsComplete() {
		bz, err := readAll(rx)
		if err != nil || !bytes.Equal(bz, w.dataA) {
			res.Mismatch("partset:complete-not-original:"+kind, fmt.Sprintf("the part set reports itself complete but yields bytes different from the data its header hash commits to (err=%v) [%s]", err, w.name), detail)
		}
	}
}
