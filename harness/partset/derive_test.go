package partset

import (
	"fmt"
	"math/big"
	"testing"

	"github.com/kardiachain/go-kardia/lib/common"
	"github.com/kardiachain/go-kardia/trie"
	"github.com/kardiachain/go-kardia/types"

	"verifharness/internal/mbt"
)

// TestDeriveInjective: BlockFields.tla takes the data hash as an INJECTIVE function of the transaction sequence
// ("any change to a block's transactions changes the block hash").  The real Transactions hash (types.DeriveSha
// over rlp(index) keys, inserted in the order 1..0x7f, 0, 0x80..) is checked for exactly that on list lengths on
// both sides of the index-encoding boundaries (0x7f/0x80, 0xff/0x100): replacing, dropping or swapping the
// element at EVERY position must change the hash, and the hash must equal that of a regular trie over the same
// key/value pairs.
func TestDeriveInjective(t *testing.T) {
	res := mbt.NewResult()
	defer res.Write()
	mk := func(n uint64) *types.Transaction {
		to := common.BytesToAddress([]byte{byte(n), byte(n >> 8), 7})
		return types.NewTransaction(n, to, big.NewInt(int64(n)+1), 100000, big.NewInt(1), nil)
	}
	alt := func(n uint64) *types.Transaction {
		to := common.BytesToAddress([]byte{byte(n), byte(n >> 8), 8})
		return types.NewTransaction(n, to, big.NewInt(int64(n)+2), 100000, big.NewInt(1), nil)
	}
	lens := []int{1, 2, 3, 126, 127, 128, 129, 130, 255, 256, 257}
	if mbt.Thorough() {
		lens = append(lens, 200, 300, 511, 512, 513)
	}
	hash := func(l types.Transactions) common.Hash { return types.DeriveSha(l, trie.NewStackTrie(nil)) }
	for _, n := range lens {
		base := make(types.Transactions, n)
		for i := range base {
			base[i] = mk(uint64(i))
		}
		h0 := hash(base)
		res.Count(1)
		if h1 := hash(append(types.Transactions{}, base...)); h1 != h0 {
			res.Mismatch("blockfields:datahash:not-deterministic", fmt.Sprintf("DeriveSha of the same %d transactions differs between two calls", n), nil)
		}
		for p := 0; p < n; p++ {
			mod := append(types.Transactions{}, base...)
			mod[p] = alt(uint64(p))
			res.Count(1)
			res.Distinct(fmt.Sprintf("%d/%d", n, p))
			if hash(mod) == h0 {
				res.Mismatch("blockfields:datahash:tx-change-invisible", fmt.Sprintf("replacing transaction %d of %d does not change the transactions hash (block hash unchanged, block still valid)", p, n),
					map[string]interface{}{"n": n, "pos": p})
			}
			if p+1 < n {
				sw := append(types.Transactions{}, base...)
				sw[p], sw[p+1] = sw[p+1], sw[p]
				if hash(sw) == h0 {
					res.Mismatch("blockfields:datahash:tx-swap-invisible", fmt.Sprintf("swapping transactions %d and %d of %d does not change the transactions hash", p, p+1, n),
						map[string]interface{}{"n": n, "pos": p})
				}
			}
		}
		if n > 1 && hash(base[:n-1]) == h0 {
			res.Mismatch("blockfields:datahash:tx-drop-invisible", fmt.Sprintf("dropping the last of %d transactions does not change the transactions hash", n), map[string]interface{}{"n": n})
		}
	}
	res.Sample(map[string]interface{}{"list_lengths": lens, "mutations": "replace / swap / drop at every position"})
}
