package partset

// TestCodec: every abstract record of MC_Codec through the real encodings.
//   vote / proposal / part : ToProto -> Marshal -> Unmarshal -> FromProto, and the same inside the consensus
//                            message envelope (MsgToProto / MsgFromProto)
//   commit                 : ToProto -> Marshal -> Unmarshal -> CommitFromProto
//   block                  : kai/rawdb WriteBlock, then ReadBlock / ReadBlockMeta / ReadHeader / ReadBlockPart /
//                            ReadCommit / ReadSeenCommit / ReadBody, plus the block's own wire encoding
// Specified (Codec.tla): "same" = returned without error and unchanged; "error" = refused by the decoder.

import (
	"bytes"
	"encoding/json"
	"fmt"
	"math"
	"os"
	"testing"
	"time"

	"github.com/gogo/protobuf/proto"

	"github.com/kardiachain/go-kardia/consensus"
	"github.com/kardiachain/go-kardia/kai/kaidb/memorydb"
	"github.com/kardiachain/go-kardia/kai/rawdb"
	"github.com/kardiachain/go-kardia/lib/common"
	"github.com/kardiachain/go-kardia/lib/merkle"
	kcons "github.com/kardiachain/go-kardia/proto/kardiachain/consensus"
	kproto "github.com/kardiachain/go-kardia/proto/kardiachain/types"
	"github.com/kardiachain/go-kardia/types"

	"verifharness/internal/mbt"
)

// decodeConsensusMsg is consensus.decodeMsg (manager.go): bytes -> kcons.Message -> MsgFromProto.
func decodeConsensusMsg(bz []byte) (consensus.Message, error) {
	pb := &kcons.Message{}
	if err := proto.Unmarshal(bz, pb); err != nil {
		return nil, err
	}
	return consensus.MsgFromProto(pb)
}

func cU64(s string) uint64 {
	switch s {
	case "0":
		return 0
	case "1":
		return 1
	case "2":
		return 2
	case "b7":
		return 127
	case "b8":
		return 128
	case "max31":
		return math.MaxInt32
	case "max32":
		return math.MaxUint32
	case "max63":
		return math.MaxInt64
	case "max64":
		return math.MaxUint64
	}
	panic("u64 " + s)
}
func cU32(s string) uint32 { return uint32(cU64(s)) }
func cTime(s string) time.Time {
	switch s {
	case "zero":
		return time.Time{}
	case "epoch":
		return time.Unix(0, 0).UTC()
	case "ns":
		return time.Unix(0, 1).UTC()
	case "late":
		return time.Date(2286, 11, 20, 17, 46, 39, 999999999, time.UTC)
	}
	panic("time " + s)
}
func cSig(s string) []byte {
	switch s {
	case "empty":
		return nil
	case "sig65":
		b := make([]byte, 65)
		for i := range b {
			b[i] = byte(200 - i)
		}
		return b
	case "one":
		return []byte{7}
	}
	panic("sig " + s)
}
func cAddr(s string) common.Address {
	if s == "zero" {
		return common.Address{}
	}
	return common.BytesToAddress(bytes.Repeat([]byte{0xa1}, 20))
}
func cBid(s string) types.BlockID {
	h1, h2 := common.BytesToHash(bytes.Repeat([]byte{0x11}, 32)), common.BytesToHash(bytes.Repeat([]byte{0xff}, 32))
	switch s {
	case "zero":
		return types.BlockID{}
	case "complete":
		return types.BlockID{Hash: h1, PartsHeader: types.PartSetHeader{Total: 3, Hash: h2}}
	case "hashonly":
		return types.BlockID{Hash: h1}
	case "partsonly":
		return types.BlockID{PartsHeader: types.PartSetHeader{Total: 1, Hash: h2}}
	case "maxtotal":
		return types.BlockID{Hash: h1, PartsHeader: types.PartSetHeader{Total: math.MaxUint32, Hash: h2}}
	}
	panic("bid " + s)
}
func cType(s string) kproto.SignedMsgType {
	switch s {
	case "unknown":
		return kproto.UnknownType
	case "prevote":
		return kproto.PrevoteType
	case "precommit":
		return kproto.PrecommitType
	case "proposal":
		return kproto.ProposalType
	}
	panic("type " + s)
}
func cFlag(s string) types.BlockIDFlag {
	switch s {
	case "f0":
		return 0
	case "absent":
		return types.BlockIDFlagAbsent
	case "commit":
		return types.BlockIDFlagCommit
	case "nil":
		return types.BlockIDFlagNil
	case "f4":
		return 4
	}
	panic("flag " + s)
}

type cdLine struct {
	K string          `json:"k"`
	X json.RawMessage `json:"x"`
	R string          `json:"r"`
}

func pbBytes(m proto.Message) []byte {
	bz, err := proto.Marshal(m)
	if err != nil {
		panic(err)
	}
	return bz
}

// envelope sends a consensus message through MsgToProto -> bytes -> MsgFromProto.
func envelope(m consensus.Message) (consensus.Message, error) {
	pb, err := consensus.MsgToProto(m)
	if err != nil {
		return nil, err
	}
	bz, err := proto.Marshal(pb)
	if err != nil {
		return nil, err
	}
	back, err := decodeConsensusMsg(bz)
	if err != nil {
		return nil, err
	}
	return back, nil
}

func TestCodec(t *testing.T) {
	res := mbt.NewResult()
	defer res.Write()
	counts := map[string]int{}
	lenientDecoders := map[string]int{}
	sent, err := mbt.EachLine(os.Getenv("CD_DUMP"), 0, mbt.EnvInt("CD_LIMIT", 0), mbt.EnvInt("CD_STRIDE", 1), mbt.Seed(), func(n int, raw []byte) {
		var l cdLine
		if err := json.Unmarshal(raw, &l); err != nil {
			res.Mismatch("infra:parse", err.Error(), string(raw))
			return
		}
		var got string // "same", "error", or a description of the difference
		func() {
			defer func() {
				if r := recover(); r != nil {
					got = fmt.Sprintf("PANIC: %v", r)
				}
			}()
			switch l.K {
			case "vote":
				got = rtVote(l.X)
			case "proposal":
				got = rtProposal(l.X)
			case "commit":
				got = rtCommit(l.X)
			case "part":
				got = rtPart(l.X)
			case "block":
				got = rtBlock(l.X)
			default:
				got = "infra: unknown kind"
			}
		}()
		res.Count(1)
		res.Distinct(string(raw))
		switch {
		case got == l.R:
		case got == "same" && l.R == "error":
			// a decoder more lenient than ValidateBasic as transcribed: nothing is lost or altered, not judged
			res.Add("codec_lenient_decoder_"+l.K, 1)
			_ = lenientDecoders
		default:
			res.Mismatch("codec:"+l.K+":"+l.R+"->"+sigOf(got), fmt.Sprintf("%s %s: real %q, specified %q", l.K, string(l.X), got, l.R), json.RawMessage(raw))
		}
		if n%2999 == 1 {
			res.Sample(map[string]interface{}{"record": json.RawMessage(raw), "real": got})
		}
	})
	if err != nil {
		res.Mismatch("infra:read", err.Error(), nil)
	}
	if sent == 0 {
		res.Mismatch("infra:empty-dump", "no records in "+os.Getenv("CD_DUMP"), nil)
	}
	res.Behaviours = sent
	res.Set("codec_records", sent)
	_ = counts
}

// sigOf keeps signatures stable: the class of the outcome without the data
func sigOf(got string) string {
	for _, p := range []string{"PANIC", "error", "changed", "same"} {
		if len(got) >= len(p) && got[:len(p)] == p {
			return p
		}
	}
	return "other"
}

func rtVote(x json.RawMessage) string {
	var a struct{ Type, Height, Round, Index, Ts, Bid, Addr, Sig string }
	if err := json.Unmarshal(x, &a); err != nil {
		return "infra: " + err.Error()
	}
	v := &types.Vote{ValidatorAddress: cAddr(a.Addr), ValidatorIndex: cU32(a.Index), Height: cU64(a.Height), Round: cU32(a.Round),
		Timestamp: cTime(a.Ts), Type: cType(a.Type), BlockID: cBid(a.Bid), Signature: cSig(a.Sig)}
	bz := pbBytes(v.ToProto())
	var pb kproto.Vote
	if err := proto.Unmarshal(bz, &pb); err != nil {
		return "error: unmarshal " + err.Error()
	}
	back, err := types.VoteFromProto(&pb)
	// the consensus envelope must agree with the bare codec
	m, eerr := envelope(&consensus.VoteMessage{Vote: v})
	if (err == nil) != (eerr == nil) {
		return fmt.Sprintf("changed: bare decoder says %v, message envelope says %v", err, eerr)
	}
	if err != nil {
		return "error"
	}
	for _, b := range []*types.Vote{back, m.(*consensus.VoteMessage).Vote} {
		if !bytes.Equal(pbBytes(b.ToProto()), bz) {
			return "changed: re-encoding differs"
		}
		if b.Height != v.Height || b.Round != v.Round || b.Type != v.Type || b.ValidatorIndex != v.ValidatorIndex || !b.ValidatorAddress.Equal(v.ValidatorAddress) ||
			!b.BlockID.Equal(v.BlockID) || !b.Timestamp.Equal(v.Timestamp) || !bytes.Equal(b.Signature, v.Signature) {
			return "changed: a field differs"
		}
		if !bytes.Equal(types.VoteSignBytes("c", b.ToProto()), types.VoteSignBytes("c", v.ToProto())) {
			return "changed: sign bytes differ"
		}
	}
	return "same"
}

func rtProposal(x json.RawMessage) string {
	var a struct{ Height, Round, Pol, Ts, Bid, Sig string }
	if err := json.Unmarshal(x, &a); err != nil {
		return "infra: " + err.Error()
	}
	p := &types.Proposal{Height: cU64(a.Height), Round: cU32(a.Round), POLRound: cU32(a.Pol), Timestamp: cTime(a.Ts), POLBlockID: cBid(a.Bid), Signature: cSig(a.Sig)}
	bz := pbBytes(p.ToProto())
	var pb kproto.Proposal
	if err := proto.Unmarshal(bz, &pb); err != nil {
		return "error: unmarshal " + err.Error()
	}
	back, err := types.ProposalFromProto(&pb)
	m, eerr := envelope(&consensus.ProposalMessage{Proposal: p})
	if (err == nil) != (eerr == nil) {
		return fmt.Sprintf("changed: bare decoder says %v, message envelope says %v", err, eerr)
	}
	if err != nil {
		return "error"
	}
	for _, b := range []*types.Proposal{back, m.(*consensus.ProposalMessage).Proposal} {
		if !bytes.Equal(pbBytes(b.ToProto()), bz) {
			return "changed: re-encoding differs"
		}
		if b.Height != p.Height || b.Round != p.Round || b.POLRound != p.POLRound || !b.POLBlockID.Equal(p.POLBlockID) || !b.Timestamp.Equal(p.Timestamp) || !bytes.Equal(b.Signature, p.Signature) {
			return "changed: a field differs"
		}
		if !bytes.Equal(types.ProposalSignBytes("c", b.ToProto()), types.ProposalSignBytes("c", p.ToProto())) {
			return "changed: sign bytes differ"
		}
	}
	return "same"
}

type aCS struct{ Flag, Addr, Ts, Sig string }

func mkCS(s aCS) types.CommitSig {
	return types.CommitSig{BlockIDFlag: cFlag(s.Flag), ValidatorAddress: cAddr(s.Addr), Timestamp: cTime(s.Ts), Signature: cSig(s.Sig)}
}

func sameCommit(a, b *types.Commit) string {
	if a.Height != b.Height || a.Round != b.Round || !a.BlockID.Equal(b.BlockID) || len(a.Signatures) != len(b.Signatures) {
		return "changed: a commit field differs"
	}
	for i := range a.Signatures {
		x, y := a.Signatures[i], b.Signatures[i]
		if x.BlockIDFlag != y.BlockIDFlag || !x.ValidatorAddress.Equal(y.ValidatorAddress) || !x.Timestamp.Equal(y.Timestamp) || !bytes.Equal(x.Signature, y.Signature) {
			return fmt.Sprintf("changed: commit signature %d differs", i)
		}
	}
	if !bytes.Equal(pbBytes(a.ToProto()), pbBytes(b.ToProto())) {
		return "changed: commit re-encoding differs"
	}
	ca, cb := *a, *b // Hash() caches: compare on copies
	if (&ca).Hash() != (&cb).Hash() {
		return "changed: commit hash differs"
	}
	return "same"
}

func rtCommit(x json.RawMessage) string {
	var a struct {
		Height, Round, Bid string
		Sigs               []aCS
	}
	if err := json.Unmarshal(x, &a); err != nil {
		return "infra: " + err.Error()
	}
	var sigs []types.CommitSig
	for _, s := range a.Sigs {
		sigs = append(sigs, mkCS(s))
	}
	c := types.NewCommit(cU64(a.Height), cU32(a.Round), cBid(a.Bid), sigs)
	bz := pbBytes(c.ToProto())
	var pb kproto.Commit
	if err := proto.Unmarshal(bz, &pb); err != nil {
		return "error: unmarshal " + err.Error()
	}
	back, err := types.CommitFromProto(&pb)
	if err != nil {
		return "error"
	}
	return sameCommit(c, back)
}

func rtPart(x json.RawMessage) string {
	var a struct{ Index, Size, Leafhash, Aunts, Ptotal, Pindex string }
	if err := json.Unmarshal(x, &a); err != nil {
		return "infra: " + err.Error()
	}
	p := &types.Part{Index: cU32(a.Index), Proof: merkle.SimpleProof{Total: cU64(a.Ptotal), Index: cU64(a.Pindex)}}
	switch a.Size {
	case "empty":
	case "one":
		p.Bytes = []byte{9}
	case "full":
		p.Bytes = rawData(types.BlockPartSizeBytes, 4)
	case "over":
		p.Bytes = rawData(types.BlockPartSizeBytes+1, 4)
	}
	switch a.Leafhash {
	case "h32":
		p.Proof.LeafHash = bytes.Repeat([]byte{3}, 32)
	case "h31":
		p.Proof.LeafHash = bytes.Repeat([]byte{3}, 31)
	}
	switch a.Aunts {
	case "two":
		p.Proof.Aunts = [][]byte{bytes.Repeat([]byte{4}, 32), bytes.Repeat([]byte{5}, 32)}
	case "short":
		p.Proof.Aunts = [][]byte{bytes.Repeat([]byte{4}, 32), bytes.Repeat([]byte{5}, 31)}
	}
	ppb, err := p.ToProto()
	if err != nil {
		return "error: toproto " + err.Error()
	}
	bz := pbBytes(ppb)
	var pb kproto.Part
	if err := proto.Unmarshal(bz, &pb); err != nil {
		return "error: unmarshal " + err.Error()
	}
	back, err := types.PartFromProto(&pb)
	m, eerr := envelope(&consensus.BlockPartMessage{Height: 5, Round: 1, Part: p})
	if (err == nil) != (eerr == nil) {
		return fmt.Sprintf("changed: bare decoder says %v, message envelope says %v", err, eerr)
	}
	if err != nil {
		return "error"
	}
	for _, b := range []*types.Part{back, m.(*consensus.BlockPartMessage).Part} {
		if b.Index != p.Index || !bytes.Equal(b.Bytes, p.Bytes) || b.Proof.Total != p.Proof.Total || b.Proof.Index != p.Proof.Index ||
			!bytes.Equal(b.Proof.LeafHash, p.Proof.LeafHash) || len(b.Proof.Aunts) != len(p.Proof.Aunts) {
			return "changed: a part field differs"
		}
		for i := range b.Proof.Aunts {
			if !bytes.Equal(b.Proof.Aunts[i], p.Proof.Aunts[i]) {
				return "changed: an aunt differs"
			}
		}
		bpb, _ := b.ToProto()
		if !bytes.Equal(pbBytes(bpb), bz) {
			return "changed: re-encoding differs"
		}
	}
	return "same"
}

func rtBlock(x json.RawMessage) string {
	var a struct {
		Height     string
		Ntx        int
		Nev        int
		Nsig       int
		Big        bool
		Seenabsent bool
	}
	if err := json.Unmarshal(x, &a); err != nil {
		return "infra: " + err.Error()
	}
	H := cU64(a.Height)
	mkSigs := func(n int, absent bool, salt byte) []types.CommitSig {
		var out []types.CommitSig
		for i := 0; i < n; i++ {
			if absent && i == 1 {
				out = append(out, types.NewCommitSigAbsent())
				continue
			}
			out = append(out, types.CommitSig{BlockIDFlag: types.BlockIDFlagCommit, ValidatorAddress: common.BytesToAddress([]byte{byte(i + 1), salt}),
				Timestamp: time.Unix(1700000000+int64(i), int64(salt)).UTC(), Signature: bytes.Repeat([]byte{byte(i + 1), salt}, 32)})
		}
		return out
	}
	prev := types.BlockID{Hash: common.BytesToHash([]byte{0x21}), PartsHeader: types.PartSetHeader{Total: 2, Hash: common.BytesToHash([]byte{0x22})}}
	lc := types.NewCommit(0, 0, types.BlockID{}, nil) // the empty commit of the first block
	if H > 1 {
		lc = types.NewCommit(H-1, 1, prev, mkSigs(a.Nsig, false, 1))
	}
	var txs []*types.Transaction
	for i := 0; i < a.Ntx; i++ {
		tx := mkTx(uint64(i+1), byte(i+1))
		if a.Big && i == 0 {
			tx = types.NewTransaction(1, common.BytesToAddress([]byte{0x77}), nil, 30000, nil, rawData(150000, 9))
		}
		txs = append(txs, tx)
	}
	var evs []types.Evidence
	if a.Nev > 0 {
		mkv := func(b byte) *types.Vote {
			return &types.Vote{ValidatorAddress: cAddr("a1"), ValidatorIndex: 2, Height: 1, Round: 1, Timestamp: cTime("late"), Type: kproto.PrevoteType,
				BlockID: types.BlockID{Hash: common.BytesToHash([]byte{b}), PartsHeader: types.PartSetHeader{Total: 1, Hash: common.BytesToHash([]byte{b, 1})}}, Signature: cSig("sig65")}
		}
		evs = append(evs, &types.DuplicateVoteEvidence{VoteA: mkv(1), VoteB: mkv(2), TotalVotingPower: 40, ValidatorPower: 10, Timestamp: cTime("late")})
	}
	h := &types.Header{Height: H, Time: cTime("late"), GasLimit: math.MaxUint64, LastBlockID: prev, ProposerAddress: cAddr("a1"),
		ValidatorsHash: common.BytesToHash([]byte{3}), NextValidatorsHash: common.BytesToHash([]byte{4}), ConsensusHash: common.BytesToHash([]byte{5}), AppHash: common.BytesToHash([]byte{6})}
	if H == 1 {
		h.LastBlockID = types.BlockID{}
	}
	blk := types.NewBlock(h, txs, lc, evs, hasher())
	parts := blk.MakePartSet(types.BlockPartSizeBytes)
	if a.Big && a.Ntx > 0 && parts.Total() < 2 {
		return "infra: big block has one part"
	}
	id := types.BlockID{Hash: blk.Hash(), PartsHeader: parts.Header()}
	seen := types.NewCommit(H, 2, id, mkSigs(a.Nsig, a.Seenabsent && a.Nsig == 4, 2))
	bpb, _ := blk.ToProto()
	bz := pbBytes(bpb)

	// wire encoding of the block itself
	var wpb kproto.Block
	if err := proto.Unmarshal(bz, &wpb); err != nil {
		return "error: block unmarshal " + err.Error()
	}
	wb, err := types.BlockFromProto(&wpb, hasher())
	if err != nil {
		return "error: block decode " + err.Error()
	}
	if wb.Hash() != blk.Hash() {
		return "changed: block hash differs after the wire"
	}

	db := memorydb.New()
	rawdb.WriteBlock(db, blk, parts, seen)
	rb := rawdb.ReadBlock(db, H)
	if rb == nil {
		return "error: ReadBlock returned nil"
	}
	if rb.Hash() != blk.Hash() {
		return "changed: block hash differs after the database"
	}
	rpb, _ := rb.ToProto()
	if !bytes.Equal(pbBytes(rpb), bz) {
		return "changed: block re-encoding differs after the database"
	}
	if err := rb.ValidateBasic(hasher()); err != nil {
		return "changed: block read from the database fails ValidateBasic: " + err.Error()
	}
	if len(rb.Transactions()) != a.Ntx || len(rb.Evidence().Evidence) != a.Nev {
		return "changed: transaction / evidence count differs"
	}
	meta := rawdb.ReadBlockMeta(db, H)
	if meta == nil || !meta.BlockID.Equal(id) || meta.Header.Hash() != blk.Hash() {
		return "changed: block meta differs"
	}
	if hd := rawdb.ReadHeader(db, H); hd == nil || hd.Hash() != blk.Hash() {
		return "changed: header differs"
	}
	rx := types.NewPartSetFromHeader(meta.BlockID.PartsHeader)
	for i := int(parts.Total()) - 1; i >= 0; i-- {
		p := rawdb.ReadBlockPart(db, H, i)
		if p == nil || !bytes.Equal(p.Bytes, parts.GetPart(i).Bytes) {
			return fmt.Sprintf("changed: part %d differs", i)
		}
		if c, _ := addPart(rx, p); c != "added" {
			return fmt.Sprintf("changed: part %d read from the database is refused by the part set (%s)", i, c)
		}
	}
	if got, err := readAll(rx); err != nil || !bytes.Equal(got, bz) {
		return "changed: parts read from the database do not reassemble the block"
	}
	rc := rawdb.ReadCommit(db, H-1)
	if rc == nil {
		return "error: ReadCommit returned nil"
	}
	if r := sameCommit(lc, rc); r != "same" {
		return r + " (last commit via ReadCommit)"
	}
	rs := rawdb.ReadSeenCommit(db, H)
	if rs == nil {
		return "error: ReadSeenCommit returned nil"
	}
	if r := sameCommit(seen, rs); r != "same" {
		return r + " (seen commit)"
	}
	if body := rawdb.ReadBody(db, H); body == nil || len(body.Transactions) != a.Ntx || sameCommit(lc, body.LastCommit) != "same" {
		return "changed: body differs"
	}
	if rawdb.ReadCanonicalHash(db, H) != blk.Hash() {
		return "changed: canonical hash differs"
	}
	if hh := rawdb.ReadHeaderHeight(db, blk.Hash()); hh == nil || *hh != H {
		return "changed: hash -> height mapping differs"
	}
	return "same"
}
