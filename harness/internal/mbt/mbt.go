// Package mbt holds the plumbing shared by the model-based-testing drivers: reading the
// per-transition / per-behaviour JSON that TLC prints, fanning it out over workers, and
// writing the result file that the Python runner folds into the evidence.
package mbt

import (
	"bufio"
	"encoding/json"
	"fmt"
	"os"
	"runtime"
	"sort"
	"strconv"
	"sync"
)

// Mismatch is one disagreement between the specification and the implementation (or a
// property-level failure observed on the implementation).
type Mismatch struct {
	Sig    string      `json:"sig"`    // stable signature: family:kind:where (matched against known_findings.json)
	Text   string      `json:"text"`   // one-line human description
	Detail interface{} `json:"detail"` // the behaviour / input that reproduces it
}

// Result is what a driver reports back to the runner.
type Result struct {
	mu                 sync.Mutex
	Evaluations        int                    `json:"evaluations"`
	DistinctNontrivial int                    `json:"distinct_nontrivial"`
	Behaviours         int                    `json:"behaviours"`
	Mismatches         []Mismatch             `json:"mismatches"`
	Samples            []interface{}          `json:"samples"`
	Extra              map[string]interface{} `json:"extra"`
	sigCount           map[string]int
	distinct           map[string]struct{}
}

func NewResult() *Result {
	return &Result{Extra: map[string]interface{}{}, sigCount: map[string]int{}, distinct: map[string]struct{}{}}
}

// Mismatch records a disagreement; only the first few per signature keep their detail.
func (r *Result) Mismatch(sig, text string, detail interface{}) {
	r.mu.Lock()
	defer r.mu.Unlock()
	r.sigCount[sig]++
	if r.sigCount[sig] > 1 {
		return
	}
	r.Mismatches = append(r.Mismatches, Mismatch{sig, text, detail})
}

func (r *Result) Count(n int) { r.mu.Lock(); r.Evaluations += n; r.mu.Unlock() }
func (r *Result) Behaviour()   { r.mu.Lock(); r.Behaviours++; r.mu.Unlock() }

// Distinct notes one distinct non-trivial case by key.
func (r *Result) Distinct(key string) {
	r.mu.Lock()
	r.distinct[key] = struct{}{}
	r.mu.Unlock()
}

func (r *Result) Sample(s interface{}) {
	r.mu.Lock()
	if len(r.Samples) < 4 {
		r.Samples = append(r.Samples, s)
	}
	r.mu.Unlock()
}

func (r *Result) Set(k string, v interface{}) { r.mu.Lock(); r.Extra[k] = v; r.mu.Unlock() }
func (r *Result) Add(k string, n int) {
	r.mu.Lock()
	c, _ := r.Extra[k].(int)
	r.Extra[k] = c + n
	r.mu.Unlock()
}

func (r *Result) NumMismatches() int { r.mu.Lock(); defer r.mu.Unlock(); return len(r.Mismatches) }

// Write stores the result in $VERIF_OUT (or prints it when unset).
func (r *Result) Write() error {
	r.mu.Lock()
	defer r.mu.Unlock()
	if len(r.distinct) > 0 {
		r.DistinctNontrivial += len(r.distinct)
	}
	counts := map[string]int{}
	for k, v := range r.sigCount {
		counts[k] = v
	}
	if len(counts) > 0 {
		r.Extra["mismatch_counts"] = counts
	}
	if r.Mismatches == nil {
		r.Mismatches = []Mismatch{}
	}
	sort.Slice(r.Mismatches, func(i, j int) bool { return r.Mismatches[i].Sig < r.Mismatches[j].Sig })
	b, err := json.MarshalIndent(r, "", " ")
	if err != nil {
		return err
	}
	p := os.Getenv("VERIF_OUT")
	if p == "" {
		fmt.Println(string(b))
		return nil
	}
	return os.WriteFile(p, b, 0o644)
}

// Seed returns $VERIF_SEED (default 1).
func Seed() int64 {
	s, err := strconv.ParseInt(os.Getenv("VERIF_SEED"), 10, 64)
	if err != nil {
		return 1
	}
	return s
}

// EnvInt reads an integer environment variable with a default.
func EnvInt(name string, def int) int {
	s, err := strconv.Atoi(os.Getenv(name))
	if err != nil {
		return def
	}
	return s
}

// Thorough reports whether the thorough tier is running.
func Thorough() bool { return os.Getenv("VERIF_TIER") == "thorough" }

// EachLine streams the JSON lines TLC printed (PrintT(ToJson(x)) prints a quoted TLA+ string;
// plain JSON object lines are accepted too) to fn on `workers` goroutines.  Lines that are not
// dump lines (TLC's own messages) are skipped.  limit <= 0 means no limit; stride k > 1 keeps
// every k-th dump line (offset by seed) — used by the quick tier.
func EachLine(path string, workers int, limit int, stride int, seed int64, fn func(n int, raw []byte)) (int, error) {
	f, err := os.Open(path)
	if err != nil {
		return 0, err
	}
	defer f.Close()
	if workers <= 0 {
		workers = runtime.NumCPU()
	}
	type item struct {
		n   int
		raw []byte
	}
	ch := make(chan item, 4*workers)
	var wg sync.WaitGroup
	for w := 0; w < workers; w++ {
		wg.Add(1)
		go func() {
			defer wg.Done()
			for it := range ch {
				fn(it.n, it.raw)
			}
		}()
	}
	sc := bufio.NewScanner(f)
	sc.Buffer(make([]byte, 1<<20), 1<<28)
	n, sent := 0, 0
	if stride < 1 {
		stride = 1
	}
	off := int(seed % int64(stride))
	if off < 0 {
		off = -off
	}
	for sc.Scan() {
		line := sc.Bytes()
		if len(line) < 2 {
			continue
		}
		var raw []byte
		switch line[0] {
		case '"':
			var inner string
			if err := json.Unmarshal(line, &inner); err != nil {
				continue
			}
			raw = []byte(inner)
		case '{', '[':
			raw = append([]byte(nil), line...)
		default:
			continue
		}
		n++
		if (n+off)%stride != 0 {
			continue
		}
		ch <- item{n, raw}
		sent++
		if limit > 0 && sent >= limit {
			break
		}
	}
	close(ch)
	wg.Wait()
	return sent, sc.Err()
}
