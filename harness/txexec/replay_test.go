// replay_test.go: TestReplay, specification -> code.  Every transition TLC prints for MC_TxExec
// in ExecMode "plain" is an abstract block {w0, h, o}: an initial world over a few slots, a
// sequence of transactions with their specified result class / status / gas used, and the
// specified world after the last one.  The driver concretises it -- 1 model gas unit = the real
// IntrinsicGas of the transaction kind (29000 / 21000 for transfers, 53000 for creations), all
// balances, values and the block gas limit scaled by the same factor, so every threshold of the
// model (balance = gas * price exactly, value = what is left exactly, gas = intrinsic exactly, gas
// = what the block has left exactly) is hit exactly -- and executes it twice on the real code:
//
//	A. transaction by transaction through blockchain.ApplyTransaction inside the protocol of one
//	   iteration of commitBlock's loop; compared after every step: executed / rejected (and the
//	   reason, reported separately), receipt status, gas used, the gas pool;  after the last step:
//	   balance and nonce of every slot, the pool, and that no other account of the state changed;
//	B. as a whole through the real BlockOperations.commitBlock; compared: which transactions got a
//	   receipt, their gas used / status / cumulative gas, BlockInfo.GasUsed, balance and nonce of
//	   every slot at the end, and that the rest of the state equals an empty block's.
package txexec

import (
	"encoding/json"
	"fmt"
	"math/big"
	"os"
	"sync"
	"testing"

	"github.com/kardiachain/go-kardia/kvm"
	"github.com/kardiachain/go-kardia/lib/common"
	"github.com/kardiachain/go-kardia/lib/crypto"
	"github.com/kardiachain/go-kardia/mainchain/blockchain"
	stypes "github.com/kardiachain/go-kardia/mainchain/staking/types"
	"github.com/kardiachain/go-kardia/mainchain/tx_pool"
	"github.com/kardiachain/go-kardia/types"

	"verifharness/internal/mbt"
)

type mObs struct {
	B  []int64 `json:"b"`
	N  []int64 `json:"n"`
	C  []int   `json:"c"`
	P  int64   `json:"p"`
	CB int     `json:"cb"`
}

type mStep struct {
	Tx    []int64 // from,to,new,nonce,value,gas,price,intr,sig
	Class string
	OK    int
	Used  int64
}

func (s *mStep) UnmarshalJSON(b []byte) error {
	var raw []json.RawMessage
	if err := json.Unmarshal(b, &raw); err != nil {
		return err
	}
	if len(raw) != 4 {
		return fmt.Errorf("step with %d fields", len(raw))
	}
	if err := json.Unmarshal(raw[0], &s.Tx); err != nil {
		return err
	}
	if err := json.Unmarshal(raw[1], &s.Class); err != nil {
		return err
	}
	if err := json.Unmarshal(raw[2], &s.OK); err != nil {
		return err
	}
	return json.Unmarshal(raw[3], &s.Used)
}

type mLine struct {
	W0 mObs    `json:"w0"`
	H  []mStep `json:"h"`
	O  mObs    `json:"o"`
}

var txCache sync.Map // (rule set, abstract transaction) -> signed concrete transaction

func fmtHist(l *mLine) string {
	s := fmt.Sprintf("w0=%+v;", l.W0)
	for _, st := range l.H {
		s += fmt.Sprintf(" tx%v->%s/ok%d/used%d", st.Tx, st.Class, st.OK, st.Used)
	}
	return s
}

// replayOne executes one abstract block on the real code; returns false if it could not be built.
func replayOne(res *mbt.Result, chL, chG *chain, n int, l *mLine) {
	ch, legacy := chL, true
	if n%2 == 1 {
		ch, legacy = chG, false
	}
	na := len(l.W0.B)
	creation := len(l.H) > 0 && l.H[0].Tx[1] == 0
	for _, st := range l.H {
		if (st.Tx[1] == 0) != creation {
			res.Mismatch("infra:mixed-kinds", "transfers and creations in one abstract block", nil)
			return
		}
	}
	unit, _ := tx_pool.IntrinsicGas(nil, creation, legacy)
	U := int64(unit)
	u := newUniverse()
	// slots of the model: 1 proposer, 2 sender, 3 the other account, 4.. = the addresses the sender's
	// creations with nonce 0, 1, 2 go to
	slot := make([]common.Address, na+1)
	slot[1], slot[2], slot[3] = u.addr[idCB], u.addr[idS1], u.addr[idC1]
	for k := 4; k <= na; k++ {
		slot[k] = crypto.CreateAddress(u.addr[idS1], uint64(k-4))
		u.id(slot[k])
	}
	hashSlot := map[common.Hash]int{}
	for k := 1; k <= na; k++ {
		hashSlot[crypto.Keccak256Hash(slot[k].Bytes())] = k
	}
	st, err := ch.bc.State()
	if err != nil {
		res.Mismatch("infra:state", err.Error(), nil)
		return
	}
	for k := 1; k <= na; k++ {
		if b := l.W0.B[k-1]; b > 0 {
			st.SetBalance(slot[k], big.NewInt(b*U))
		}
		if nn := l.W0.N[k-1]; nn > 0 {
			st.SetNonce(slot[k], uint64(nn))
		}
		switch l.W0.C[k-1] {
		case 1:
			st.SetCode(slot[k], []byte{opSTOP})
		case 2:
			st.SetCode(slot[k], []byte{opINVALID})
		}
	}
	st.IntermediateRoot(true)
	height := uint64(1)
	header := &types.Header{Height: height, GasLimit: uint64(l.W0.P * U), ProposerAddress: slot[l.W0.CB],
		Time: ch.gen.Timestamp, NumTxs: uint64(len(l.H))}
	signer := types.MakeSigner(ch.bc.Config(), &height)
	pre, err := takeSnap(st)
	if err != nil {
		res.Mismatch("infra:snap", err.Error(), nil)
		return
	}
	stB, stE := st.Copy(), st.Copy()

	detail := func() interface{} {
		return map[string]interface{}{"line": n, "legacy": legacy, "unit": U, "block": l}
	}
	report := func(sig, text string) {
		res.Mismatch(sig, text+" | abstract block: "+fmtHist(l)+fmt.Sprintf(" | unit=%d legacy=%v", U, legacy), detail())
	}

	// concrete transactions (signing is the expensive part: the few distinct ones are cached)
	var txs types.Transactions
	for _, s := range l.H {
		t := s.Tx
		key := fmt.Sprint(legacy, t)
		if c, ok := txCache.Load(key); ok {
			txs = append(txs, c.(*types.Transaction))
			continue
		}
		var tx *types.Transaction
		if t[1] == 0 {
			tx = types.NewContractCreation(uint64(t[3]), big.NewInt(t[4]*U), uint64(t[5]*U), big.NewInt(t[6]), nil)
		} else {
			tx = types.NewTransaction(uint64(t[3]), slot[t[1]], big.NewInt(t[4]*U), uint64(t[5]*U), big.NewInt(t[6]), nil)
		}
		if t[8] == 1 {
			tx, err = types.SignTx(signer, tx, u.keys[idS1])
		} else {
			sig := make([]byte, 65)
			sig[31] = 1
			tx, err = tx.WithSignature(types.HomesteadSigner{}, sig)
		}
		if err != nil {
			res.Mismatch("infra:sign", err.Error(), nil)
			return
		}
		txCache.Store(key, tx)
		txs = append(txs, tx)
	}
	idx := map[common.Hash]int{}
	for k, tx := range txs {
		if _, dup := idx[tx.Hash()]; dup {
			return // the same transaction twice in one block: not a block the chain can carry
		}
		idx[tx.Hash()] = k + 1
	}
	res.Count(1)
	res.Behaviour()

	// ---- A: step by step through ApplyTransaction
	gp := new(types.GasPool).AddGas(header.GasLimit)
	usedGas := new(uint64)
	okA := true
	for k, tx := range txs {
		exp := l.H[k]
		p0 := gp.Gas()
		var rcpt *types.Receipt
		var aerr error
		var pan interface{}
		func() {
			defer func() { pan = recover() }()
			st.Prepare(tx.Hash(), header.Hash(), k)
			sn := st.Snapshot()
			rcpt, _, aerr = blockchain.ApplyTransaction(ch.bc.Config(), ch.lg, ch.bc, gp, st, header, tx, usedGas, kvm.Config{})
			if aerr != nil {
				st.RevertToSnapshot(sn)
			}
		}()
		if pan != nil {
			report("txexec:mbt:apply:panic", fmt.Sprintf("ApplyTransaction panicked at step %d: %v", k+1, pan))
			return
		}
		pr := gp.Gas()
		cl := classify(aerr)
		if aerr != nil {
			*gp = types.GasPool(p0)
			late := exp.Class == "intrinsic" || exp.Class == "funds-transfer"
			if pr != p0 && !(late && pr == p0-tx.Gas()) {
				report("txexec:mbt:apply:raw-gas-pool", fmt.Sprintf("step %d: ApplyTransaction returned %q and left the gas pool at %d (before: %d)", k+1, cl, pr, p0))
				okA = false
			}
		}
		if (cl == "exec") != (exp.Class == "exec") {
			report("txexec:mbt:apply:class:"+exp.Class, fmt.Sprintf("step %d: the real ApplyTransaction gives %q, specified %q", k+1, cl, exp.Class))
			okA = false
			break
		}
		if cl != exp.Class {
			res.Add("reject_reason_differs", 1)
		}
		if cl == "exec" {
			if int64(rcpt.GasUsed) != exp.Used*U {
				report("txexec:mbt:apply:gas-used", fmt.Sprintf("step %d: real gas used %d, specified %d", k+1, rcpt.GasUsed, exp.Used*U))
				okA = false
			}
			if int(rcpt.Status) != exp.OK {
				report("txexec:mbt:apply:status", fmt.Sprintf("step %d: real status %d, specified %d", k+1, rcpt.Status, exp.OK))
				okA = false
			}
			if pr != p0-rcpt.GasUsed {
				report("txexec:mbt:apply:gas-pool", fmt.Sprintf("step %d: gas pool %d -> %d with gas used %d", k+1, p0, pr, rcpt.GasUsed))
				okA = false
			}
		}
		if exp.Class != "exec" || exp.OK == 0 || exp.Tx[1] == 0 {
			keyMu.Lock()
			keys[fmt.Sprintf("%s/ok%d/create%v/step%d", exp.Class, exp.OK, exp.Tx[1] == 0, k+1)] = struct{}{}
			keyMu.Unlock()
		}
	}
	cmp := func(tag string, s snap, base snap) bool {
		good := true
		for k := 1; k <= na; k++ {
			a := s[crypto.Keccak256Hash(slot[k].Bytes())]
			bal := new(big.Int)
			if a.bal != nil {
				bal = a.bal
			}
			if bal.Cmp(big.NewInt(l.O.B[k-1]*U)) != 0 {
				report("txexec:mbt:"+tag+":balance", fmt.Sprintf("slot %d: real balance %v, specified %d", k, bal, l.O.B[k-1]*U))
				good = false
			}
			if int64(a.nonce) != l.O.N[k-1] {
				report("txexec:mbt:"+tag+":nonce", fmt.Sprintf("slot %d: real nonce %d, specified %d", k, a.nonce, l.O.N[k-1]))
				good = false
			}
		}
		// every other account of the state
		for h, a := range s {
			if _, in := hashSlot[h]; in {
				continue
			}
			b, ok := base[h]
			if !ok || b.bal.Cmp(a.bal) != 0 || b.nonce != a.nonce || b.root != a.root || b.code != a.code {
				report("txexec:mbt:"+tag+":account-outside-universe-changed", "account "+h.Hex()+" differs")
				good = false
			}
		}
		for h := range base {
			if _, in := hashSlot[h]; in {
				continue
			}
			if _, ok := s[h]; !ok {
				report("txexec:mbt:"+tag+":account-outside-universe-changed", "account "+h.Hex()+" disappeared")
				good = false
			}
		}
		return good
	}
	if okA {
		post, err := takeSnap(st)
		if err != nil {
			res.Mismatch("infra:snap", err.Error(), nil)
			return
		}
		cmp("apply", post, pre)
		if int64(gp.Gas()) != l.O.P*U {
			report("txexec:mbt:apply:gas-pool", fmt.Sprintf("gas pool after the block %d, specified %d", gp.Gas(), l.O.P*U))
		}
	}

	// ---- B: the whole block through commitBlock
	var info *types.BlockInfo
	var cerr error
	var pan interface{}
	func() {
		defer func() { pan = recover() }()
		ch.lg.take()
		_, info, cerr = ch.bo.VerifCommitBlock(stB, txs, header, stypes.LastCommitInfo{}, nil)
	}()
	failed := ch.lg.take()
	if pan != nil {
		report("txexec:mbt:commit:panic", fmt.Sprintf("commitBlock panicked: %v", pan))
		return
	}
	if cerr != nil {
		report("txexec:mbt:commit:error", "commitBlock returned "+cerr.Error())
		return
	}
	if _, _, err := ch.bo.VerifCommitBlock(stE, nil, header, stypes.LastCommitInfo{}, nil); err != nil {
		res.Mismatch("infra:emptyblock", err.Error(), nil)
		return
	}
	got := map[int]*types.Receipt{}
	for _, rc := range info.Receipts {
		got[idx[rc.TxHash]] = rc
	}
	same := true
	cum := int64(0)
	pos := 0
	for k, exp := range l.H {
		rc, has := got[k+1]
		if exp.Class == "exec" && !has {
			cl := classify(failed[txs[k].Hash().Hex()])
			report("txexec:mbt:commit:valid-tx-skipped:"+cl,
				fmt.Sprintf("commitBlock skipped transaction %d with %q; as specified it is executed (the transactions rejected before it must leave no trace)", k+1, cl))
			same = false
			break // what follows is a consequence
		}
		if exp.Class != "exec" && has {
			report("txexec:mbt:commit:rejected-tx-executed:"+exp.Class, fmt.Sprintf("commitBlock executed transaction %d; specified %q", k+1, exp.Class))
			same = false
			break
		}
		if has {
			cum += exp.Used * U
			if int64(rc.GasUsed) != exp.Used*U || int(rc.Status) != exp.OK || int64(rc.CumulativeGasUsed) != cum ||
				pos >= len(info.Receipts) || info.Receipts[pos] != rc {
				report("txexec:mbt:commit:receipt-fields", fmt.Sprintf("receipt of transaction %d: gas used %d status %d cumulative %d; specified %d / %d / %d",
					k+1, rc.GasUsed, rc.Status, rc.CumulativeGasUsed, exp.Used*U, exp.OK, cum))
				same = false
			}
			pos++
		}
	}
	if same {
		if int64(info.GasUsed) != cum {
			report("txexec:mbt:commit:block-gas-used", fmt.Sprintf("BlockInfo.GasUsed %d, specified %d", info.GasUsed, cum))
		}
		postB, err1 := takeSnap(stB)
		postE, err2 := takeSnap(stE)
		if err1 != nil || err2 != nil {
			res.Mismatch("infra:snap", "snapshot failed", nil)
			return
		}
		cmp("commit", postB, postE)
	}
	if n%5000 == 1 {
		res.Sample(map[string]interface{}{"abstract_block": fmtHist(l), "unit": U, "legacy": legacy})
	}
}

// TestReplay replays the dump TXE_DUMP (stride TXE_STRIDE).
func TestReplay(t *testing.T) {
	res := mbt.NewResult()
	defer res.Write()
	path := os.Getenv("TXE_DUMP")
	stride := mbt.EnvInt("TXE_STRIDE", 1)
	type pair struct{ l, g *chain }
	pool := make(chan pair, 64)
	get := func() (pair, error) {
		select {
		case p := <-pool:
			return p, nil
		default:
		}
		l, err := newChain(false)
		if err != nil {
			return pair{}, err
		}
		g, err := newChain(true)
		if err != nil {
			return pair{}, err
		}
		return pair{l, g}, nil
	}
	sent, err := mbt.EachLine(path, 0, 0, stride, mbt.Seed(), func(n int, raw []byte) {
		var l mLine
		if err := json.Unmarshal(raw, &l); err != nil || len(l.H) == 0 {
			res.Mismatch("infra:dump-line", fmt.Sprintf("unparsable dump line %d: %v", n, err), string(raw))
			return
		}
		p, err := get()
		if err != nil {
			res.Mismatch("infra:chain", err.Error(), nil)
			return
		}
		replayOne(res, p.l, p.g, n, &l)
		select {
		case pool <- p:
		default:
			p.l.bc.Stop()
			p.g.bc.Stop()
		}
	})
	if err != nil {
		res.Mismatch("infra:dump", err.Error(), nil)
	}
	if sent == 0 {
		res.Mismatch("infra:dump-empty", "no dump lines in "+path, nil)
	}
	res.Set("replayed_"+os.Getenv("TXE_TAG"), sent)
	res.Set("distinct_keys", keyList())
}
