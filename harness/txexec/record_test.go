// record_test.go: TestRecord, the producer of the traces that TLC validates against
// specs/txexec/TxExecTrace.tla (trace validation, code -> specification).
//
// One scenario = one block over a random small pre-state:
//
//	begin   the pre-state (every slot: balance, nonce, code id, storage id), block gas limit, proposer
//	tx ...  pass T: the REAL blockchain.ApplyTransaction is called once per transaction with a frame
//	        tracer, inside the protocol of one iteration of commitBlock's loop (Prepare, Snapshot,
//	        ApplyTransaction, on error RevertToSnapshot) and with the gas pool handled as the
//	        specification prescribes for the caller (restored after a rejected transaction; the raw
//	        value ApplyTransaction left behind is logged as "pr").  Logged per transaction: all
//	        fields, intrinsic gas (from the real IntrinsicGas), result class, receipt status and gas
//	        used, gas consumed by the top-level frame, refund counter, the frame events, the gas
//	        pool before / after, the complete post-state of the universe and what happened to all
//	        OTHER accounts of the state (must be nothing).
//	process pass P: the REAL StateProcessor.Process (the strict loop used to re-execute stored blocks)
//	        on a fourth copy: error class or receipts / gas used / post-state.
//	commit  pass B: the REAL BlockOperations.commitBlock executes the whole block (no tracer) on a
//	        copy of the same pre-state; logged: receipts (transaction, gas used, status, cumulative
//	        gas), skipped transactions with the error commitBlock logged, BlockInfo.GasUsed, the
//	        post-state of the universe, and the difference of all other accounts to an EMPTY block
//	        committed on a third copy (mint / staking bookkeeping must not depend on the transactions).
//
// Randomness only from VERIF_SEED; scenario i of seed s is reproducible on its own.
package txexec

import (
	"encoding/json"
	"errors"
	"fmt"
	"math/big"
	"math/rand"
	"os"
	"runtime"
	"sort"
	"sync"
	"testing"
	"time"

	"github.com/kardiachain/go-kardia/kai/state"
	"github.com/kardiachain/go-kardia/kvm"
	"github.com/kardiachain/go-kardia/lib/common"
	"github.com/kardiachain/go-kardia/lib/crypto"
	"github.com/kardiachain/go-kardia/mainchain/blockchain"
	stypes "github.com/kardiachain/go-kardia/mainchain/staking/types"
	"github.com/kardiachain/go-kardia/mainchain/tx_pool"
	"github.com/kardiachain/go-kardia/trie"
	"github.com/kardiachain/go-kardia/types"

	"verifharness/internal/mbt"
)

// ---------------------------------------------------------------- events

type evBegin struct {
	E  string `json:"e"`
	ID int    `json:"id"`
	GL int64  `json:"gl"`
	CB int    `json:"cb"`
	H  int64  `json:"h"`
	view
}

type evTx struct {
	E  string    `json:"e"`
	K  int       `json:"k"`  // index in the block (1-based)
	F  int       `json:"f"`  // sender slot
	T  int       `json:"t"`  // recipient slot, 0 = contract creation
	NW int       `json:"nw"` // creation: slot of the created address
	N  int64     `json:"nn"` // nonce
	V  int64     `json:"v"`  // value
	G  int64     `json:"g"`  // gas limit
	P  int64     `json:"p"`  // gas price
	IG int64     `json:"ig"` // intrinsic gas (real IntrinsicGas)
	SG int       `json:"sg"` // 1 = signature valid
	CL string    `json:"cl"` // result class: exec | nonce-high | nonce-low | funds-gas | gaspool | intrinsic | funds-transfer | sig
	OK int       `json:"ok"` // receipt status (exec)
	U  int64     `json:"u"`  // receipt gas used (exec)
	EG int64     `json:"eg"` // gas consumed by the top-level frame (-1: the tracer saw no top-level frame)
	RC int64     `json:"rc"` // refund counter when the top-level frame ended
	CC int       `json:"cc"` // code id deployed by a successful creation
	FR []frameEv `json:"fr"` // frame events below the top-level frame
	CS []siteEv  `json:"cs"` // call-sites: every executed call-family instruction with its gas bookkeeping
	ST int64     `json:"st"` // number of instructions executed
	P0 int64     `json:"p0"` // gas pool before
	PR int64     `json:"pr"` // gas pool as ApplyTransaction left it
	P1 int64     `json:"p1"` // gas pool after the iteration
	OD int64     `json:"od"` // sum of |balance change| of accounts outside the universe
	ON int       `json:"on"` // number of accounts outside the universe that changed
	view
}

type evCommit struct {
	E  string          `json:"e"`
	RC [][4]int64      `json:"rc"` // receipts in order: [tx index, gas used, status, cumulative gas]
	RJ [][2]interface{} `json:"rj"` // skipped transactions: [tx index, class]
	GU int64           `json:"gu"` // BlockInfo.GasUsed
	ER string          `json:"er"` // error returned by commitBlock ("" = none)
	OD int64           `json:"od"`
	ON int             `json:"on"`
	view
}

type evProcess struct {
	E  string     `json:"e"`
	ER int        `json:"er"` // 1 = Process returned an error (block invalid)
	CL string     `json:"cl"` // class of that error
	RC [][4]int64 `json:"rc"` // receipts [tx index, gas used, status, cumulative gas]
	GU int64      `json:"gu"` // gas used returned
	OD int64      `json:"od"`
	ON int        `json:"on"`
	view
}

func classify(err error) string {
	switch {
	case err == nil:
		return "exec"
	case errors.Is(err, tx_pool.ErrNonceTooHigh):
		return "nonce-high"
	case errors.Is(err, tx_pool.ErrNonceTooLow):
		return "nonce-low"
	case errors.Is(err, tx_pool.ErrInsufficientFunds):
		return "funds-gas"
	case errors.Is(err, tx_pool.ErrIntrinsicGas):
		return "intrinsic"
	case errors.Is(err, tx_pool.ErrInsufficientFundsForTransfer):
		return "funds-transfer"
	case errors.Is(err, types.ErrInvalidSig), errors.Is(err, types.ErrInvalidChainId):
		return "sig"
	case err.Error() == "gas limit reached":
		return "gaspool"
	}
	return "other"
}

// ---------------------------------------------------------------- scenario

type scenario struct {
	id     int
	rng    *rand.Rand
	ch     *chain
	u      *universe
	g      *gen
	st     *state.StateDB
	header *types.Header
	signer types.Signer
	legacy bool
	cb     int
	tight  bool
}

func (sc *scenario) setAccount(id int, bal int64, nonce uint64, code []byte, slots map[int]int) {
	a := sc.u.addr[id]
	if bal > 0 {
		sc.st.SetBalance(a, big.NewInt(bal))
	}
	if nonce > 0 {
		sc.st.SetNonce(a, nonce)
	}
	if len(code) > 0 {
		sc.st.SetCode(a, code)
	}
	for k, v := range slots {
		sc.st.SetState(a, common.BigToHash(big.NewInt(int64(k))), common.BigToHash(big.NewInt(int64(v))))
	}
}

func (sc *scenario) senderBalance() int64 {
	r := sc.rng
	switch r.Intn(16) {
	case 0:
		return int64(r.Intn(30000))
	case 1, 2:
		return int64(29000 + r.Intn(300000))
	case 3, 4:
		return int64(300000 + r.Intn(3000000))
	default:
		return int64(5000000 + r.Intn(50000000))
	}
}

func (sc *scenario) smallBalance() int64 {
	r := sc.rng
	switch r.Intn(5) {
	case 0:
		return 0
	case 1:
		return int64(1 + r.Intn(20))
	case 2:
		return int64(1000 + r.Intn(100000))
	default:
		return int64(1 + r.Intn(500))
	}
}

// buildPre fills the scenario's state (a fresh StateDB at the genesis root) with the random
// pre-state of the universe and flushes it (IntermediateRoot), so that the block starts from
// committed-looking values (SSTORE refunds depend on that).
func (sc *scenario) buildPre() {
	r := sc.rng
	for _, s := range []int{idS1, idS2} {
		sc.setAccount(s, sc.senderBalance(), uint64(r.Intn(4)), nil, nil)
	}
	if r.Intn(2) == 0 {
		sc.setAccount(idE, sc.smallBalance(), 0, nil, nil)
	}
	if r.Intn(3) == 0 {
		sc.setAccount(idCB, sc.smallBalance(), 0, nil, nil)
	}
	for c := idC1; c <= idC3; c++ {
		if r.Intn(8) == 0 {
			if r.Intn(2) == 0 {
				sc.setAccount(c, sc.smallBalance(), 0, nil, nil) // a plain account at a contract slot
			}
			continue
		}
		sc.g.self = c
		slots := map[int]int{}
		for k := 0; k < 3; k++ {
			if r.Intn(2) == 0 {
				slots[k] = 1 + r.Intn(5)
			}
		}
		sc.setAccount(c, sc.smallBalance(), 1, sc.g.program(), slots)
	}
	if r.Intn(8) == 0 {
		// a pair built for the DEAD-BENEFICIARY case of the specification: C1 calls C2, which destructs
		// itself (to a third account); then C1 destructs itself in favour of the already destructed C2
		a := &asm{}
		a.call(opCALL, sc.u.addr[idC2], uint64(r.Intn(3)), -1)
		a.pushAddr(sc.u.addr[idC2]).op(opSELFDESTRUCT)
		sc.st.SetCode(sc.u.addr[idC1], a.b)
		sc.st.SetNonce(sc.u.addr[idC1], 1)
		sc.st.SetBalance(sc.u.addr[idC1], big.NewInt(sc.smallBalance()))
		b := &asm{}
		if r.Intn(2) == 0 {
			b.sstore(0, uint64(r.Intn(2)))
		}
		b.pushAddr(sc.u.addr[[]int{idE, idCB, idC3, idS1}[r.Intn(4)]]).op(opSELFDESTRUCT)
		sc.st.SetCode(sc.u.addr[idC2], b.b)
		sc.st.SetNonce(sc.u.addr[idC2], 1)
	}
	if r.Intn(12) == 0 {
		// an account already sits where the next creation of S1 would go (address collision)
		a := crypto.CreateAddress(sc.u.addr[idS1], sc.st.GetNonce(sc.u.addr[idS1]))
		id := sc.u.id(a)
		sc.setAccount(id, sc.smallBalance(), 1, nil, nil)
	}
	sc.st.IntermediateRoot(true)
}

type txMeta struct {
	from, to, sg int
	create       bool
	intr         uint64
}

// genTx draws the next transaction, looking at the current state and gas pool so that every
// result class is hit on purpose (and at its exact threshold).
func (sc *scenario) genTx(pool uint64) (*types.Transaction, txMeta) {
	r := sc.rng
	m := txMeta{from: idS1 + r.Intn(2), sg: 1}
	from := sc.u.addr[m.from]
	curNonce := sc.st.GetNonce(from)
	bal := sc.st.GetBalance(from).Int64()

	var data []byte
	var to common.Address
	switch k := r.Intn(20); {
	case k < 4:
		m.create = true
		sc.g.self = 0
		data = sc.g.initCode(0)
	case k < 11:
		m.to = idC1 + r.Intn(3)
	case k < 14:
		m.to = idE
	case k == 14:
		m.to = sc.cb
	case k == 15:
		m.to = m.from // to itself
	case k == 16:
		m.to = idS1 + r.Intn(2)
	case k == 17:
		m.to = idPre
	default:
		if sc.u.next > idDyn {
			m.to = idDyn + r.Intn(sc.u.next-idDyn) // something created earlier in the scenario
		} else {
			m.to = idC1
		}
	}
	if !m.create {
		to = sc.u.addr[m.to]
		if r.Intn(3) == 0 {
			data = make([]byte, r.Intn(40))
			for i := range data {
				if r.Intn(3) > 0 {
					data[i] = byte(1 + r.Intn(255))
				}
			}
		}
	}
	m.intr, _ = tx_pool.IntrinsicGas(data, m.create, sc.legacy)

	price := int64(1 + r.Intn(3))
	var gas uint64
	switch r.Intn(12) {
	case 0:
		gas = m.intr
	case 1:
		gas = m.intr + uint64(1+r.Intn(3000))
	case 2:
		gas = m.intr + uint64(3000+r.Intn(30000))
	default:
		gas = m.intr + uint64(20000+r.Intn(500000))
	}
	if sc.tight && gas > pool && r.Intn(4) > 0 && pool >= m.intr {
		gas = m.intr + uint64(r.Int63n(int64(pool-m.intr)+1)) // fits what is left of the block
	}
	value := int64(0)
	switch r.Intn(6) {
	case 0:
	case 1:
		value = 1
	case 2:
		value = int64(1 + r.Intn(100000))
	default:
		value = int64(1 + r.Intn(300))
	}
	nonce := curNonce

	// steer towards one class
	switch c := r.Intn(36); {
	case c == 0:
		if nonce > 0 {
			nonce--
		} else {
			nonce++
		}
	case c == 1:
		nonce += uint64(1 + r.Intn(3))
	case c == 2 || c == 3: // gas * price just above / exactly at the balance
		if bal < 2900000 && bal >= int64(m.intr) {
			price = 1
			gas = uint64(bal) + uint64(r.Intn(2))
			if r.Intn(2) == 0 {
				value = 0
			}
		}
	case c == 4 || c == 5: // more gas than the block has left
		if pool < 900000 {
			gas = pool + uint64(r.Intn(2)) + uint64(r.Intn(2)*r.Intn(5000))
			if gas < m.intr {
				gas = m.intr
			}
		}
	case c == 6 || c == 7: // below intrinsic gas
		gas = m.intr - uint64(1+r.Intn(2)*r.Intn(20000))
	case c >= 8 && c <= 10: // value just above / exactly what is left after buying gas
		left := bal - int64(gas)*price
		if left >= 0 && left < maxAmount/4 {
			value = left + int64(r.Intn(2)) + int64(r.Intn(2)*r.Intn(50))
		}
	case c == 11:
		m.sg = 0
	}

	var tx *types.Transaction
	if m.create {
		tx = types.NewContractCreation(nonce, big.NewInt(value), gas, big.NewInt(price), data)
	} else {
		tx = types.NewTransaction(nonce, to, big.NewInt(value), gas, big.NewInt(price), data)
	}
	key := sc.u.keys[m.from]
	if m.sg == 1 {
		signer := sc.signer
		if !sc.legacy && r.Intn(3) == 0 {
			signer = types.HomesteadSigner{} // unprotected transactions stay valid after the fork
		}
		stx, err := types.SignTx(signer, tx, key)
		if err != nil {
			panic(err)
		}
		tx = stx
	} else {
		if !sc.legacy && r.Intn(2) == 0 {
			// replay protection: signed for another chain id
			stx, err := types.SignTx(types.NewChainIDSigner(big.NewInt(7)), tx, key)
			if err != nil {
				panic(err)
			}
			tx = stx
		} else {
			sig := make([]byte, 65)
			sig[31] = 1 // r = 1, s = 0: not a signature
			stx, err := tx.WithSignature(types.HomesteadSigner{}, sig)
			if err != nil {
				panic(err)
			}
			tx = stx
		}
	}
	return tx, m
}

func i64(b *big.Int) int64 { return b.Int64() }

// run executes the scenario and returns its ndjson lines (nil: dropped, reason in why).
func (sc *scenario) run(res *mbt.Result) (lines [][]byte, why string) {
	r := sc.rng
	emit := func(e interface{}) {
		b, err := json.Marshal(e)
		if err != nil {
			panic(err)
		}
		lines = append(lines, b)
	}
	st, err := sc.ch.bc.State()
	if err != nil {
		return nil, "infra:state"
	}
	sc.st = st
	sc.buildPre()

	// header
	height := uint64(1)
	sc.signer = types.MakeSigner(sc.ch.bc.Config(), &height)
	sc.cb = idCB
	switch r.Intn(12) {
	case 0:
		sc.cb = idS1 + r.Intn(2) // a sender proposes the block
	case 1:
		sc.cb = idE
	}
	nTx := 1 + r.Intn(8)
	var gl uint64
	switch r.Intn(4) {
	case 0, 1:
		gl = uint64(1000000 * (1 + r.Intn(3)))
	case 2:
		gl = uint64(29000 + r.Intn(120000))
		sc.tight = true
	default:
		gl = uint64(60000 + r.Intn(600000))
		sc.tight = true
	}
	sc.header = &types.Header{Height: height, GasLimit: gl, ProposerAddress: sc.u.addr[sc.cb],
		Time: sc.ch.gen.Timestamp.Add(time.Duration(height%1000) * time.Second), NumTxs: uint64(nTx)}

	pre, err := takeSnap(st)
	if err != nil {
		return nil, "infra:snap"
	}
	stB, stE, stP := st.Copy(), st.Copy(), st.Copy() // pass B, the empty block and pass P start from the same pre-state
	pv, ok := sc.u.project(pre)
	if !ok {
		return nil, "range"
	}
	emit(evBegin{E: "begin", ID: sc.id, GL: int64(gl), CB: sc.cb, H: int64(height), view: pv})

	// ---- pass T: one real ApplyTransaction per transaction, traced
	gp := new(types.GasPool).AddGas(gl)
	usedGas := new(uint64)
	var txs types.Transactions
	idx := map[common.Hash]int{}
	cur := pre
	for k := 1; k <= nTx; k++ {
		tx, m := sc.genTx(gp.Gas())
		if _, dup := idx[tx.Hash()]; dup {
			continue
		}
		idx[tx.Hash()] = k
		txs = append(txs, tx)
		p0 := gp.Gas()
		tr := &tracer{u: sc.u, stepCap: 2*tx.Gas() + 1000}
		var rcpt *types.Receipt
		var aerr error
		var pan interface{}
		func() {
			defer func() { pan = recover() }()
			st.Prepare(tx.Hash(), sc.header.Hash(), k-1)
			sn := st.Snapshot()
			rcpt, _, aerr = blockchain.ApplyTransaction(sc.ch.bc.Config(), sc.ch.lg, sc.ch.bc, gp, st, sc.header, tx, usedGas,
				kvm.Config{Debug: true, Tracer: tr})
			if aerr != nil {
				st.RevertToSnapshot(sn)
			}
		}()
		if _, isRunaway := pan.(runaway); isRunaway {
			// the run was abandoned: the state is meaningless from here on; the event (instruction count
			// against the gas limit) is what the specification judges
			pv0, _ := sc.u.project(cur)
			emit(evTx{E: "tx", K: k, F: m.from, T: m.to, N: int64(tx.Nonce()), V: i64(tx.Value()), G: int64(tx.Gas()), P: i64(tx.GasPrice()),
				IG: int64(m.intr), SG: m.sg, CL: "exec", EG: -1, FR: []frameEv{}, CS: []siteEv{}, ST: clampU(tr.steps),
				P0: clampU(p0), PR: clampU(p0), P1: clampU(p0), view: pv0})
			res.Count(1)
			res.Add("runaway_executions_abandoned", 1)
			return lines, ""
		}
		if pan != nil {
			res.Mismatch("txexec:panic:ApplyTransaction", fmt.Sprintf("ApplyTransaction panicked: %v", pan),
				map[string]interface{}{"scenario": sc.id, "seed": mbt.Seed(), "tx": k})
			return nil, "panic"
		}
		pr := gp.Gas()
		if aerr != nil {
			*gp = types.GasPool(p0) // the caller's duty according to the specification
		}
		e := evTx{E: "tx", K: k, F: m.from, T: m.to, N: int64(tx.Nonce()), V: i64(tx.Value()), G: int64(tx.Gas()), P: i64(tx.GasPrice()),
			IG: int64(m.intr), SG: m.sg, CL: classify(aerr), EG: -1, FR: []frameEv{}, CS: []siteEv{}, P0: clampU(p0), PR: clampU(pr), P1: clampU(gp.Gas())}
		if aerr == nil {
			if m.create {
				e.NW = sc.u.id(crypto.CreateAddress(sc.u.addr[m.from], tx.Nonce()))
			}
			e.OK, e.U = int(rcpt.Status), clampU(rcpt.GasUsed)
			e.FR = append(e.FR, tr.evs...)
			e.CS = tr.siteEvents()
			e.ST = clampU(tr.steps)
			e.RC = clampU(tr.refund)
			if tr.ended {
				e.EG = clampU(tr.execGas)
			}
			if m.create && tr.topErr == nil && tr.ended && len(tr.topOut) > 0 {
				e.CC = sc.u.codeID(crypto.Keccak256Hash(tr.topOut))
			}
			if tr.bad != "" {
				return nil, "tracer:" + tr.bad
			}
			if len(e.FR) > 1500 || len(e.CS) > 1000 {
				return nil, "long"
			}
		}
		post, err := takeSnap(st)
		if err != nil {
			return nil, "infra:snap"
		}
		if sc.u.over {
			return nil, "slots"
		}
		var okp bool
		e.view, okp = sc.u.project(post)
		if !okp {
			return nil, "range"
		}
		var who []string
		e.OD, e.ON, who = sc.u.outside(cur, post)
		_ = who
		cur = post
		emit(e)
		res.Count(1)
		noteCase(res, &e)
	}

	// ---- pass B: the real commitBlock on the whole block; an empty block for comparison
	var info, infoE *types.BlockInfo
	var cerr, cerrE error
	var pvB interface{}
	func() {
		defer func() { pvB = recover() }()
		sc.ch.lg.take()
		_, info, cerr = sc.ch.bo.VerifCommitBlock(stB, txs, sc.header, stypes.LastCommitInfo{}, nil)
	}()
	failed := sc.ch.lg.take()
	if pvB != nil {
		res.Mismatch("txexec:panic:commitBlock", fmt.Sprintf("commitBlock panicked: %v", pvB),
			map[string]interface{}{"scenario": sc.id, "seed": mbt.Seed()})
		return nil, "panic"
	}
	_, infoE, cerrE = sc.ch.bo.VerifCommitBlock(stE, nil, sc.header, stypes.LastCommitInfo{}, nil)
	if cerrE != nil || infoE == nil {
		return nil, fmt.Sprintf("infra:emptyblock: %v (with txs: %v)", cerrE, cerr)
	}
	c := evCommit{E: "commit", RC: [][4]int64{}, RJ: [][2]interface{}{}}
	if cerr != nil {
		c.ER = cerr.Error()
	} else {
		for _, rc := range info.Receipts {
			c.RC = append(c.RC, [4]int64{int64(idx[rc.TxHash]), clampU(rc.GasUsed), int64(rc.Status), clampU(rc.CumulativeGasUsed)})
		}
		for _, tx := range txs {
			if e, bad := failed[tx.Hash().Hex()]; bad {
				c.RJ = append(c.RJ, [2]interface{}{idx[tx.Hash()], classify(e)})
			}
		}
		c.GU = clampU(info.GasUsed)
	}
	postB, err1 := takeSnap(stB)
	postE, err2 := takeSnap(stE)
	if err1 != nil || err2 != nil {
		return nil, "infra:snap"
	}
	var okp bool
	c.view, okp = sc.u.project(postB)
	if !okp || sc.u.over {
		return nil, "range"
	}
	c.OD, c.ON, _ = sc.u.outside(postE, postB)
	emit(c)
	res.Count(1)

	// ---- pass P: the strict loop, StateProcessor.Process (re-execution of a stored block): the first
	// transaction ApplyTransaction refuses invalidates the block
	var rcP types.Receipts
	var usedP uint64
	var perr error
	var pvP interface{}
	func() {
		defer func() { pvP = recover() }()
		blk := types.NewBlock(sc.header, txs, nil, nil, trie.NewStackTrie(nil))
		rcP, _, usedP, perr = sc.ch.bc.Processor().Process(blk, stP, kvm.Config{})
	}()
	if pvP != nil {
		res.Mismatch("txexec:panic:Process", fmt.Sprintf("StateProcessor.Process panicked: %v", pvP),
			map[string]interface{}{"scenario": sc.id, "seed": mbt.Seed()})
		return nil, "panic"
	}
	p := evProcess{E: "process", RC: [][4]int64{}}
	if perr != nil {
		p.ER, p.CL = 1, classify(perr)
		p.view = c.view // the state of an invalid block is not defined: nothing to compare
	} else {
		for _, rc := range rcP {
			p.RC = append(p.RC, [4]int64{int64(idx[rc.TxHash]), clampU(rc.GasUsed), int64(rc.Status), clampU(rc.CumulativeGasUsed)})
		}
		p.GU = clampU(usedP)
		postP, err := takeSnap(stP)
		if err != nil {
			return nil, "infra:snap"
		}
		p.view, okp = sc.u.project(postP)
		if !okp || sc.u.over {
			return nil, "range"
		}
		p.OD, p.ON, _ = sc.u.outside(pre, postP)
	}
	emit(p)
	res.Count(1)
	return lines, ""
}

var (
	keyMu sync.Mutex
	keys  = map[string]struct{}{} // distinct non-trivial cases of this process (reported as a list: the runner unites them)
)

func keyList() []string {
	keyMu.Lock()
	defer keyMu.Unlock()
	l := make([]string, 0, len(keys))
	for k := range keys {
		l = append(l, k)
	}
	sort.Strings(l)
	return l
}

// noteCase records the distinct non-trivial cases: result class x kind of transaction x what
// happened inside (see c.rule in checks/C09.py).
func noteCase(res *mbt.Result, e *evTx) {
	kind := "call"
	if e.T == 0 {
		kind = "create"
	}
	inner := map[string]bool{}
	failedFrame := false
	for _, f := range e.FR {
		k := f[0].(string)
		if k == "exit" {
			if f[4].(int) == 0 {
				failedFrame = true
			}
			continue
		}
		inner[k] = true
		if k == "sd" && f[1] == f[2] {
			inner["sd-self"] = true
		}
	}
	key := fmt.Sprintf("%s/%s/ok%d", e.CL, kind, e.OK)
	for _, k := range []string{"call", "ccode", "dcall", "scall", "create", "sd", "sd-self"} {
		if inner[k] {
			key += "+" + k
		}
	}
	if failedFrame {
		key += "+revert"
	}
	if e.RC > 0 {
		key += "+refund"
	}
	if e.CL != "exec" || len(e.FR) > 0 || e.OK == 0 || e.RC > 0 || e.T == 0 {
		keyMu.Lock()
		keys[key] = struct{}{}
		keyMu.Unlock()
	}
	res.Add("class_"+e.CL, 1)
	if e.CL != "exec" && e.PR != e.P0 {
		res.Add("raw_pool_deduction_left_by_ApplyTransaction", 1)
	}
}

// TestRecord writes TXE_SHARDS trace files TXE_TRACE.<k> with TXE_SCENARIOS scenarios in total.
func TestRecord(t *testing.T) {
	res := mbt.NewResult()
	defer res.Write()
	out := os.Getenv("TXE_TRACE")
	if out == "" {
		out = os.TempDir() + "/txexec-trace"
	}
	total := mbt.EnvInt("TXE_SCENARIOS", 40)
	shards := mbt.EnvInt("TXE_SHARDS", 1)
	first := mbt.EnvInt("TXE_FIRST", 0)
	seed := mbt.Seed()
	workers := runtime.NumCPU()
	if workers > 16 {
		workers = 16
	}
	results := make([][][]byte, total)
	dropped := map[string]int{}
	var dmu sync.Mutex
	var wg sync.WaitGroup
	jobs := make(chan int, total)
	for i := 0; i < total; i++ {
		jobs <- i
	}
	close(jobs)
	for w := 0; w < workers; w++ {
		wg.Add(1)
		go func() {
			defer wg.Done()
			chL, err := newChain(false)
			if err != nil {
				res.Mismatch("infra:chain", err.Error(), nil)
				return
			}
			defer chL.bc.Stop()
			chG, err := newChain(true)
			if err != nil {
				res.Mismatch("infra:chain", err.Error(), nil)
				return
			}
			defer chG.bc.Stop()
			for i := range jobs {
				id := first + i
				rng := rand.New(rand.NewSource(seed*1000003 + int64(id)))
				u := newUniverse()
				sc := &scenario{id: id, rng: rng, ch: chL, legacy: true, u: u, g: &gen{rng: rng, u: u}}
				if rng.Intn(2) == 0 {
					sc.ch, sc.legacy = chG, false
				}
				lines, why := sc.run(res)
				if lines == nil {
					if len(why) > 6 && why[:6] == "infra:" {
						res.Mismatch(why, "scenario could not be run", map[string]interface{}{"scenario": id})
					}
					dmu.Lock()
					dropped[why]++
					dmu.Unlock()
					continue
				}
				results[i] = lines
			}
		}()
	}
	wg.Wait()
	files := make([]*os.File, shards)
	for k := range files {
		f, err := os.Create(fmt.Sprintf("%s.%d", out, k))
		if err != nil {
			res.Mismatch("infra:trace-file", err.Error(), nil)
			return
		}
		defer f.Close()
		files[k] = f
	}
	n := 0
	for i, lines := range results {
		if lines == nil {
			continue
		}
		f := files[i%shards]
		for _, l := range lines {
			f.Write(l)
			f.Write([]byte{'\n'})
		}
		n++
		res.Behaviour()
		if n <= 2 && len(lines) > 1 {
			var s interface{}
			json.Unmarshal(lines[1], &s)
			res.Sample(s)
		}
	}
	res.Set("scenarios_recorded", n)
	res.Set("distinct_keys", keyList())
	for k, v := range dropped {
		res.Set("scenarios_dropped_"+k, v)
	}
}
