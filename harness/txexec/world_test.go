// Package txexec binds specs/txexec (TxExec.tla) to the real transaction execution path of
// go-kardia (property C09): blockchain.ApplyTransaction / StateTransition.TransitionDb, the real
// KVM (kvm.Call / create with snapshot + revert), types.GasPool and the block commit loop
// BlockOperations.commitBlock.
//
// world_test.go: the real objects (a BlockChain on a staking genesis, BlockOperations with a
// recording logger), the account universe of one scenario with the mapping address <-> slot of
// the specification, and the projection of a real StateDB onto the observables of the
// specification (balance, nonce, code id, storage id per slot + everything that happened to
// accounts OUTSIDE the universe, found by iterating the whole account trie).
package txexec

import (
	"crypto/ecdsa"
	"fmt"
	"math/big"
	"sync"
	"time"

	"github.com/kardiachain/go-kardia/configs"
	"github.com/kardiachain/go-kardia/kai/kaidb/memorydb"
	"github.com/kardiachain/go-kardia/kai/state"
	"github.com/kardiachain/go-kardia/lib/common"
	"github.com/kardiachain/go-kardia/lib/crypto"
	"github.com/kardiachain/go-kardia/lib/log"
	"github.com/kardiachain/go-kardia/mainchain/blockchain"
	"github.com/kardiachain/go-kardia/mainchain/genesis"
	"github.com/kardiachain/go-kardia/mainchain/staking"
	"github.com/kardiachain/go-kardia/types"
)

// ---------------------------------------------------------------- real chain

const chainID = "verif"

var (
	genesisOnce sync.Once
	stkOnce     sync.Once
	stkUtil     *staking.StakingSmcUtil
	stkErr      error
)

// the staking genesis harness/node uses (system contracts deployed, one rich account)
func mkGenesis() *genesis.Genesis {
	initValue, _ := big.NewInt(0).SetString("10000000000000000", 10)
	accts := map[string]*big.Int{"0xc1fe56E3F58D3244F606306611a5d10c8333f1f6": initValue}
	genesisOnce.Do(func() {
		configs.AddDefaultContract()
		for key, c := range configs.GetContracts() {
			configs.LoadGenesisContract(key, c.Address, c.ByteCode, c.ABI)
		}
	})
	gc := make(map[string]string)
	for key, c := range configs.GetContracts() {
		if key != configs.StakingContractKey {
			gc[c.Address] = c.ByteCode
		}
	}
	g := genesis.DefaulTestnetFullGenesisBlock(accts, gc)
	g.Timestamp = time.Unix(1700000000, 0)
	g.ChainID = chainID
	return g
}

// recLogger is handed to BlockOperations: commitBlock reports every skipped transaction through
// logger.Error("ApplyTransaction failed", "tx", hash, "nonce", n, "err", err); that is the only
// place where the reason of a skip inside the real commit loop is visible.
type recLogger struct {
	mu     sync.Mutex
	failed map[string]error // tx hash (hex) -> error of the skipped transaction
}

func (l *recLogger) New(ctx ...interface{}) log.Logger { return l }
func (l *recLogger) AddTag(tag string)                 {}
func (l *recLogger) GetHandler() log.Handler           { return log.DiscardHandler() }
func (l *recLogger) SetHandler(h log.Handler)          {}
func (l *recLogger) Trace(msg string, ctx ...interface{}) {}
func (l *recLogger) Debug(msg string, ctx ...interface{}) {}
func (l *recLogger) Info(msg string, ctx ...interface{})  {}
func (l *recLogger) Warn(msg string, ctx ...interface{})  {}
func (l *recLogger) Crit(msg string, ctx ...interface{})  {}
func (l *recLogger) Error(msg string, ctx ...interface{}) {
	if msg != "ApplyTransaction failed" {
		return
	}
	var h string
	var e error
	for i := 0; i+1 < len(ctx); i += 2 {
		switch ctx[i] {
		case "tx":
			h = fmt.Sprint(ctx[i+1])
		case "err":
			e, _ = ctx[i+1].(error)
		}
	}
	l.mu.Lock()
	l.failed[h] = e
	l.mu.Unlock()
}
func (l *recLogger) take() map[string]error {
	l.mu.Lock()
	defer l.mu.Unlock()
	f := l.failed
	l.failed = map[string]error{}
	return f
}

// chain = one real BlockChain (memorydb, staking genesis) + the BlockOperations on top of it.
type chain struct {
	bc  *blockchain.BlockChain
	bo  *blockchain.BlockOperations
	lg  *recLogger
	gen *genesis.Genesis
}

// newChain builds the chain; with galaxias the Galaxias rules (21000 intrinsic gas, v2 instruction
// set, chain-id signer) are active from block 0 on, otherwise never (the scenarios run at height 1:
// the staking contract's per-block bookkeeping in commitBlock needs consecutive heights).
func newChain(galaxias bool) (*chain, error) {
	g := mkGenesis()
	cfg := *configs.TestnetChainConfig
	cfg.GalaxiasBlock = nil
	if galaxias {
		zero := uint64(0)
		cfg.GalaxiasBlock = &zero
	}
	g.Config = &cfg
	bc, err := blockchain.NewBlockChain(memorydb.New(), nil, g)
	if err != nil {
		return nil, err
	}
	stkOnce.Do(func() { stkUtil, stkErr = staking.NewSmcStakingUtil() })
	if stkErr != nil {
		return nil, stkErr
	}
	lg := &recLogger{failed: map[string]error{}}
	bo := blockchain.NewBlockOperations(lg, bc, nil, nil, stkUtil)
	return &chain{bc: bc, bo: bo, lg: lg, gen: g}, nil
}

// ---------------------------------------------------------------- universe

// Slots of the specification (TxExec.tla: accounts are 1..NA).
const (
	NA      = 12
	idCB    = 1 // default proposer (coinbase), a plain account
	idS1    = 2 // senders: plain accounts with keys
	idS2    = 3
	idE     = 4 // plain account without key, often absent from the pre-state
	idC1    = 5 // contracts with grammar-generated code
	idC2    = 6
	idC3    = 7
	idPre   = 8 // the identity precompile 0x04 (a call target that is not code)
	idDyn   = 9 // 9..NA: addresses that appear during the scenario (created contracts)
	nSender = 2
)

type universe struct {
	addr   [NA + 1]common.Address
	known  [NA + 1]bool
	byAddr map[common.Address]int
	byHash map[common.Hash]int // keccak(address) -> slot (the account trie is keyed by hash)
	next   int
	over   bool // more new addresses than free slots: the scenario is dropped
	keys   map[int]*ecdsa.PrivateKey
	codes  map[common.Hash]int // code hash -> code id (0 = no code)
	roots  map[common.Hash]int // storage root -> storage id (0 = empty storage)
}

var (
	emptyRoot     = common.HexToHash("56e81f171bcc55a6ff8345e692c0f86e5b48e01b996cadc001622fb5e363b421")
	emptyCodeHash = crypto.Keccak256Hash(nil)
	fixedKeys     [nSender]*ecdsa.PrivateKey
	fixedOnce     sync.Once
)

func newUniverse() *universe {
	fixedOnce.Do(func() {
		for i := range fixedKeys {
			fixedKeys[i], _ = crypto.ToECDSA(crypto.Keccak256([]byte(fmt.Sprintf("txexec-sender-%d", i))))
		}
	})
	u := &universe{byAddr: map[common.Address]int{}, byHash: map[common.Hash]int{}, next: idDyn,
		keys: map[int]*ecdsa.PrivateKey{}, codes: map[common.Hash]int{}, roots: map[common.Hash]int{}}
	u.set(idCB, common.HexToAddress("0xcb00000000000000000000000000000000000001"))
	u.keys[idS1], u.keys[idS2] = fixedKeys[0], fixedKeys[1]
	u.set(idS1, crypto.PubkeyToAddress(fixedKeys[0].PublicKey))
	u.set(idS2, crypto.PubkeyToAddress(fixedKeys[1].PublicKey))
	u.set(idE, common.HexToAddress("0xee00000000000000000000000000000000000004"))
	u.set(idC1, common.HexToAddress("0xc100000000000000000000000000000000000005"))
	u.set(idC2, common.HexToAddress("0xc200000000000000000000000000000000000006"))
	u.set(idC3, common.HexToAddress("0xc300000000000000000000000000000000000007"))
	u.set(idPre, common.BytesToAddress([]byte{4}))
	return u
}

func (u *universe) set(id int, a common.Address) {
	u.addr[id], u.known[id] = a, true
	u.byAddr[a] = id
	u.byHash[crypto.Keccak256Hash(a.Bytes())] = id
}

// id returns the slot of an address, assigning the next free dynamic slot to a new one.
func (u *universe) id(a common.Address) int {
	if id, ok := u.byAddr[a]; ok {
		return id
	}
	if u.next > NA {
		u.over = true
		return NA
	}
	id := u.next
	u.next++
	u.set(id, a)
	return id
}

func (u *universe) codeID(h common.Hash) int {
	if h == emptyCodeHash || h == (common.Hash{}) {
		return 0
	}
	if id, ok := u.codes[h]; ok {
		return id
	}
	id := len(u.codes) + 1
	u.codes[h] = id
	return id
}

func (u *universe) rootID(h common.Hash) int {
	if h == emptyRoot || h == (common.Hash{}) {
		return 0
	}
	if id, ok := u.roots[h]; ok {
		return id
	}
	id := len(u.roots) + 1
	u.roots[h] = id
	return id
}

// ---------------------------------------------------------------- projection

// acct is one leaf of the account trie.
type acct struct {
	bal   *big.Int
	nonce uint64
	root  common.Hash
	code  common.Hash
}

// snap is the complete account trie of a state: every account, keyed by hashed address.
type snap map[common.Hash]acct

// takeSnap reads ALL accounts of st without disturbing it: the pending objects of a copy are
// flushed into the copy's trie (IntermediateRoot, empty accounts deleted as at the end of a
// block) and the trie is iterated.
func takeSnap(st *state.StateDB) (snap, error) {
	cp := st.Copy()
	cp.IntermediateRoot(true)
	s := snap{}
	err := cp.VerifEachAccount(func(h common.Hash, a types.StateAccount) {
		s[h] = acct{bal: new(big.Int).Set(a.Balance), nonce: a.Nonce, root: a.Root, code: common.BytesToHash(a.CodeHash)}
	})
	return s, err
}

// view is the projection of a snap onto the slots of the specification.
type view struct {
	B []int64 `json:"b"` // balance
	N []int64 `json:"n"` // nonce
	C []int   `json:"c"` // code id (0 = none)
	S []int   `json:"s"` // storage id (0 = empty)
	X []int   `json:"x"` // 1 = the account exists in the trie
}

const maxAmount = int64(1) << 30

// project returns the view of s.  A number that does not fit the specification's integers is
// clamped to 2^30: no run the specification can explain produces one (the universe holds less than
// 2^27 in total), so a clamped number always shows up as a difference, never as a dropped scenario.
func (u *universe) project(s snap) (view, bool) {
	v := view{B: make([]int64, NA), N: make([]int64, NA), C: make([]int, NA), S: make([]int, NA), X: make([]int, NA)}
	for h, a := range s {
		id, in := u.byHash[h]
		if !in {
			continue
		}
		bal := maxAmount
		if a.bal.IsInt64() && a.bal.Int64() < maxAmount && a.bal.Sign() >= 0 {
			bal = a.bal.Int64()
		}
		v.B[id-1], v.N[id-1], v.C[id-1], v.S[id-1], v.X[id-1] = bal, clampU(a.nonce), u.codeID(a.code), u.rootID(a.root), 1
	}
	return v, true
}

// outside compares the accounts that are NOT slots of the universe in two snaps: the sum of the
// absolute balance changes and the number of such accounts that changed in any field, appeared
// or disappeared.  Value that shows up in (or leaves) an unexpected account is seen here.
func (u *universe) outside(pre, post snap) (absDelta int64, changed int, who []string) {
	seen := map[common.Hash]bool{}
	one := func(h common.Hash) {
		if seen[h] {
			return
		}
		seen[h] = true
		if _, in := u.byHash[h]; in {
			return
		}
		a, okA := pre[h]
		b, okB := post[h]
		if okA != okB {
			changed++
			x := a.bal
			if okB {
				x = b.bal
			}
			absDelta += clampAbs(x)
			who = append(who, h.Hex())
			return
		}
		d := new(big.Int).Sub(b.bal, a.bal)
		if d.Sign() != 0 || a.nonce != b.nonce || a.root != b.root || a.code != b.code {
			changed++
			absDelta += clampAbs(d)
			who = append(who, h.Hex())
		}
	}
	for h := range pre {
		one(h)
	}
	for h := range post {
		one(h)
	}
	return
}

func clampAbs(x *big.Int) int64 {
	a := new(big.Int).Abs(x)
	if !a.IsInt64() || a.Int64() >= maxAmount {
		return maxAmount
	}
	return a.Int64()
}
