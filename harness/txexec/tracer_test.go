// tracer_test.go: a kvm.KVMLogger that records what the specification's Execute takes as the
// environment's choice: the sequence of frame events below the top-level frame (enter of
// CALL / CALLCODE / DELEGATECALL / STATICCALL / CREATE, SELFDESTRUCT, exit with success flag),
// the gas the top-level frame consumed and the refund counter when it ended.  Nothing is
// interpreted here: whether an event had an effect (reverted frames) is the specification's job.
//
// It also records every CALL-SITE: each executed call-family instruction (CALL, CALLCODE,
// DELEGATECALL, STATICCALL, CREATE, CREATE2) with the gas of the executing frame before the
// instruction, after it has been charged, and after it has completed, the operands that matter
// for gas (value zero / non-zero read as an UNSIGNED word, the gas operand), and -- if a frame was
// entered -- the gas handed to that frame and the gas it used.  The specification's FrameGasSound
// is evaluated on these records.
package txexec

import (
	"math/big"
	"time"

	"github.com/kardiachain/go-kardia/kvm"
	"github.com/kardiachain/go-kardia/lib/common"
	"github.com/kardiachain/go-kardia/lib/crypto"
)

// frame event as the trace carries it: [kind, from, to, value, flag]
//   enter: kind in call|ccode|dcall|scall|create, from/to = slots, value
//   sd:    from = the contract, to = beneficiary, value = the amount moved
//   exit:  flag 1 = frame ended without error; to = code id deployed (create frames)
type frameEv [5]interface{}

// call-site as the trace carries it:
//   [kind, vnz, req, gb, gc, cost, ga, entered, passed, used]
//   kind    call | ccode | dcall | scall | create
//   vnz     1 = the value operand is not zero (unsigned)
//   req     the gas operand (-1: does not fit 64 bits; clamped to 2^30)
//   gb      gas of the executing frame before the instruction
//   gc      ... after the instruction has been charged (constant + dynamic gas)
//   cost    the cost the interpreter reports for the instruction
//   ga      ... when the instruction has completed (gc + gas returned)
//   entered 1 = a frame was entered;  passed = gas handed to it;  used = gas it used
type siteEv [10]interface{}

type site struct {
	idx, depth             int
	kind                   string
	vnz                    int
	req                    int64
	gb, gc, cost, ga       uint64
	entered                int
	passed, used           uint64
	closed                 bool
}

// runaway is the panic value the tracer uses to abandon a run that executes more instructions than
// its gas can pay for.
type runaway struct{}

func clampU(x uint64) int64 {
	if x >= uint64(maxAmount) {
		return maxAmount
	}
	return int64(x)
}

type tracer struct {
	u       *universe
	env     *kvm.KVM
	evs     []frameEv
	kinds   []kvm.OpCode // open inner frames
	started bool
	ended   bool
	execGas uint64
	refund  uint64
	topErr  error
	topOut  []byte
	bad     string // something the driver cannot represent (amount too large)
	steps   uint64  // executed instructions
	stepCap uint64  // more instructions than this cannot be paid for by the transaction's gas: the run is cancelled
	cancel  bool
	sites   []*site // all call-sites in the order they were reached
	pending []*site // call-sites whose instruction has not completed yet (innermost last)
}

func (t *tracer) siteEvents() []siteEv {
	out := make([]siteEv, 0, len(t.sites))
	for _, s := range t.sites {
		if !s.closed {
			continue // the frame died before the next instruction (cannot happen after a call instruction)
		}
		out = append(out, siteEv{s.kind, s.vnz, s.req, clampU(s.gb), clampU(s.gc), clampU(s.cost), clampU(s.ga), s.entered,
			clampU(s.passed), clampU(s.used)})
	}
	return out
}

// step is called for every instruction (also for one that fails while being charged).
func (t *tracer) step(op kvm.OpCode, gas, cost uint64, scope *kvm.ScopeContext, depth int, err error) {
	t.steps++
	if t.stepCap > 0 && t.steps > t.stepCap {
		// every instruction that does not end its frame costs gas: this run executes more instructions
		// than its gas can pay for (gas is being created) and may never end.  kvm.Cancel is only looked
		// at every 1000 instructions of one frame, so the run is abandoned by a panic that the driver
		// recovers; the event carries the instruction count.
		t.cancel = true
		panic(runaway{})
	}
	// the previous call instruction of this frame has completed: `gas` is what the frame has now
	if n := len(t.pending); n > 0 && t.pending[n-1].depth == depth {
		s := t.pending[n-1]
		s.ga, s.closed = gas, true
		t.pending = t.pending[:n-1]
	}
	if err != nil || scope == nil {
		return
	}
	kind := ""
	switch op {
	case kvm.CALL:
		kind = "call"
	case kvm.CALLCODE:
		kind = "ccode"
	case kvm.DELEGATECALL:
		kind = "dcall"
	case kvm.STATICCALL:
		kind = "scall"
	case kvm.CREATE, kvm.CREATE2:
		kind = "create"
	default:
		return
	}
	s := &site{idx: len(t.sites), depth: depth, kind: kind, gb: gas, gc: scope.Contract.Gas, cost: cost}
	st := scope.Stack
	switch kind {
	case "call", "ccode":
		if !st.Back(2).IsZero() {
			s.vnz = 1
		}
	case "create":
		if !st.Back(0).IsZero() {
			s.vnz = 1
		}
	}
	if kind != "create" {
		if g := st.Back(0); !g.IsUint64() {
			s.req = -1
		} else {
			s.req = clampU(g.Uint64())
		}
	}
	t.sites = append(t.sites, s)
	t.pending = append(t.pending, s)
}


func (t *tracer) amount(v *big.Int) int64 {
	if v == nil {
		return 0
	}
	if !v.IsInt64() || v.Int64() >= maxAmount || v.Sign() < 0 {
		t.bad = "amount out of range"
		return 0
	}
	return v.Int64()
}

func (t *tracer) CaptureStart(env *kvm.KVM, from common.Address, to common.Address, create bool, input []byte, gas uint64, value *big.Int) {
	t.env, t.started = env, true
}

func (t *tracer) CaptureState(pc uint64, op kvm.OpCode, gas, cost uint64, scope *kvm.ScopeContext, rData []byte, depth int, err error) {
	t.step(op, gas, cost, scope, depth, err)
}

func (t *tracer) CaptureFault(pc uint64, op kvm.OpCode, gas, cost uint64, scope *kvm.ScopeContext, depth int, err error) {
}

func (t *tracer) CaptureEnter(typ kvm.OpCode, from common.Address, to common.Address, input []byte, gas uint64, value *big.Int) {
	k := ""
	switch typ {
	case kvm.CALL:
		k = "call"
	case kvm.CALLCODE:
		k = "ccode"
	case kvm.DELEGATECALL:
		k = "dcall"
	case kvm.STATICCALL:
		k = "scall"
	case kvm.CREATE, kvm.CREATE2:
		k = "create"
	case kvm.SELFDESTRUCT:
		k = "sd"
	default:
		t.bad = "unknown frame type " + typ.String()
	}
	t.kinds = append(t.kinds, typ)
	t.evs = append(t.evs, frameEv{k, t.u.id(from), t.u.id(to), t.amount(value), 0})
	if typ != kvm.SELFDESTRUCT {
		if n := len(t.pending); n > 0 && t.pending[n-1].entered == 0 {
			t.pending[n-1].entered, t.pending[n-1].passed = 1, gas
		} else {
			t.bad = "frame entered without a call-site"
		}
	}
}

func (t *tracer) CaptureExit(output []byte, gasUsed uint64, err error) {
	if len(t.kinds) == 0 {
		t.bad = "exit without enter"
		return
	}
	typ := t.kinds[len(t.kinds)-1]
	t.kinds = t.kinds[:len(t.kinds)-1]
	if typ == kvm.SELFDESTRUCT {
		return // SELFDESTRUCT is reported as enter+exit: one event
	}
	if n := len(t.pending); n > 0 && t.pending[n-1].entered == 1 {
		t.pending[n-1].used = gasUsed
	}
	ok, code := 0, 0
	if err == nil {
		ok = 1
		if (typ == kvm.CREATE || typ == kvm.CREATE2) && len(output) > 0 {
			code = t.u.codeID(crypto.Keccak256Hash(output))
		}
	}
	t.evs = append(t.evs, frameEv{"exit", 0, code, 0, ok})
}

func (t *tracer) CaptureEnd(output []byte, gasUsed uint64, d time.Duration, err error) {
	t.ended, t.execGas, t.topErr = true, gasUsed, err
	t.topOut = append([]byte(nil), output...)
	if t.env != nil {
		t.refund = t.env.StateDB.GetRefund()
	}
}
