// tracer_test.go: a kvm.KVMLogger that records what the specification's Execute takes as the
// environment's choice: the sequence of frame events below the top-level frame (enter of
// CALL / CALLCODE / DELEGATECALL / STATICCALL / CREATE, SELFDESTRUCT, exit with success flag),
// the gas the top-level frame consumed and the refund counter when it ended.  Nothing is
// interpreted here: whether an event had an effect (reverted frames) is the specification's job.
package txexec

import (
	"math/big"
	"time"

	"github.com/kardiachain/go-kardia/kvm"
	"github.com/kardiachain/go-kardia/lib/common"
	"github.com/kardiachain/go-kardia/lib/crypto"
)

// frame event as the trace carries it: [kind, from, to, value, flag]
//   enter: kind in call|ccode|dcall|scall|create, from/to = slots, value
//   sd:    from = the contract, to = beneficiary, value = the amount moved
//   exit:  flag 1 = frame ended without error; to = code id deployed (create frames)
type frameEv [5]interface{}

type tracer struct {
	u       *universe
	env     *kvm.KVM
	evs     []frameEv
	kinds   []kvm.OpCode // open inner frames
	started bool
	ended   bool
	execGas uint64
	refund  uint64
	topErr  error
	topOut  []byte
	bad     string // something the driver cannot represent (amount too large)
}

func (t *tracer) amount(v *big.Int) int64 {
	if v == nil {
		return 0
	}
	if !v.IsInt64() || v.Int64() >= maxAmount || v.Sign() < 0 {
		t.bad = "amount out of range"
		return 0
	}
	return v.Int64()
}

func (t *tracer) CaptureStart(env *kvm.KVM, from common.Address, to common.Address, create bool, input []byte, gas uint64, value *big.Int) {
	t.env, t.started = env, true
}

func (t *tracer) CaptureState(pc uint64, op kvm.OpCode, gas, cost uint64, scope *kvm.ScopeContext, rData []byte, depth int, err error) {
}

func (t *tracer) CaptureFault(pc uint64, op kvm.OpCode, gas, cost uint64, scope *kvm.ScopeContext, depth int, err error) {
}

func (t *tracer) CaptureEnter(typ kvm.OpCode, from common.Address, to common.Address, input []byte, gas uint64, value *big.Int) {
	k := ""
	switch typ {
	case kvm.CALL:
		k = "call"
	case kvm.CALLCODE:
		k = "ccode"
	case kvm.DELEGATECALL:
		k = "dcall"
	case kvm.STATICCALL:
		k = "scall"
	case kvm.CREATE, kvm.CREATE2:
		k = "create"
	case kvm.SELFDESTRUCT:
		k = "sd"
	default:
		t.bad = "unknown frame type " + typ.String()
	}
	t.kinds = append(t.kinds, typ)
	t.evs = append(t.evs, frameEv{k, t.u.id(from), t.u.id(to), t.amount(value), 0})
}

func (t *tracer) CaptureExit(output []byte, gasUsed uint64, err error) {
	if len(t.kinds) == 0 {
		t.bad = "exit without enter"
		return
	}
	typ := t.kinds[len(t.kinds)-1]
	t.kinds = t.kinds[:len(t.kinds)-1]
	if typ == kvm.SELFDESTRUCT {
		return // SELFDESTRUCT is reported as enter+exit: one event
	}
	ok, code := 0, 0
	if err == nil {
		ok = 1
		if (typ == kvm.CREATE || typ == kvm.CREATE2) && len(output) > 0 {
			code = t.u.codeID(crypto.Keccak256Hash(output))
		}
	}
	t.evs = append(t.evs, frameEv{"exit", 0, code, 0, ok})
}

func (t *tracer) CaptureEnd(output []byte, gasUsed uint64, d time.Duration, err error) {
	t.ended, t.execGas, t.topErr = true, gasUsed, err
	t.topOut = append([]byte(nil), output...)
	if t.env != nil {
		t.refund = t.env.StateDB.GetRefund()
	}
}
