// asm_test.go: a tiny assembler and the program grammar.  Programs are sequences of statements
// over the scenario's universe: value-bearing CALLs (and CALLCODE / DELEGATECALL / STATICCALL) to
// plain accounts, to the other contracts (mutual recursion, bounded by gas), to a precompile;
// CREATE with small init programs; SSTORE set / clear (gas refund); bounded loops (2..64
// iterations, JUMPI back-edge on a counter) around call-family statements, so that per-iteration
// gas effects accumulate; and one terminator: STOP, RETURN, REVERT, INVALID, an endless loop (out
// of gas) or SELFDESTRUCT to another account / to the own address.
// Value operands of CALL / CALLCODE / CREATE come from small amounts and from the boundary pool
// {0, 1, balance, balance+1, 2^64-1, 2^64, 2^255-1, 2^255, 2^256-1} (transfers that fail with
// "insufficient balance" inside frames, with huge values); gas operands from small constants, GAS
// and {2^64-1, 2^64, 2^64+k, 2^255, 2^256-1}.
package txexec

import (
	"math/big"
	"math/rand"

	"github.com/kardiachain/go-kardia/lib/common"
)

const (
	opSTOP         = 0x00
	opADD          = 0x01
	opSUB          = 0x03
	opADDRESS      = 0x30
	opBALANCE      = 0x31
	opJUMPI        = 0x57
	opDUP1         = 0x80
	opSWAP1        = 0x90
	opPOP          = 0x50
	opMSTORE       = 0x52
	opSSTORE       = 0x55
	opJUMP         = 0x56
	opGAS          = 0x5a
	opJUMPDEST     = 0x5b
	opPUSH1        = 0x60
	opPUSH20       = 0x73
	opPUSH32       = 0x7f
	opCREATE       = 0xf0
	opCALL         = 0xf1
	opCALLCODE     = 0xf2
	opRETURN       = 0xf3
	opDELEGATECALL = 0xf4
	opSTATICCALL   = 0xfa
	opREVERT       = 0xfd
	opINVALID      = 0xfe
	opSELFDESTRUCT = 0xff
)

type asm struct{ b []byte }

func (a *asm) op(o ...byte) *asm { a.b = append(a.b, o...); return a }

// push the smallest PUSHn for v
func (a *asm) push(v uint64) *asm {
	var tmp []byte
	for x := v; x > 0; x >>= 8 {
		tmp = append([]byte{byte(x)}, tmp...)
	}
	if len(tmp) == 0 {
		tmp = []byte{0}
	}
	a.b = append(a.b, byte(opPUSH1+len(tmp)-1))
	a.b = append(a.b, tmp...)
	return a
}

// pushBig pushes an arbitrary 256-bit constant
func (a *asm) pushBig(v *big.Int) *asm {
	b := v.Bytes()
	if len(b) == 0 {
		b = []byte{0}
	}
	a.b = append(a.b, byte(opPUSH1+len(b)-1))
	a.b = append(a.b, b...)
	return a
}

// operand of a statement: a small constant, a 256-bit constant, the own balance (+1), or GAS
type operand struct {
	small uint64
	big   *big.Int
	kind  int // 0 small, 1 big, 2 balance, 3 balance+1, 4 GAS
}

func (a *asm) pushOperand(o operand) *asm {
	switch o.kind {
	case 1:
		return a.pushBig(o.big)
	case 2:
		return a.op(opADDRESS, opBALANCE)
	case 3:
		return a.push(1).op(opADDRESS, opBALANCE, opADD)
	case 4:
		return a.op(opGAS)
	}
	return a.push(o.small)
}

func pow2(n uint, d int64) *big.Int {
	return new(big.Int).Add(new(big.Int).Lsh(big.NewInt(1), n), big.NewInt(d))
}

func (a *asm) pushAddr(x common.Address) *asm {
	a.b = append(a.b, opPUSH20)
	a.b = append(a.b, x.Bytes()...)
	return a
}

// mstoreBytes writes data to memory[0:len(data)]
func (a *asm) mstoreBytes(data []byte) *asm {
	for off := 0; off < len(data); off += 32 {
		var w [32]byte
		copy(w[:], data[off:])
		a.b = append(a.b, opPUSH32)
		a.b = append(a.b, w[:]...)
		a.push(uint64(off)).op(opMSTORE)
	}
	return a
}

// call-like statement: result popped
func (a *asm) call(op byte, to common.Address, value uint64, gas int) *asm {
	g := operand{small: uint64(gas)}
	if gas < 0 {
		g = operand{kind: 4}
	}
	return a.callOp(op, to, operand{small: value}, g)
}

func (a *asm) callOp(op byte, to common.Address, value, gas operand) *asm {
	a.push(0).push(0).push(0).push(0) // retSize retOff argSize argOff
	if op == opCALL || op == opCALLCODE {
		a.pushOperand(value)
	}
	a.pushAddr(to)
	a.pushOperand(gas)
	return a.op(op, opPOP)
}

func (a *asm) create(value operand, init []byte) *asm {
	a.mstoreBytes(init)
	return a.push(uint64(len(init))).push(0).pushOperand(value).op(opCREATE, opPOP)
}

// loop wraps body (stack-neutral) in a counted loop of n iterations
func (a *asm) loop(n int, body func()) *asm {
	a.push(uint64(n))
	top := len(a.b)
	a.op(opJUMPDEST)
	body()
	a.push(1).op(opSWAP1, opSUB, opDUP1) // counter-1, copy for the test
	a.b = append(a.b, opPUSH1+1, byte(top>>8), byte(top)) // PUSH2 top
	return a.op(opJUMPI, opPOP)
}

func (a *asm) sstore(slot, val uint64) *asm { return a.push(val).push(slot).op(opSSTORE) }

// returnCode ends a program by returning `code` (used by init programs to deploy code)
func (a *asm) returnCode(code []byte) *asm {
	a.mstoreBytes(code)
	return a.push(uint64(len(code))).push(0).op(opRETURN)
}

// gen generates programs for one scenario.
type gen struct {
	rng  *rand.Rand
	u    *universe
	self int             // slot of the contract the program is for (0: init code of a created contract)
	last *common.Address // target of the last call statement of the program being generated
}

func (g *gen) amount() uint64 {
	switch g.rng.Intn(6) {
	case 0:
		return 0
	case 1:
		return 1
	case 2:
		return uint64(2 + g.rng.Intn(9))
	case 3:
		return uint64(100 + g.rng.Intn(900))
	default:
		return uint64(1 + g.rng.Intn(60))
	}
}

// value operand: mostly small amounts, one time in four from the boundary pool
func (g *gen) value() operand {
	if g.rng.Intn(4) > 0 {
		return operand{small: g.amount()}
	}
	switch g.rng.Intn(9) {
	case 0:
		return operand{small: 0}
	case 1:
		return operand{small: 1}
	case 2:
		return operand{kind: 2} // the whole balance
	case 3:
		return operand{kind: 3} // one more than the balance
	case 4:
		return operand{kind: 1, big: pow2(64, -1)}
	case 5:
		return operand{kind: 1, big: pow2(64, 0)}
	case 6:
		return operand{kind: 1, big: pow2(255, -1)}
	case 7:
		return operand{kind: 1, big: pow2(255, 0)}
	default:
		return operand{kind: 1, big: pow2(256, -1)}
	}
}

// gas operand of a call
func (g *gen) gasOperand() operand {
	if g.rng.Intn(8) > 0 {
		c := g.callGas()
		if c < 0 {
			return operand{kind: 4}
		}
		return operand{small: uint64(c)}
	}
	switch g.rng.Intn(6) {
	case 0:
		return operand{kind: 1, big: pow2(64, -1)}
	case 1:
		return operand{kind: 1, big: pow2(64, 0)}
	case 2:
		return operand{kind: 1, big: pow2(64, int64(1+g.rng.Intn(5000)))}
	case 3:
		return operand{kind: 1, big: pow2(255, 0)}
	case 4:
		return operand{kind: 1, big: pow2(32, int64(g.rng.Intn(3))-1)}
	default:
		return operand{kind: 1, big: pow2(256, -1)}
	}
}

func (g *gen) target() common.Address {
	t := g.target1()
	g.last = &t
	return t
}

func (g *gen) target1() common.Address {
	// every fixed slot of the universe, contracts more often; sometimes the contract itself
	switch r := g.rng.Intn(12); {
	case r < 6:
		return g.u.addr[idC1+g.rng.Intn(3)]
	case r < 8:
		return g.u.addr[idE]
	case r == 8:
		return g.u.addr[idCB]
	case r == 9:
		return g.u.addr[idS1+g.rng.Intn(2)]
	case r == 10:
		return g.u.addr[idPre]
	default:
		if g.self != 0 {
			return g.u.addr[g.self]
		}
		return g.u.addr[idC1]
	}
}

func (g *gen) callGas() int {
	switch g.rng.Intn(10) {
	case 0:
		return 0 // only the stipend of a value-bearing call
	case 1:
		return 2300
	case 2:
		return 100 + g.rng.Intn(3000)
	case 3, 4, 5:
		return 20000 + g.rng.Intn(60000)
	default:
		return -1 // GAS: everything that is left
	}
}

// terminator appends the final statement of a program.
func (g *gen) terminator(a *asm, allowReturnCode bool) {
	switch r := g.rng.Intn(24); {
	case r < 9:
		a.op(opSTOP)
	case r < 12:
		a.push(0).push(0).op(opRETURN)
	case r < 14:
		a.push(0).push(0).op(opREVERT)
	case r < 16:
		a.op(opINVALID)
	case r == 16:
		pc := len(a.b)
		a.op(opJUMPDEST).push(uint64(pc)).op(opJUMP) // endless loop: out of gas
	case r < 19:
		a.pushAddr(g.target1()).op(opSELFDESTRUCT)
	case r < 21:
		// to the account called last: if that one destructed itself meanwhile the value is lost with it
		if g.last != nil {
			a.pushAddr(*g.last).op(opSELFDESTRUCT)
		} else {
			a.pushAddr(g.target1()).op(opSELFDESTRUCT)
		}
	case r < 23:
		if g.self != 0 {
			a.pushAddr(g.u.addr[g.self]).op(opSELFDESTRUCT) // to the own address
		} else {
			a.op(opSTOP)
		}
	default:
		a.op(opSTOP)
	}
}

// initCode: a small init program; depth limits nesting of CREATE inside init code.
func (g *gen) initCode(depth int) []byte {
	a := &asm{}
	sub := &gen{rng: g.rng, u: g.u, self: 0}
	n := g.rng.Intn(3)
	for i := 0; i < n; i++ {
		sub.statement(a, depth+1)
	}
	switch r := g.rng.Intn(10); {
	case r < 4: // deploy a runtime program
		rt := &asm{}
		m := g.rng.Intn(3)
		for i := 0; i < m; i++ {
			sub.statement(rt, 2) // no CREATE inside deployed code (keeps programs short)
		}
		sub.terminator(rt, false)
		a.returnCode(rt.b)
	case r < 6:
		a.op(opSTOP) // account with empty code
	default:
		sub.terminator(a, false)
	}
	return a.b
}

// callStatement: one call-family instruction
func (g *gen) callStatement(a *asm) {
	switch r := g.rng.Intn(11); {
	case r < 6:
		a.callOp(opCALL, g.target(), g.value(), g.gasOperand())
	case r < 9:
		a.callOp(opCALLCODE, g.target(), g.value(), g.gasOperand())
	case r < 10:
		a.callOp(opDELEGATECALL, g.target(), operand{}, g.gasOperand())
	default:
		a.callOp(opSTATICCALL, g.target(), operand{}, g.gasOperand())
	}
}

func (g *gen) iterations() int {
	switch g.rng.Intn(4) {
	case 0:
		return 2 + g.rng.Intn(3)
	case 1:
		return 5 + g.rng.Intn(12)
	case 2:
		return 17 + g.rng.Intn(24)
	default:
		return 41 + g.rng.Intn(24) // .. 64
	}
}

func (g *gen) statement(a *asm, depth int) {
	switch r := g.rng.Intn(22); {
	case r < 8:
		a.callOp(opCALL, g.target(), g.value(), g.gasOperand())
	case r < 9:
		a.callOp(opCALLCODE, g.target(), g.value(), g.gasOperand())
	case r < 10:
		a.callOp(opDELEGATECALL, g.target(), operand{}, g.gasOperand())
	case r < 11:
		a.callOp(opSTATICCALL, g.target(), operand{}, g.gasOperand())
	case r < 13:
		// a bounded loop around one or two call-family instructions
		a.loop(g.iterations(), func() {
			g.callStatement(a)
			if g.rng.Intn(3) == 0 {
				g.callStatement(a)
			}
		})
	case r < 16:
		if depth < 2 {
			a.create(g.value(), g.initCode(depth))
		} else {
			a.sstore(uint64(g.rng.Intn(3)), uint64(g.rng.Intn(2)))
		}
	default:
		a.sstore(uint64(g.rng.Intn(3)), uint64(g.rng.Intn(2)*(1+g.rng.Intn(5)))) // set or clear
	}
}

// program: code of contract slot `self`
func (g *gen) program() []byte {
	a := &asm{}
	g.last = nil
	n := g.rng.Intn(7)
	for i := 0; i < n; i++ {
		g.statement(a, 0)
	}
	g.terminator(a, false)
	return a.b
}
