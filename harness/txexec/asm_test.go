// asm_test.go: a tiny assembler and the program grammar.  Programs are straight-line sequences
// of statements over the scenario's universe: value-bearing CALLs (and CALLCODE / DELEGATECALL /
// STATICCALL) to plain accounts, to the other contracts (mutual recursion, bounded by gas), to a
// precompile; CREATE with small init programs; SSTORE set / clear (gas refund); and one
// terminator: STOP, RETURN, REVERT, INVALID, an endless loop (out of gas) or SELFDESTRUCT to
// another account / to the own address.
package txexec

import (
	"math/rand"

	"github.com/kardiachain/go-kardia/lib/common"
)

const (
	opSTOP         = 0x00
	opPOP          = 0x50
	opMSTORE       = 0x52
	opSSTORE       = 0x55
	opJUMP         = 0x56
	opGAS          = 0x5a
	opJUMPDEST     = 0x5b
	opPUSH1        = 0x60
	opPUSH20       = 0x73
	opPUSH32       = 0x7f
	opCREATE       = 0xf0
	opCALL         = 0xf1
	opCALLCODE     = 0xf2
	opRETURN       = 0xf3
	opDELEGATECALL = 0xf4
	opSTATICCALL   = 0xfa
	opREVERT       = 0xfd
	opINVALID      = 0xfe
	opSELFDESTRUCT = 0xff
)

type asm struct{ b []byte }

func (a *asm) op(o ...byte) *asm { a.b = append(a.b, o...); return a }

// push the smallest PUSHn for v
func (a *asm) push(v uint64) *asm {
	var tmp []byte
	for x := v; x > 0; x >>= 8 {
		tmp = append([]byte{byte(x)}, tmp...)
	}
	if len(tmp) == 0 {
		tmp = []byte{0}
	}
	a.b = append(a.b, byte(opPUSH1+len(tmp)-1))
	a.b = append(a.b, tmp...)
	return a
}

func (a *asm) pushAddr(x common.Address) *asm {
	a.b = append(a.b, opPUSH20)
	a.b = append(a.b, x.Bytes()...)
	return a
}

// mstoreBytes writes data to memory[0:len(data)]
func (a *asm) mstoreBytes(data []byte) *asm {
	for off := 0; off < len(data); off += 32 {
		var w [32]byte
		copy(w[:], data[off:])
		a.b = append(a.b, opPUSH32)
		a.b = append(a.b, w[:]...)
		a.push(uint64(off)).op(opMSTORE)
	}
	return a
}

// call-like statement: result popped
func (a *asm) call(op byte, to common.Address, value uint64, gas int) *asm {
	a.push(0).push(0).push(0).push(0) // retSize retOff argSize argOff
	if op == opCALL || op == opCALLCODE {
		a.push(value)
	}
	a.pushAddr(to)
	if gas < 0 {
		a.op(opGAS)
	} else {
		a.push(uint64(gas))
	}
	return a.op(op, opPOP)
}

func (a *asm) create(value uint64, init []byte) *asm {
	a.mstoreBytes(init)
	return a.push(uint64(len(init))).push(0).push(value).op(opCREATE, opPOP)
}

func (a *asm) sstore(slot, val uint64) *asm { return a.push(val).push(slot).op(opSSTORE) }

// returnCode ends a program by returning `code` (used by init programs to deploy code)
func (a *asm) returnCode(code []byte) *asm {
	a.mstoreBytes(code)
	return a.push(uint64(len(code))).push(0).op(opRETURN)
}

// gen generates programs for one scenario.
type gen struct {
	rng  *rand.Rand
	u    *universe
	self int             // slot of the contract the program is for (0: init code of a created contract)
	last *common.Address // target of the last call statement of the program being generated
}

func (g *gen) amount() uint64 {
	switch g.rng.Intn(6) {
	case 0:
		return 0
	case 1:
		return 1
	case 2:
		return uint64(2 + g.rng.Intn(9))
	case 3:
		return uint64(100 + g.rng.Intn(900))
	default:
		return uint64(1 + g.rng.Intn(60))
	}
}

func (g *gen) target() common.Address {
	t := g.target1()
	g.last = &t
	return t
}

func (g *gen) target1() common.Address {
	// every fixed slot of the universe, contracts more often; sometimes the contract itself
	switch r := g.rng.Intn(12); {
	case r < 6:
		return g.u.addr[idC1+g.rng.Intn(3)]
	case r < 8:
		return g.u.addr[idE]
	case r == 8:
		return g.u.addr[idCB]
	case r == 9:
		return g.u.addr[idS1+g.rng.Intn(2)]
	case r == 10:
		return g.u.addr[idPre]
	default:
		if g.self != 0 {
			return g.u.addr[g.self]
		}
		return g.u.addr[idC1]
	}
}

func (g *gen) callGas() int {
	switch g.rng.Intn(10) {
	case 0:
		return 0 // only the stipend of a value-bearing call
	case 1:
		return 2300
	case 2:
		return 100 + g.rng.Intn(3000)
	case 3, 4, 5:
		return 20000 + g.rng.Intn(60000)
	default:
		return -1 // GAS: everything that is left
	}
}

// terminator appends the final statement of a program.
func (g *gen) terminator(a *asm, allowReturnCode bool) {
	switch r := g.rng.Intn(24); {
	case r < 9:
		a.op(opSTOP)
	case r < 12:
		a.push(0).push(0).op(opRETURN)
	case r < 14:
		a.push(0).push(0).op(opREVERT)
	case r < 16:
		a.op(opINVALID)
	case r == 16:
		pc := len(a.b)
		a.op(opJUMPDEST).push(uint64(pc)).op(opJUMP) // endless loop: out of gas
	case r < 19:
		a.pushAddr(g.target1()).op(opSELFDESTRUCT)
	case r < 21:
		// to the account called last: if that one destructed itself meanwhile the value is lost with it
		if g.last != nil {
			a.pushAddr(*g.last).op(opSELFDESTRUCT)
		} else {
			a.pushAddr(g.target1()).op(opSELFDESTRUCT)
		}
	case r < 23:
		if g.self != 0 {
			a.pushAddr(g.u.addr[g.self]).op(opSELFDESTRUCT) // to the own address
		} else {
			a.op(opSTOP)
		}
	default:
		a.op(opSTOP)
	}
}

// initCode: a small init program; depth limits nesting of CREATE inside init code.
func (g *gen) initCode(depth int) []byte {
	a := &asm{}
	sub := &gen{rng: g.rng, u: g.u, self: 0}
	n := g.rng.Intn(3)
	for i := 0; i < n; i++ {
		sub.statement(a, depth+1)
	}
	switch r := g.rng.Intn(10); {
	case r < 4: // deploy a runtime program
		rt := &asm{}
		m := g.rng.Intn(3)
		for i := 0; i < m; i++ {
			sub.statement(rt, 2) // no CREATE inside deployed code (keeps programs short)
		}
		sub.terminator(rt, false)
		a.returnCode(rt.b)
	case r < 6:
		a.op(opSTOP) // account with empty code
	default:
		sub.terminator(a, false)
	}
	return a.b
}

func (g *gen) statement(a *asm, depth int) {
	switch r := g.rng.Intn(20); {
	case r < 8:
		a.call(opCALL, g.target(), g.amount(), g.callGas())
	case r < 9:
		a.call(opCALLCODE, g.target(), g.amount(), g.callGas())
	case r < 10:
		a.call(opDELEGATECALL, g.target(), 0, g.callGas())
	case r < 11:
		a.call(opSTATICCALL, g.target(), 0, g.callGas())
	case r < 14:
		if depth < 2 {
			a.create(g.amount(), g.initCode(depth))
		} else {
			a.sstore(uint64(g.rng.Intn(3)), uint64(g.rng.Intn(2)))
		}
	default:
		a.sstore(uint64(g.rng.Intn(3)), uint64(g.rng.Intn(2)*(1+g.rng.Intn(5)))) // set or clear
	}
}

// program: code of contract slot `self`
func (g *gen) program() []byte {
	a := &asm{}
	g.last = nil
	n := g.rng.Intn(7)
	for i := 0; i < n; i++ {
		g.statement(a, 0)
	}
	g.terminator(a, false)
	return a.b
}
