"""C10 — KVM executes bytecode with reference EVM semantics and never crashes (family `kvm`).

specs/kvm: KVMWords.tla (256-bit words as byte sequences, symbolic address bytes), KVMFrames.tla (small-step
interpreter transcribed from kvm/interpreter.go, instructions.go, instruction_set.go, contract.go, memory.go,
kvm.go), KVMAsm.tla (statement grammar, assembler, library contracts, projection), MC_KVM.tla (a TLC state is
one program; exhaustive enumeration / simulation; invariants on the specified final state; one dump line per
program), MC_KVMSteps.tla (one TLC state per machine configuration: directed 1024-limit executions), KVMTrace.tla
(per-instruction validation of recorded real executions), KVMArith.tla (certificate checking: the defining laws of
MUL/DIV/MOD/SDIV/SMOD/ADDMOD/MULMOD/EXP and the other ALU instructions on recorded full 256-bit results).
harness/kvm: TestReplay (every dump line in the real kvm.KVM, both instruction sets, twice), TestTour (the
specification's instruction table against the real jump tables for all 256 byte values), TestRandom (seeded
random byte strings for the never-crashes clauses; the specification contributes the outcome domain), TestRecord
(traces for KVMTrace), TestArith (operands / results / untrusted witnesses for KVMArith)."""
import os
from vlib import Infra

OP = dict(STOP=0, ADD=1, MUL=2, SUB=3, DIV=4, SDIV=5, MOD=6, SMOD=7, ADDMOD=8, MULMOD=9, EXP=10, SIGNEXTEND=11,
          LT=16, GT=17, SLT=18, SGT=19, EQ=20, ISZERO=21, AND=22, OR=23, XOR=24, NOT=25, BYTE=26, SHL=27, SHR=28, SAR=29, SHA3=32,
          ADDRESS=48, BALANCE=49, ORIGIN=50, CALLER=51, CALLVALUE=52, CALLDATALOAD=53, CALLDATASIZE=54, CALLDATACOPY=55,
          CODESIZE=56, CODECOPY=57, GASPRICE=58, EXTCODESIZE=59, EXTCODECOPY=60, RETURNDATASIZE=61, RETURNDATACOPY=62, EXTCODEHASH=63,
          BLOCKHASH=64, COINBASE=65, TIMESTAMP=66, NUMBER=67, GASLIMIT=68, UNDEF45=69, CHAINID=70, SELFBALANCE=71,
          POP=80, MLOAD=81, MSTORE=82, MSTORE8=83, SLOAD=84, SSTORE=85, JUMP=86, JUMPI=87, PC=88, MSIZE=89, JUMPDEST=91,
          DUP1=128, DUP2=129, SWAP1=144, SWAP2=145, LOG0=160, LOG1=161, LOG2=162,
          CREATE=240, CALL=241, CALLCODE=242, RETURN=243, DELEGATECALL=244, CREATE2=245, STATICCALL=250, REVERT=253, INVALID=254,
          SELFDESTRUCT=255)
A, B, C = 161, 162, 163
ALLGAS = -2


def tup(xs):
    return "<<" + ", ".join(str(x) for x in xs) + ">>"


def X(op, *args):
    """push args (first one ends on top) then opcode; op may be a name, a byte or -1 (pushes only)."""
    return '<<"x", %d, %s>>' % (OP[op] if isinstance(op, str) else op, tup(args))


def J(kind, k):
    return '<<"%s", %d, <<>>>>' % (kind, k)


def RAW(*bs):
    return '<<"raw", 0, %s>>' % tup(bs)


def CALLS(op, to, val=0, insz=0, outsz=0, inoff=0, outoff=32):
    if op in ("CALL", "CALLCODE"):
        return X(op, ALLGAS, to, val, inoff, insz, outoff, outsz)
    return X(op, ALLGAS, to, inoff, insz, outoff, outsz)


# CALL the address on top of the stack (a created contract): PUSH1 0 x5, DUP6, PUSH8 ff.., CALL
CALLTOP = RAW(96, 0, 96, 0, 96, 0, 96, 0, 96, 0, 133, 103, 255, 255, 255, 255, 255, 255, 255, 255, 241)
INITCODE = [96, 7, 96, 0, 85, 97, 91, 0, 96, 0, 82, 96, 2, 96, 30, 243]
PUTINIT = [RAW(*([111] + INITCODE)), X("MSTORE", 0)]     # init code in memory [16, 32)
# init code that reverts with data / fails
PUTINIT_REV = [RAW(*([111] + [96, 7, 96, 0, 85, 96, 1, 96, 0, 253] + [0] * 6)), X("MSTORE", 0)]


def env(b=0, c=0, cd=1, v=0, pre=0, mode=0):
    return tup([b, c, cd, v, pre, mode])


ALU2 = ["ADD", "SUB", "MUL", "DIV", "MOD", "SDIV", "SMOD", "LT", "GT", "SLT", "SGT", "EQ", "AND", "OR", "XOR", "BYTE",
        "SHL", "SHR", "SAR", "SIGNEXTEND", "EXP"]
ALU1 = ["ISZERO", "NOT"]
RET_TOP = [X("MSTORE", 0), X("RETURN", 0, 32)]            # return the top of the stack
RET_MEM = [X("MSIZE"), X("RETURN", 0)]                    # return the whole memory
OBS_CALLS = [X("RETURNDATASIZE"), X("SSTORE", 9), X("RETURN", 0, 96)]
# B / C pairs: library programs that call C get every interesting C
PLAIN_B = [1, 2, 3, 4, 5, 6, 7, 10, 11, 13, 15]
NEST_B = [8, 9, 12, 14]
NEST_C = [1, 2, 3, 4, 5, 6, 7]


def frame_envs(th, **kw):
    es = [env(b=b, pre=1, **kw) for b in PLAIN_B] + [env(b=0, pre=1, **kw)]
    for b in NEST_B:
        for c in (NEST_C if th else [1, 2, 4, 6, 7]):
            es.append(env(b=b, c=c, pre=1, **kw))
    return es


def vectors(th):
    """name -> dict(alpha, maxlen, prefix, suffix, envs, gal, sim=(num, depth) or None, stride)"""
    V = []
    # ---- stack + arithmetic/comparison/bitwise on constants incl. 2^256-1 (wrap-around), result returned
    pushes = [X(-1, 0), X(-1, 1), X(-1, 2), X(-1, 255), X(-1, -1)]
    V.append(dict(name="alu", alpha=pushes + [X(o) for o in ALU2 + ALU1] + [X("POP"), X("DUP1"), X("DUP2"), X("SWAP1")],
                  maxlen=3, suffix=RET_TOP, envs=[env()]))
    if th:   # four instructions over a thinned alphabet (one representative per family of instructions)
        V.append(dict(name="alu4", alpha=[X(-1, 0), X(-1, 1), X(-1, 255), X(-1, -1)] +
                      [X(o) for o in ("ADD", "SUB", "MUL", "DIV", "SMOD", "LT", "SLT", "EQ", "AND", "XOR", "BYTE", "SHL", "SAR",
                                      "SIGNEXTEND", "EXP", "ISZERO", "NOT")] + [X("DUP1"), X("SWAP1")],
                      maxlen=4, suffix=RET_TOP, envs=[env()]))
    V.append(dict(name="alu3", alpha=[X(-1, 0), X(-1, 3), X(-1, 200)] + [X(o) for o in ALU2 + ALU1 + ["ADDMOD", "MULMOD"]] +
                  [X("DUP2"), X("SWAP2")], maxlen=3 if th else 2, prefix=[X(-1, 7), X(-1, 5), X(-1, 3)], suffix=RET_TOP,
                  envs=[env()]))
    # ---- memory, call data, code, logs: whole memory returned
    mem = [X(-1, 0), X(-1, 1), X(-1, 31), X(-1, 33), X("MLOAD"), X("MSTORE"), X("MSTORE8"), X("MSIZE"), X("CALLDATALOAD"),
           X("CALLDATASIZE"), X("CODESIZE"), X("POP"), X("DUP1"),
           X("CALLDATACOPY", 1, 2, 33), X("CALLDATACOPY", 0, 30, 40), X("CODECOPY", 3, 1, 8), X("CODECOPY", 0, 200, 5),
           X("MSTORE", 5, 513), X("MSTORE8", 70, 255), X("MLOAD", 1), X("LOG0", 2, 35), X("LOG2", 0, 0, 5, 6),
           X("LOG1", 31, 2, 9), X("REVERT", 0, 32), X("RETURN", 1, 2), X("CALLDATACOPY", -1, 0, 1), X("MLOAD", -1),
           X("CALLDATACOPY", -1, 0, 0), X("RETURN", -1, 0), X("LOG0", 0, -1),
           X("EXTCODECOPY", B, 0, 3, 40), X("EXTCODECOPY", B, 1, -1, 8), X("EXTCODECOPY", 0x77, 0, 0, 8), X("CODECOPY", 0, -1, 8),
           X("LOG2", 1, 1, -1, 7)]
    V.append(dict(name="mem", alpha=mem, maxlen=3 if th else 2, suffix=RET_MEM, envs=[env(b=1, cd=2), env(b=1, cd=3)]))
    # ---- Keccak as an uninterpreted injective function: SHA3 (slice edges: size 0, huge offset with size 0, a slice that
    #      crosses the end of the memory and is zero-extended, hash of a hash), EXTCODEHASH (contract, empty, absent,
    #      balance-only account, precompile)
    hsh = [X("MSTORE", 0, 17), X("MSTORE8", 33, 5), X("SHA3", 0, 32), X("SHA3", 0, 0), X("SHA3", 31, 2), X("SHA3", 0, 70),
           X("SHA3", -1, 0), X("SHA3", 0, -1), X("SHA3", 40, 1), X("SSTORE", 0), X("SSTORE", 1), X("MSTORE", 0), X("EQ"), X("DUP1"),
           X("ISZERO"), CALLS("STATICCALL", 0x77), X("EXTCODEHASH", B), X("EXTCODEHASH", 0x77), X("EXTCODEHASH", 224), X("EXTCODEHASH", A), X("EXTCODEHASH", 4)]
    V.append(dict(name="hash", alpha=hsh, maxlen=4 if th else 3, suffix=RET_MEM, envs=[env(b=1, pre=1)]))
    # ---- CREATE2: address = keccak(0xff ++ creator ++ salt ++ keccak(init)), same salt twice (collision), value, revert
    cr2 = PUTINIT_REV[:1] + [X("MSTORE", 0), X("CREATE2", 0, 16, 16, 5), X("CREATE2", 1, 16, 16, 5), X("CREATE2", 0, 16, 16, 6),
                             X("CREATE2", 0, 0, 0, 5), X("CREATE2", 20, 16, 16, 5), X("CREATE", 0, 16, 16), X("SSTORE", 6), X("SSTORE", 7),
                             X("DUP1"), CALLTOP, X("EXTCODEHASH"), X("EXTCODESIZE"), X("EQ"), X("REVERT", 0, 0), X("SELFDESTRUCT", B)]
    V.append(dict(name="create2", alpha=cr2, maxlen=4 if th else 3, prefix=PUTINIT, suffix=[X("STOP")],
                  envs=[env(pre=1), env(mode=1, v=3)]))
    # ---- control flow: labels, jumps into PUSH data, beyond the end, truncated PUSH
    n = 4 if th else 3
    jmp = [J(k, i) for k in ("j", "ji") for i in range(1, n + 3)] + [J("jd", i) for i in range(1, 4)] + \
          [X("JUMPDEST"), X("PC"), X(-1, 1), X(-1, 91), X("SSTORE", 1, 1), X("SSTORE", 2, 1), X("STOP"), X("INVALID"), X("JUMP")] + \
          ([] if th else [X(-1, 0), RAW(97, 91), X("JUMPI")])
    V.append(dict(name="jump", alpha=jmp, maxlen=n, suffix=[X("SSTORE", 3, 1)], envs=[env()]))
    # ---- frames: the four call kinds, value, identity precompile, revert / failure of the caller afterwards
    fr = [CALLS(k, B, 0, 32, 32) for k in ("CALL", "CALLCODE", "DELEGATECALL", "STATICCALL")] + \
         [CALLS("CALL", B, 1, 32, 32), CALLS("CALLCODE", B, 1), CALLS("CALL", B, 20), CALLS("CALL", 4, 0, 32, 32),
          CALLS("CALL", C, 2), CALLS("CALL", 0x77, 0), CALLS("CALL", 0x77, 1),
          X("SSTORE", 0), X("SSTORE", 2, 5), X("MSTORE", 0, 17), X("RETURNDATACOPY", 64, 0, 32), X("RETURNDATACOPY", 0, 1, 32),
          X("POP"), X("REVERT", 0, 0), X("INVALID"), X("SELFDESTRUCT", B), X("LOG0", 0, 0), X("BALANCE", B), X("SELFBALANCE")]
    V.append(dict(name="frames", alpha=fr, maxlen=2, suffix=OBS_CALLS, envs=frame_envs(th) + [env(b=6, v=5, pre=0)]))
    if th:   # three statements, half of the environments
        V.append(dict(name="frames3", alpha=fr, maxlen=3, suffix=OBS_CALLS, envs=frame_envs(False)[::2] + [env(b=6, v=5, pre=0)]))
    # ---- the enumerated program runs INSIDE a static call of itself (prefix), the outer frame reports the flag
    static_prefix = [X("CALLDATASIZE"), J("ji", 6), X("STATICCALL", ALLGAS, A, 0, 1, 0, 32), X("SSTORE", 0),
                     X("RETURN", 0, 32), X("JUMPDEST")]
    st = [X("SSTORE", 1, 1), X("SSTORE", 1, 0), X("LOG0", 0, 0), X("LOG1", 0, 0, 1), X("CREATE", 0, 0, 0), X("SELFDESTRUCT", B),
          CALLS("CALL", B, 0, 0, 32), CALLS("CALL", B, 1), CALLS("CALLCODE", B, 1), CALLS("CALLCODE", B, 0, 0, 32),
          CALLS("DELEGATECALL", B, 0, 0, 32), CALLS("STATICCALL", B, 0, 0, 32), X("SLOAD", 1), X("MSTORE", 0),
          X("RETURN", 0, 32), X("RETURN", 32, 32), X("POP"), X("SELFBALANCE"), X("CALLER"), X("ADDRESS")]
    V.append(dict(name="static", alpha=st, maxlen=3 if th else 2, prefix=static_prefix, suffix=[X("STOP")],
                  envs=[env(b=b, pre=1) for b in (1, 4, 6, 7, 13)] + [env(b=12, c=1, pre=1), env(b=8, c=4, pre=1)]))
    # ---- identity precompile and the return data buffer (CVE-2020-26241 class)
    idn = [X("MSTORE", 0, 17), X("MSTORE", 0, 34), X("MSTORE8", 1, 5), CALLS("CALL", 4, 0, 32, 0), CALLS("CALL", 4, 0, 32, 32, 0, 16),
           CALLS("STATICCALL", 4, 0, 32, 32), CALLS("DELEGATECALL", 4, 0, 33, 3), CALLS("CALLCODE", 4, 1, 7, 40),
           X("RETURNDATACOPY", 32, 0, 32), X("RETURNDATACOPY", 0, 0, 32), X("RETURNDATACOPY", 0, 31, 2)]
    V.append(dict(name="identity", alpha=idn[:10] if th else idn[:2] + idn[3:10], maxlen=5 if th else 4, suffix=OBS_CALLS, envs=[env(pre=1)]))
    # ---- create: nested CREATE with value, call of the created contract, failing / reverting init code, and the
    #      program itself as init code of a top-level kvm.Create
    cr = PUTINIT + PUTINIT_REV[:1] + [X("CREATE", 0, 16, 16), X("CREATE", 1, 16, 16), X("CREATE", 20, 16, 16), X("CREATE", 0, 0, 0),
                                     X("CREATE", 0, 16, 5), X("SSTORE", 6), X("DUP1"), CALLTOP, X("EXTCODESIZE"), X("BALANCE"),
                                     X("REVERT", 0, 0), X("RETURNDATASIZE"), X("RETURN", 30, 2), X("SELFDESTRUCT", B)]
    V.append(dict(name="create", alpha=cr, maxlen=3, suffix=[X("STOP")],
                  envs=[env(pre=1), env(pre=0), env(mode=1, v=3), env(b=13, pre=1)]))
    if th:
        V.append(dict(name="create4", alpha=cr, maxlen=4, suffix=[X("STOP")], envs=[env(pre=1), env(mode=1, v=3)]))
    # ---- boundary catalogue: every offset / length / size / index / destination / shift operand takes the values around
    #      2^16, 2^31, 2^32, 2^63, 2^64, 2^255, 2^256-1 while the others take 0, 1, 32; with a 32-byte and an empty return
    #      buffer (the prefix calls B).  The specification takes every sum in full width; lines without a verdict (memory
    #      between MemCap and 2^64) still run for the never-panics clause.
    BV = [0, 1, 31, 32, 33] + [-(99 + i) for i in range(1, 15)] + [-1]
    BO = [0, 1, 32]
    bnd = []
    pairs = [(v, o) for v in BV for o in BO] + [(o, v) for v in BV for o in BO]
    for v in BV:
        bnd += [X("MLOAD", v), X("CALLDATALOAD", v), X("JUMP", v), X("JUMPI", v, 1), X("MSTORE", v, 1), X("MSTORE8", v, 1),
                X("EXTCODESIZE", v), X("BALANCE", v) if v in (0, 1) else X("BLOCKHASH", v)]
        for val in (-1, -112):          # 2^256-1 and 2^255
            bnd += [X(o, v, val) for o in ("BYTE", "SHL", "SHR", "SAR", "SIGNEXTEND")]
    for (p, q) in pairs:
        bnd += [X("SHA3", p, q), X("LOG0", p, q), X("LOG1", p, q, 9), X("RETURN", p, q), X("REVERT", p, q), X("CREATE", 0, p, q),
                X("CREATE2", 0, p, q, 5)]
        for k in ("CALL", "STATICCALL", "DELEGATECALL", "CALLCODE"):
            bnd += [CALLS(k, B, 0, q, 0, p, 0), CALLS(k, B, 0, 0, q, 0, p)]        # (in offset, in size), (out offset, out size)
    for pos in range(3):
        for v in BV:
            for o1 in BO:
                for o2 in BO:
                    t = [o1, o2]
                    t.insert(pos, v)
                    bnd += [X("CALLDATACOPY", *t), X("CODECOPY", *t), X("RETURNDATACOPY", *t), X("EXTCODECOPY", B, *t)]
    bnd = sorted(set(bnd))
    V.append(dict(name="bounds", alpha=bnd, maxlen=1, prefix=[CALLS("CALL", B, 0, 0, 0)], suffix=RET_MEM,
                  envs=[env(b=4, cd=2), env(b=0, cd=2)]))
    # ---- environment instructions, both instruction sets (CHAINID only in v2; 0x45 undefined in both)
    envops = ["ADDRESS", "ORIGIN", "CALLER", "CALLVALUE", "GASPRICE", "COINBASE", "TIMESTAMP", "NUMBER", "GASLIMIT", "UNDEF45",
              "CHAINID", "SELFBALANCE", "CODESIZE"]
    ea = [X(o) for o in envops] + [X("BALANCE", A), X("BALANCE", 224), X("EXTCODESIZE", B), X("BLOCKHASH", 4), X("BLOCKHASH", 5),
                                   X("EXTCODECOPY", B, 0, 0, 6), X("SSTORE", 0), X("SSTORE", 1)]
    for gal in (True, False):
        V.append(dict(name="env-" + ("v2" if gal else "v1"), alpha=ea, maxlen=2, suffix=RET_MEM, gal=gal,
                      envs=[env(b=1, pre=1, v=5), env(mode=1, v=2)]))
    # ---- random longer programs over the union of the frame alphabets (TLC simulation)
    V.append(dict(name="walks", alpha=fr + idn[:3] + cr[:5] + [X("SSTORE", 6), X("DUP1"), CALLTOP, X("MLOAD", 32), X("SLOAD", 0)],
                  maxlen=9, suffix=OBS_CALLS, envs=frame_envs(False), sim=(600 if th else 50, 10)))     # walks per TLC worker
    return V


BASE_CFG = ("SPECIFICATION Spec\nCONSTANTS\n  StackLimit = 1024\n  DepthLimit = 1024\n  MaxCodeSize = 39231\n"
            "  Fuel = %d\n  MemCap = 4096\n  Galaxias = %s\n")


def mc_files(v):
    tla = ("---- MODULE MCgen ----\nEXTENDS MC_KVM\nAlphaV == {%s}\nPrefixV == <<%s>>\nSuffixV == <<%s>>\nEnvsV == {%s}\n====\n"
           % (",\n  ".join(v["alpha"]), ", ".join(v.get("prefix", [])), ", ".join(v.get("suffix", [])), ", ".join(v["envs"])))
    cfg = BASE_CFG % (300, "TRUE" if v.get("gal", True) else "FALSE")
    cfg += ("  Alpha <- AlphaV\n  MaxLen = %d\n  Prefix <- PrefixV\n  Suffix <- SuffixV\n  Envs <- EnvsV\n"
            "VIEW View\nINVARIANT Inv\n" % v["maxlen"])
    return {"MCgen.tla": tla, "MCgen.cfg": cfg}


def steps_files(cases):
    tla = "---- MODULE MCs ----\nEXTENDS MC_KVMSteps\nCasesV == {%s}\n====\n" % ", ".join(map(str, cases))
    cfg = BASE_CFG % (0, "TRUE") + "  Cases <- CasesV\nVIEW View\nINVARIANT Inv\nACTION_CONSTRAINT Dump\n"
    return {"MCs.tla": tla, "MCs.cfg": cfg}


def run(c):
    th = c.tier == "thorough"
    dev_workers = int(os.environ.get("KVM_TLC_WORKERS", "0")) or None
    c.rule = ("MC_KVM: every program of at most N statements over nine themed alphabets (stack/ALU incl. wrap-around, "
              "memory/calldata/code/logs, labelled jumps incl. jumps into PUSH data and beyond the code, the four call kinds "
              "with value against 15 library callees at B and C, programs run inside a STATICCALL of themselves, the identity "
              "precompile and the return data buffer, CREATE / top-level Create, SHA3 / EXTCODEHASH with Keccak as an uninterpreted "
              "injective function, CREATE2 incl. collisions, a boundary catalogue of every offset/length/index operand around "
              "2^31, 2^32, 2^63, 2^64, 2^255, environment instructions in both instruction sets) plus TLC simulation walks of 10 "
              "statements; KVMArith: the defining law of every ALU instruction evaluated by TLC on results the real machine "
              "returned for an edge catalogue and seeded 256-bit operands; MC_KVMSteps: 12 directed executions at the 1024-item stack "
              "limit and the 1024 call depth limit. Each program is assembled by the specification, its final state computed by "
              "the specification's interpreter, and replayed in the real kvm.KVM under both instruction sets, twice on fresh "
              "states; compared: ok/revert/fail, return data, every touched balance, nonce, storage slot, code, destroyed "
              "mark, logs; non-trivial = not a plain successful ALU program. TestTour: 256 byte values x both tables x "
              "(exact operands, one too few, full stack, inside STATICCALL). TestRandom: seeded byte strings (uniform, "
              "opcode-weighted, grammar) checked for outcome domain, panic, hang, gas, determinism, failed-call atomicity")
    c.assumptions = [
        "gas is abstract in the specification: programs run with 2^62 gas; runs in which the real machine meets an out-of-gas "
        "error that the specification does not predict are outside the comparison (counted as skipped_real_out_of_gas)",
        "inside generated PROGRAMS DIV/MOD/SDIV/SMOD/ADDMOD/MULMOD/EXP are specified on small operands only (MUL is exact); on "
        "full 256-bit operands these instructions are checked one at a time by certificate (KVMArith: sampled operands, not "
        "all); GAS, the cryptographic precompiles and exact gas are not specified: such programs end 'oom' in the specification "
        "and are only checked for the never-crashes clauses",
        "Keccak-256 is an uninterpreted injective function in the specification (no collisions; a hash is non-zero and >= 2^64); "
        "the driver substitutes lib/crypto Keccak256 and crypto.CreateAddress, which are trusted",
        "the tracer hooks of the real machine (Config.Debug) are trusted to report the executed opcode, stack height, depth and "
        "per-frame error; the compared run is repeated without tracer",
    ]
    all_complete = True
    totals = {}

    def absorb(g):
        """c.absorb overwrites `extra` per Go run: the per-run counters are summed here."""
        c.absorb(g)
        for k, v in (g.get("extra") or {}).items():
            if isinstance(v, int) and (k.startswith(("no_verdict_", "skipped_", "out_of_gas_"))):
                totals[k] = totals.get(k, 0) + v
    # ---------------------------------------------------------------- enumerated / simulated programs
    hdr = {}
    pending = []
    only = [x for x in os.environ.get("KVM_ONLY", "").split(",") if x]      # development aid: restrict the vectors
    for v in vectors(th):
        if only and v["name"].rstrip("34") not in only and not v["name"].startswith("env-"):
            continue
        dump = os.path.join(c.scratch, "kvm-%s.dump" % v["name"])
        sim = v.get("sim")
        r = c.tlc("kvm", "MCgen.cfg", module="MCgen", files=mc_files(v), dump_to=dump, timeout=2400 if th else 540,
                  tag="MC_KVM " + v["name"], workers=dev_workers,
                  simulate=("num=%d" % sim[0]) if sim else None, depth=sim[1] if sim else None)
        if r.violated:
            raise Infra("specification invariant %s violated in MC_KVM %s\n%s" % (r.violated, v["name"], c.tlc_tail(r)))
        if not r.ok:
            raise Infra("TLC failed on MC_KVM %s: %s\n%s" % (v["name"], r.error, c.tlc_tail(r)))
        if sim:
            all_complete = False
        gal = v.get("gal", True)
        if gal not in hdr:      # keep the header (instruction table) of each instruction set for the tour
            hp = os.path.join(c.scratch, "kvm-hdr-%s.txt" % ("v2" if gal else "v1"))
            with open(dump, errors="replace") as f, open(hp, "w") as o:
                for i, line in enumerate(f):
                    if line.startswith('"') and "valid" in line[:4000]:
                        o.write(line)
                        break
                    if i > 400:
                        break
            hdr[gal] = hp
        if th:       # thorough: replay and delete each dump at once (they are large)
            g = c.gotest("kvm", "TestReplay", env=dict(KVM_DUMP=dump, KVM_GAL=1 if gal else 0), timeout=2400, tag="replay " + v["name"])
            absorb(g)
            os.remove(dump)
        else:        # quick: one driver run over all dumps
            pending.append(dump + ("" if gal else ":v1"))
    if pending:
        g = c.gotest("kvm", "TestReplay", env=dict(KVM_DUMP=",".join(pending)), timeout=900, tag="replay MC_KVM dumps")
        absorb(g)
        for p in pending:
            os.remove(p.split(":")[0])
    # ---------------------------------------------------------------- directed limit executions
    for cases in ([list(range(1, 13))] if not only or "limits" in only else []):
        dump = os.path.join(c.scratch, "kvm-steps-%d.dump" % cases[0])
        r = c.tlc("kvm", "MCs.cfg", module="MCs", files=steps_files(cases), dump_to=dump, timeout=2400 if th else 540,
                  tag="MC_KVMSteps %s" % cases, workers=len(cases), jvm=["-Xmx8g"], extra=["-checkpoint", "0"])
        if r.violated:
            raise Infra("specification invariant %s violated in MC_KVMSteps %s\n%s" % (r.violated, cases, c.tlc_tail(r)))
        if not r.ok:
            raise Infra("TLC failed on MC_KVMSteps %s: %s\n%s" % (cases, r.error, c.tlc_tail(r)))
        g = c.gotest("kvm", "TestReplay", env=dict(KVM_DUMP=dump, KVM_GAL=1), timeout=900, tag="replay limits %s" % cases)
        absorb(g)
        if g.get("evaluations", 0) < 2 * len(cases):
            raise Infra("directed limit cases %s: only %s executions" % (cases, g.get("evaluations")))
        os.remove(dump)
    # ---------------------------------------------------------------- instruction table tour + random byte strings
    if True not in hdr or False not in hdr:
        raise Infra("instruction table headers missing")
    g = c.gotest("kvm", "TestTour", env=dict(KVM_HDR_V1=hdr[False], KVM_HDR_V2=hdr[True]), timeout=600, tag="opcode tour")
    absorb(g)
    for k in ("opcodes_executed_v1", "opcodes_executed_v2"):
        if not g.get("extra", {}).get(k):
            raise Infra("opcode tour did not report " + k)
        totals[k] = g["extra"][k]
    if not only or "random" in only:
        g = c.gotest("kvm", "TestRandom", env=dict(KVM_RANDOM=300000 if th else 20000), timeout=2400 if th else 540,
                     tag="random byte strings")
        absorb(g)
        for k in ("random_opcodes_executed_v1", "random_opcodes_executed_v2"):
            totals[k] = g.get("extra", {}).get(k, 0)
    # ---------------------------------------------------------------- 256-bit arithmetic: certificate checking
    if not only or "arith" in only:
        g = c.gotest("kvm", "TestArith", env=dict(KVM_ARITH_RANDOM=2400 if th else 120, KVM_ARITH_BIGEXP=16 if th else 0), timeout=900,
                     tag="record arithmetic")
        absorb(g)
        nlines = int(g.get("extra", {}).get("arith_lines", 0))
        c.traces -= int(g.get("behaviours", 0))                  # counted when TLC has checked the law
        path = os.path.join(c.scratch, "kvm-arith.ndjson")
        r = c.tlc("kvm", "KVMArith.cfg", module="KVMArith", files={"arith.ndjson": path}, timeout=2400, deadlock=True,
                  tag="KVMArith", jvm=["-Xmx4g"], extra=["-checkpoint", "0"], workers=dev_workers)
        if not r.ok:
            raise Infra("TLC failed on KVMArith: %s %s\n%s" % (r.violated, r.error, c.tlc_tail(r)))
        if r.distinct != nlines or nlines == 0:
            raise Infra("KVMArith visited %d of %d lines" % (r.distinct, nlines))
        import json as _json, re as _re
        recs = [l for l in open(path)]
        fails = sorted(set(int(x) for x in _re.findall(r'<<"LAWFAIL", (\d+)>>', open(r.out, errors="replace").read())))
        for i in fails:
            e = _json.loads(recs[i - 1])
            hx = lambda v: "0x" + "".join("%02x" % b for b in v) if v else "-"
            c.report("kvm:arith:%s:%s" % (e["op"], e["t"]),
                     "the result of %s in the real machine (instruction set mask %d) violates the defining law: a=%s b=%s n=%s -> %s %s"
                     % (e["op"], e["s"], hx(e["a"]), hx(e["b"]), hx(e["n"]), hx(e["r"]), hx(e["r2"])), e)
        c.traces += nlines - len(fails)
        totals["arith_laws_checked"] = nlines
    # ---------------------------------------------------------------- trace validation (code -> specification)
    if not only or "trace" in only:
        nfiles, nprog = (8, 400) if th else (2, 150)
        g = c.gotest("kvm", "TestRecord", env=dict(KVM_TRACES=nfiles, KVM_PROGRAMS=nprog), timeout=900, tag="record traces")
        absorb(g)
        c.traces -= int(g.get("behaviours", g.get("evaluations", 0)))     # counted below, when TLC has accepted them
        for k in range(nfiles):
            path = os.path.join(c.scratch, "kvm-trace-%d.ndjson" % k)
            r = c.tlc("kvm", "KVMTrace.cfg", module="KVMTrace", files={"trace.ndjson": path}, workers=1, timeout=1800,
                      deadlock=True, tag="KVMTrace %d" % k, jvm=["-Xmx3g"], extra=["-checkpoint", "0"])
            text = open(r.out, errors="replace").read()
            if "REJECTED" in text or r.violated:
                i = text.find('<< "MISMATCH"')
                diag = " ".join(text[i:i + 6000].split())[:3000] if i >= 0 else c.tlc_tail(r)
                c.report("kvm:trace:step-unexplained" if not r.violated else "kvm:trace:limit-exceeded",
                         "an execution recorded from the real machine (seed %d, trace %d) is not explained by KVMFrames!Step: %s"
                         % (c.seed, k, diag[:600]), dict(seed=c.seed, trace=k, programs=nprog, diag=diag))
                continue
            if not r.ok:
                raise Infra("TLC failed on KVMTrace %d: %s\n%s" % (k, r.error, c.tlc_tail(r)))
            mm = __import__("re").search(r'<<"VALIDATED", (\d+), (\d+), (\d+)>>', text)
            if not mm:
                raise Infra("KVMTrace %d: no VALIDATED line" % k)
            totals["trace_steps_validated"] = totals.get("trace_steps_validated", 0) + int(mm.group(1))
            totals["trace_outcomes_validated"] = totals.get("trace_outcomes_validated", 0) + int(mm.group(2))
            totals["trace_lines"] = totals.get("trace_lines", 0) + int(mm.group(3))
            c.traces += nprog
        if totals.get("trace_steps_validated", 0) < 0.3 * totals.get("trace_lines", 1) and not c.violations:
            raise Infra("trace validation is vacuous: %s" % totals)
    c.extra.update(totals)
    c.extra.pop("mismatch_counts", None)
    skipped = totals.get("skipped_real_out_of_gas", 0)
    if skipped > 0.02 * max(1, c.traces):
        raise Infra("%d replayed programs ran out of gas in the real machine: the 'enough gas' assumption does not hold" % skipped)
    c.exhaustive = all_complete
