"""C19 - accountability: evidence is accepted exactly for real double-signing, once.

specs/evidence:
  Evidence.tla          the evidence pool (types/evidence/pool.go, verify.go, types/evidence.go, reactor receive path): acceptance as
                        the property demands, bookkeeping mirrored from the code
  MC_EvidenceVerify     every abstract evidence = well-formed base + up to D field mutations, received by an empty pool at several heights
  MC_EvidencePool       every history of recv / cons / check / apply / restart up to a depth
  MC_EvidenceNet        correct nodes + one equivocating validator end to end (report, gossip, propose, validate, commit, slash, restart)
harness/evidence: TestWorldInfo (real chain -> model constants), TestViewFidelity, TestVerifyReplay, TestPoolReplay (real Pool over a real
chain committed by real nodes), TestNetReplay (real consensus nodes)."""
import json, os
from vlib import Infra

# ---- the worlds.  Validator ids: 1..3 correct and running nodes, 4 = the Byzantine validator (key held by the driver), 5 joins
# later and never votes, 6 never is a validator.  updates[h] = the set the application returns at block h (= the set of height h+2).
WORLD = dict(powers=[10, 10, 10, 5, 0, 0], nodes=[1, 2, 3], top=8,
             updates={"2": {"1": 10, "2": 10, "3": 10, "4": 4, "5": 3}, "5": {"1": 10, "2": 10, "3": 10, "5": 3}})
# a static set with unequal powers (another proposer rotation), thorough tier
WORLD2 = dict(powers=[12, 9, 7, 5], nodes=[1, 2, 3], top=7)
# genesis in the past: vote times are wall-clock, the median of a last commit depends on which precommits it holds
# (validator 4's private precommit moves the median of an observer's last commit; validator 5 is a second offender)
WORLD_WALL = dict(powers=[10, 10, 10, 10, 3], nodes=[1, 2, 3], top=6, genesis_unix=1700000000, iota_ns=1000)


def tla(x):
    if isinstance(x, (list, tuple)):
        return "<<" + ", ".join(tla(y) for y in x) + ">>"
    if isinstance(x, (set, frozenset)):
        return "{" + ", ".join(tla(y) for y in sorted(x, key=str)) + "}"
    return str(x)


def must_hold(c, r, what):
    if r.violated:
        raise Infra("specification invariant %s violated in %s\n%s" % (r.violated, what, c.tlc_tail(r)))
    if not r.ok:
        raise Infra("TLC failed on %s: %s\n%s" % (what, r.error, c.tlc_tail(r)))


def must_fail(c, r, what, inv):
    """Reachability companions: TLC has to REFUTE `inv`, otherwise the invariants of the module would be vacuous."""
    if r.violated != inv:
        raise Infra("%s: expected TLC to refute %s, got violated=%s error=%s\n%s" % (what, inv, r.violated, r.error, c.tlc_tail(r)))
    c.states -= r.distinct          # the states of a refutation run are not coverage
    c.transitions -= r.generated


def world_info(c, world, tag):
    g = c.gotest("evidence", "TestWorldInfo", env=dict(EV_WORLD=json.dumps(world)), timeout=900, tag="world " + tag)
    bad = [m for m in g.get("mismatches", [])]
    if bad:
        raise Infra("world %s: %s" % (tag, bad[0].get("text")))
    x = g.get("extra") or {}
    if not x.get("power_table"):
        raise Infra("no power table from the real chain (%s)" % tag)
    c.go_runs.pop()
    # the correct validator whose proposal is decided at height h under timely delivery
    prop = []
    for row in x["prop_table"]:
        p = [v for v in row if v in world["nodes"]]
        prop.append(p[0])
    return x["power_table"], prop


def cfg_verify(top, ages, bvals, bheights, brounds, btypes, poolh, hdom, d):
    return ("SPECIFICATION Spec\nCONSTANTS\n  Top = %d\n  Power <- PowerV\n  MaxAgeBlocks = %d\n  MaxAgeDur = %d\n  BVals = %s\n"
            "  BHeights = %s\n  BRounds = %s\n  BTypes = %s\n  BPairs <- BPairsV\n  PoolHeights = %s\n  HDom = %s\n  RDom = {1, 2}\n  D = %d\n"
            "VIEW View\nINVARIANT OnlyRealEquivocators\nINVARIANT Complete\nINVARIANT NoForged\nACTION_CONSTRAINT Dump\n") % (
        top, ages[0], ages[1], tla(set(bvals)), tla(set(bheights)), tla(set(brounds)), tla(set(btypes)), tla(set(poolh)), tla(set(hdom)), d)


# the item universe of the pool histories (see MC_EvidencePool): evidence by index
ITEMS = """E1 == Dve(4, 2, 1, 1, 2, 3)
E2 == Dve(4, 4, 1, 2, 0, 2)
ItemsV == << E1, E2, Dve(4, 5, 1, 1, 2, 3),
             [E2 EXCEPT !.b.sig = 0],
             [Dve(1, 4, 1, 1, 2, 3) EXCEPT !.a.sig = 4, !.b.sig = 4],
             [E2 EXCEPT !.a.i = 1],
             Dve(5, 2, 1, 1, 2, 3),
             Dve(5, 4, 2, 1, 2, 5),
             Dve(4, 6, 1, 1, 2, 5),
             Dve(5, 5, 1, 2, 0, 2),
             [E2 EXCEPT !.a.sig = -11],
             [E2 EXCEPT !.b.sig = -11] >>
"""
ITEMS_DOC = ("items: 1 = validator 4 at height 2 (expires first), 2 = validator 4 at height 4 (nil / block precommits), 3 = validator 4 at "
             "height 5 (the height being decided at the start: reported by consensus before block 5 exists), 4 = item 2 with a junk second "
             "signature, 5 = correct validator 1 framed with votes signed by validator 4, 6 = item 2 with a wrong validator index, 7 = "
             "validator 5 at height 2 (joins the set only at height 4), 8 = validator 5 at height 4, 9 = validator 4 at height 6 (8 and 9: two votes for the SAME block hash with different part-set hashes, "
             "reported by consensus in both arrival orders through the real NewDuplicateVoteEvidence), 10 = validator 5 at "
             "height 5 (second and third equivocations while their height is being decided), 11 / 12 = item 2 with the first / second vote's "
             "signature re-encoded as its high-s twin (r, N-s, v xor 1), built from the real signed vote; consensus reports 1, 2, 3, 8, 9, 10, and 2, 3, 9, "
             "10 with ITS stamp (time off the block time, total of another set) which the pool has to replace by the facts of the height")


def cfg_pool(top, ages, lists, l0, depth):
    return ("SPECIFICATION Spec\nCONSTANTS\n  Top = %d\n  Power <- PowerV\n  MaxAgeBlocks = %d\n  MaxAgeDur = %d\n  Items <- ItemsV\n"
            "  ConsItems = {1, 2, 3, 8, 9, 10}\n  RawItems = {2, 3, 9, 10}\n  OrdItems = {8, 9}\n  Lists <- ListsV\n  L0 = %d\n  Depth = %d\nVIEW View\nINVARIANT Inv\nACTION_CONSTRAINT Dump\n") % (
        top, ages[0], ages[1], l0, depth)


def cfg_net(top, ages, prop_name, maxh, eqh, kinds, maxev, maxrs, byzs=(4, 5)):
    return ("SPECIFICATION Spec\nCONSTANTS\n  Top = %d\n  Power <- PowerV\n  MaxAgeBlocks = %d\n  MaxAgeDur = %d\n  Nodes = {1, 2, 3}\n  Byzs = %s\n  Priv = 4\n"
            "  Prop <- %s\n  MaxH = %d\n  EqHeights = %s\n  ObsSets <- ObsV\n  Kinds = %s\n  MaxEvents = %d\n  MaxRestarts = %d\n"
            "INVARIANT Inv\nACTION_CONSTRAINT Dump\n") % (top, ages[0], ages[1], tla(set(byzs)), prop_name, maxh, tla(set(eqh)), tla(set(kinds)), maxev, maxrs)


def run(c):
    th = c.tier == "thorough"
    workers = int(os.environ.get("EV_TLC_WORKERS", "0")) or None
    c.rule = (
        "Verify: every case of MC_EvidenceVerify - a well-formed duplicate-vote evidence for (validator in / not in / joining / leaving the set, "
        "height before / after the two set changes, round, type, ordered block pair incl. nil) with up to D mutations out of 75 atoms (either "
        "vote's address, index, height, round, type incl. a non-vote type, block id incl. a malformed one, the same block hash with another "
        "part-set hash and with another part-set total only, 13 signature classes: other key, junk, "
        "empty, the genuine signature as high-s twin (r, N-s, v xor 1) / with v+4 / with a trailing byte, genuine signature over sign bytes that differ in one of height / round / type / block / vote time / chain id; stated power, "
        "total, evidence time on and off a block time) - is built as a REAL DuplicateVoteEvidence with real secp256k1 signatures, sent through "
        "the evidence reactor's wire codec (ValidateBasic) into AddEvidence of a fresh real Pool looking at a real chain (3 real nodes, two "
        "validator-set changes) at 4 pool heights under two parameter sets (blocks-age or duration-age binding), and handed to the exported "
        "VerifyDuplicateVote with the real validator set of its height; compared: accepted / refused. "
        "Pool: every transition of MC_EvidencePool (histories of recv, cons, check(list), apply(list), restart over 8 items; " + ITEMS_DOC + ") "
        "replayed from a fresh real Pool; compared: result class of every call, pending / committed marks / gossip list / Size(), and "
        "PendingEvidence = the proposable items under every byte limit (exact prefix sizes and one byte less).  Net: every complete behaviour of "
        "MC_EvidenceNet (per height: the Byzantine validator shows conflicting prevotes / precommits of the height being decided or late "
        "precommits of the previous height to one or all correct nodes (also two votes for one block hash with two part-set hashes in both "
        "arrival orders, and two votes that differ only in the part-set total = no equivocation), optionally again one height later, or "
        "offers a block whose evidence "
        "list frames a correct validator / replays committed evidence / carries an unseen real equivocation once, twice or with a junk "
        "signature; one node restarts) executed on 3 REAL "
        "consensus nodes + a syncing node: compared per height: evidence the observers' tryAddVote reported, block evidence, DoubleSign calls, "
        "every gossip delivery (reactor send rule + AddEvidence), pending / committed per node after restart, every committed block accepted by a "
        "node that was not there.  non-trivial = mutated or refused evidence / history longer than one recv / behaviour with an event")
    c.assumptions = [
        "secp256k1 / keccak are sound: signatures are abstracted to 'signed by key k over exactly these sign bytes' (specs/sig, C11)",
        "the pool drivers read the chain through a view truncated at the pool's height (TestViewFidelity compares every answer of the view "
        "with what the real stores of a real node answered at that height)",
        "validator-set changes are scripted at the application boundary (CommitAndValidateBlockTxs returns the scripted set; the staking "
        "contract of the test genesis returns none); DoubleSign is observed as the call with its arguments, not by its effect in the contract",
        "block times: genesis in the far future makes every vote time 'block time + iota' (consensus/state.go voteTime), so times are a "
        "function of the height; the wall-clock world is used only for the private-precommit scenarios",
        "gossip is one full-mesh round per height with the reactor's own send rule and wire codec; the p2p switch is not involved",
    ]
    quick = not th
    # ------------------------------------------------------------------ the real chain -> constants
    g = c.gotest("evidence", "TestViewFidelity", env=dict(EV_WORLD=json.dumps(WORLD)), timeout=900, tag="view fidelity")
    c.absorb(g)
    power, prop = world_info(c, WORLD, "default")
    top = WORLD["top"]
    base_defs = "PowerV == %s\n" % tla(power)

    def mcgen(base, extra):
        return {"MCgen.tla": "---- MODULE MCgen ----\nEXTENDS %s\n%s%s====\n" % (base, base_defs, extra)}

    env0 = dict(EV_WORLD=json.dumps(WORLD))
    AGES = [(2, 6), (3, 4)]   # (MaxAgeNumBlocks, MaxAgeDuration in ticks): duration binds / blocks bind; expired iff age >= 4 heights

    # ------------------------------------------------------------------ MC_EvidenceVerify
    pairs3 = "BPairsV == {<<0, 2>>, <<0, 3>>, <<2, 3>>}\n"
    pairs1 = "BPairsV == {<<2, 3>>}\n"
    # same block hash: two part-set hashes (2/5) and two part-set totals only (2/6), in both field orders
    pairs_same = "BPairsV == {<<2, 3>>, <<2, 5>>, <<5, 2>>, <<2, 6>>, <<6, 2>>}\n"
    vruns = [
        # tag, ages, pairs, bvals, bheights, brounds, btypes, poolh, hdom, D, stride
        ("verify-d1", AGES[0], pairs3, [1, 4, 5, 6], [2, 5, 7], [1, 2], [1, 2], [4, 5, 6, 8], [0, 2, 3, 5, 9], 1, 1),
        ("verify-d1-blocksbind", AGES[1], pairs_same, [1, 4, 5], [2, 5], [1], [1, 2], [5, 6, 8], [0, 3, 9], 1, 1),
        ("verify-d2", AGES[0], pairs1, [1, 4, 5], [2, 5], [1], [1], [5, 6], [0, 2, 3, 5, 9], 2, 1),
    ]
    if th:
        vruns += [
            ("verify-d2-wide", AGES[0], pairs3, [1, 4, 5, 6], [2, 5, 7], [1], [1, 2], [5, 6, 8], [0, 3, 9], 2, 3),
            ("verify-d3", AGES[1], pairs1, [4], [2, 5], [1], [2], [6], [3, 9], 3, 2),
            ("verify-d2-samehash", AGES[0], pairs_same, [4], [5], [1], [1], [6], [3, 9], 2, 1),
        ]
    for tag, ages, pairs, bv, bh, br, bt, ph, hd, d, stride in vruns:
        files = mcgen("MC_EvidenceVerify", pairs)
        files["MCgen.cfg"] = cfg_verify(top, ages, bv, bh, br, bt, ph, hd, d)
        dump = os.path.join(c.scratch, tag + ".dump")
        r = c.tlc("evidence", "MCgen.cfg", module="MCgen", files=files, dump_to=dump, timeout=3000, workers=workers, tag=tag)
        must_hold(c, r, tag)
        e = dict(env0, EV_DUMP=dump, EV_MAXAGE_BLOCKS=ages[0], EV_MAXAGE_TICKS=ages[1], EV_STRIDE=stride)
        c.absorb(c.gotest("evidence", "TestVerifyReplay", env=e, timeout=3000, tag="replay " + tag))
        os.remove(dump)

    for inv in ("NothingAccepted", "NothingExpired"):
        files = mcgen("MC_EvidenceVerify", pairs1)
        files["MCgen.cfg"] = cfg_verify(top, AGES[0], [4], [2], [1], [1], [5, 6], [3], 1).replace("ACTION_CONSTRAINT Dump\n", "") + "INVARIANT %s\n" % inv
        must_fail(c, c.tlc("evidence", "MCgen.cfg", module="MCgen", files=files, timeout=900, workers=4, tag="reach " + inv), "verify", inv)

    # ------------------------------------------------------------------ MC_EvidencePool
    lists_full = "ListsV == {<<k>> : k \\in 1..12} \\cup {<<2,11>>, <<12,2>>, <<1,1>>, <<2,2>>, <<1,2>>, <<2,1>>, <<2,4>>, <<4,2>>, <<2,3>>, <<3,2>>}\n"
    lists_small = "ListsV == {<<1>>, <<2>>, <<3>>, <<6>>, <<9>>, <<11>>, <<2,12>>, <<2,2>>, <<1,2>>, <<4,2>>}\n"
    pruns = [
        # tag, ages, lists, l0, depth, stride
        ("pool-blocksbind", AGES[1], lists_full, 4, 4, 3 if quick else 1),
        ("pool-durbinds", AGES[0], lists_small, 3, 4, 2 if quick else 1),
    ]
    if th:
        pruns += [("pool-deep", AGES[1], lists_full, 4, 5, 2), ("pool-durbinds-deep", AGES[0], lists_full, 3, 5, 2)]
    for tag, ages, lists, l0, depth, stride in pruns:
        files = mcgen("MC_EvidencePool", ITEMS + lists)
        files["MCgen.cfg"] = cfg_pool(top, ages, lists, l0, depth)
        dump = os.path.join(c.scratch, tag + ".dump")
        r = c.tlc("evidence", "MCgen.cfg", module="MCgen", files=files, dump_to=dump, timeout=4000, workers=workers, tag=tag)
        must_hold(c, r, tag)
        e = dict(env0, EV_DUMP=dump, EV_MAXAGE_BLOCKS=ages[0], EV_MAXAGE_TICKS=ages[1], EV_STRIDE=stride)
        c.absorb(c.gotest("evidence", "TestPoolReplay", env=e, timeout=4000, tag="replay " + tag))
        os.remove(dump)

    for inv in ("NothingCommitted", "NoExpiredPending", "NoPruning", "NoRawRestated"):
        files = mcgen("MC_EvidencePool", ITEMS + lists_small)
        files["MCgen.cfg"] = cfg_pool(top, AGES[1], lists_small, 4, 5).replace("ACTION_CONSTRAINT Dump\n", "") + "INVARIANT %s\n" % inv
        must_fail(c, c.tlc("evidence", "MCgen.cfg", module="MCgen", files=files, timeout=900, workers=4, tag="reach " + inv), "pool", inv)

    # ------------------------------------------------------------------ MC_EvidenceNet on real nodes
    obs = "ObsV == {{1}, {2}, {1, 2, 3}}\n"
    files = mcgen("MC_EvidenceNet", "PropV == %s\n%s" % (tla(prop), obs))
    files["MCgen.cfg"] = cfg_net(top, AGES[0], "PropV", 5, [2, 3, 4], [1, 2, 3, 5], 2, 1)
    dump = os.path.join(c.scratch, "net.dump")
    r = c.tlc("evidence", "MCgen.cfg", module="MCgen", files=files, dump_to=dump, timeout=3000, workers=workers, tag="net")
    must_hold(c, r, "net")
    for inv in ("NoEvidenceInChain", "NoRestartWithPending"):
        f2 = dict(files)
        f2["MCgen.cfg"] = cfg_net(top, AGES[0], "PropV", 4, [2, 3], [1, 2], 1, 1).replace("ACTION_CONSTRAINT Dump\n", "") + "INVARIANT %s\n" % inv
        must_fail(c, c.tlc("evidence", "MCgen.cfg", module="MCgen", files=f2, timeout=900, workers=4, tag="reach " + inv), "net", inv)
    e = dict(env0, EV_DUMP=dump, EV_STRIDE=(5 if th else 83), EV_TAG="net")
    c.absorb(c.gotest("evidence", "TestNetReplay", env=e, timeout=5000, tag="real nodes: net"))
    os.remove(dump)

    if th:
        # three events per behaviour (no restart)
        files["MCgen.cfg"] = cfg_net(top, AGES[0], "PropV", 5, [2, 3, 4], [1, 2, 5], 3, 0)
        dump = os.path.join(c.scratch, "net3.dump")
        r = c.tlc("evidence", "MCgen.cfg", module="MCgen", files=files, dump_to=dump, timeout=3000, workers=workers, tag="net 3 events")
        must_hold(c, r, "net 3 events")
        e = dict(env0, EV_DUMP=dump, EV_STRIDE=6, EV_TAG="net-3-events")
        c.absorb(c.gotest("evidence", "TestNetReplay", env=e, timeout=5000, tag="real nodes: net 3 events"))
        os.remove(dump)
        # another rotation: unequal powers, static set
        power2, prop2 = world_info(c, WORLD2, "unequal powers")
        files2 = {"MCgen.tla": "---- MODULE MCgen ----\nEXTENDS MC_EvidenceNet\nPowerV == %s\nPropV == %s\n%s====\n" % (tla(power2), tla(prop2), obs)}
        files2["MCgen.cfg"] = cfg_net(WORLD2["top"], AGES[1], "PropV", 5, [2, 3, 4], [1, 2, 3, 5], 2, 1, byzs=(4,))
        dump = os.path.join(c.scratch, "net-w2.dump")
        r = c.tlc("evidence", "MCgen.cfg", module="MCgen", files=files2, dump_to=dump, timeout=3000, workers=workers, tag="net unequal powers")
        must_hold(c, r, "net unequal powers")
        e = dict(EV_WORLD=json.dumps(WORLD2), EV_DUMP=dump, EV_STRIDE=12, EV_TAG="net-unequal-powers")
        c.absorb(c.gotest("evidence", "TestNetReplay", env=e, timeout=5000, tag="real nodes: net unequal powers"))
        os.remove(dump)

    # the wall-clock world: private precommit before the equivocation
    power_w, prop_w = world_info(c, WORLD_WALL, "wall-clock")
    files = {"MCgen.tla": "---- MODULE MCgen ----\nEXTENDS MC_EvidenceNet\nPowerV == %s\nPropV == %s\nObsV == {{1}, {2}, {3}}\n====\n" %
             (tla(power_w), tla(prop_w))}
    # two (thorough: three) events per behaviour: the second equivocation comes while the pruning marks of the pool are
    # those the first one left behind (late precommits and votes of the height being decided, either offender)
    files["MCgen.cfg"] = cfg_net(WORLD_WALL["top"], (100000, 100000), "PropV", 5, [2, 3, 4], [2, 4], 2 if quick else 3, 0)
    dump = os.path.join(c.scratch, "net-wall.dump")
    r = c.tlc("evidence", "MCgen.cfg", module="MCgen", files=files, dump_to=dump, timeout=3000, workers=workers, tag="net wall-clock")
    must_hold(c, r, "net wall-clock")
    e = dict(EV_WORLD=json.dumps(WORLD_WALL), EV_DUMP=dump, EV_STRIDE=(4 if quick else 6), EV_TAG="net-wall-clock")
    c.absorb(c.gotest("evidence", "TestNetReplay", env=e, timeout=3000, tag="real nodes: net wall-clock"))
    os.remove(dump)
    c.exhaustive = True
