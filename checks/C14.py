"""C14 — consensus state survives a save/load round trip unchanged.
specs/cstore: CStateStore.tla (the store: Save / loadStateAtHeight / LoadValidators / LoadConsensusParams /
PruneState, updateState; instantiated as specified and as implemented), MC_CStateStore.tla (every chain of
states under a universe of validator-set change sets, every prune range, every read; per-transition dump).
ValidatorSet.tla is taken from specs/valset (single source for Increment/Update semantics).
harness/cstore: TestReplay (every dumped transition into the real cstate store; with CSTORE_OLD_BELOW an upgraded
old database), TestUpdateState (chain only; also usable by C12), TestApplyBlock (the same chains through the real
BlockExecutor.ApplyBlock), TestGenesisRestart (first start and restart on the real NewBlockChain path)."""
import os
from vlib import Infra, SPECS

VALSET = os.path.join(SPECS, "valset", "ValidatorSet.tla")
# development aid: C14_WORKERS=n limits TLC workers and Go replay workers (the registered check uses all cores)
WORKERS = int(os.environ.get("C14_WORKERS", "0") or 0) or None
# development aid: C14_ONLY=equal3,pairs restricts the replayed universes (and skips the vacuity check)
ONLY = [x for x in os.environ.get("C14_ONLY", "").split(",") if x]


def goenv(**kw):
    if WORKERS:
        kw["CSTORE_WORKERS"] = WORKERS
    return kw


def chs(*pairs):
    """one change set: chs((1, 5), (3, 0)) -> <<[a |-> 1, p |-> 5], [a |-> 3, p |-> 0]>>"""
    return "<<" + ", ".join("[a |-> %d, p |-> %d]" % (a, p) for a, p in pairs) + ">>"


def gen_module(initp, changesets, name="MCgen"):
    return ("---- MODULE %s ----\nEXTENDS MC_CStateStore\nInitP == <<%s>>\nChSets == {%s}\n====\n" %
            (name, ", ".join(map(str, initp)), ", ".join(changesets)))


def gen_cfg(params, maxblocks, maxprunes, invariants=("Inv",), dump=True, impl=(False, False, False, False, False), upgrade_at=0,
            initial_height=1):
    b = lambda x: "TRUE" if x else "FALSE"
    s = ("SPECIFICATION Spec\nCONSTANTS\n  Cap = 1000000\n  InitialHeight = %d\n  InitPowers <- InitP\n  ChangeSets <- ChSets\n  ParamsU = %s\n"
         "  MaxBlocks = %d\n  MaxPrunes = %d\n  ImplKey = %s\n  ImplPrune = %s\n  ImplLookups = %s\n  ImplGenesis = %s\n"
         "  ImplPerHeight = %s\n  ImplUpgradeAt = %d\nVIEW View\n") % (
        initial_height, params, maxblocks, maxprunes, b(impl[0]), b(impl[1]), b(impl[2]), b(impl[3]), b(impl[4]), upgrade_at)
    for i in invariants:
        s += "INVARIANT %s\n" % i
    if dump:
        s += "ACTION_CONSTRAINT Dump\n"
    return s


# The as-implemented instance of the specification (constants ImplKey, ImplPrune, ImplLookups, ImplGenesis, ImplPerHeight of
# MC_CStateStore) describes the code AS IT IS in the tree: it only classifies deviations (":key-collision" etc. versus
# ":unexplained"), it never excuses one.  AS_FOUND = the pinned code.  When the proposed repairs are committed
# (per-height records, LoadConsensusParams error, genesis join) switch CODE_MODEL to REPAIRED.
AS_FOUND = (False, False, False, False, False)
REPAIRED = (False, False, True, True, True)
CODE_MODEL = REPAIRED

# universes: tag -> (genesis powers, change sets, params universe,
#                    (blocks, prunes, stride) quick, (blocks, prunes, stride) thorough)
NONE = "<<>>"
UNIVERSES = [
    # equal powers: priorities differ from height to height although the membership never changes (the measured case);
    # power change and back, removal and re-addition (return to an earlier membership)
    ("equal3", (1, 1, 1), [NONE, chs((1, 5)), chs((1, 1)), chs((3, 0)), chs((3, 1))], "{1}", (5, 1, 1), (7, 1, 1)),
    # weighted set, a newcomer (address 4) entering at -(T + T/8), removal of the heaviest validator, unknown removal
    ("weighted", (3, 2, 1), [NONE, chs((1, 0)), chs((1, 3)), chs((4, 2)), chs((4, 0)), chs((2, 1))], "{1}", (4, 1, 1), (6, 1, 1)),
    # two changes in one block, swap of a member, emptying the set (rejected), removal of every possible proposer
    ("pairs", (2, 1), [NONE, chs((1, 0), (3, 4)), chs((3, 0), (1, 2)), chs((1, 0), (2, 0)), chs((2, 0)), chs((2, 1)), chs((3, 1))],
     "{1}", (4, 1, 1), (5, 1, 1)),
    ("four", (1, 1, 1, 1), [NONE, chs((1, 0)), chs((2, 0)), chs((3, 0)), chs((4, 0)), chs((1, 1), (2, 1), (3, 1), (4, 1))], "{1}",
     (4, 1, 1), (5, 2, 1)),
    # params extension: a block may switch the consensus params (the code has no such block; Save takes any state)
    ("params", (2, 1), [NONE, chs((2, 2)), chs((2, 1))], "{1, 2, 3}", (3, 1, 1), (4, 1, 1)),
]

# the invariants of C14 evaluated on the AS-IMPLEMENTED instance: TLC must refute them (shortest histories);
# (invariant, universe tag, blocks needed)
NEGATIVE = [
    ("ImplLoadEqualsSaved", "equal3", 1),       # genesis alone: Validators come back with NextValidators' priorities
    ("ImplTotal", "equal3", 1),                 # LoadConsensusParams(unknown height) panics
    ("ImplLoadsAtHead", "equal3", 5),           # A B B B A + prune: Load() at the head panics
    ("ImplHistoricalValidators", "equal3", 5),  # a kept height below the pruned range loses its set
    ("ImplPruneKeepsNeeded", "equal3", 5),
]

REQUIRED_SCRIPTS = ["static", "consecutive-changes", "return-to-earlier-membership", "power-only-change",
                    "removal-of-next-proposer", "prune", "blocks-after-prune", "rejected-change-set"]


def tlc_dump(c, tag, initp, changesets, params, blocks, prunes, dump, upgrade_at=0, initial_height=1):
    files = {"MCgen.tla": gen_module(initp, changesets), "ValidatorSet.tla": VALSET,
             "MCgen.cfg": gen_cfg(params, blocks, prunes, dump=dump is not None, impl=CODE_MODEL, upgrade_at=upgrade_at,
                                  initial_height=initial_height)}
    r = c.tlc("cstore", "MCgen.cfg", module="MCgen", files=files, dump_to=dump, timeout=5400, workers=WORKERS,
              tag="MC_CStateStore %s blocks<=%d prunes<=%d%s" % (tag, blocks, prunes, "" if dump else " (invariants only)"))
    if r.violated:
        # the as-specified store violates C14 in the model: the specification is wrong, never a verdict on the code
        raise Infra("specification invariant %s violated in %s\n%s" % (r.violated, tag, c.tlc_tail(r, 60)))
    if not r.ok:
        raise Infra("TLC failed on %s: %s\n%s" % (tag, r.error, c.tlc_tail(r)))
    return r


def run_updatestate(c, thorough=False):
    """The updateState clause of C12 (rotation advanced AFTER the change set is applied): real cstate.updateState
    against IncrementOp(UpdateOp(NextValidators, changes), 1) for every TLC-chosen change set (chains without prunes).
    Callable from checks/C12.py:  from checks.C14 import run_updatestate; run_updatestate(c, c.tier == "thorough")"""
    for tag, initp, changesets, params, q, t in UNIVERSES[:4]:
        blocks = (t if thorough else q)[0]
        dump = os.path.join(c.scratch, "cstore-us-%s.dump" % tag)
        tlc_dump(c, tag + " (chains only)", initp, changesets, "{1}", blocks, 0, dump)
        g = c.gotest("cstore", "TestUpdateState", env=goenv(CSTORE_DUMP=dump, CSTORE_INIT=",".join(map(str, initp))),
                     timeout=3000, tag="updateState " + tag)
        c.absorb(g)
        os.remove(dump)


def run(c):
    th = c.tier == "thorough"
    c.rule = ("every transition of MC_CStateStore — chains of consensus states produced by the specification's updateState "
              "from a genesis set under a universe of change sets (none, power change and back, removal and re-addition, "
              "newcomer, two changes per block, removal of each possible next proposer, rejected sets), PruneState over every "
              "range with to <= head at every point, blocks after a prune — is replayed from an empty database into the real "
              "code: LoadStateFromDBOrGenesisDoc, real updateState per block (compared with Increment(Update(NextValidators)) "
              "and the rotation of the three sets), real Save and PruneState, random restarts, then a NEW store object and "
              "Load() at the head, Load() after the head pointer has been rewound to each lower height (head repair after an "
              "unclean shutdown), LoadValidators / LoadConsensusParams at every height 0..head+1, "
              "compared field by field with the specification (last block id, time, app hash, params, the three sets with "
              "every ProposerPriority and GetProposer; members and powers of historical sets; error instead of panic for "
              "unknown heights); every 4th history is run a second time with voting powers * (2^40+12345), where every set a read "
              "returns must be one of the sets that were saved. The same histories (where expressible) go through the real "
              "BlockExecutor.ApplyBlock with validly signed blocks. Non-trivial = the history contains a validator-set change, "
              "a rejected change set or a prune.")
    c.assumptions = [
        "the block store around the consensus-state store (block meta, head pointer, app hash per height) is written by the "
        "driver with the same rawdb functions the node uses (WriteBlock, WriteHeadBlockHash, WriteAppHash); the real "
        "BlockOperations sequence is not exercised here",
        "blocks carry no transactions and placeholder commit signatures on the store-level path (nothing on it verifies them); "
        "the ApplyBlock path uses validly signed commits",
        "validator addresses are 20-byte encodings of 1..4, powers < 64 (TLC integers); kaidb/memorydb is the database",
        "the key of a consensus-params record (last 32 bytes of its encoding) is treated as injective: true for the params "
        "values used, not for arbitrarily large field values",
    ]
    scripts = {}
    complete = True
    for tag, initp, changesets, params, q, t in UNIVERSES:
        if ONLY and tag not in ONLY:
            continue
        blocks, prunes, stride = t if th else q
        dump = os.path.join(c.scratch, "cstore-%s.dump" % tag)
        tlc_dump(c, tag, initp, changesets, params, blocks, prunes, dump)
        g = c.gotest("cstore", "TestReplay", env=goenv(CSTORE_DUMP=dump, CSTORE_INIT=",".join(map(str, initp)),
                     CSTORE_STRIDE=stride), timeout=5400, tag="replay " + tag)
        if stride > 1:
            complete = False
        for k, v in (g.get("extra") or {}).items():
            if k.startswith("script:"):
                scripts[k[7:]] = scripts.get(k[7:], 0) + int(v)
            elif k.startswith(("info_", "lockstep_")):
                c.extra[tag + ":" + k] = v
        g["extra"] = {"mismatch_counts:" + tag: (g.get("extra") or {}).get("mismatch_counts", {})}
        c.absorb(g)
        os.remove(dump)
    c.extra["script_classes_replayed"] = scripts
    missing = [s for s in REQUIRED_SCRIPTS if scripts.get(s, 0) == 0]
    if missing and not ONLY:
        raise Infra("vacuity: no replayed history of class %s" % missing)

    # the same chains through the real BlockExecutor.ApplyBlock (validation, calculateValidatorSetUpdates, updateState, Save)
    tag, initp, changesets, params, q, t = UNIVERSES[0]
    dump = os.path.join(c.scratch, "cstore-ab.dump")
    tlc_dump(c, tag + " (for ApplyBlock)", initp, changesets, "{1}", 5 if th else 4, 1, dump)
    g = c.gotest("cstore", "TestApplyBlock", env=goenv(CSTORE_DUMP=dump, CSTORE_INIT=",".join(map(str, initp)),
                 CSTORE_STRIDE=1), timeout=5400, tag="ApplyBlock " + tag)
    g["extra"] = {"mismatch_counts:applyblock": (g.get("extra") or {}).get("mismatch_counts", {})}
    c.absorb(g)
    os.remove(dump)

    # a database whose first heights were written by the code before the per-height records (upgrade): the states the
    # repaired code saved itself must round-trip exactly, the older ones must behave exactly as the as-implemented
    # instance with UpgradeAt = 2 says ("as before"), in particular PruneState's rule for the hash-addressed records
    if CODE_MODEL == REPAIRED:
        tag, initp, changesets, params, q, t = UNIVERSES[0]
        dump = os.path.join(c.scratch, "cstore-old.dump")
        tlc_dump(c, tag + " (old database below height 2)", initp, changesets, "{1}", 6 if th else 4, 1, dump, upgrade_at=2)
        g = c.gotest("cstore", "TestReplay", env=goenv(CSTORE_DUMP=dump, CSTORE_INIT=",".join(map(str, initp)), CSTORE_OLD_BELOW=2),
                     timeout=5400, tag="old database " + tag)
        for k, v in (g.get("extra") or {}).items():
            if k.startswith("olddb_"):
                c.extra[k] = v
        g["extra"] = {"mismatch_counts:olddb": (g.get("extra") or {}).get("mismatch_counts", {})}
        c.absorb(g)
        os.remove(dump)

    # a genesis document with initial_height 5: the two "last changed" heights of the genesis state are 5 while the store
    # keeps working with LastBlockHeight-relative heights (genesis Validators = the set of height 1); same replay
    tag, initp, changesets, params, q, t = UNIVERSES[0]
    dump = os.path.join(c.scratch, "cstore-ih.dump")
    tlc_dump(c, tag + " (InitialHeight 5)", initp, changesets, "{1}", 6 if th else 4, 1, dump, initial_height=5)
    g = c.gotest("cstore", "TestReplay", env=goenv(CSTORE_DUMP=dump, CSTORE_INIT=",".join(map(str, initp)), CSTORE_IH=5),
                 timeout=5400, tag="replay %s, InitialHeight 5" % tag)
    g["extra"] = {"mismatch_counts:initial-height-5": (g.get("extra") or {}).get("mismatch_counts", {})}
    c.absorb(g)
    os.remove(dump)

    # the Start transition (history <<>>) on the real start-up path: NewBlockChain + LoadStateFromDBOrGenesisDoc, twice
    g = c.gotest("cstore", "TestGenesisRestart", env=goenv(), timeout=1800, tag="real genesis, restart before block 1")
    g["extra"] = {"mismatch_counts:genesis-restart": (g.get("extra") or {}).get("mismatch_counts", {})}
    c.absorb(g)

    uni = {u[0]: u for u in UNIVERSES}
    # the invariants alone (no dump) on a larger bound than the one that is replayed
    if th:
        _, initp, changesets, params, _, _ = uni["equal3"]
        tlc_dump(c, "equal3", initp, changesets, params, 7, 2, None)

    # the design of the proposed repair (per-height records next to the hash-addressed ones, fallback, prune rule):
    # everything C14 states must hold on that instance, for every chain and prune range
    _, initp, changesets, params, _, _ = uni["equal3"]
    files = {"MCgen.tla": gen_module(initp, changesets), "ValidatorSet.tla": VALSET,
             "MCgen.cfg": gen_cfg(params, 6 if th else 4, 2 if th else 1, invariants=("Inv", "ImplInv"), dump=False, impl=REPAIRED)}
    r = c.tlc("cstore", "MCgen.cfg", module="MCgen", files=files, timeout=3600, workers=WORKERS, tag="model of the proposed repair: ImplInv")
    if not r.ok:
        raise Infra("the model of the proposed repair violates %s (%s)\n%s" % (r.violated, r.error, c.tlc_tail(r, 60)))
    c.extra["proposed_repair_model"] = "Inv and ImplInv hold (%d states)" % r.distinct
    files["MCgen.cfg"] = gen_cfg(params, 6 if th else 4, 1, invariants=("ImplUpgradeInv",), dump=False, impl=REPAIRED, upgrade_at=2)
    r = c.tlc("cstore", "MCgen.cfg", module="MCgen", files=files, timeout=3600, workers=WORKERS,
              tag="model of the proposed repair taking over an old database at height 2: ImplUpgradeInv")
    if not r.ok:
        raise Infra("the model of the proposed repair (upgrade) violates %s (%s)\n%s" % (r.violated, r.error, c.tlc_tail(r, 60)))

    # negative control of the invariants / design-level finding at model level: the instance AS FOUND must violate them
    shown = {}
    for inv, tag, blocks in NEGATIVE if th else NEGATIVE[:3]:
        _, initp, changesets, params, _, _ = uni[tag]
        files = {"MCgen.tla": gen_module(initp, changesets), "ValidatorSet.tla": VALSET,
                 "MCgen.cfg": gen_cfg(params, blocks, 1, invariants=(inv,), dump=False, impl=AS_FOUND)}
        r = c.tlc("cstore", "MCgen.cfg", module="MCgen", files=files, timeout=1800, workers=WORKERS,
                  tag="as implemented: " + inv)
        if r.violated != inv:
            raise Infra("the as-implemented instance no longer violates %s (violated=%s error=%s): the model of the code "
                        "as found has changed\n%s" % (inv, r.violated, r.error, c.tlc_tail(r)))
        shown[inv] = "violated at depth <= %d" % (blocks + 2)
    c.extra["as_implemented_model_violates"] = shown
    c.exhaustive = complete
