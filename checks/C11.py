"""C11 — signatures bind signer and full content of votes, proposals and transactions.
specs/sig: SigAlgebra.tla (what the signed bytes cover + every acceptance path of the code over
the Dolev-Yao algebra), MC_SigCons (votes / proposals), MC_SigTx (transactions): TLC enumerates
(original, mutations, presented signer, signature form) and the expected verdict of every path;
harness/sig replays each case into the real signing and verification code."""
import os, random
from vlib import Infra

CONS_FORMS = "ConsForms"
TX_FORMS = "TxForms"


def base_cons(seed):
    r = random.Random(seed * 1009 + 11)
    f = {k: r.randrange(3) for k in ("chain", "h", "r", "pol", "bh", "pt", "ph", "ts")}
    f["k"] = 1 + r.randrange(3)
    # a complete block id in the centre, so that the wire decoders are passed by most originals
    f["bh"] = 1 + r.randrange(2)
    f["ph"] = 1 + r.randrange(2)
    return ('[type |-> "prevote", chain |-> %(chain)d, h |-> %(h)d, r |-> %(r)d, pol |-> %(pol)d, bh |-> %(bh)d, '
            'pt |-> %(pt)d, ph |-> %(ph)d, ts |-> %(ts)d, k |-> %(k)d]') % f


def base_tx(seed):
    r = random.Random(seed * 2003 + 5)
    f = {k: r.randrange(3) for k in ("nonce", "price", "gas", "to", "value", "data")}
    f["k"] = 1 + r.randrange(3)
    return ('[nonce |-> %(nonce)d, price |-> %(price)d, gas |-> %(gas)d, to |-> %(to)d, value |-> %(value)d, '
            'data |-> %(data)d, k |-> %(k)d, ss |-> 1, meth |-> "hash"]') % f


def gen(base_module, name, base, extra=""):
    return {name + ".tla": "---- MODULE %s ----\nEXTENDS %s\nBaseV == %s\n%s\n====\n" % (name, base_module, base, extra)}


def cfg_cons(radius, maxmut, dump=True, type_signed=True, invariants=("Binding", "TypeBound", "Complete")):
    s = ("SPECIFICATION Spec\nCONSTANTS\n  VoteTypeSigned = %s\n  SignTxUsesSignerHash = TRUE\n  Base <- BaseV\n"
         "  OrigRadius = %d\n  MaxMut = %d\n  Forms <- %s\nVIEW View\n") % (
        "TRUE" if type_signed else "FALSE", radius, maxmut, CONS_FORMS)
    s += "".join("INVARIANT %s\n" % i for i in invariants)
    if dump:
        s += "ACTION_CONSTRAINT Dump\n"
    return s


def cfg_tx(radius, maxmut, dump=True, signer_hash=True,
           invariants=("Binding", "ChainBound", "Malleable", "FailConsistent", "RoundTrip", "UnprotectedEverywhere")):
    s = ("SPECIFICATION Spec\nCONSTANTS\n  VoteTypeSigned = TRUE\n  SignTxUsesSignerHash = %s\n  Base <- BaseV\n"
         "  OrigRadius = %d\n  MaxMut = %d\n  Forms <- %s\n  Chains <- ChainsV\nVIEW View\n") % (
        "TRUE" if signer_hash else "FALSE", radius, maxmut, TX_FORMS)
    s += "".join("INVARIANT %s\n" % i for i in invariants)
    if dump:
        s += "ACTION_CONSTRAINT Dump\n"
    return s


def run(c):
    th = c.tier == "thorough"
    c.rule = ("TLC enumerates, for consensus messages (MC_SigCons) and transactions (MC_SigTx), an honestly signed original "
              "with every field over a 3-value domain (originals within a Hamming radius of a seed-chosen centre in the quick "
              "tier, the full product in the thorough tier (every 3rd / 2nd transition replayed); all message kinds / signers / signing methods at every radius) and "
              "every presentation of its signature after 1 mutation (2 around the centre; 3 in the thorough tier): any content field, the message type "
              "(prevote / precommit / proposal in all directions), the verifier's chain id or signer, the claimed signer "
              "(address, index, both; expected proposer), the chain marker in V, and 17 / 15 forms of the signature bytes "
              "(high-s twin, r/s = 0 or >= N, wrong recovery ids, wrong lengths, zero, seeded random 65-byte strings, ...). "
              "Each case is made concrete through one of four concretisation tables (zero values / near-collisions / extremes "
              "of the Go types / seeded random; six tables in the thorough tier), the original is signed with the real code "
              "(DefaultPrivValidator.SignVote/SignProposal, types.SignTx, signer.Hash+crypto.Sign+WithSignature), the presented "
              "message is built around the same signature bytes and offered to types.VerifySignature / crypto.VerifySignature "
              "over the sign bytes, Vote.Verify, VoteSet.AddVote, HeightVoteSet.AddVote, ValidatorSet.VerifyCommit, "
              "evidence.VerifyDuplicateVote, the consensus wire codec + ValidateBasic, the real setProposal, types.Sender on "
              "the built / RLP-decoded / sender-cached transaction, Transaction.AsMessage and a real TxPool; accepted <=> the "
              "algebra says so; a double mutation that only repeats a single-mutation finding is reported under the single "
              "mutation's signature; "
              "a panic is a mismatch.  evaluations = concrete cases executed (all paths each); non-trivial = the presentation "
              "is not the unmutated original")
    c.assumptions = [
        "secp256k1 / keccak256 are unforgeable and collision free (Dolev-Yao: a signature is the pair (key, bytes))",
        "three abstract values per field, made concrete through four tables; field values outside the tables are not tried",
        "vote/proposal signature values that are twins of the honest one (high-s, compressed-key flag, trailing bytes) may be "
        "accepted or rejected (C11 demands rejection of malleable values for transactions only); they must still bind "
        "message and signer",
        "unprotected (V = 27/28) transactions are accepted under every ChainIDSigner, as the code documents; chain id 0 is "
        "treated as the code treats it (not replay protected)",
    ]
    seed = c.seed
    chains = "ChainsV == 0..3"

    # ---- sensitivity of the invariants: the two repaired deviations must violate them on the model
    for tag, base_mod, files, cfg, want in [
        ("cons as found before fix 55e88ca (vote type unsigned)", "MC_SigCons", gen("MC_SigCons", "MCneg", base_cons(seed)),
         cfg_cons(1, 1, dump=False, type_signed=False, invariants=("TypeBound",)), "TypeBound"),
        ("tx as found before fix 6c7ba1a (SignTx ignores signer.Hash)", "MC_SigTx", gen("MC_SigTx", "MCneg", base_tx(seed), chains),
         cfg_tx(1, 1, dump=False, signer_hash=False, invariants=("RoundTrip",)), "RoundTrip"),
    ]:
        files["MCneg.cfg"] = cfg
        r = c.tlc("sig", "MCneg.cfg", module="MCneg", files=files, timeout=600, tag=tag, workers=4)
        if r.violated != want:
            raise Infra("%s: expected a violation of %s, got violated=%s error=%s\n%s" % (tag, want, r.violated, r.error, c.tlc_tail(r)))
        # these two runs stop at the counterexample: not part of the exhaustive claim, not counted
        c.tlc_runs[-1]["expected_violation"] = want
        c.states -= r.distinct
        c.transitions -= r.generated

    # ---- consensus messages and transactions: (tag, radius, mutations, tables, replay stride)
    #   quick:    radius 3 (consensus messages) / 2 (transactions) x 1 mutation, the centre x 2 mutations, one table
    #             per case (rotating)
    #   thorough: the full product x 1 mutation (model-checked completely; every 3rd / 2nd transition, offset by the
    #             seed, is replayed), radius 1 x 2 mutations, the centre x 3 mutations (one of six tables per case,
    #             rotating) and radius 2 x 1 mutation on all six tables
    if th:
        cons_runs = [("cons-full", 9, 1, "rot", 3), ("cons-d1", 2, 1, "all", 1), ("cons-d2", 1, 2, "rot", 1), ("cons-d3", 0, 3, "rot", 1)]
        tx_runs = [("tx-full", 7, 1, "rot", 2), ("tx-d1", 2, 1, "all", 1), ("tx-d2", 1, 2, "rot", 1), ("tx-d3", 0, 3, "rot", 1)]
    else:
        cons_runs = [("cons-d1", 3, 1, "rot", 1), ("cons-d2", 0, 2, "rot", 1)]
        tx_runs = [("tx-d1", 2, 1, "rot", 1), ("tx-d2", 0, 2, "rot", 1)]
    for kind, runs in (("cons", cons_runs), ("tx", tx_runs)):
        for tag, radius, maxmut, tabs, stride in runs:
            if kind == "cons":
                files = gen("MC_SigCons", "MCgen", base_cons(seed))
                files["MCgen.cfg"] = cfg_cons(radius, maxmut)
            else:
                files = gen("MC_SigTx", "MCgen", base_tx(seed), chains)
                files["MCgen.cfg"] = cfg_tx(radius, maxmut)
            dump = os.path.join(c.scratch, tag + ".dump")
            r = c.tlc("sig", "MCgen.cfg", module="MCgen", files=files, dump_to=dump, timeout=3000, tag=tag)
            if r.violated:
                raise Infra("specification invariant %s violated in %s\n%s" % (r.violated, tag, c.tlc_tail(r)))
            if not r.ok:
                raise Infra("TLC failed on %s: %s\n%s" % (tag, r.error, c.tlc_tail(r)))
            env = dict(SIG_DUMP=dump, SIG_TABLES=tabs, SIG_TAG=":" + tag, SIG_STRIDE=stride,
                       SIG_DEPTH2=("1" if maxmut > 1 else ""))
            g = c.gotest("sig", "TestCons" if kind == "cons" else "TestTx", env=env, timeout=3000, tag="replay " + tag)
            c.absorb(g)
            if tag in ("tx-d1", "tx-full"):
                g = c.gotest("sig", "TestPool", env=env, timeout=3000, tag="pool " + tag)
                c.absorb(g)
            os.remove(dump)
    c.exhaustive = True
