"""C01 — agreement.  Two layers joined by C03:
 (1) specs/bft/KardiaBFT.tla: obligation-level model; TLC decides Agreement exhaustively for every behaviour of
     correct validators that respect the C03 obligations against a maximal Byzantine adversary (< 1/3 power);
 (2) real networks of ConsensusState nodes (harness/node net driver) under seeded adversarial schedules with a
     Byzantine validator played by the driver: the real block stores must agree, and every run is explained
     step by step by the handler-level specification (KardiaNodeTrace) whose invariants include Agreement and
     the C03 obligations on the real signature logs."""
import os
from vlib import Infra

BFT = {
 # name: (module text, cfg text)
 "eq3+1": ("CONSTANTS a, b, c, A, B\nCP == {<<a, 1>>, <<b, 1>>, <<c, 1>>}\nSym == Permutations({a, b, c}) \\cup Permutations({A, B})\n",
           "  a = a\n  b = b\n  c = c\n  A = A\n  B = B\n  Corr = {a, b, c}\n  CPower <- CP\n  ByzPower = 1\n  Blocks = {A, B}\n"),
 "w322+3": ("CONSTANTS a, b, c, A, B\nCP == {<<a, 3>>, <<b, 2>>, <<c, 2>>}\nSym == Permutations({b, c}) \\cup Permutations({A, B})\n",
            "  a = a\n  b = b\n  c = c\n  A = A\n  B = B\n  Corr = {a, b, c}\n  CPower <- CP\n  ByzPower = 3\n  Blocks = {A, B}\n"),
 "w2221+2": ("CONSTANTS a, b, c, d, A, B\nCP == {<<a, 2>>, <<b, 2>>, <<c, 2>>, <<d, 1>>}\nSym == Permutations({a, b, c}) \\cup Permutations({A, B})\n",
             "  a = a\n  b = b\n  c = c\n  d = d\n  A = A\n  B = B\n  Corr = {a, b, c, d}\n  CPower <- CP\n  ByzPower = 2\n  Blocks = {A, B}\n"),
}

def bft(c, name, rounds, binds=True, inv="Agreement", timeout=3000):
    mod, consts = BFT[name]
    files = {"MCgen.tla": "---- MODULE MCgen ----\nEXTENDS KardiaBFT\n%s====\n" % mod,
             "MCgen.cfg": "SPECIFICATION Spec\nCONSTANTS\n%s  MaxRound = %d\n  SigBindsType = %s\nSYMMETRY Sym\nINVARIANT %s\n" %
                          (consts, rounds, "TRUE" if binds else "FALSE", inv)}
    return c.tlc("bft", "MCgen.cfg", module="MCgen", files=files, timeout=timeout, tag="KardiaBFT %s rounds=%d %s%s" %
                 (name, rounds, inv, "" if binds else " SigBindsType=FALSE"))

def wrr(powers, n):
    """weighted round-robin proposer sequence (the model is parametric in ProposerOf; any fair table will do)"""
    pr = [0] * len(powers)
    out = []
    for _ in range(n):
        pr = [a + b for a, b in zip(pr, powers)]
        i = max(range(len(powers)), key=lambda k: (pr[k], -k))
        pr[i] -= sum(powers)
        out.append(i + 1)
    return out

KNET = {
 # name: (powers, correct identities, Byzantine block ids)
 "eq3+1":  ((1, 1, 1, 1), (1, 2, 3), '{"Z", "X"}'),
 "w322+2": ((3, 2, 2, 2), (1, 2, 3), '{"Z"}'),
 "eq4+1of5":  ((1, 1, 1, 1, 1), (1, 2, 3, 5), '{"Z"}'),
}

def knet(c, name, num, depth=120, inv=("Agreement", "Validity", "C03", "NeverLocksInvalid"), maxround=2, timeout=1500, seed=None):
    """KardiaNet.tla: correct validators running the KardiaNode HANDLERS, asynchronous network, Byzantine validators with
    < 1/3 of the power; weighted random walks (TLC -simulate)."""
    powers, corr, bids = KNET[name]
    blocks = " ELSE ".join('IF n = %d THEN "B%d"' % (i, i) for i in corr) + ' ELSE "B0"'
    files = {"MCgen.tla": ("---- MODULE MCgen ----\nEXTENDS KardiaNet\nPowerV == [h \\in 1..2 |-> <<%s>>]\nPropV == << <<%s>> >>\n"
                           "BlockV == [n \\in {%s} |-> %s]\n====\n") % (
                 ", ".join(map(str, powers)), ", ".join(map(str, wrr(powers, 4 * len(powers)))), ", ".join(map(str, corr)), blocks),
             "MCgen.cfg": ("SPECIFICATION Spec\nCONSTANTS\n  N = %d\n  PowerAt <- PowerV\n  ProposerOf <- PropV\n  InvalidBids = {\"X\"}\n"
                           "  SkipTimeoutCommit = FALSE\n  WaitForTxs = FALSE\n  Corr = {%s}\n  ByzBids = %s\n  BlockOf <- BlockV\n"
                           "  MaxRound = %d\n  UseDie = TRUE\nCONSTRAINT Bounded\nVIEW View\n%s") % (
                 len(powers), ", ".join(map(str, corr)), bids, maxround, "".join("INVARIANT %s\n" % i for i in inv))}
    return c.tlc("node", "MCgen.cfg", module="MCgen", files=files, timeout=timeout, simulate="num=%d" % num, depth=depth,
                 seed=(seed if seed is not None else c.seed * 1000 + 7), tag="KardiaNet %s walks %s" % (name, "+".join(inv)))

def net_runs(c, cfgs, runs, prop_sigs):
    """Real network runs + trace validation.  prop_sigs: signature prefixes that count for this property."""
    import json
    for name in cfgs:
        d = os.path.join(c.scratch, "net-" + name)
        g = c.gotest("node", "TestNetRecord", env=dict(NET_CFG=name, NET_RUNS=runs, NET_DIR=d), timeout=3000, tag="net " + name)
        files = (g.get("extra") or {}).get("trace_files") or []
        # keep only this property's direct verdicts (agreement of stores / liveness / panic)
        g["mismatches"] = [m for m in (g.get("mismatches") or []) if m["sig"].startswith(tuple(prop_sigs)) or m["sig"].startswith("infra:")]
        c.absorb(g)
        res = c.validate_traces("node", "KardiaNodeTrace", "KardiaNodeTrace.cfg", files, tag="KardiaNodeTrace " + name)
        for r in res:
            base = os.path.basename(r["path"])
            for d in r.get("deviations") or []:
                # named deviations of the trace specification (tolerated there so that the rest of the run is validated)
                c.report("node:restart:%s" % d, "real run %s: %s (see KardiaNodeTrace.tla RestartStep)" % (base, d), dict(trace=base))
            if r["accepted"]:
                continue
            if r["violated"]:
                c.report("node:trace:%s:%s" % (r["violated"], name),
                         "invariant %s is false on the explained trace of real run %s" % (r["violated"], base), dict(trace=base))
            elif r["rejected"]:
                c.report("node:trace-rejected:%s" % name,
                         "real run %s is not a behaviour of the handler-level specification: %s" % (base, r["diag"][:1500]),
                         dict(trace=base, diag=r["diag"]))
            else:
                raise Infra("trace validation of %s failed: %s" % (base, r["error"] or ("timeout" if r["timed_out"] else "?")))

def run(c):
    th = c.tier == "thorough"
    c.rule = ("(1) KardiaBFT: exhaustive TLC search per configuration (powers, Byzantine power < 1/3, rounds); "
              "(2) seeded real network runs (3-7 real nodes, random delivery order, drops, early timeouts, a Byzantine "
              "validator equivocating on votes and proposals, invalid proposals; configurations with validator-set changes over 7 "
              "heights and with restarts of correct nodes), each checked for equal block stores and "
              "validated event by event by TLC against KardiaNodeTrace (Agreement + C03 invariants); evaluations = handler "
              "steps executed on real nodes; non-trivial = the run went beyond round 1")
    c.assumptions = ["C03 (the per-validator obligations hold for the real handlers) joins the two layers; signatures bind "
                     "the vote type (C11; KardiaBFT with SigBindsType=FALSE violates Agreement)",
                     "trace specification models vote sets without peer majority claims: traces are validated up to the "
                     "first VoteSetMaj23-style claim the driver's gossip makes in the synchronous suffix"]
    # layer 1
    for name in BFT:
        if name == "w2221+2" and not th:
            continue      # 2.7 M states: thorough tier
        r = bft(c, name, 3 if (th and name == "eq3+1") else 2)
        if r.violated:
            raise Infra("Agreement violated in the obligation-level model %s:\n%s" % (name, c.tlc_tail(r, 80)))
        if not r.ok:
            raise Infra("TLC failed on KardiaBFT %s: %s\n%s" % (name, r.error, c.tlc_tail(r)))
    # non-vacuity: commits and unlocks are reachable; an unsigned vote type breaks agreement
    for inv in ("NoCommit", "NoUnlock"):
        r = bft(c, "eq3+1", 2, inv=inv)
        if r.violated != inv:
            raise Infra("reachability companion %s was not violated (vacuous model?)" % inv)
    r = bft(c, "eq3+1", 2, binds=False)
    if r.violated != "Agreement":
        raise Infra("KardiaBFT with SigBindsType=FALSE should violate Agreement")
    c.states -= 0
    # layer 1b: the same question for the HANDLERS (KardiaNode.tla, which the replay binds to the code) in a network:
    # weighted random walks; no FaultGuard - the deviation named in MC_NodeEnv is unreachable under the fault assumption
    for name in (KNET if th else ("eq3+1", "w322+2")):
        r = knet(c, name, (250 if th else 20))
        if r.violated:
            raise Infra("%s violated in the handler-level network model KardiaNet %s:\n%s" % (r.violated, name, c.tlc_tail(r, 120)))
        if not r.ok:
            raise Infra("TLC failed on KardiaNet %s: %s\n%s" % (name, r.error, c.tlc_tail(r)))
    for inv in ("NoDecision", "NoLockCarried"):
        r = knet(c, "eq3+1", 4000, inv=(inv,))
        if r.violated != inv:
            raise Infra("KardiaNet reachability companion %s was not violated within the walk budget (vacuous model?)" % inv)
    # the join: the per-validator obligations hold for the real handlers (C03's binding, reduced scale here),
    # and a commit is accepted as justifying a block only with +2/3 for-block precommits (C02's VerifyCommit
    # enumeration for one vector) — block sync adopts a block exactly when VerifyCommit accepts its commit
    import checks.nodecommon as nc, checks.C02 as c02
    table = nc.proposer_table(c)
    d = nc.env_bfs(c, table, 2, 2, "join: bfs2-prefixes", prefixes=True)
    g = c.gotest("node", "TestEnvReplay", env=dict(NODE_DUMP=d, NODE_ME=2, NODE_STRIDE=(4 if th else 40)), timeout=6000,
                 tag="join: replay of MC_NodeEnv transitions on a real node")
    c.absorb(g)
    os.remove(d)
    files = c02.mc_files("MC_Commit", "MCc", (1, 1, 1, 1))
    files["MCc.cfg"] = ("SPECIFICATION Spec\nCONSTANTS\n  Power <- PowerV\n  Blocks = %s\n  Peers = {\"p1\"}\n"
                        "INVARIANT Sound\nINVARIANT Completeness\nACTION_CONSTRAINT Dump\n") % c02.BLOCKS
    d = os.path.join(c.scratch, "join-commit.dump")
    r = c.tlc("voteset", "MCc.cfg", module="MCc", files=files, dump_to=d, timeout=1200, tag="join: MC_Commit (1,1,1,1)")
    if not r.ok:
        raise Infra("TLC failed on MC_Commit: %s %s" % (r.violated, r.error))
    g = c.gotest("voteset", "TestCommit", env=dict(VS_DUMP=d, VS_POWER="1,1,1,1"), timeout=1200, tag="join: VerifyCommit enumeration")
    c.absorb(g)
    os.remove(d)
    # the block-sync clause: a node that catches up by block sync only adopts blocks correct validators committed
    import checks.blocksync as bs
    bs.run_part(c)
    # layer 2
    cfgs = ["4eq-byz", "4w-byz", "4eq-byz2", "5eq-byz"] + (["5w-byz", "7eq-byz2", "3eq-nobyz", "4eq-calm"] if th else ["7eq-byz2"])
    net_runs(c, cfgs, 40 if th else 5, ("net:agreement", "net:panic"))
    # many heights with validator-set changes (power raised, a correct validator removed and re-added, the Byzantine
    # validator's power changed), with restarts of correct nodes, and the default configuration (WaitForTxs)
    net_runs(c, ["4eq-change", "5w-change-restart", "4eq-byz-leaves"] + (["4eq-wait", "4w-wait-restart"] if th else []), 40 if th else 4,
             ("net:agreement", "net:panic"))
    if th:
        # real reactor networks (all nodes correct): agreement of the stores and trace validation against the handlers
        import checks.reactornet as rn
        rn.run_part(c, prop_sigs=("reactornet:agreement", "reactornet:panic", "reactornet:trace"))
    c.exhaustive = False
