"""C02 — quorum certificates are sound.  specs/voteset: VoteSet.tla (types/vote_set.go,
ValidatorSet.VerifyCommit), MC_VoteSet (exhaustive + per-transition dump), MC_Commit (every
abstract commit), VoteSetTrace (traces of random real runs)."""
import os
from vlib import Infra

BLOCKS = '{"A", "B", "nil"}'

def mc_files(base, name, powers):
    return {name + ".tla": "---- MODULE %s ----\nEXTENDS %s\nPowerV == <<%s>>\n====\n" %
            (name, base, ", ".join(str(p) for p in powers))}

def cfg_voteset(powers, sigvars, ikinds, maxops, peers='{"p1"}'):
    return ("SPECIFICATION Spec\nCONSTANTS\n  Power <- PowerV\n  Blocks = %s\n  Peers = %s\n"
            "  SigVars = %s\n  IKinds = %s\n  MaxOps = %d\nVIEW View\nINVARIANT Inv\nINVARIANT Complete\n"
            "PROPERTY InvalidNoOp\nCONSTRAINT Bound\nACTION_CONSTRAINT Dump\n") % (
        BLOCKS, peers, sigvars, ikinds, maxops)

ALLK = '{"height", "heightlow", "round", "roundlow", "type", "index", "addr", "sig", "chain"}'

def run(c):
    thorough = c.tier == "thorough"
    c.rule = ("every transition of the reachable graph of MC_VoteSet (valid votes in two signature variants, "
              "9 kinds of invalid votes, peer majority claims) is replayed from the empty set into the real "
              "types.VoteSet at one of three power scales (x1, x7, total just below MaxTotalVotingPower) and "
              "result class + all observers + MakeCommit/VerifyCommit/CommitToVoteSet are compared; "
              "non-trivial = last step is not a plain first vote; plus every abstract commit of MC_Commit "
              "against the real VerifyCommit; plus TLC validation of traces recorded from random real runs")
    c.assumptions = ["secp256k1/keccak are sound (signature validity is abstracted to ok / not ok)",
                     "TLC integers: powers are small integers, scaled by the driver (the thresholds are scale-invariant)"]
    # (powers, sigvars, ikinds, maxops, stride quick, stride thorough)
    vectors = [
        ((1, 1, 1), "{1, 2}", ALLK, 0, 8, 1),
        ((1, 1, 1, 1), "{1}", '{"round", "roundlow", "sig"}', 5 if not thorough else 6, 4, 2),
        ((2, 1, 1, 1, 1), "{1}", '{"type", "heightlow"}', 4 if not thorough else 5, 2, 2),
        ((3, 2, 2, 2), "{1}", '{"addr"}', 5 if not thorough else 6, 4, 2),
        ((5, 1, 1), "{1, 2}", '{"index", "chain"}', 5 if not thorough else 7, 2, 1),
        # totals that leave remainder 2 when divided by three (5, 8): the third residue class of the threshold formula
        ((2, 1, 1, 1), "{1}", '{"sig"}', 5 if not thorough else 6, 4, 2),
    ] + ([((3, 2, 2, 1), "{1}", '{"sig"}', 5, 4, 2)] if thorough else [])
    for (pw, sv, ik, mo, sq, st) in vectors:
        name = "MCgen"
        files = mc_files("MC_VoteSet", name, pw)
        files[name + ".cfg"] = cfg_voteset(pw, sv, ik, mo)
        dump = os.path.join(c.scratch, "vs-%s.dump" % "".join(map(str, pw)))
        r = c.tlc("voteset", name + ".cfg", module=name, files=files, dump_to=dump, timeout=3000,
                  tag="MC_VoteSet power=%s maxops=%d" % (pw, mo))
        if r.violated:
            # a model-level invariant failure is a defect of the specification, never a verdict on the code
            raise Infra("specification invariant %s violated in MC_VoteSet %s\n%s" % (r.violated, pw, c.tlc_tail(r)))
        if not r.ok:
            raise Infra("TLC failed on MC_VoteSet %s: %s\n%s" % (pw, r.error, c.tlc_tail(r)))
        g = c.gotest("voteset", "TestReplay", env=dict(VS_DUMP=dump, VS_POWER=",".join(map(str, pw)),
                     VS_STRIDE=(st if thorough else sq)), timeout=3000, tag="replay %s" % (pw,))
        c.absorb(g)
        os.remove(dump)
        # commit enumeration (5 validators = 9^5*12 = 708k commits: thorough only)
        if len(pw) <= 4 or thorough:
            name = "MCc"
            files = mc_files("MC_Commit", name, pw)
            files[name + ".cfg"] = ("SPECIFICATION Spec\nCONSTANTS\n  Power <- PowerV\n  Blocks = %s\n  Peers = {\"p1\"}\n"
                                    "INVARIANT Sound\nINVARIANT Completeness\nACTION_CONSTRAINT Dump\n") % BLOCKS
            dump = os.path.join(c.scratch, "cm-%s.dump" % "".join(map(str, pw)))
            r = c.tlc("voteset", name + ".cfg", module=name, files=files, dump_to=dump, timeout=3000,
                      tag="MC_Commit power=%s" % (pw,))
            if not r.ok:
                raise Infra("TLC failed on MC_Commit %s: %s %s\n%s" % (pw, r.violated, r.error, c.tlc_tail(r)))
            g = c.gotest("voteset", "TestCommit", env=dict(VS_DUMP=dump, VS_POWER=",".join(map(str, pw))),
                         timeout=3000, tag="commit %s" % (pw,))
            c.absorb(g)
            os.remove(dump)
    # "of the RIGHT validator set": where the commit is consumed.  Block validation must verify a block's LastCommit
    # with the set that was in charge of the committed height, which differs from the current one when the validator
    # set changed in between: every single-field change of a genuine block that specs/partset/BlockFields.tla generates
    # (among them commits that reach +2/3 only under the wrong set) through the real ValidateBlock, in the scene where
    # the set changed between heights 2 and 3 (the same replay C03/C13 use)
    import checks.C13 as c13
    dump = os.path.join(c.scratch, "bf-changed.dump")
    tag = "join: MC_BlockFields height 3"
    r = c.tlc("partset", "bf.cfg", module="MC_BlockFields",
              files={"bf.cfg": c13.cfg_bf(False, False, 2, False, ["BaseValid", "AcceptedIsValid", "TamperEvidentId"])},
              dump_to=dump, timeout=3000, tag=tag)
    c13.must_hold(c, r, tag)
    g = c.gotest("partset", "TestBlockFields", env=dict(BF_DUMP=dump, BF_INITIAL=0, BF_CHANGED=1, BF_SCENES=2, BF_STRICT=1), timeout=3000,
                 tag="join: real ValidateBlock, validator set changed between heights 2 and 3")
    c.absorb(g)
    os.remove(dump)
    c.exhaustive = True
