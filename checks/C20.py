"""C20 — peer connections are authenticated, tamper-evident, ordered and exactly-once.
specs/conn:
  SecretConn.tla   handshake algebra (Dolev-Yao), frame stream with a man in the middle, transport upgrade
  MC_Handshake     exhaustive adversary; Authenticated / NoImpersonation / Mutual / EstablishedSound; dump -> TestHandshake
  MC_Stream        every chunking of Write/Read x Flip/Drop/Dup/Swap/Cut/Replay/Inject; dump -> TestStream
  MC_Upgrade       every (proved key, dialed ID, claimed ID, compatible) case; dump -> TestUpgrade
  StreamTrace      concurrent writers on a real SecretConnection (trace validation)
  MConn.tla        channels, packets, reassembly, capacity
  MC_MConn         every packet interleaving (Sched=any -> real receiver) / the code's own scheduling
                   (Sched=prio -> real stepped sender + real receiver); dump -> TestMConnReplay
  MConnTrace       real MConnection pair over a real SecretConnection pair, concurrent senders (trace validation)
"""
import os, re
from vlib import Infra

ALLKINDS = '{"flip", "drop", "dup", "swap", "cutt", "cuth", "replay", "inject"}'


def seq(xs):
    return "<<" + ", ".join(str(x) for x in xs) + ">>"


def sset(xs):
    return "{" + ", ".join(str(x) for x in xs) + "}"


def strs(xs):
    return "<<" + ", ".join('"%s"' % x for x in xs) + ">>"


def need_ok(c, r, what):
    if r.violated:
        raise Infra("specification invariant %s violated in %s\n%s" % (r.violated, what, c.tlc_tail(r)))
    if not r.ok:
        raise Infra("TLC failed on %s: %s\n%s" % (what, r.error, c.tlc_tail(r)))


def need_violation(c, r, what, inv):
    """Companion runs: the model MUST violate `inv` (reachability / non-vacuity / named deviation)."""
    if r.violated != inv:
        raise Infra("%s: expected TLC to violate %s, got violated=%s error=%s\n%s" % (what, inv, r.violated, r.error, c.tlc_tail(r)))
    # these runs are not part of the coverage numbers
    c.states -= r.distinct
    c.transitions -= r.generated


# ------------------------------------------------------------------------------------------- handshake
def handshake(c, tag, owners, ephs, advephs, stride=1):
    gen = "---- MODULE MCgen ----\nEXTENDS MC_Handshake\nOwnerV == %s\nEphV == %s\n====\n" % (strs(owners), seq(ephs))

    def cfg(sig=True, dirk=True, inv="Inv", dump=True):
        return ("SPECIFICATION Spec\nCONSTANTS\n  Honest = {\"A\", \"B\"}\n  Adv = \"M\"\n  SessOwner <- OwnerV\n  SessEph <- EphV\n"
                "  AdvEphs = %s\n  SigBindsChallenge = %s\n  DirectionalKeys = %s\nVIEW View\nINVARIANT %s\n%s") % (
            sset(advephs), "TRUE" if sig else "FALSE", "TRUE" if dirk else "FALSE", inv, "ACTION_CONSTRAINT Dump\n" if dump else "")

    dump = os.path.join(c.scratch, "hs-%s.dump" % tag)
    r = c.tlc("conn", "MCgen.cfg", module="MCgen", files={"MCgen.tla": gen, "MCgen.cfg": cfg()}, dump_to=dump,
              timeout=1500, tag="MC_Handshake " + tag)
    need_ok(c, r, "MC_Handshake " + tag)
    g = c.gotest("conn", "TestHandshake", env=dict(CONN_DUMP=dump, CONN_OWNERS=",".join(owners), CONN_EPHS=",".join(map(str, ephs)),
                                                    CONN_TAG="hs-" + tag, CONN_STRIDE=stride), timeout=1500, tag="handshake " + tag)
    c.absorb(g)
    os.remove(dump)
    return gen, cfg


def handshake_companions(c, gen, cfg):
    # the invariants are not vacuous: the two classical design mistakes are found by the same model
    for what, kw, inv in (("signature not bound to the transcript", dict(sig=False), "InvNoImpersonation"),
                          ("one key for both directions", dict(dirk=False), "InvMutual")):
        r = c.tlc("conn", "MCgen.cfg", module="MCgen", files={"MCgen.tla": gen, "MCgen.cfg": cfg(inv=inv, dump=False, **kw)},
                  timeout=600, tag="MC_Handshake weakened: " + what)
        need_violation(c, r, "MC_Handshake weakened (%s)" % what, inv)
    # reachability: honest pairs complete, the adversary completes under its own key, and the named deviation
    # (self-reflection) is real in the model (TestHandshake reproduces it on the code)
    for inv in ("NeverHonestPair", "NeverAdvAsItself", "NeverSelfReflected"):
        r = c.tlc("conn", "MCgen.cfg", module="MCgen", files={"MCgen.tla": gen, "MCgen.cfg": cfg(inv=inv, dump=False)},
                  timeout=600, tag="MC_Handshake reachability " + inv)
        need_violation(c, r, "MC_Handshake reachability", inv)


# ------------------------------------------------------------------------------------------- stream
def stream(c, tag, wsizes, rsizes, maxw, maxr, maxm, kinds=ALLKINDS, flipoffs="{0, 1043}", cutoffs="{1, 1043}",
           inj='{"rev", "old", "junk"}', maxwire=3, stride=1, maxfaults=0, faultpass="{}", rfaultat="{}", reuse_violates=None,
           base=0, archn=0, real_bases=(0,)):
    """reuse_violates: run the model with ReuseNonce = TRUE (nonce consumed only by a successful underlying write) and
    require TLC to violate that invariant (companion run, no replay)."""
    cfg = ("SPECIFICATION Spec\nCONSTANTS\n  WSizes = %s\n  RSizes = %s\n  MaxWrites = %d\n  MaxReads = %d\n  MaxManip = %d\n"
           "  Kinds = %s\n  FlipOffs <- FlipV\n  CutOffs <- CutV\n  InjKinds = %s\n  MaxWire = %d\n"
           "  MaxFaults = %d\n  FaultPass = %s\n  RFaultAt = %s\n  ReuseNonce = %s\n  Base = %d\n  ArchN = %d\n"
           "VIEW View\nINVARIANT %s\n%s") % (
        sset(wsizes), sset(rsizes), maxw, maxr, maxm, kinds, inj, maxwire, maxfaults, faultpass, rfaultat,
        "TRUE" if reuse_violates else "FALSE", base, archn, reuse_violates or "Inv",
        "" if reuse_violates else "PROPERTY TamperDetected\nACTION_CONSTRAINT Dump\n")
    gen = "---- MODULE MCgen ----\nEXTENDS MC_Stream\nFlipV == %s\nCutV == %s\n====\n" % (flipoffs, cutoffs)
    if reuse_violates:
        r = c.tlc("conn", "MCgen.cfg", module="MCgen", files={"MCgen.tla": gen, "MCgen.cfg": cfg}, timeout=900,
                  tag="MC_Stream %s, nonce reused after a failed write: %s" % (tag, reuse_violates))
        return need_violation(c, r, "MC_Stream %s with ReuseNonce" % tag, reuse_violates)
    dump = os.path.join(c.scratch, "st-%s.dump" % tag)
    r = c.tlc("conn", "MCgen.cfg", module="MCgen", files={"MCgen.tla": gen, "MCgen.cfg": cfg}, dump_to=dump, timeout=1500,
              tag="MC_Stream " + tag)
    need_ok(c, r, "MC_Stream " + tag)
    # the same behaviours on pairs that start at each of the real frame counters (VerifForkAt)
    for rb in real_bases:
        t = tag if rb == 0 else "%s@%d" % (tag, rb)
        g = c.gotest("conn", "TestStream", env=dict(CONN_DUMP=dump, CONN_TAG="st-" + t, CONN_STRIDE=stride, CONN_BASE=rb), timeout=1500,
                     tag="stream " + t)
        c.absorb(g)
    os.remove(dump)


# ------------------------------------------------------------------------------------------- mconn
def mconn_files(base, chid, prio, qcap, rcap):
    return "---- MODULE MCgen ----\nEXTENDS %s\nChIdV == %s\nPrioV == %s\nQCapV == %s\nRCapV == %s\n====\n" % (
        base, seq(chid), seq(prio), seq(qcap), seq(rcap))


def mconn_env(chid, prio, qcap, rcap, maxpayload):
    return dict(CONN_CHID=",".join(map(str, chid)), CONN_PRIO=",".join(map(str, prio)), CONN_QCAP=",".join(map(str, qcap)),
                CONN_RCAP=",".join(map(str, rcap)), CONN_MAXPAYLOAD=maxpayload)


ALLINJ = ["unknown", "ping", "pong", "malformed", "toolong", "nosum", "readerr"]


def mconn(c, tag, chid, prio, qcap, rcap, maxpayload, lens, maxmsgs, sched, ticks=0, eager=True, injects=(), stride=1,
          replay=True, emptyloss=False, inv="Inv", frag="max", batching="each", drainafter=(), stopmode="off", stoplimit=0):
    """emptyloss / drainafter: companion runs with a named deviation switched on; TLC must violate `inv`."""
    cfg = ("SPECIFICATION Spec\nCONSTANTS\n  ChId <- ChIdV\n  Prio <- PrioV\n  QCap <- QCapV\n  RCap <- RCapV\n  MaxPayload = %d\n"
           "  EmptyLoss = %s\n  DrainAfter = %s\n  Lens = %s\n  MaxMsgs = %d\n  MaxTicks = %d\n  Sched = \"%s\"\n  Frag = \"%s\"\n"
           "  EagerRecv = %s\n  Batching = \"%s\"\n  Injects = %s\n  StopMode = \"%s\"\n  StopLimit = %d\nVIEW View\nINVARIANT %s\n%s") % (
        maxpayload, "TRUE" if emptyloss else "FALSE", sset('"%s"' % k for k in drainafter), sset(lens), maxmsgs, ticks, sched, frag,
        "TRUE" if eager else "FALSE", batching, sset('"%s"' % k for k in injects), stopmode, stoplimit, inv, "ACTION_CONSTRAINT Dump\n" if replay else "")
    dump = os.path.join(c.scratch, "mc-%s.dump" % tag) if replay else None
    r = c.tlc("conn", "MCgen.cfg", module="MCgen", files={"MCgen.tla": mconn_files("MC_MConn", chid, prio, qcap, rcap), "MCgen.cfg": cfg},
              dump_to=dump, timeout=1500, tag="MC_MConn " + tag)
    if emptyloss or drainafter or stoplimit:
        return need_violation(c, r, "MC_MConn %s with a named deviation switched on" % tag, inv)
    need_ok(c, r, "MC_MConn " + tag)
    if replay:
        e = mconn_env(chid, prio, qcap, rcap, maxpayload)
        e.update(CONN_DUMP=dump, CONN_SCHED=sched, CONN_BATCH=batching, CONN_TAG="mc-" + tag, CONN_STRIDE=stride)
        g = c.gotest("conn", "TestMConnFlushStop" if stopmode == "drain" else "TestMConnReplay", env=e, timeout=1500,
                     tag="mconn replay " + tag)
        c.absorb(g)
        os.remove(dump)


def tv_validate(c, module, gen, cfg_extra, trace, tag, inv="Inv", emptyloss=None):
    consts = cfg_extra
    if emptyloss is not None:
        consts += "  EmptyLoss = %s\n" % ("TRUE" if emptyloss else "FALSE")
    cfg = "INIT Init\nNEXT Next\nCONSTANTS\n%s  TraceFile = \"trace.ndjson\"\nINVARIANT %s\nPOSTCONDITION Accepted\nCHECK_DEADLOCK FALSE\n" % (consts, inv)
    files = {"MCgen.cfg": cfg, "trace.ndjson": trace}
    mod = module
    if gen:
        files["MCgen.tla"] = gen
        mod = "MCgen"
    r = c.tlc("conn", "MCgen.cfg", module=mod, files=files, workers=1, timeout=900, tag=tag)
    rejected = None
    with open(r.out, errors="replace") as f:
        txt = f.read()
    m = re.search(r'<<"REJECTED", (\d+), (\d+)>>', txt)
    if m:
        u = re.search(r'<<"FIRST-UNEXPLAINED", (.*)>>', txt)
        rejected = dict(matched=int(m.group(1)), of=int(m.group(2)), first_unexplained=u.group(1) if u else "?")
    return r, rejected


def mconn_tv(c, tag, chid, prio, qcap, rcap, maxpayload, runs, zero):
    trace = os.path.join(c.scratch, "mconn-%s.ndjson" % tag)
    e = mconn_env(chid, prio, qcap, rcap, maxpayload)
    e.update(CONN_RUNS=runs, CONN_TRACE=trace, CONN_ZERO=1 if zero else 0)
    g = c.gotest("conn", "TestMConnRecord", env=e, timeout=900, tag="mconn record " + tag)
    c.absorb(g)
    if g.get("mismatches"):
        return
    gen = mconn_files("MConnTrace", chid, prio, [100000] * len(chid), rcap)
    consts = "  ChId <- ChIdV\n  Prio <- PrioV\n  QCap <- QCapV\n  RCap <- RCapV\n  MaxPayload = %d\n  DrainAfter = {}\n" % maxpayload
    r, rej = tv_validate(c, "MConnTrace", gen, consts, trace, "MConnTrace " + tag, emptyloss=False)
    detail = None
    if r.violated or rej:
        lines = open(trace).read().splitlines()
        k = rej["matched"] if rej else 0
        # the run that contains the first unexplained line
        start = max(i for i in range(min(k + 1, len(lines))) if '"reset"' in lines[i]) if lines else 0
        detail = dict(cfg=tag, chid=chid, prio=prio, rcap=rcap, maxPayload=maxpayload, seed=c.seed, rejected=rej, invariant=r.violated,
                      run=lines[start:k + 3][-120:])
    if r.violated and r.violated != "Accepted":
        c.report("conn:mconn:trace-invariant:" + r.violated,
                 "a trace of the real MConnection pair (%s) is explained by MConn.tla but violates %s" % (tag, r.violated), detail)
    elif rej:
        # name the cause: is it exactly the zero-length-message deviation of connection.go?
        r2, rej2 = tv_validate(c, "MConnTrace", gen, consts, trace, "MConnTrace %s (EmptyLoss pass)" % tag, inv="InvLoss", emptyloss=True)
        c.states -= r2.distinct
        c.transitions -= r2.generated
        if rej2 is None and r2.ok:
            c.report("conn:mconn:empty-message-lost",
                     "trace of a real MConnection pair (%s): a zero-length message accepted by TrySend is never put on the wire "
                     "(first unexplained event %s at line %d); the trace is explained once MConn.tla's EmptyLoss deviation "
                     "(isSendPending testing len(ch.sending) == 0) is switched on; specified: delivered exactly once" % (
                         tag, rej["first_unexplained"], rej["matched"] + 1), detail)
        else:
            c.report("conn:mconn:trace-rejected",
                     "a trace of the real MConnection pair (%s) cannot be explained by MConn.tla: first unexplained event %s at line %d of %d" % (
                         tag, rej["first_unexplained"], rej["matched"] + 1, rej["of"]), detail)
    elif not r.ok:
        raise Infra("TLC failed on MConnTrace %s: %s\n%s" % (tag, r.error, c.tlc_tail(r)))
    os.remove(trace)


def writers_tv(c, runs):
    trace = os.path.join(c.scratch, "writers.ndjson")
    g = c.gotest("conn", "TestWriters", env=dict(CONN_RUNS=runs, CONN_TRACE=trace), timeout=900, tag="writers record")
    c.absorb(g)
    if g.get("mismatches"):
        return
    r, rej = tv_validate(c, "StreamTrace", None, "", trace, "StreamTrace")
    if r.violated and r.violated != "Accepted":
        c.report("conn:stream:writers:trace-invariant:" + r.violated, "concurrent-writer trace violates %s" % r.violated, dict(seed=c.seed))
    elif rej:
        lines = open(trace).read().splitlines()
        k = rej["matched"]
        c.report("conn:stream:writers:trace-rejected",
                 "what was read from a real SecretConnection with concurrent writers is not a sequence of whole Writes in per-writer "
                 "order: first unexplained event %s (line %d of %d)" % (rej["first_unexplained"], k + 1, rej["of"]),
                 dict(seed=c.seed, rejected=rej, around=lines[max(0, k - 10):k + 3]))
    elif not r.ok:
        raise Infra("TLC failed on StreamTrace: %s\n%s" % (r.error, c.tlc_tail(r)))
    os.remove(trace)


def run(c):
    th = c.tier == "thorough"
    c.rule = ("handshake: every terminated behaviour of MC_Handshake (2-3 honest sessions, adversary with its own ephemeral and long-term "
              "keys choosing every message: relay, reflection, replay into another session, own frames with own / copied signatures, "
              "wrong direction key, low-order point, noise) replayed on real MakeSecretConnection calls, outcome (peer key / failure) of "
              "every session compared, then a data frame exchanged with the keys the specification says each side holds; "
              "stream: every transition of MC_Stream that ends in a Read (Write/Read sizes from {0,1,1023,1024,1025,2049}, Close, "
              "and Flip/Cut at every byte offset, Drop, Dup, Swap, Replay, Inject of reverse-direction/old-session/noise frames, re-insertion of frames archived at the start of the same session on "
              "pairs forked at frame counters 1, 3, 2^32-2, 2^32-1, 2^32, 2^63, 2^64-3, and faults of "
              "the underlying connection -- a frame write reporting an error with all / part / none of its bytes out, a read failing "
              "mid-frame -- after which the application keeps writing / reading) replayed "
              "on a real pair whose wire the driver owns: result and bytes of every Read compared; upgrade: every case of MC_Upgrade on the "
              "real transport upgrade; mconn: every quiescent behaviour of MC_MConn replayed on a real receiving MConnection (all packet "
              "interleavings) and on a real stepped sender + receiver (code's scheduling); plus TLC validation of traces of real concurrent "
              "MConnection-over-SecretConnection pairs and of concurrent writers.  Non-trivial = the behaviour contains an adversary / "
              "manipulation / close / oversize / zero-length / multi-packet element")
    c.assumptions = ["X25519, HKDF, the merlin transcript, ChaCha20-Poly1305 and ECDSA/secp256k1 are perfect (Dolev-Yao): a frame opens iff "
                     "key, nonce and all bytes are the sealing ones; a DH secret is known only to holders of one private half",
                     "the adversary's strategies are those of the finite Dolev-Yao closure in MC_Handshake (no timing, no length side channels)",
                     "MConnection throttling, ping/pong and FlushStop ordering are outside the model (unthrottled, long ping interval)"]
    # ---- handshake
    gen, cfg = handshake(c, "AB", ["A", "B"], [10, 20], [5, 15, 25])
    handshake_companions(c, gen, cfg)
    handshake(c, "ABA", ["A", "B", "A"], [10, 20, 30], [5, 25] if not th else [5, 15, 35], stride=1 if th else 3)
    if th:
        handshake(c, "ABB", ["A", "B", "B"], [30, 10, 20], [5, 25])
    # ---- transport upgrade
    dump = os.path.join(c.scratch, "upgrade.dump")
    r = c.tlc("conn", "MCu.cfg", module="MC_Upgrade", dump_to=dump, timeout=600, tag="MC_Upgrade",
              files={"MCu.cfg": "SPECIFICATION Spec\nINVARIANT Sound\nINVARIANT NoImpersonationAtTransport\nINVARIANT Complete\nACTION_CONSTRAINT Dump\n"})
    need_ok(c, r, "MC_Upgrade")
    c.absorb(c.gotest("conn", "TestUpgrade", env=dict(CONN_DUMP=dump), timeout=900, tag="upgrade"))
    os.remove(dump)
    # ---- stream
    full = [1, 1023, 1024, 1025, 2049]
    stream(c, "chunking", full if not th else [0] + full, full if not th else [0] + full, 2, 4 if not th else 5, 0)
    stream(c, "manip1", [1, 1024, 1025], [1, 1024, 2049], 2, 3, 1, flipoffs="{0, 3, 4, 1027, 1028, 1043}", cutoffs="{1, 4, 1028, 1043}")
    # every byte offset of a frame: Flip and both Cuts on a two-frame write (first or second frame)
    stream(c, "offsets", [1025], [2049], 1, 3, 1, kinds='{"flip", "cutt", "cuth"}', flipoffs="0..1043", cutoffs="1..1043", maxwire=2)
    # a frame cut in two and put together again from a duplicate IS the genuine frame (SecretConn!Norm): three manipulations
    stream(c, "splice3", [1], [1], 2, 3, 3, kinds='{"dup", "cutt", "cuth"}', flipoffs="{0}", cutoffs="{522}" if not th else "{1, 522, 1043}",
           inj='{"junk"}', maxwire=3)
    # position independence: the session has already carried Base frames; the adversary re-inserts frames it recorded at the
    # very beginning of the session (counters 0..2) next to replay / drop / dup / swap.  One dump (model Base = 3 stands for any
    # counter >= 3) is replayed on pairs forked at real counters around 2^32, at 2^63 and just below 2^64 (where the code ends the
    # session by panicking rather than wrap); Base = 1 is replayed as it is
    B32 = 1 << 32
    allb = [3, B32 - 2, B32 - 1, B32, 1 << 63, (1 << 64) - 3]
    rot = [3, B32, 1 << 63, (1 << 64) - 3]
    bases = allb if th else [B32 - 2, B32 - 1, rot[c.seed % len(rot)]]
    ak = '{"archive", "replay", "drop", "swap", "dup"}'
    stream(c, "archive", [1, 1025], [2049], 2, 5, 2, kinds=ak, inj='{"junk"}', base=3, archn=3, real_bases=bases)
    stream(c, "archive-base1", [1, 1025], [1, 2049], 2, 4, 1, kinds=ak, inj='{"junk"}', base=1, archn=3, real_bases=[1])
    # faults of the underlying connection while the application keeps using the SecretConnection: a frame write that reports
    # an error although all / a prefix / none of the 1044 bytes went out (the nonce is consumed all the same), a read that fails
    # mid-frame; combined with the man in the middle dropping / duplicating / swapping / replaying frames
    fk = '{"drop", "dup", "swap", "replay"}'
    if not th:
        stream(c, "faults", [1, 1025], [1, 2049], 3, 3, 1, kinds=fk, inj='{"junk"}', maxfaults=1, faultpass="{0, 522, 1044}", rfaultat="{0, 522}")
    else:
        stream(c, "faults", [1, 1025], [1, 2049], 3, 3, 1, kinds=fk, inj='{"junk"}', maxfaults=2, faultpass="{0, 1, 1043, 1044}",
               rfaultat="{0, 1043}")
    # the sender-side invariant is not vacuous: with the nonce consumed only by a successful write TLC finds both the reuse and
    # the receiver silently skipping the data of the failed frame
    for inv in ("NoNonceReuseInv", "PrefixInv"):
        stream(c, "faults", [1, 1025], [1, 2049], 3, 3, 1, kinds=fk, inj='{"junk"}', maxfaults=1, faultpass="{0, 522, 1044}",
               rfaultat="{0}", reuse_violates=inv)
    if th:
        stream(c, "manip2", [1, 1025], [1, 2049], 2, 4, 2, flipoffs="{0, 1043}", cutoffs="{1, 522, 1043}", maxwire=3)
        stream(c, "manip1-wide", full, [1, 1024, 2049], 2, 4, 1, flipoffs="{0, 4, 1028}", cutoffs="{4, 1043}", maxwire=4)
        stream(c, "offsets-3frames", [2049], [1024, 2049], 1, 4, 1, kinds='{"flip", "cutt", "cuth"}', flipoffs="0..1043", cutoffs="1..1043", maxwire=3)
    writers_tv(c, 60 if not th else 400)
    # ---- multiplexed connection
    two = dict(chid=[1, 2], prio=[1, 3], qcap=[1, 2], rcap=[9, 9], maxpayload=4)
    lens = [0, 1, 4, 5, 9, 10]
    mconn(c, "any-2ch", lens=lens, maxmsgs=3 if not th else 4, sched="any", stride=1 if not th else 2, **two)
    mconn(c, "any-2ch-unknown", lens=[1, 5, 10], maxmsgs=2 if not th else 3, sched="any", injects=["unknown"], **two)
    # what the receiver has ALREADY READ when an error occurs: TLC chooses where the sender flushes, the driver writes each batch
    # in one piece, so the packet that stops the connection (capacity crossed, unknown channel, malformed / over-long / empty
    # packet, read error) sits in the receiver's read buffer in front of small EOF packets of the same and of other channels;
    # nothing may be delivered after onError, and every delivery must be a sent message
    mconn(c, "batch-any", lens=[1, 5, 10, 13], maxmsgs=2, sched="any", batching="any", **two)
    mconn(c, "batch-inject", lens=[1, 5], maxmsgs=2, sched="any", batching="any", injects=ALLINJ, **two)
    mconn(c, "batch-prio", lens=[1, 10, 13], maxmsgs=2 if not th else 3, sched="prio", batching="any", **two)
    mconn(c, "batch-any-60", chid=[32, 33], prio=[1, 1], qcap=[2, 2], rcap=[100, 100], maxpayload=60, lens=[20, 130], maxmsgs=2,
          sched="any", batching="any")
    if th:
        mconn(c, "batch-any-3msg", lens=[1, 13], maxmsgs=3, sched="any", batching="any", stride=2, **two)
        mconn(c, "batch-inject-3msg", lens=[1, 5], maxmsgs=3, sched="any", batching="any", injects=ALLINJ, stride=2, **two)
    # graceful close: FlushStop with 1..75 packets pending (one long message of 10 / 11 / 25 packets, short ones, two channels) on a
    # real running pair; everything accepted before the close must be delivered.  Companion: draining at most 10 packets
    # (one sendSomePacketMsgs) must violate AllDelivered in the model
    fs = dict(chid=[1, 2], prio=[1, 3], qcap=[3, 3], rcap=[200, 200], maxpayload=4, lens=[1, 40, 44, 100], maxmsgs=3, sched="prio",
              stopmode="drain")
    mconn(c, "flushstop", **fs)
    mconn(c, "flushstop", replay=False, stoplimit=10, **fs)
    if th:
        mconn(c, "flushstop-1024", chid=[32, 33], prio=[1, 5], qcap=[3, 3], rcap=[30000, 30000], maxpayload=1024,
              lens=[1, 10240, 10241, 25000], maxmsgs=3, sched="prio", stopmode="drain")
    # the invariants are not vacuous: a receive loop that only leaves the switch after an error (bare `break`) is found by TLC
    mconn(c, "batch-any", lens=[1, 5, 10, 13], maxmsgs=2, sched="any", batching="any", replay=False, drainafter=["cap"],
          inv="NoDeliveryAfterErrorInv", **two)
    mconn(c, "batch-any", lens=[1, 5, 10, 13], maxmsgs=2, sched="any", batching="any", replay=False, drainafter=["cap"],
          inv="DeliveredIsSentInv", **two)
    mconn(c, "batch-inject", lens=[1, 5], maxmsgs=2, sched="any", batching="any", injects=["unknown", "malformed"], replay=False,
          drainafter=["chan", "err"], inv="NoDeliveryAfterErrorInv", **two)
    mconn(c, "prio-2ch", lens=lens, maxmsgs=3 if not th else 4, sched="prio", ticks=1, stride=1 if not th else 2, **two)
    # every way of cutting messages into packets (not only the code's): the receiver alone is replayed
    mconn(c, "any-frag", chid=[1, 2], prio=[1, 1], qcap=[1, 1], rcap=[4, 4], maxpayload=2, lens=[0, 1, 3, 4, 5] if not th else [0, 1, 2, 3, 4, 5],
          maxmsgs=2, sched="any", frag="any")
    # the receiver may lag: full interleaving of reads (model only; the receiver is sequential, so the replay would add nothing)
    mconn(c, "lazy-recv", lens=[0, 4, 5, 10], maxmsgs=2 if not th else 3, sched="any", eager=False, replay=False, **two)
    # the named deviation (zero-length message lost, repaired in /repo by "fix: MConnection no longer drops zero-length
    # messages") is real in the model; TestMConnReplay / MConnTrace report it under conn:mconn:empty-message-lost if it returns
    mconn(c, "emptyloss", lens=[0, 1], maxmsgs=2, sched="prio", replay=False, emptyloss=True, inv="NoEmptyLost", **two)
    three = dict(chid=[32, 33, 48], prio=[1, 5, 10], qcap=[1, 2, 3], rcap=[2500, 2500, 2048], maxpayload=1024)
    mconn(c, "prio-3ch-1024", lens=[0, 1024, 1025, 2501] if not th else [0, 1, 1024, 1025, 2500, 2501], maxmsgs=3, sched="prio",
          ticks=1, **three)
    if th:
        mconn(c, "any-3ch", chid=[1, 2, 3], prio=[1, 1, 1], qcap=[2, 2, 2], rcap=[6, 6, 6], maxpayload=3, lens=[0, 1, 3, 4, 6, 7], maxmsgs=3,
              sched="any")
    # ---- traces of real concurrent pairs
    big = dict(chid=[32, 33, 48], prio=[1, 5, 10], qcap=[1, 2, 3], rcap=[5000, 5000, 3000], maxpayload=1024)
    small = dict(chid=[1, 2], prio=[1, 1], qcap=[1, 1], rcap=[100, 64], maxpayload=16)
    n = 60 if not th else 400
    mconn_tv(c, "1024-nozero", runs=n, zero=False, **big)
    mconn_tv(c, "16-nozero", runs=n, zero=False, **small)
    mconn_tv(c, "1024-zero", runs=n, zero=True, **big)
    mconn_tv(c, "16-zero", runs=n, zero=True, **small)
    c.exhaustive = True
