"""C18 — no message from a peer can crash the node.
specs/peer:
  PeerNodeStates.tla   node state classes as scripted prefixes of KardiaNode.tla (syncing, every consensus step, ...)
  PeerMsgs.tla         consensus reactor: Receive = decode / ValidateBasic / PeerState.Apply* / queue -> handleMsg, over
                       abstract messages with boundary classes per field; named deviations of the code (Impl)
  MC_PeerMsgs.tla      model: one peer, up to Depth messages, peer state unknown / known; invariants = the property
  PeerMsgsTrace.tla    trace validation of what the real reactor did with byte-level mutants
  PeerReactors.tla / MC_PeerReactors.tla   transaction-pool, evidence, PEX reactors and the front of block sync
  Framing.tla / MC_Framing.tla             MConnection.recvRoutine against hostile wire items
Every transition TLC generates is replayed on REAL nodes behind the real reactors (harness/peer)."""
import json, os
from vlib import Infra

NCLASSES = 13


def tla_seq(x):
    if isinstance(x, list):
        return "<<" + ", ".join(tla_seq(y) for y in x) + ">>"
    return str(x)


def tla_set(xs):
    return "{" + ", ".join(str(x) for x in xs) + "}"


def consts(table, impl=()):
    return ("PowerV == <<1, 1, 1, 1>>\nPropV == %s\nImplV == %s\n" %
            (tla_seq(table), "{" + ", ".join('"%s"' % i for i in impl) + "}"))


CONST_CFG = ("CONSTANTS\n  N = 4\n  Power <- PowerV\n  ProposerOf <- PropV\n  InvalidBids = {\"X\"}\n"
             "  SkipTimeoutCommit = FALSE\n  Impl <- ImplV\n")


def mc_peer(table, sel, deep, deepnode, impl=(), inits=("unknown", "known")):
    return {"MCgen.tla": ("---- MODULE MCgen ----\nEXTENDS MC_PeerMsgs\n%sSelV == %s\nDeepV == %s\nDeepNodeV == %s\n"
                          "InitsV == {%s}\n====\n") % (consts(table, impl), tla_set(sel), tla_set(deep), tla_set(deepnode),
                                                      ", ".join('"%s"' % i for i in inits))}


def cfg_peer(depth, dump=True, invariants=("NoPanic", "PeerStateOK", "OwnStateGossipable", "CatchupBounded", "ClassesOK"),
             props=("RoundStateByCoreOnly", "RejectedIsInert"), cat="full"):
    s = ("SPECIFICATION Spec\n" + CONST_CFG + "  Depth = %d\n  ClassSel <- SelV\n  Deep <- DeepV\n  DeepNode <- DeepNodeV\n"
         "  PeerInits <- InitsV\n  Cat = \"%s\"\nVIEW View\n") % (depth, cat)
    for i in invariants:
        s += "INVARIANT %s\n" % i
    for p in props:
        s += "PROPERTY %s\n" % p
    if dump:
        s += "ACTION_CONSTRAINT Dump\n"
    return s


def must(c, r, what):
    if r.violated:
        raise Infra("specification invariant %s violated in %s\n%s" % (r.violated, what, c.tlc_tail(r, 60)))
    if not r.ok:
        raise Infra("TLC failed on %s: %s\n%s" % (what, r.error, c.tlc_tail(r)))


def validate_mutant_trace(c, table, trace):
    """TV: every logged effect of a mutant must be explained by PeerMsgs!Receive / Handle."""
    n = sum(1 for _ in open(trace))
    if n == 0:
        return
    files = {"MCt.tla": "---- MODULE MCt ----\nEXTENDS PeerMsgsTrace\n%s====\n" % consts(table),
             "MCt.cfg": "SPECIFICATION Spec\n" + CONST_CFG + "POSTCONDITION Consumed\nCHECK_DEADLOCK FALSE\n",
             "trace.ndjson": trace}
    out = os.path.join(c.scratch, "peer-tv.out")
    r = c.tlc("peer", "MCt.cfg", module="MCt", files=files, dump_to=out, workers=1, timeout=3000,
              tag="PeerMsgsTrace: %d effects of mutants" % n)
    if not r.ok:
        raise Infra("trace validation did not complete: %s %s\n%s" % (r.violated, r.error, c.tlc_tail(r, 40)))
    events = [json.loads(l) for l in open(trace)]
    bad = 0
    for line in open(out, errors="replace"):
        if not line.startswith('"{\\"unexplained\\"'):
            continue
        x = json.loads(json.loads(line))
        e = events[x["unexplained"] - 1]
        bad += 1
        label = x["hw"] or x["why"]
        t = e["m"]["t"]
        where = "class %s, %s of a well-formed %s message decodes (real decoder) to a %s message" % (e["class"], e["mutation"], e["base"], t)
        if e.get("bad") == "panic":
            c.report("peer:cons:panic:%s:%s" % (t, label), "%s on which the real Receive PANICKED (%s); specified: %s (%s)" % (where, e["text"], x["res"], x["why"]), e)
            continue
        if e.get("bad") == "handler-panic":
            c.report("peer:cons:handler-panic:%s:%s" % (t, label), "%s that Receive queued and on which the real handleMsg PANICKED (%s) - receiveRoutine would "
                     "halt consensus; specified: %s (%s)" % (where, e["text"], x["res"], label), e)
            continue
        if e.get("bad") == "peerstate-unsound":
            c.report("peer:cons:peerstate-unsound:%s:%s" % (t, label), "%s after which %s; specified: %s (%s)" % (where, e["text"], x["res"], x["why"]), e)
            continue
        if x["res"] == "stop":
            c.report("peer:cons:accepted-malformed:%s:%s" % (t, label), "%s that is specified to be rejected (%s, peer stopped); the real reactor ACCEPTED it "
                     "(peer state %s, round state changed: %s)" % (where, x["why"], "changed" if e["p0"] != e["p1"] else "unchanged", e["sc"]), e)
            continue
        if e["sc"] and not x["sc"]:
            c.report("peer:cons:roundstate-changed:%s:%s" % (t, label), "%s that is specified not to touch the round state (%s); real: %s" % (where, label, e["o"]), e)
            continue
        c.report("peer:cons:mutant-unexplained:%s:%s" % (e["m"]["t"], label),
                 "class %s, %s of a well-formed %s message decodes (real decoder) to a %s message that the real reactor ACTED on "
                 "(peer state %s, round state changed: %s); the specification evaluated on the same message gives %s (%s%s), "
                 "peer-state fields that differ: %s" % (e["class"], e["mutation"], e["base"], e["m"]["t"],
                                                        "changed" if e["p0"] != e["p1"] else "unchanged", e["sc"], x["res"], x["why"],
                                                        "/" + x["hw"] if x["hw"] else "", x["pdiff"]),
                 e)
    c.traces += n - bad
    c.extra["mutant_effects_validated"] = c.extra.get("mutant_effects_validated", 0) + n
    c.extra["mutant_effects_unexplained"] = c.extra.get("mutant_effects_unexplained", 0) + bad


def run(c):
    th = c.tier == "thorough"
    c.rule = ("(1) consensus reactor: every transition of MC_PeerMsgs - (node state class: syncing, NewHeight, Propose without / with proposal, "
              "Prevote, PrevoteWait, Precommit, PrecommitWait, Commit without block, height 2, round 2 locked, round 3 waiting for a POL, "
              "non-validator) x (peer state unknown / known, evolved by the peer's own earlier messages) x (catalogue: each of the 9 message "
              "types with every numeric field at 0, cur-1, cur, cur+1, 2^31-1, max; bit arrays of size 0, n-1, n, n+1, at and above the caps, with "
              "missing / surplus / no words, negative and huge sizes; nil / incomplete / oversized block ids; bad, missing, wrong-key signatures; "
              "wrong and unknown channels; unknown / empty / garbage type) - replayed on a real node of that class behind the real "
              "ConsensusManager; compared: panic, hang, allocation, lock health, accepted-or-rejected, peer state soundness, round state and "
              "signed messages after the real handleMsg, encode/decode round trip, the real gossip routines on the resulting state, an honest "
              "peer afterwards, a late message after the stop; (1b) the catch-up round budget: directed vectors of up to 5-6 votes of ONE peer for "
              "pairwise distinct untracked rounds (valid, bad signature, wrong index, wrong address, unknown key at every position), tracked rounds "
              "and votes compared after every real handleMsg, plus a growth probe (300 such votes: the tracked rounds stay at PeerMsgs!CatchupLimit); (2) byte-level mutants (truncations, bit flips, tag / length / varint rewrites, "
              "random bodies) of every sampled accepted message: crash-freedom on the real reactor, and every effect they have is validated "
              "by TLC against the specification (PeerMsgsTrace); (3) tx-pool, evidence, PEX reactors and block-sync front: every transition of "
              "MC_PeerReactors (state classes x semantic message classes, sequences of 3) replayed, each followed by an aftermath under timeouts "
              "(mutex TryLock, an honest peer on the reactor's writer paths, Stop); (4) connection framing: every sequence of "
              "<= 4 hostile wire items replayed on a real MConnection, and every sequence of <= 3 sealed frames (length field 0 / 1025 / 2^32-1, broken "
              "MAC, half a frame) on the real SecretConnection + MConnection stack; (5) every class of length prefix (0, 1, max, max+1, 2^31-1, 2^31, "
              "2^32, 2^63-1, 2^63, 2^63+1, 2^64-1, overlong, 11-byte, truncated varints) against every delimited reader a peer reaches (protoio reader, "
              "NodeInfo handshake in a child process, MConnection, secret-connection auth message); non-trivial = specified rejected-with-stop, or specified to have an effect")
    c.assumptions = ["4 validators of equal power, one-part blocks, static validator set (KardiaNode.tla abstractions)",
                     "gogo-protobuf's generated Unmarshal is trusted to be total (it is exercised by the mutants, not specified)",
                     "the huge classes of a proposal's PartsHeader.Total are replayed scaled down to 2^24..2^29 so that the real allocation can be measured",
                     "what the block-sync routines (scheduler / processor) do with the events Receive emits is family `blocksync`",
                     "SecretConnection against a peer WITHOUT the session keys (tampering, replay, reordering) is family `conn` (C20)"]
    g = c.gotest("peer", "TestPeerProposerTable", timeout=1200, tag="proposer table of the real validator set")
    table = (g.get("extra") or {}).get("proposer_table")
    if not table:
        raise Infra("no proposer table from the real validator set")
    c.go_runs.pop()
    if table[0][:4] != [1, 2, 3, 4] or table[1][:4] != [2, 3, 4, 1]:
        raise Infra("the real proposer rotation %s is not the one PeerNodeStates.tla was written for" % table[0][:4])
    allc = list(range(1, NCLASSES + 1))
    quick_stride = int(os.environ.get("VERIF_PEER_STRIDE", "5"))   # sampling of the two-message lines (one-message lines: all)

    # (1) + (2) consensus reactor
    if th:
        runs = [("all classes, two messages", allc, allc, [], 2, 5, 900)]   # two-message lines: every 5th replayed (~300 k lines)
    else:
        deep = [[4], [10], [1], [7], [12], [9], [5]][c.seed % 7]
        runs = [("all classes one message, class %s two messages" % deep, allc, deep, [], 2, quick_stride, 150)]
    for tag, sel, deep, deepnode, depth, stride, mstride in runs:
        files = mc_peer(table, sel, deep, deepnode)
        files["MCgen.cfg"] = cfg_peer(depth)
        dump = os.path.join(c.scratch, "peer-cons.dump")
        r = c.tlc("peer", "MCgen.cfg", module="MCgen", files=files, dump_to=dump, timeout=5400, tag="MC_PeerMsgs " + tag)
        must(c, r, "MC_PeerMsgs (%s)" % tag)
        g = c.gotest("peer", "TestConsReplay", env=dict(PEER_DUMP=dump, PEER_DEEP_STRIDE=stride), timeout=5400, tag="replay " + tag)
        c.absorb(g)
        trace = os.path.join(c.scratch, "peer-mutants.ndjson")
        g = c.gotest("peer", "TestConsMutants", env=dict(PEER_DUMP=dump, PEER_MUT_STRIDE=mstride, PEER_TRACE=trace), timeout=5400,
                     tag="byte-level mutants of accepted messages")
        c.absorb(g)
        os.remove(dump)
        validate_mutant_trace(c, table, trace)
    # (1b) the catch-up round budget: directed vectors of up to k votes of ONE peer for pairwise distinct untracked rounds
    #      (valid, bad signature, wrong index, wrong address, unknown key at every position), the tracked rounds compared
    #      after every real handleMsg; then the growth probe (300 such votes)
    vsel = allc[1:] if th else [[3, 10], [5, 13], [2, 12], [7, 11], [4, 9]][c.seed % 5]
    files = mc_peer(table, vsel, vsel, vsel, inits=("unknown",))
    files["MCgen.cfg"] = cfg_peer(6 if th else 5, cat="votes")
    dump = os.path.join(c.scratch, "peer-votes.dump")
    r = c.tlc("peer", "MCgen.cfg", module="MCgen", files=files, dump_to=dump, timeout=3000, tag="MC_PeerMsgs vote vectors, classes %s" % vsel)
    must(c, r, "MC_PeerMsgs vote vectors")
    g = c.gotest("peer", "TestConsReplay", env=dict(PEER_DUMP=dump), timeout=3000, tag="replay vote vectors (catch-up round budget)")
    c.absorb(g)
    g = c.gotest("peer", "TestVoteRoundGrowth", env=dict(PEER_DUMP=dump), timeout=3000, tag="growth probe: 300 votes of one peer for distinct untracked rounds")
    c.absorb(g)
    os.remove(dump)

    # the code AS FOUND (before the fix: commits D1..D6): with the named deviations switched on the model must violate
    # the property - quick: all of them together; thorough: each one alone, against the invariant it is expected to break
    expected = {"ba-unchecked": "PeerStateOK", "or-short": "NoPanic", "proposal-total": "NoPanic", "lastcommit-nil": "NoPanic",
                "polround-unchecked": "OwnStateGossipable"}
    devruns = [(d, [d], v) for d, v in expected.items()] if th else [("all", list(expected), None)]
    dev = {}
    for name, impl, want in devruns:
        files = mc_peer(table, [2, 4], [2, 4], [], impl=impl)
        files["MCgen.cfg"] = cfg_peer(2, dump=False, invariants=("NoPanic", "PeerStateOK", "OwnStateGossipable"), props=())
        r = c.tlc("peer", "MCgen.cfg", module="MCgen", files=files, timeout=1800, tag="companion: MC_PeerMsgs as found, deviation %s (must violate)" % name)
        dev[name] = r.violated or "no invariant violated"
        c.states -= r.distinct          # companion runs are not coverage of the repaired code
        c.transitions -= r.generated
        if not r.violated or (want and r.violated != want):
            raise Infra("companion run with deviation %s: expected a violation of %s, TLC reports %s / %s\n%s" %
                        (name, want or "an invariant", r.violated, r.error, c.tlc_tail(r, 30)))
    c.extra["model_with_deviation_violates"] = dev
    if th:
        # deeper, without replay: the invariants on every state reachable with 3 messages (two classes), and with the
        # round state evolving as well (one class)
        files = mc_peer(table, [4, 10], [4, 10], [])
        files["MCgen.cfg"] = cfg_peer(3, dump=False)
        must(c, c.tlc("peer", "MCgen.cfg", module="MCgen", files=files, timeout=5400, tag="MC_PeerMsgs three messages (invariants only)"),
             "MC_PeerMsgs depth 3")
        files = mc_peer(table, [5], [5], [5])
        files["MCgen.cfg"] = cfg_peer(2, dump=False)
        must(c, c.tlc("peer", "MCgen.cfg", module="MCgen", files=files, timeout=5400, tag="MC_PeerMsgs two messages, evolving round state (invariants only)"),
             "MC_PeerMsgs evolving")

    # (3) the small reactors
    files = {"MCr.tla": "---- MODULE MCr ----\nEXTENDS MC_PeerReactors\nImplRV == {}\n====\n",
             "MCr.cfg": ("SPECIFICATION Spec\nCONSTANTS\n  ImplR <- ImplRV\n  Depth = %d\nVIEW View\nINVARIANT Returns\n"
                         "INVARIANT OnlyVerifiedEvidence\nINVARIANT BcMutexFree\nPROPERTY RejectedIsInert\nACTION_CONSTRAINT Dump\n") % 3}
    dump = os.path.join(c.scratch, "peer-reactors.dump")
    r = c.tlc("peer", "MCr.cfg", module="MCr", files=files, dump_to=dump, timeout=1800, tag="MC_PeerReactors")
    must(c, r, "MC_PeerReactors")
    g = c.gotest("peer", "TestReactorsReplay", env=dict(PEER_DUMP=dump), timeout=3000, tag="replay tx-pool / evidence / PEX / block-sync front")
    c.absorb(g)
    os.remove(dump)
    # as found (before fix D7): the tx reactor without fetcher must violate Returns
    files["MCr.tla"] = "---- MODULE MCr ----\nEXTENDS MC_PeerReactors\nImplRV == {\"tx-nofetcher\"}\n====\n"
    files["MCr.cfg"] = files["MCr.cfg"].replace("ACTION_CONSTRAINT Dump\n", "")
    r = c.tlc("peer", "MCr.cfg", module="MCr", files=files, timeout=600, tag="companion: MC_PeerReactors as found, deviation tx-nofetcher (must violate)")
    c.states -= r.distinct
    c.transitions -= r.generated
    if r.violated != "Returns":
        raise Infra("companion run with deviation tx-nofetcher: expected a violation of Returns, TLC reports %s / %s" % (r.violated, r.error))
    c.extra["model_with_deviation_violates"]["tx-nofetcher"] = r.violated
    # a seeded variant (never the code of /repo): ValidateMsg that only tests Block # nil lets an undecodable block reach the
    # return-without-RUnlock of Receive: must violate BcMutexFree
    files["MCr.tla"] = "---- MODULE MCr ----\nEXTENDS MC_PeerReactors\nImplRV == {\"bc-validate-nilonly\"}\n====\n"
    r = c.tlc("peer", "MCr.cfg", module="MCr", files=files, timeout=600, tag="companion: MC_PeerReactors, deviation bc-validate-nilonly (must violate)")
    c.states -= r.distinct
    c.transitions -= r.generated
    if r.violated != "BcMutexFree":
        raise Infra("companion run with deviation bc-validate-nilonly: expected a violation of BcMutexFree, TLC reports %s / %s" % (r.violated, r.error))
    c.extra["model_with_deviation_violates"]["bc-validate-nilonly"] = r.violated

    # (4) connection framing: hostile wire items on a real MConnection; then one layer down, sealed frames of a peer
    #     that holds the session keys, on the real SecretConnection + MConnection stack
    for secret, test, tag in ((False, "TestFraming", "hostile wire items on a real MConnection"),
                              (True, "TestSecretFraming", "hostile sealed frames on real SecretConnection + MConnection")):
        files = {"MCf.tla": "---- MODULE MCf ----\nEXTENDS MC_Framing\nCapV == <<2000, 3000>>\n====\n",
                 "MCf.cfg": ("SPECIFICATION Spec\nCONSTANTS\n  Cap <- CapV\n  MaxPayload = 1024\n  Depth = %d\n  Sizes = %s\n  Secret = %s\nVIEW View\n"
                             "INVARIANT Bounded\nINVARIANT DeliveredFits\nACTION_CONSTRAINT Dump\n") %
                            ((5 if th else 4) - (1 if secret else 0), "{0, 1, 976, 1023, 1024}" if th else "{0, 1, 976, 1024}", "TRUE" if secret else "FALSE")}
        dump = os.path.join(c.scratch, "peer-framing.dump")
        r = c.tlc("peer", "MCf.cfg", module="MCf", files=files, dump_to=dump, timeout=1800, tag="MC_Framing secret=%s" % secret)
        must(c, r, "MC_Framing")
        g = c.gotest("peer", test, env=dict(PEER_DUMP=dump, PEER_FR_CAPS="2000,3000", PEER_FR_MAXPAYLOAD=1024), timeout=3000, tag="replay " + tag)
        c.absorb(g)
        os.remove(dump)
    # (5) the length prefix of delimited messages (byte strings around 2^31, 2^32, 2^63, 2^64, overlong and truncated
    #     varints) against every reader a peer reaches: protoio reader, NodeInfo handshake (real transport upgrade in a
    #     child process), MConnection packets, the secret connection's auth message
    files = {"MC_LenPrefix.cfg": "SPECIFICATION Spec\nINVARIANT NoPanic\nINVARIANT OnlyFitting\nACTION_CONSTRAINT Dump\n"}
    dump = os.path.join(c.scratch, "peer-lenprefix.dump")
    r = c.tlc("peer", "MC_LenPrefix.cfg", module="MC_LenPrefix", files=files, dump_to=dump, workers=2, timeout=600, tag="MC_LenPrefix")
    must(c, r, "MC_LenPrefix")
    g = c.gotest("peer", "TestLenPrefix", env=dict(PEER_DUMP=dump), timeout=1200, tag="replay length prefixes on every delimited reader")
    c.absorb(g)
    os.remove(dump)
    c.exhaustive = True
