"""C04 — liveness under a correct +2/3 and timely delivery; no reachable state blocks progress.
Decided on the real code: every adversarial prefix (seeded network runs with drops, reordering, early
timeouts, a Byzantine validator; the prefixes are validated against the handler-level specification by TLC)
is followed by a SYNCHRONOUS SUFFIX — everything in flight and everything the gossip routines would send is
delivered before any timeout fires — in which every correct node must pass the highest height reached;
a fresh network built from a genesis document shaped like deployment/local/genesis_devnet.yaml must commit
its first blocks.  The specification side: the prefixes are behaviours of KardiaNode (trace validation), and
MC_NodeEnv's exhaustive runs establish that no handler step panics or leaves the modelled state space."""
import os
from vlib import Infra
import checks.C01 as c01

def run(c):
    th = c.tier == "thorough"
    c.rule = ("seeded adversarial prefixes on real networks (3-7 nodes, equal and skewed powers, < 1/3 Byzantine) followed by "
              "the synchronous suffix with gossip (votes, proposal, parts, catch-up commits, majority claims); violation only "
              "for no commit within 4000 handler steps of timely delivery; plus fresh-genesis networks with named validators; "
              "evaluations = handler steps on real nodes; non-trivial = run went beyond round 1")
    c.assumptions = ["real reactor networks: real-time timeouts are far above in-memory delivery; the wait is at least 20x the "
                     "calibrated fault-free time, otherwise the result is infrastructure (never a verdict)",
                     "timely delivery is modelled as: deliver to a fixpoint (incl. what consensus/manager.go's gossip would "
                     "send, read from the round states), then fire the earliest timeout",
                     "node restarts inside prefixes: the *-restart configurations stop correct nodes between two handler calls "
                     "and rebuild them on the surviving database and WAL (real OnStart: state load, catchupReplay); the "
                     "trace specification's Restart action requires the recovered node to be exactly where the replay of its "
                     "logged inputs puts it, so a node that disagrees about height, round, lock or proposer after a restart "
                     "is rejected at the restart event or at the next proposal it handles (crashes INSIDE a handler: C05)"]
    g = c.gotest("node", "TestGenesisNetwork", timeout=1200, tag="fresh genesis networks")
    c.absorb(g)
    # the node's only clock: MC_Ticker states the replacement rule every model and driver of this family uses for the
    # node's timer; every sequence of schedule / fire actions is replayed on the REAL consensus.NewTimeoutTicker()
    cfg = ("SPECIFICATION Spec\nCONSTANTS\n  Hs = {1, 2}\n  Rs = {1, 2}\n  Steps = {1, 3, 5}\n  Depth = %d\nACTION_CONSTRAINT Dump\n"
           % (4 if th else 3))
    dump = os.path.join(c.scratch, "ticker.dump")
    r = c.tlc("node", "tk.cfg", module="MC_Ticker", files={"tk.cfg": cfg}, dump_to=dump, timeout=900, tag="MC_Ticker")
    if not r.ok:
        raise Infra("TLC failed on MC_Ticker: %s\n%s" % (r.error, c.tlc_tail(r)))
    g = c.gotest("node", "TestTickerReplay", env=dict(TICKER_DUMP=dump), timeout=2400, tag="real ticker replay")
    c.absorb(g)
    os.remove(dump)
    # the handlers conform to KardiaNode in the states where progress is decided (stale locks, precommit-wait
    # re-arming, round skips, POL waits): exhaustive transitions from the scripted start states, replayed on a real
    # node (same binding as C03, reduced scale) — a stale lock or a timeout that is never re-armed shows here as a
    # state/ticker mismatch long before a network run happens to walk into it
    import checks.nodecommon as nc
    table = nc.proposer_table(c)
    d = nc.env_bfs(c, table, 2, 2, "bfs2-prefixes", prefixes=True)
    g = c.gotest("node", "TestEnvReplay", env=dict(NODE_DUMP=d, NODE_ME=2, NODE_STRIDE=(4 if th else 25)), timeout=6000,
                 tag="replay of MC_NodeEnv transitions on a real node")
    c.absorb(g)
    os.remove(d)
    cfgs = ["4eq-byz", "4eq-byz2", "4w-byz", "3eq-nobyz", "4eq-calm"] + (["5w-byz", "7eq-byz2"] if th else [])
    c01.net_runs(c, cfgs, 60 if th else 6, ("net:liveness", "net:panic"))
    if not th:
        c01.net_runs(c, ["7eq-byz2", "5w-byz"], 2, ("net:liveness", "net:panic"))
    # a Byzantine block part must not be able to block a height: the proposal's part set accepts exactly the parts that
    # belong at their index (a poisoned slot refuses the honest part as a duplicate, the set completes and can never be
    # decoded, the commit step never resets it).  The network runs use single-part blocks; the part set itself is
    # specified in specs/partset/PartSet.tla: its complete graph for 2 and 3 parts (genuine, re-indexed, foreign,
    # damaged parts in every order) is replayed into the real PartSet (the replay C13 uses)
    import checks.C13 as c13
    for total in (2, 3):
        dump = os.path.join(c.scratch, "ps-%d.dump" % total)
        tag = "join: MC_PartSet total=%d" % total
        r = c.tlc("partset", "ps.cfg", module="MC_PartSet", files={"ps.cfg": c13.cfg_partset(total, 1, 0)}, dump_to=dump, timeout=3000, tag=tag)
        c13.must_hold(c, r, tag)
        c.absorb(c.gotest("partset", "TestReplay", env=dict(PS_DUMP=dump, PS_TOTAL=total, PS_STRIDE=1), timeout=3000, tag="join: replay " + tag))
        os.remove(dump)
    # REAL reactor networks (ConsensusManager gossip, p2p switches over net.Pipe, real ticker, real receiveRoutine, file
    # WAL): partition-heal, restart, crash at the gate, steered lag-by-one, late joiners, sparse topologies; every node's
    # handler calls are explained by TLC; the vote-gossip logic is specified in GossipVotes.tla and replayed
    import checks.reactornet as rn
    rn.run_part(c)
    # restarted nodes (real receive routine + file WAL + catchupReplay) inside the adversarial prefixes
    c01.net_runs(c, ["4eq-restart", "4w-restart"] + (["5w-restart"] if th else []), 40 if th else 4, ("net:liveness", "net:panic"))
    # validator-set changes over 7 heights (+ restarts), and the default configuration in which round 1 of a height is
    # proposed when the NewRound timeout (CreateEmptyBlocksInterval) fires
    c01.net_runs(c, ["5w-change-restart", "4eq-wait", "4eq-byz-leaves"] + (["4eq-change", "4w-wait-restart"] if th else []), 40 if th else 3,
                 ("net:liveness", "net:panic"))
