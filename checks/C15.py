"""C15 — the consensus WAL returns exactly what was written and detects every corruption.
specs/wal: WAL.tla (consensus/wal.go, lib/autofile/group.go, repairWalFile at record granularity with
byte-level damage classes), MC_WAL (exhaustive histories + per-transition dump), WALTrace (traces of
seeded random real runs).  harness/wal: TestReplay (MBT, every byte offset / bit of a damage class),
TestAlloc (allocation guard), TestRecord (TV producer)."""
import json, os, re
from vlib import Infra

MAXMSG = 1048576 + 24


def cfg_mc(kinds, heights, limits, maxrecs, maxdamage, maxpost, unsynced, dp=False, dump=True, tlimits="{0}", wpr=1, invs=("Inv",)):
    s = ("SPECIFICATION Spec\nCONSTANTS\n  MaxMsg = 1\n  HdrSz = 0\n  WritesPerRecord = %d\n  Kinds = %s\n  Heights = %s\n  Limits = %s\n  TLimits = %s\n"
         "  MaxRecs = %d\n  MaxDamage = %d\n  MaxPost = %d\n  Unsynced = %s\nVIEW View\n%s"
         "PROPERTY SyncIsDurable\n") % (wpr, kinds, heights, limits, tlimits, maxrecs, maxdamage, maxpost, "TRUE" if unsynced else "FALSE",
                                        "".join("INVARIANT %s\n" % i for i in invs))
    if dp:
        s += "INVARIANT DPAgrees\n"
    if dump:
        s += "ACTION_CONSTRAINT Dump\n"
    return s


def fold(c, g, tot):
    """absorb a Go result; numeric extras are summed over the runs (absorb keeps the last one)"""
    for k, v in (g.get("extra") or {}).items():
        if isinstance(v, (int, float)) and not isinstance(v, bool):
            tot[k] = max(tot.get(k, 0), v) if k.endswith("_worst_bytes") or k.endswith("max_height") else tot.get(k, 0) + v
        elif isinstance(v, dict):
            d = tot.setdefault(k, {})
            for kk, vv in v.items():
                d[kk] = d.get(kk, 0) + vv
    c.absorb(g)
    c.extra.update(tot)


def run(c):
    th = c.tier == "thorough"
    tot = {}
    c.rule = ("every transition of MC_WAL (histories of buffered/synced writes of markers and messages, flushes, head-size "
              "checks on both sides of the limit, total-size checks that remove the oldest files, restarts, crashes; then one damage of every class -- checksum / payload / "
              "length smaller, larger, above the limit / file cut at each region of a record / garbage of three size classes -- "
              "at every record of every file, then writes, restart or repair behind it) is replayed on a real consensus.BaseWAL "
              "with real messages of all 12 kinds (seeded field values; size classes small / 1.5 KB / 5 KB / 40 KB chosen by TLC, so that "
              "files cross 4096, 8192 and 65536 bytes); the ticker's head-size check is also run INSIDE Write/WriteSync, behind "
              "every group write of the message; the damage is realised for EVERY byte offset and bit "
              "of its class on a seeded share of the logs (WAL_EXH) and by a seeded selection elsewhere; compared after every "
              "step: result class, bytes on disk per file vs written messages (codec-independent field rendering), and in the "
              "last state: group read, per-file read, SearchForEndHeight for every height and both options (reader position "
              "included), repairWalFile; non-trivial = a damage, or a history of more than one action.  Thorough adds TLC "
              "validation of traces of large seeded random logs with multi-byte corruption (WALTrace).")
    c.assumptions = [
        "CRC-32C detects every multi-byte change the drivers produce (certain for single-bit flips and bursts <= 32 bits, "
        "probability 1 - 2^-32 otherwise); no payload contains a valid record at the offset where a reader that lost the framing looks",
        "damage classes are specified for isolated damage (damaged records that are neighbours in the stream merge into byte "
        "patterns the classes do not name)",
        "a process crash is modelled (bufio buffer lost, written bytes kept), not a power failure; the 40 KiB bufio buffer never spills in the drivers",
        "EndHeight heights are >= 0; SearchForEndHeight is called with non-nil options",
        "WALEncoder.Encode hands a record to the autofile group in ONE Group.Write (WritesPerRecord = 1): stated in WAL.tla, "
        "refuted for 2 by the companion TLC run, and bound by running the ticker's checkHeadSizeLimit from a hook at the end of "
        "Group.Write behind every group write the real encoder makes for a message; the ticker goroutine itself is not run",
        "the driver's own byte arithmetic (record boundaries, CRC-32C, class of a byte offset) and its field-by-field rendering of messages are trusted",
    ]
    M, MH, BIG = '{"m"}', '{"m", "huge"}', '{"m", "m1k", "m5k", "m40k"}'
    # tag, cfg, replay env, alloc?
    runs = [
        ("dmg4", cfg_mc(M, "{0, 1, 2}", "{1, 2}", 4, 1, 0, True),
         dict(WAL_STRIDE=1 if th else 12, WAL_EXH=20 if th else 8), True),
        ("post", cfg_mc(M, "{0, 1}", "{1}", 3 if not th else 4, 1, 2, False, dp=True),
         dict(WAL_STRIDE=2 if th else 4, WAL_EXH=10), False),
        ("huge", cfg_mc(MH, "{0, 1}", "{0, 1}", 3, 0, 0, True), dict(WAL_STRIDE=1), False),
        # total size limit: oldest files removed (sizes 2 and 3 records), then reads / searches / restart
        ("prune", cfg_mc(M, "{0, 1}", "{1}", 5, 0, 0, False, tlimits="{2, 3}"), dict(WAL_STRIDE=1 if th else 6), False),
        # padded records (size classes 1.5 KB / 5 KB / 40 KB among small ones): files cross 4096, 8192 and 65536 bytes,
        # frames straddle the refill boundaries of buffered readers; one damage before / inside / behind them
        ("big4", cfg_mc(BIG, "{1}", "{3}", 4, 1, 0, False), dict(WAL_STRIDE=1 if th else 3, WAL_EXH=10), False),
        # seven one-record files: the four-files-per-check bound of checkTotalSizeLimit
        ("prune7", cfg_mc("{}", "{0}", "{1}", 7, 0, 0, False, tlimits="{1, 2}"), dict(WAL_STRIDE=1), False),
    ]
    if th:
        runs += [
            ("rec5", cfg_mc(M, "{0, 1, 2}", "{1, 2}", 5, 1, 0, False), dict(WAL_STRIDE=7, WAL_EXH=5), False),
            ("rec6", cfg_mc(M, "{0, 1}", "{2}", 6, 1, 0, False), dict(WAL_STRIDE=5, WAL_EXH=5), False),
            ("dmg2", cfg_mc(M, "{0, 1}", "{1}", 3, 2, 0, False, dp=True), dict(WAL_STRIDE=3, WAL_EXH=5), False),
            ("big5", cfg_mc(BIG, "{1}", "{3}", 5, 1, 0, False), dict(WAL_STRIDE=5, WAL_EXH=5), False),
            ("kinds", cfg_mc('{"rs", "to", "prop", "part", "vote"}', "{1}", "{1}", 3, 0, 0, False), dict(WAL_STRIDE=1), False),
        ]
    for tag, cfg, env, alloc in runs:
        dump = os.path.join(c.scratch, "wal-%s.dump" % tag)
        r = c.tlc("wal", "MCgen.cfg", module="MC_WAL", files={"MCgen.cfg": cfg}, dump_to=dump, timeout=2400, tag=tag)
        if r.violated:
            raise Infra("specification invariant %s violated in MC_WAL %s\n%s" % (r.violated, tag, c.tlc_tail(r)))
        if not r.ok:
            raise Infra("TLC failed on MC_WAL %s: %s\n%s" % (tag, r.error, c.tlc_tail(r)))
        e = dict(WAL_DUMP=dump)
        e.update(env)
        g = c.gotest("wal", "TestReplay", env=e, timeout=2400, tag="replay " + tag)
        fold(c, g, tot)
        if alloc:
            g = c.gotest("wal", "TestAlloc", env=dict(WAL_DUMP=dump, WAL_LIMIT=300 if th else 60), timeout=900, tag="alloc " + tag)
            fold(c, g, tot)
        os.remove(dump)
    companion(c)
    c.exhaustive = True
    if th:
        tv(c, tot)


def companion(c):
    """The assumption behind FilesStartAtFrame: WALEncoder.Encode hands a record to the group in ONE Write.  The same
    model with WritesPerRecord = 2 (header, then payload; the ticker's head-size check may come between any two group
    writes): TLC must reach states in which a file starts in the middle of a frame (SplitWitness prints them; the search
    is complete).  The binding of the assumption is in TestReplay: in-write ticks at every real group-write position."""
    cfg = cfg_mc('{"m"}', "{0, 1}", "{1, 2}", 4, 0, 0, True, dump=False, wpr=2, invs=("SplitWitness",))
    r = c.tlc("wal", "MCgen.cfg", module="MC_WAL", files={"MCgen.cfg": cfg}, timeout=900, tag="companion WritesPerRecord=2")
    if not r.ok:
        raise Infra("TLC failed on the companion model: %s %s\n%s" % (r.violated, r.error, c.tlc_tail(r)))
    n = open(r.out, errors="replace").read().count('"SPLIT"')
    if n == 0:
        raise Infra("companion model (WritesPerRecord = 2) does not refute FilesStartAtFrame: the in-write tick is not modelled")
    c.extra["companion_states_refuting_FilesStartAtFrame"] = n


LOCKSTEP = {"new", "fl", "tick", "wt", "wst", "restart", "crash", "flip", "cut", "junk", "reset"}


def tv(c, tot):
    """Large seeded random logs through the real WAL, validated by TLC against WALTrace."""
    trace = os.path.join(c.scratch, "wal-trace.ndjson")
    g = c.gotest("wal", "TestRecord", env=dict(WAL_TRACE=trace, WAL_LOGS=150), timeout=1200, tag="record")
    maxh = int((g.get("extra") or {}).get("trace_max_height", 8))
    nlogs = int(g.get("behaviours", 0))
    g["behaviours"] = 0      # counted below, once TLC has accepted them
    fold(c, g, tot)
    hs = sorted({0, 1, 2, maxh // 2, maxh})
    files = {"trace.ndjson": trace,
             "TV.tla": "---- MODULE TV ----\nEXTENDS WALTrace\nHs == {%s}\n====\n" % ", ".join(map(str, hs)),
             "TV.cfg": ("SPECIFICATION Spec\nCONSTANTS\n  MaxMsg = %d\n  HdrSz = 8\n  WritesPerRecord = 1\n  TraceFile = \"trace.ndjson\"\n"
                        "  SearchHs <- Hs\nINVARIANT Inv\nPOSTCONDITION Accepted\nCHECK_DEADLOCK FALSE\n") % MAXMSG}
    r = c.tlc("wal", "TV.cfg", module="TV", files=files, workers=1, timeout=1500, tag="WALTrace %d logs" % nlogs)
    events = [json.loads(l) for l in open(trace)]
    out = open(r.out, errors="replace").read()
    if r.ok:
        c.traces += nlogs
        c.extra["trace_events_validated"] = len(events)
        return
    m = re.search(r'"REJECTED: explained", (\d+), "of", (\d+)', out)
    if r.violated or m:
        # the first event the specification cannot explain / the state in which an invariant fails
        k = int(m.group(1)) if m else max(r.depth - 1, 0)
        ev = events[k] if k < len(events) else {}
        start = max(i for i in range(k + 1) if events[i]["a"] == "reset") if events else 0
        a = str(ev.get("a", "?")).split(":")[0]
        what = ("invariant %s fails after" % r.violated) if r.violated else "the specification does not explain"
        sig = ("infra:lockstep:trace:" + a) if (a in LOCKSTEP and not r.violated) else ("wal:trace:" + a)
        c.report(sig, "%s event %d of the recorded trace: %s" % (what, k + 1, json.dumps(ev)),
                 dict(seed=c.seed, first_unexplained=ev, log_prefix=events[start:k + 1][-400:]))
        c.traces += sum(1 for e in events[:k] if e["a"] == "reset") - 1 if k else 0
        return
    raise Infra("TLC failed on WALTrace: %s\n%s" % (r.error, c.tlc_tail(r)))
