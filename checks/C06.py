"""C06 -- block execution is deterministic: same block, same parent state, same result.
specs/determinism: Determinism.tla (the functional tables gen / exec / upd and the actions Genesis / ApplyBlock / Reexecute,
the consensus-level consequences AppHashAgreement and OwnProposalAccepted), MC_Determinism.tla (model: nodes that propose from
their own state and apply decided blocks with freely chosen results, guarded by the tables; unguarded companions must violate
the invariants), MC_ValUpdates.tla (calculateValidatorSetUpdates + updateState on top of specs/valset/ValidatorSet.tla:
order independence of the validator report; per-transition dump), DeterminismTrace.tla (validation of traces of real runs).
harness/determinism: TestRecord / TestChild (producer of the traces: seeded random chains executed in every configuration,
repeatedly, and in fresh child processes), TestNetwork (real consensus networks, every node another configuration),
TestValUpdates (replay of MC_ValUpdates into the real cstate path, every report in several permutations)."""
import json, os, shutil, subprocess, time
from concurrent.futures import ThreadPoolExecutor
from vlib import Infra, JAVA_CP, SPECS, parse_tlc_output, TLCResult

FAM = "determinism"
VALSET = os.path.join(SPECS, "valset", "ValidatorSet.tla")

GENVALS = "{<<1, 10>>, <<2, 10>>, <<3, 10>>}"
REPORTS = ('[p \\in {"same", "power", "leave", "join"} |->\n'
           '   CASE p = "same" -> {<<1, 10>>, <<2, 10>>, <<3, 10>>}\n'
           '     [] p = "power" -> {<<1, 30>>, <<2, 10>>, <<3, 10>>}\n'
           '     [] p = "leave" -> {<<1, 10>>, <<2, 10>>}\n'
           '     [] p = "join" -> {<<1, 10>>, <<2, 10>>, <<3, 10>>, <<4, 5>>}]')


def mc_det(nodes, payloads, maxh, maxprops, fgen=True, fexec=True, invs=("Inv",)):
    tla = "---- MODULE MCgen ----\nEXTENDS MC_Determinism\nGenValsV == %s\nReportsV == %s\n====\n" % (GENVALS, REPORTS)
    cfg = ["SPECIFICATION Spec", "CONSTANTS", "  NoPower = 0",
           "  Nodes = {%s}" % ", ".join('"n%d"' % (i + 1) for i in range(nodes)),
           "  Payloads = {%s}" % ", ".join('"%s"' % p for p in payloads),
           "  Reports <- ReportsV", "  GenVals <- GenValsV", "  MaxH = %d" % maxh, "  MaxProps = %d" % maxprops,
           "  Salts = {0, 1}", "  FaithfulGen = %s" % ("TRUE" if fgen else "FALSE"),
           "  FaithfulExec = %s" % ("TRUE" if fexec else "FALSE")]
    cfg += ["INVARIANT %s" % i for i in invs]
    return {"MCgen.tla": tla, "MCgen.cfg": "\n".join(cfg) + "\n"}


def mc_vu(initp, addrs, powers, depth, maxreport, dup=False, invs=("Inv",), dump=True, cap=1000000):
    tla = "---- MODULE MCgen ----\nEXTENDS MC_ValUpdates\nInitP == <<%s>>\n====\n" % ", ".join(map(str, initp))
    cfg = ["SPECIFICATION Spec", "CONSTANTS", "  Cap = %d" % cap, "  Addrs = %s" % addrs, "  Powers = %s" % powers,
           "  InitPowers <- InitP", "  Depth = %d" % depth, "  MaxReport = %d" % maxreport,
           "  AllowDup = %s" % ("TRUE" if dup else "FALSE"), "VIEW View"]
    cfg += ["INVARIANT %s" % i for i in invs]
    if dump:
        cfg.append("ACTION_CONSTRAINT Dump")
    return {"MCgen.tla": tla, "MCgen.cfg": "\n".join(cfg) + "\n", "ValidatorSet.tla": VALSET}


# ---------------------------------------------------------------------------------------------- trace validation
TRACE_CFG = 'SPECIFICATION Spec\nCONSTANTS\n  NoPower = "0"\nINVARIANT Inv\nPOSTCONDITION AllConsumed\n'


def tlc_trace(c, k, trace, timeout):
    """One TLC process validating one trace file (own scratch copy, own metadir, timeout)."""
    work = os.path.join(c.scratch, "tv-%d" % k)
    shutil.copytree(os.path.join(SPECS, FAM), work)
    shutil.copy(trace, os.path.join(work, "trace.ndjson"))
    with open(os.path.join(work, "Trace.cfg"), "w") as f:
        f.write(TRACE_CFG)
    out = os.path.join(work, "tlc.out")
    cmd = ["java", "-XX:+UseParallelGC", "-Xss256m", "-Xmx3g", "-Djava.io.tmpdir=" + os.path.dirname(work), "-cp", JAVA_CP, "tlc2.TLC", "-config", "Trace.cfg",
           "-metadir", os.path.join(work, "meta"), "-workers", "1", "-deadlock", "DeterminismTrace.tla"]
    res = TLCResult()
    t0 = time.time()
    with open(out, "w") as fo:
        try:
            rc = subprocess.run(cmd, cwd=work, stdout=fo, stderr=subprocess.STDOUT, timeout=timeout).returncode
        except subprocess.TimeoutExpired:
            rc, res.timed_out = -1, True
    res.wall = time.time() - t0
    res.out = out
    parse_tlc_output(out, res)
    res.rc = rc
    res.ok = rc == 0 and res.violated is None and res.error is None
    return res


# items of an unexplained "apply" line that are not about the tables but about the set-level functions of Determinism.tla
SET_LEVEL = {
    "change-set-not-a-function-of-the-reported-set":
        "the update list calculateValidatorSetUpdates produced (vu) is not CalcUpdates(NextValidators, reported SET): new or changed "
        "validators plus a removal for every member that was not reported",
    "next-validators-members":
        "members / powers of the resulting NextValidators (nvs) are not the previous ones overridden by the update SET (vu)",
    "next-validators-priorities":
        "priorities / proposer of the resulting NextValidators (nv) differ from what another run got from the same NextValidators and "
        "the same update SET",
    "parent-state-root": "the block was executed on another state root (par) than the one the run's previous block left",
    "run-without-genesis": "the run executed a block without having executed a genesis document",
}


def brief(e):
    keep = ("n", "cfg", "path", "h", "r", "par", "blk", "app", "rcp", "blm", "gas", "rew", "vr", "vu", "nv", "nvs", "err", "skip",
            "root", "gh", "st", "fre")
    return {k: e[k] for k in keep if k in e and e[k] not in ("", [], None)}


def path_class(e):
    return (e.get("path") or "?").split(":")[0]


def validate(c, paths, tagbase, kind):
    """TLC validates the trace files; every unexplained line becomes a reported mismatch.  Returns (events, bad runs)."""
    with ThreadPoolExecutor(max_workers=min(8, len(paths))) as ex:
        results = list(ex.map(lambda kp: tlc_trace(c, len(c.tlc_runs) * 100 + kp[0], kp[1], 3000), list(enumerate(paths))))
    events = 0
    bad_runs = set()
    for p, r in zip(paths, results):
        lines = open(p).read().splitlines()
        events += len(lines)
        c.tlc_runs.append(dict(r.as_dict(), family=FAM, module="DeterminismTrace", tag="%s %s" % (tagbase, os.path.basename(p)),
                               mode="trace-validation", events=len(lines)))
        c.states += r.distinct
        c.transitions += r.generated
        reports = []
        with open(r.out, errors="replace") as f:
            for ln in f:
                if not ln.startswith('"'):
                    continue
                try:
                    reports.append(json.loads(json.loads(ln)))
                except Exception:
                    continue
        for ev in reports:
            if ev.get("tv") == "note":
                c.extra["tv_notes"] = c.extra.get("tv_notes", 0) + 1
                continue
            if ev.get("tv") != "unexplained":
                continue
            n = ev["line"]
            rec = json.loads(lines[n - 1])
            bad_runs.add(rec.get("n"))
            first = None
            fl = (ev.get("first") or {}).get("line", 0)
            if fl:
                first = json.loads(lines[fl - 1])
            elif (ev.get("first") or {}).get("n"):
                first = dict(n=ev["first"]["n"])
            for what in sorted(ev["what"]):
                sig = "determinism:tv:%s:%s:%s" % (rec["e"], what, path_class(rec))
                if what in SET_LEVEL:
                    text = ("scenario %s: run %s (configuration %s, path %s) at height %s: %s; event: %s (seed %d, %s tier)"
                            % (rec.get("scn"), rec.get("n"), rec.get("cfg"), rec.get("path"), rec.get("h"), SET_LEVEL[what],
                               json.dumps(brief(rec))[:2500], c.seed, c.tier))
                elif rec["e"] in ("apply", "gen"):
                    text = ("%s of scenario %s: run %s (configuration %s, path %s) at height %s got another %s than run %s recorded for the "
                            "same %s; this run: %s; first: %s (seed %d, %s tier)"
                            % ("block execution" if rec["e"] == "apply" else "genesis execution", rec.get("scn"), rec.get("n"),
                               rec.get("cfg"), rec.get("path"), rec.get("h"), what, (first or {}).get("n", "?"),
                               "block on the same parent state" if rec["e"] == "apply" else "genesis document",
                               json.dumps(brief(rec))[:1500], json.dumps(brief(first or {}))[:1500], c.seed, c.tier))
                else:
                    text = ("network scenario %s: prevote of node %s at height %s round %s is not explained (%s): vote %s; proposal by %s "
                            "(seed %d, %s tier)" % (rec.get("scn"), rec.get("n"), rec.get("h"), rec.get("r"), what,
                                                    json.dumps(brief(rec)), (first or {}).get("n", "?"), c.seed, c.tier))
                c.report(sig, text, dict(differing=sorted(ev["what"]), event=rec, first=first, seed=c.seed, tier=c.tier, kind=kind))
        if r.violated:
            # an invariant of the specification failed on a state of a real trace whose every step was explained
            c.report("determinism:tv:invariant:%s" % r.violated,
                     "invariant %s of DeterminismTrace.tla is false in a state reached by a real trace (%s, seed %d)" % (r.violated, os.path.basename(p), c.seed),
                     dict(trace=os.path.basename(p), tail=c.tlc_tail(r, 60), seed=c.seed, tier=c.tier))
        elif not r.ok:
            raise Infra("TLC could not validate %s: %s\n%s" % (p, r.error or ("rc=%s timed_out=%s" % (r.rc, r.timed_out)), c.tlc_tail(r)))
    return events, bad_runs


def gotest_retry(c, run, env, timeout, tag):
    """One retry for a driver process that died without a result (a goroutine of the real code panicked, the machine ran out
    of something): never a verdict, but kept visible in the evidence."""
    try:
        return c.gotest(FAM, run, env=env, timeout=timeout, tag=tag)
    except Infra as e:
        c.extra["driver_runs_retried"] = c.extra.get("driver_runs_retried", 0) + 1
        c.extra["driver_retry_reason"] = str(e)[-1500:]
        return c.gotest(FAM, run, env=env, timeout=timeout, tag=tag + " (retry)")


def record_and_validate(c, scenarios, shards, first, reps, children):
    trace = os.path.join(c.scratch, "det-trace-%d" % first)
    g = gotest_retry(c, "TestRecord", dict(DET_TRACE=trace, DET_SCENARIOS=scenarios, DET_SHARDS=shards, DET_FIRST=first,
                                           DET_REPS=reps, DET_CHILDREN=children),
                     3000, "record %d scenarios from %d" % (scenarios, first))
    for m in (g.get("mismatches") or []):      # panics / apply errors of the real code, infrastructure
        c.report(m.get("sig", "unspecified"), m.get("text", ""), m.get("detail"))
    ex = g.get("extra") or {}
    for k in ("events", "executions", "scenarios_recorded"):
        c.extra[k] = c.extra.get(k, 0) + int(ex.get(k, 0))
    for k in ("configurations", "tx_kinds"):
        if k in ex:
            c.extra[k] = ex[k]
    c.extra["child_processes"] = c.extra.get("child_processes", 0) + int(ex.get("child_processes", 0))
    c.distinct_nontrivial += int(g.get("distinct_nontrivial", 0))
    for s in (g.get("samples") or [])[:2]:
        if len(c.samples) < 8:
            c.samples.append(s)
    paths = [trace + ".%d" % k for k in range(shards)]
    for p in paths:
        if not os.path.exists(p):
            raise Infra("recorder wrote no trace %s" % p)
    events, bad = validate(c, paths, "trace validation", "record")
    nscen = int(ex.get("scenarios_recorded", 0))
    bad_scen = set(b.split("/")[0] for b in bad if b)
    c.traces += max(0, nscen - len(bad_scen))
    c.evaluations += int(ex.get("executions", 0))
    c.extra["tv_events"] = c.extra.get("tv_events", 0) + events
    c.extra["tv_runs_not_explained"] = c.extra.get("tv_runs_not_explained", 0) + len(bad)
    for p in paths:
        os.remove(p)


def network_and_validate(c, nets, shards, first, heights):
    trace = os.path.join(c.scratch, "det-net-%d" % first)
    g = gotest_retry(c, "TestNetwork", dict(DET_TRACE=trace, DET_NETS=nets, DET_SHARDS=shards, DET_FIRST=first, DET_NET_HEIGHTS=heights),
                     3000, "%d networks from %d" % (nets, first))
    for m in (g.get("mismatches") or []):
        c.report(m.get("sig", "unspecified"), m.get("text", ""), m.get("detail"))
    for s in (g.get("samples") or [])[:2]:
        if len(c.samples) < 8:
            c.samples.append(s)
    c.distinct_nontrivial += int((g.get("extra") or {}).get("network_nontrivial_executions", 0))
    paths = [trace + ".%d" % k for k in range(shards)]
    for p in paths:
        if not os.path.exists(p):
            raise Infra("network driver wrote no trace %s" % p)
    events, bad = validate(c, paths, "network trace validation", "network")
    bad_scen = set(b.split("/")[0] for b in bad if b)
    c.traces += max(0, int(g.get("behaviours", 0)) - len(bad_scen))
    c.evaluations += events
    c.extra["network_events"] = c.extra.get("network_events", 0) + events
    c.extra["networks"] = c.extra.get("networks", 0) + int(g.get("behaviours", 0))
    for p in paths:
        os.remove(p)


def run(c):
    th = c.tier == "thorough"
    dev = bool(os.environ.get("VERIF_DEV"))
    workers = 4 if dev else None
    c.rule = ("TV: seeded random scenarios = a genesis document (3-5 validators of which 3-4 start with genesis, funded senders, contracts "
              "with grammar-generated byte code and storage; pre-Galaxias, Galaxias, or the hard-fork switch inside the scenario) and a "
              "chain of 3-5 blocks of 0-8 random transactions (transfers, creations, calls into generated code with SSTORE of constants "
              "and of environment values / LOG0-3 / CALL* / CREATE(2) / SELFDESTRUCT / REVERT / out of gas, staking calls that change "
              "validator powers and membership, and -- in blocks the driver builds as another proposer -- transactions with wrong nonce, "
              "unaffordable, below the intrinsic gas, above the block gas, with a foreign signature, and duplicate-vote evidence that makes "
              "commitBlock slash and jail a validator), top-level and inner calls (value 0 and > 0, ample gas and so little that the "
              "frame runs out of gas) to the precompiles 1..9 -- mostly RIPEMD-160, whose touch survives a reverted frame in the journal -- "
              "and to non-existent addresses, also as the ONLY transaction of a block; a contract that is destroyed and re-created at the "
              "same address by consecutive transactions, or whose re-creation (value transfer / CREATE2) happens inside a frame that is "
              "reverted (whole transaction, or an inner frame next to a succeeding sibling) and which the next block reads (balance, code "
              "hash, code size, call, transfer); commits with absent signatures; one scenario in 24 is a chain of 131-138 mostly empty blocks (trie garbage "
              "collection and flush limits run); one in 40 is a snapshot-flush chain of 142-144 blocks (4 configurations: long-running with "
              "snapshots, archive, trie only, re-opened): the first 8 blocks write 9300 fresh 32-byte slots each (more than the snapshot "
              "aggregator's 4 MB), block 3 clears 300 slots of the genesis state and destroys a genesis contract, the last 9 blocks re-read "
              "the cleared slots and probe the destroyed account after the bottom layers were flushed into the snapshot's disk layer. "
              "Every block is executed on its parent state by the producer (proposer path, block from CreateProposalBlock), by 10 "
              "configurations through SaveBlock + BlockExecutor.ApplyBlock (snapshots on / off / still generating, dirty cache disabled, "
              "preimages, prefetch flag, clean cache off, warm vs re-opened from the database), several times by commitBlock on a warm "
              "chain (plain, prefetcher running, StateDB.Copy, without snapshot tree) and in fresh child processes; TLC must explain "
              "every execution by the functional tables of Determinism.tla.  Real 3-4 node consensus networks (every node another "
              "configuration, transactions in the pools) add propose / prevote / apply events.  A (parent, block) pair is non-trivial "
              "iff the block uses gas or changes the validator set (distinct = pairs).  MBT: every transition of MC_ValUpdates "
              "(reports of 0-3 validators incl. zero powers over 4 addresses, 2-3 blocks) is replayed into calculateValidatorSetUpdates + "
              "updateState in 5 permutations; non-trivial iff the last report is not empty.  MC: the consensus-level consequences on the "
              "model, companions without the guards must violate them.")
    c.assumptions = ["the application (staking contract) reports every validator at most once; for reports that name a validator twice "
                     "calculateValidatorSetUpdates is order dependent in the specification (companion run) -- not part of the statement",
                     "hashes are collision free: a state root identifies a state, a block hash a block (its header, hence time and proposer)",
                     "secp256k1 / keccak are sound; kaidb/memorydb behaves like the production store for reads after writes",
                     "real voting powers (~10^15) are outside TLC's integers: on real traces priorities and proposer are compared as one "
                     "opaque value and powers as strings; the arithmetic is specified at small powers (ValidatorSet.tla, MC_ValUpdates.tla)",
                     "the consensus-state store is taken as faithful when a configuration re-opens its chain (the in-memory state is kept: C14)",
                     "a block the producer itself cannot execute (commitBlock returns an error, e.g. the staking contract reverts) ends the "
                     "scenario's chain: every other run must fail on it alike, which TLC checks; that such blocks exist is not C06's subject",
                     "which block is decided (C01) and who proposes (C12) are outside this family; the network runs are synchronous "
                     "(FIFO delivery, a timeout fires only when nothing is in flight)"]

    # ---- MC: consensus-level consequences on the model -------------------------------------------------
    vectors = [
        # tag, files, expected violation (None: must hold)
        ("replicas-2x3payloads", mc_det(2, ("same", "power", "leave"), 2, 2), None),
        ("replicas-3", mc_det(3, ("power", "leave"), 2, 2 if th else 1), None),
        ("unfaithful-genesis", mc_det(2, ("power",), 1, 1, fgen=False, invs=("Functional",)), ("Functional",)),
        ("unfaithful-exec:Functional", mc_det(2, ("power",), 2, 1, fexec=False, invs=("Functional",)), ("Functional",)),
        ("unfaithful-exec:AppHashAgreement", mc_det(2, ("power",), 2, 1, fexec=False, invs=("AppHashAgreement",)), ("AppHashAgreement",)),
        ("unfaithful-exec:OwnProposalAccepted", mc_det(2, ("power",), 2, 1, fexec=False, invs=("OwnProposalAccepted",)), ("OwnProposalAccepted",)),
        ("unfaithful-exec:DecidedIsApplicable", mc_det(2, ("power",), 2, 2, fexec=False, invs=("DecidedIsApplicable",)), ("DecidedIsApplicable",)),
        ("reach:NeverChangesValidators", mc_det(2, ("power", "leave"), 2, 1, invs=("NeverChangesValidators",)), ("NeverChangesValidators",)),
        ("reach:NeverReachesMaxH", mc_det(2, ("power",), 2, 1, invs=("NeverReachesMaxH",)), ("NeverReachesMaxH",)),
    ]
    if th:
        vectors.append(("replicas-2x3payloads-h3", mc_det(2, ("power", "leave", "join"), 3, 1), None))
    for tag, files, expect in vectors:
        r = c.tlc(FAM, "MCgen.cfg", module="MCgen", files=files, timeout=5400, tag=tag, workers=workers)
        if expect is None:
            if r.violated:
                raise Infra("specification invariant %s violated in %s\n%s" % (r.violated, tag, c.tlc_tail(r, 60)))
            if not r.ok:
                raise Infra("TLC failed on %s: %s\n%s" % (tag, r.error, c.tlc_tail(r)))
        else:
            if r.violated not in expect:
                raise Infra("%s: TLC was expected to report %s violated (companion run), got violated=%s error=%s\n%s"
                            % (tag, "/".join(expect), r.violated, r.error, c.tlc_tail(r)))
            c.tlc_runs[-1]["expected_violation"] = r.violated

    # ---- MC + MBT: the validator report -> next validator set ------------------------------------------
    vu = [
        # tag, initp, files, stride
        ("valupd-111", (1, 1, 1), mc_vu((1, 1, 1), "{1, 2, 3, 4}", "{0, 1, 3}", 3 if th else 2, 3), 1),
        ("valupd-521", (5, 2, 1), mc_vu((5, 2, 1), "{1, 2, 3, 4}", "{1, 2, 40}", 3 if th else 2, 3 if th else 2), 1),
        ("valupd-cap", (40, 30), mc_vu((40, 30), "{1, 2, 3}", "{0, 30, 60}", 2, 3 if th else 2, cap=100), 1),
    ]
    for tag, initp, files, stride in vu:
        dump = os.path.join(c.scratch, "%s.dump" % tag)
        r = c.tlc(FAM, "MCgen.cfg", module="MCgen", files=files, dump_to=dump, timeout=5400, tag=tag, workers=workers)
        if r.violated:
            raise Infra("specification invariant %s violated in %s\n%s" % (r.violated, tag, c.tlc_tail(r, 60)))
        if not r.ok:
            raise Infra("TLC failed on %s: %s\n%s" % (tag, r.error, c.tlc_tail(r)))
        env = dict(VU_DUMP=dump, VU_INIT=",".join(map(str, initp)), VU_STRIDE=stride)
        if tag == "valupd-cap":
            env["VU_CAP"] = 100
        g = c.gotest(FAM, "TestValUpdates", env=env, timeout=3000, tag="replay " + tag)
        c.absorb(g)
        os.remove(dump)
    r = c.tlc(FAM, "MCgen.cfg", module="MCgen", workers=workers, timeout=1800, tag="valupd-duplicate-report",
              files=mc_vu((1, 1, 1), "{1, 2, 3}", "{1, 3}", 1, 2, dup=True, invs=("OrderIndependent",), dump=False))
    if r.violated != "OrderIndependent":
        raise Infra("valupd-duplicate-report: expected OrderIndependent to be violated (companion run), got violated=%s error=%s\n%s"
                    % (r.violated, r.error, c.tlc_tail(r)))
    c.tlc_runs[-1]["expected_violation"] = r.violated
    r = c.tlc(FAM, "MCgen.cfg", module="MCgen", workers=workers, timeout=1800, tag="valupd-reach:NeverChangesMembers",
              files=mc_vu((1, 1, 1), "{1, 2, 3, 4}", "{1, 3}", 1, 2, invs=("NeverChangesMembers",), dump=False))
    if r.violated != "NeverChangesMembers":
        raise Infra("valupd-reach: expected NeverChangesMembers to be violated (companion run), got violated=%s error=%s\n%s"
                    % (r.violated, r.error, c.tlc_tail(r)))
    c.tlc_runs[-1]["expected_violation"] = r.violated

    # ---- TV: real executions in every configuration -> specification -----------------------------------
    if th:
        for k in range(4):
            record_and_validate(c, 150, 8, first=k * 150, reps=6, children=5)
        network_and_validate(c, 64, 4, 0, 8)
    else:
        record_and_validate(c, 40, 4, first=0, reps=6, children=4)
        network_and_validate(c, 8, 2, 0, 5)
    c.exhaustive = False
