"""C12 — proposer rotation is the specified weighted round-robin; set updates are well-formed.
specs/valset: ValidatorSet.tla (as specified), MC_ValidatorSet (exhaustive histories + dump),
MC_Rotation (FairShare / NoStarvation of the specification + dump)."""
import os
from vlib import Infra

def gen(base, name, initp, bad="{}"):
    return {name + ".tla": "---- MODULE %s ----\nEXTENDS %s\nInitP == <<%s>>\nBadP == %s\n====\n" %
            (name, base, ", ".join(map(str, initp)), bad)}

def cfg_hist(cap, addrs, powers, depth, maxtimes, allornothing=False):
    s = ("SPECIFICATION Spec\nCONSTANTS\n  Cap = %d\n  Addrs = %s\n  Powers = %s\n  BadPowers <- BadP\n  Depth = %d\n"
         "  MaxTimes = %d\n  InitPowers <- InitP\nVIEW View\nINVARIANT Inv\nACTION_CONSTRAINT Dump\n") % (
        cap, addrs, powers, depth, maxtimes)
    if allornothing:
        s += "PROPERTY AllOrNothing\n"
    return s

def cfg_rot(addrs, powers, pre, windows):
    return ("SPECIFICATION Spec\nCONSTANTS\n  Cap = 1000000\n  Addrs = %s\n  Powers = %s\n  Pre = %d\n  Windows = %d\n"
            "  InitPowers <- InitP\n  FairC = 1\n  StarveD = 2\nVIEW View\nINVARIANT FairShare\nINVARIANT NoStarvation\n"
            "ACTION_CONSTRAINT Dump\n") % (addrs, powers, pre, windows)

def run(c):
    th = c.tier == "thorough"
    c.rule = ("every transition of MC_ValidatorSet (histories of Increment(1..2) and change sets of 1-2 entries: adds, power "
              "changes, removals, duplicates, negative / oversized powers, unknown removals, emptying, total above the cap) and "
              "every transition of MC_Rotation (static-set rotation after arbitrary prefixes) is replayed from NewValidatorSet "
              "into the real types.ValidatorSet; compared: order, powers, every ProposerPriority, proposer, ok/error, "
              "all-or-nothing, same result for the reversed change list; non-trivial = last step is a change set.  Plus the "
              "updateState clause: every chain of MC_CStateStore (change sets per block, no prunes) through the real "
              "cstate.updateState, compared with Increment(Update(NextValidators, changes), 1) and the shift of the three sets")
    c.assumptions = ["TLC integers are 32-bit: TLC evaluates the specification at small powers; the cap clauses are replayed at a "
                     "scale where the specification's Cap equals MaxTotalVotingPower.  Rounding and the rescale threshold are not "
                     "scale-invariant, so at that scale the specification speaks through harness/valset/ref_test.go, a "
                     "line-by-line big-integer copy of ValidatorSet.tla that must reproduce TLC's result on EVERY generated "
                     "transition at unit scale (any difference is an infrastructure error) and then gives the exact priorities "
                     "and proposer at the large scale"]
    runs = [
        # tag, module, initp, cfg text, env
        ("hist3", "MC_ValidatorSet", (1, 1, 1), cfg_hist(1000000, "{1, 2, 3}", "{1, 3, 40}", 4, 2), {}, "{}"),
        ("hist-bad", "MC_ValidatorSet", (2, 1), cfg_hist(1000000, "{1, 2, 3}", "{1, 5}", 3 if th else 2, 1, True), {}, "{-1}"),
        ("hist-cap", "MC_ValidatorSet", (40, 30), cfg_hist(100, "{1, 2, 3}", "{1, 30, 60}", 3 if th else 2, 1),
         dict(VSET_CAP=100, VSET_COMPARE_PRIO=0), "{101}"),
        ("hist4", "MC_ValidatorSet", (5, 1, 1, 1), cfg_hist(1000000, "{1, 2, 3, 4, 5}", "{1, 60}", 4 if th else 3, 1), {}, "{}"),
        ("rot", "MC_Rotation", (2, 1), cfg_rot("{1, 2, 3}", "{1, 2, 5, 20}" if th else "{1, 2, 5}", 4 if th else 3, 3), {}, "{}"),
        ("rot4", "MC_Rotation", (3, 2, 2, 1), cfg_rot("{1, 2, 3, 4}", "{1, 4}", 2, 3), {}, "{}"),
    ]
    for tag, base, initp, cfg, env, bad in runs:
        name = "MCgen"
        files = gen(base, name, initp, bad)
        files[name + ".cfg"] = cfg
        dump = os.path.join(c.scratch, "vset-%s.dump" % tag)
        r = c.tlc("valset", name + ".cfg", module=name, files=files, dump_to=dump, timeout=3000, tag=tag)
        if r.violated:
            raise Infra("specification invariant %s violated in %s\n%s" % (r.violated, tag, c.tlc_tail(r)))
        if not r.ok:
            raise Infra("TLC failed on %s: %s\n%s" % (tag, r.error, c.tlc_tail(r)))
        e = dict(VSET_DUMP=dump, VSET_INIT=",".join(map(str, initp)))
        e.update(env)
        g = c.gotest("valset", "TestReplay", env=e, timeout=3000, tag="replay " + tag)
        c.absorb(g)
        # the specification orders validators (ties of priority and of power) by the BYTES of the address: the same
        # transitions with a second table of concrete addresses, chosen so that textual orders (hex, checksummed hex)
        # disagree with the byte order for many pairs
        e["VSET_ADDRS"] = "mixed"
        g = c.gotest("valset", "TestReplay", env=e, timeout=3000, tag="replay " + tag + ", mixed-case addresses")
        c.absorb(g)
        os.remove(dump)
    # the updateState clause (rotation advanced AFTER the block's change set is applied) lives in kai/state/cstate:
    # chains of the cstore specification replayed into the real updateState (specs/cstore, harness/cstore)
    from checks.C14 import run_updatestate
    run_updatestate(c, th)
    c.exhaustive = True
