"""C01, block-sync clause ("a node that catches up by block sync only ever adopts blocks that correct validators
committed") and the block-sync part of C18 ("block-sync input from peers never crashes the processor").

specs/blocksync: BlockSync.tla (blockchain/processor.go + processor_context.go, event by event), MC_BlockSync
(the processor against honest and lying peers: exhaustive up to MaxOps events + per-transition dump),
BlockSyncReactor.tla / MC_BlockSyncReactor (scheduler.go, the two routines' priority queues, the routing of
reactor.demux, peers and time).  harness/blocksync replays every dumped transition into the real pcState over a
real pContext (real VerifyCommit, real BlockOperations.SaveBlock, real BlockExecutor.ApplyBlock) on a fresh real
node; the committed chain is produced by a network of real consensus nodes, the lying blocks by the driver.

Entry point: run_part(c) (called by the C01 check; standalone through a throw-away checks/C99.py)."""
import os
from vlib import Infra

WITHIN = ["F", "min", "exa", "bel", "nil", "wst", "sam", "wht"]      # lying kinds inside the fault assumption
BEYOND = ["F", "ffF", "bad", "fbd"]                                    # outside it (>= 2/3 of the power misbehaves)

# powers -> signer sets of the thinned-out commits (1-based validator indices) and the Byzantine validator
VECTORS = {
    # total 6, needed > 4:   min = 5 (just above), exa = 4 (exactly two thirds), bel = 3; byz holds 1/6
    "2211": dict(power=(2, 2, 1, 1), sets=dict(min=(1, 2, 3), exa=(1, 2), bel=(1, 4)), byz=4),
    # total 4, needed > 2:   min = 3, "exa" = 2 (one half: two thirds is not attainable), bel = 1; byz holds 1/4
    "1111": dict(power=(1, 1, 1, 1), sets=dict(min=(1, 2, 3), exa=(1, 2), bel=(4,)), byz=4),
    # total 9 (a multiple of 3), needed > 6: min = 7, exa = 6 (exactly two thirds), bel = 5; byz holds 2/9
    "3222": dict(power=(3, 2, 2, 2), sets=dict(min=(1, 2, 3), exa=(2, 3, 4), bel=(1, 4)), byz=4),
    # validator-set change: set A = four validators of power 1; the application removes validators 2, 3, 4 in block 1,
    # so that from height 3 on the set is B = {validator 1}.  `old`: the three who left (3/4 of A) sign for a sibling.
    "change": dict(power=(1, 1, 1, 1), sets=dict(min=(1, 2, 3), exa=(1, 2), bel=(4,), old=(2, 3, 4)), byz=4,
                   power_b=(1,), change_h=3, change="1:1=1"),
}


def tla_set(xs):
    return "{" + ", ".join(str(x) if not isinstance(x, str) else '"%s"' % x for x in xs) + "}"


def gen_consts(vec):
    v = VECTORS[vec]
    return ("PowerV == <<%s>>\nPowerBV == <<%s>>\nSigSetsV == [min |-> %s, exa |-> %s, bel |-> %s, old |-> %s, byz |-> %d]\n" %
            (", ".join(map(str, v["power"])), ", ".join(map(str, v.get("power_b", v["power"]))), tla_set(v["sets"]["min"]),
             tla_set(v["sets"]["exa"]), tla_set(v["sets"]["bel"]), tla_set(v["sets"].get("old", ())), v["byz"]))


# The specification is bound to the code AS WRITTEN (Repaired = {}).  Once one of the suggested repairs (specs/blocksync/
# REPAIR.diff) has been made in /repo, name it here (or in $BLOCKSYNC_REPAIRED, comma separated): the operators then
# describe the repaired code.  Names: "enqueue-replaces", "processed-monotone".
REPAIRED = tuple(x for x in os.environ.get("BLOCKSYNC_REPAIRED", "enqueue-replaces,processed-monotone").split(",") if x)   # /repo b44b487, c0130d7


def cfg_consts(vec):
    return ("  Power <- PowerV\n  PowerB <- PowerBV\n  ChangeH = %d\n  SigSets <- SigSetsV\n  Repaired = %s\n" %
            (VECTORS[vec].get("change_h", 0), tla_set(REPAIRED)))


def gen_module(base, vec):
    return "---- MODULE MCgen ----\nEXTENDS %s\n%s====\n" % (base, gen_consts(vec))


def sets_env(vec):
    v = VECTORS[vec]
    return ";".join("%s=%s" % (k, ",".join(map(str, s))) for k, s in v["sets"].items()) + ";byz=%d" % v["byz"]


def world_env(vec):
    """environment of the Go drivers that describes the concrete world of a vector"""
    v = VECTORS[vec]
    return dict(BS_POWER=",".join(map(str, v["power"])), BS_SETS=sets_env(vec), BS_CHANGE=v.get("change", ""))


def cfg_proc(vec, maxh, kinds, liars, maxops, resets=(), invariants=("Inv", "ApplyNeverPanics", "SyncedCounts"), dump=True,
             props=("FinishedOnlyDraining",), peers=("p1", "p2")):
    s = ("SPECIFICATION Spec\nCONSTANTS\n%s  MaxH = %d\n  Peers = %s\n"
         "  Liars = %s\n  Kinds = %s\n  MaxOps = %d\n  Resets = %s\nVIEW View\nCONSTRAINT Bound\n") % (
        cfg_consts(vec), maxh, tla_set(peers), tla_set(liars), tla_set(kinds), maxops, tla_set(resets))
    for i in invariants:
        s += "INVARIANT %s\n" % i
    for p in props:
        s += "PROPERTY %s\n" % p
    if dump:
        s += "ACTION_CONSTRAINT Dump\n"
    return s


def proc_model(c, tag, vec, maxh, kinds, liars, maxops, stride, resets=(), beyond=False, workers=None, peers=("p1", "p2")):
    """MC_BlockSync for one universe: TLC (invariants + dump), then the replay into the real processor."""
    files = {"MCgen.tla": gen_module("MC_BlockSync", vec)}
    inv = ("SyncedCounts", "NoGapInv") if beyond else ("Inv", "ApplyNeverPanics", "SyncedCounts", "Assumption")
    if not resets:
        inv += ("QueueInv",)
    files["MCgen.cfg"] = cfg_proc(vec, maxh, kinds, liars, maxops, resets, invariants=inv, peers=peers)
    dump = os.path.join(c.scratch, "bs-%s.dump" % tag)
    r = c.tlc("blocksync", "MCgen.cfg", module="MCgen", files=files, dump_to=dump, timeout=3000, workers=workers,
              tag="MC_BlockSync %s power=%s kinds=%s maxops=%d" % (tag, VECTORS[vec]["power"], ",".join(kinds), maxops))
    if r.violated:
        raise Infra("specification invariant %s violated in MC_BlockSync %s\n%s" % (r.violated, tag, c.tlc_tail(r)))
    if not r.ok:
        raise Infra("TLC failed on MC_BlockSync %s: %s\n%s" % (tag, r.error, c.tlc_tail(r)))
    g = c.gotest("blocksync", "TestReplay",
                 env=dict(world_env(vec), BS_DUMP=dump, BS_MAXH=maxh, BS_KINDS=",".join(kinds), BS_TAG=tag, BS_STRIDE=stride,
                          BS_BEYOND=("1" if beyond else "0")),
                 timeout=3000, tag="replay " + tag)
    c.absorb(g)
    os.remove(dump)
    return r


def must_violate(c, tag, vec, maxh, kinds, liars, maxops, inv, resets=()):
    """Reachability companion: the named invariant must be VIOLATED (otherwise the model is vacuous there)."""
    files = {"MCgen.tla": gen_module("MC_BlockSync", vec),
             "MCgen.cfg": cfg_proc(vec, maxh, kinds, liars, maxops, resets, invariants=(inv,), dump=False, props=())}
    r = c.tlc("blocksync", "MCgen.cfg", module="MCgen", files=files, timeout=1200, workers=4,
              tag="MC_BlockSync %s: %s must be reachable" % (tag, inv))
    if r.violated != inv:
        raise Infra("reachability companion %s was not violated in %s (vacuous model?): %s %s\n%s" %
                    (inv, tag, r.violated, r.error, c.tlc_tail(r)))
    # the companion's states are not coverage of the property
    c.states -= r.distinct
    c.transitions -= r.generated


# ---------------------------------------------------------------------------------------------- the whole reactor

def gen_reactor_module(vec, peers, liar_status):
    return ("---- MODULE MCgen ----\nEXTENDS MC_BlockSyncReactor\n%sPeerSeqV == <<%s>>\nLiarStatusV == {%s}\n====\n" %
            (gen_consts(vec), ", ".join('"%s"' % p for p in peers), ", ".join("<<%d, %d>>" % bh for bh in liar_status)))


def cfg_reactor(m, invariants=("Inv", "HeightsAgree"), dump=True, repaired=None):
    s = ("SPECIFICATION Spec\nCONSTANTS\n%s  PeerSeq <- PeerSeqV\n  LiarStatus <- LiarStatusV\n"
         "  MaxH = %d\n  Peers = %s\n  Liars = %s\n  LiarKinds = %s\n  Faults = %s\n  Budget = %d\n  Start = %s\n"
         "  MaxT = %d\n  TargetPending = %d\n  PeerTimeout = %d\n  SyncTimeout = %d\n  MaxOps = %d\n  SyncSched = %s\n"
         "VIEW View\nCONSTRAINT Bound\n") % (
        cfg_consts(m["vec"]).replace("Repaired = " + tla_set(REPAIRED), "Repaired = " + tla_set(repaired or REPAIRED)), m["maxh"], tla_set(m["peers"]), tla_set(m["liars"]), tla_set(m["kinds"]), tla_set(m["faults"]), m["budget"],
        "TRUE" if m["start"] else "FALSE", m["maxt"], m["target"], m["peertimeout"], m["synctimeout"], m["maxops"],
        "TRUE" if m["sync"] else "FALSE")
    for i in invariants:
        s += "INVARIANT %s\n" % i
    if dump:
        s += "ACTION_CONSTRAINT Dump\n"
    return s


def reactor_model(c, tag, m, stride, workers=None):
    """MC_BlockSyncReactor for one environment: TLC (adoption invariants + dump), replay into the real scheduler,
    processor and Routine queues.  The panics the model contains are judged by the replay (real code), not here."""
    files = {"MCgen.tla": gen_reactor_module(m["vec"], m["peers"], m["status"]), "MCgen.cfg": cfg_reactor(m)}
    dump = os.path.join(c.scratch, "bsr-%s.dump" % tag)
    r = c.tlc("blocksync", "MCgen.cfg", module="MCgen", files=files, dump_to=dump, timeout=3000, workers=workers,
              tag="MC_BlockSyncReactor %s faults=%s budget=%d maxops=%d %s" % (
                  tag, ",".join(m["faults"]) or "-", m["budget"], m["maxops"], "sync-scheduler" if m["sync"] else "async"))
    if r.violated:
        raise Infra("specification invariant %s violated in MC_BlockSyncReactor %s\n%s" % (r.violated, tag, c.tlc_tail(r)))
    if not r.ok:
        raise Infra("TLC failed on MC_BlockSyncReactor %s: %s\n%s" % (tag, r.error, c.tlc_tail(r)))
    g = c.gotest("blocksync", "TestReactorReplay",
                 env=dict(world_env(m["vec"]), BS_DUMP=dump, BS_MAXH=m["maxh"],
                          BS_KINDS=",".join(m["kinds"]), BS_TAG=tag, BS_STRIDE=stride,
                          BS_TARGET=m["target"], BS_PEERTIMEOUT=m["peertimeout"], BS_SYNCTIMEOUT=m["synctimeout"],
                          BS_START=("1" if m["start"] else "0"), BS_PEERS=",".join(m["peers"])),
                 timeout=3000, tag="reactor replay " + tag)
    c.absorb(g)
    os.remove(dump)
    return r


def reactor_nopanic(c, tag, m, repaired):
    """Does NoPanic hold in the model?  Recorded in the evidence, never a verdict: as written the model contains the
    panics (the verdict on them comes from the replay into the real code); with the suggested repairs switched on
    (constant Repaired) it must hold -- otherwise the repair text in the findings is wrong."""
    files = {"MCgen.tla": gen_reactor_module(m["vec"], m["peers"], m["status"]),
             "MCgen.cfg": cfg_reactor(m, invariants=("Inv", "NoPanic"), dump=False, repaired=repaired)}
    r = c.tlc("blocksync", "MCgen.cfg", module="MCgen", files=files, timeout=3000, workers=6,
              tag="MC_BlockSyncReactor %s NoPanic repaired=%s" % (tag, ",".join(repaired) or "{}"))
    c.states -= r.distinct
    c.transitions -= r.generated
    if r.error and not r.violated:
        raise Infra("TLC failed on NoPanic %s: %s\n%s" % (tag, r.error, c.tlc_tail(r)))
    if repaired and r.violated:
        raise Infra("with the repairs %s the reactor model still violates %s in %s\n%s" % (repaired, r.violated, tag, c.tlc_tail(r, 60)))
    c.extra.setdefault("blocksync_model_nopanic", {})["%s repaired=%s" % (tag, ",".join(repaired) or "{}")] = (
        "violated" if r.violated else "holds")


BASE = dict(vec="2211", maxh=3, peers=["p1", "p2"], liars=["p1"], kinds=[], status=[(1, 3)], faults=[], budget=0, start=True,
            maxt=2, target=3, peertimeout=1, synctimeout=5, maxops=14, sync=True)


def run_part(c):
    th = c.tier == "thorough"
    rule = ("block sync: every transition of the COMPLETE reachable graph of MC_BlockSync (the processor's events scBlockReceived / "
            "rProcessBlock / scPeerError / scFinishedEv / bcResetState in every interleaving; an honest peer serving the committed "
            "chain and lying peers serving siblings, commits thinned out to just above / exactly / below two thirds, commits forged "
            "from nil precommits, from another validator set's signatures or from the signatures of validators who have left the "
            "set, same-header blocks with an altered commit or body, wrong commit heights, nil blocks, duplicates, any height in "
            "any order; four power vectors, one with a validator-set change inside the synced range) is replayed from a fresh "
            "real node into the real pcState over the real pContext; the committed chain comes from a network of real consensus "
            "nodes and every block passes the reactor's wire codec; compared after every event: returned event class and fields "
            "or panic; after the last: height, LastBlockID, queue, draining, blocksSynced, blocks saved / applied; independently "
            "every block in the real store must be the block the real network committed; non-trivial = the behaviour contains a "
            "lying block, a nil block, a peer error, a finish, a reset or a result other than noOp / processed; the whole reactor: "
            "every transition of MC_BlockSyncReactor (scheduler handlers, the two routines' priority queues transcribed as the "
            "binary heap they are, demux routing; peers reporting status, answering, lying, going silent, disconnecting; tickers; "
            "time; complete graphs for the silent-peer and the all-honest asynchronous environments, bounded histories otherwise) "
            "is replayed into the real scheduler, the real processor and real Routine queues: the event the real queue hands out "
            "and the event the real handler returns are compared at every routine step, both machines' projections after the "
            "last; a panic of a real routine is reported under the signature of its cause")
    c.rule = (c.rule + " || " + rule) if c.rule else rule
    c.assumptions = list(c.assumptions) + [
        "block sync: a commit with more than two thirds of valid for-block precommits exists only for committed blocks (the "
        "consensus clause of C01: KardiaBFT Agreement + C03; VerifyCommit itself is bound by C02) -- stated as "
        "WithinFaultAssumption over the model's universe; the models marked 'beyond' drop it on purpose",
        "block sync: block ids are collision-free and bind header, body and LastCommit through the part-set header (C13)",
        "block sync: one validator-set change inside the synced range (model valchange: three of four validators leave), static "
        "sets elsewhere",
        "block sync reactor: demux is collapsed (a handler's output reaches the other routine's queue in the same step); logical "
        "time (one tick = one hour for the real scheduler, instants moved back instead of sleeping); MinRecvRate = 0 (default); "
        "bounded exploration (fault budget, history length), not a proof for longer behaviours",
    ]
    lim = None   # TLC workers (None = all cores)
    # ---- the processor against lying peers (within the fault assumption).  MaxOps = 0: the complete reachable graph
    #      (finite: every height holds at most one block, a panic is terminal; diameter about 12)
    if th:
        proc_model(c, "all-2211", "2211", 4, WITHIN, ["p1"], 0, 2, workers=lim)
        proc_model(c, "thin-1111", "1111", 4, ["min", "exa", "bel", "F", "bod"], ["p1"], 0, 1, workers=lim)
    else:   # the quick tier splits the universe (the graph grows faster than linearly with the number of kinds)
        proc_model(c, "thin-2211", "2211", 4, ["F", "min", "exa", "bel"], ["p1"], 0, 4, workers=lim)
        proc_model(c, "forged-2211", "2211", 4, ["F", "nil", "wst", "sam", "wht"], ["p1"], 0, 8, workers=lim)
        proc_model(c, "thin-1111", "1111", 4, ["min", "exa", "bel", "bod"], ["p1"], 0, 4, workers=lim)
    proc_model(c, "thin-3222", "3222", 3, ["min", "exa", "bel", "nil"], ["p1"], 0, 1, workers=lim)
    proc_model(c, "twoliars", "2211", 4, ["F", "nil", "sam"] if th else ["F", "nil"], ["p1", "p2"], 0, 2 if th else 8, workers=lim)
    proc_model(c, "reset", "2211", 4, ["F"], ["p1"], 0, 2 if th else 16, resets=(0, 1, 2), workers=lim)
    if th:
        proc_model(c, "five", "2211", 5, ["F", "min", "nil", "sam"], ["p1"], 0, 4, workers=lim)
    # ---- validator-set change inside the synced range: the commit of a block must verify against the set of THAT height
    #      (set A signs heights 1-2, set B = {validator 1} from height 3 on; `old`: a commit by the +2/3 of A who left)
    proc_model(c, "valchange", "change", 5, ["F", "old"], ["p1"], 0, 1 if th else 2, workers=lim, peers=("p1",))
    if th:
        proc_model(c, "valchange-2", "change", 5, ["F", "old", "nil"], ["p1"], 0, 4, workers=lim)
    # ---- outside the fault assumption: lock-step only (binds saveBlock-before-applyBlock and the applyBlock panic)
    proc_model(c, "beyond", "2211", 3, BEYOND, ["p1"], 0, 1 if th else 2, beyond=True, workers=lim)
    # ---- the model is not vacuous: adoption, failure, panics are reachable; without the fault assumption the
    #      adoption invariant is violated
    for inv in ("NeverAdoptsTwo", "NeverVerFail", "NeverDup", "NeverFinished"):
        if inv == "NeverDup" and "enqueue-replaces" in REPAIRED:
            continue
        must_violate(c, "all-2211", "2211", 4, ["F", "min", "exa"], ["p1"], 6, inv)
    must_violate(c, "beyond", "2211", 3, BEYOND, ["p1"], 6, "Inv")
    must_violate(c, "beyond", "2211", 3, BEYOND, ["p1"], 6, "ApplyNeverPanics")
    must_violate(c, "beyond", "2211", 3, BEYOND, ["p1"], 6, "Assumption")
    # ---- the whole reactor: scheduler + processor + routine queues + demux routing, against peers and time
    full = dict(BASE, kinds=["F"], status=[(1, 3), (1, 1)], faults=["status", "block", "noblock", "disconnect", "silence"],
                budget=2, maxops=18 if th else 14)
    silent = dict(BASE, faults=["silence"], budget=2, maxops=0)      # complete graph (16 k states, diameter 34)
    asyn = dict(BASE, liars=[], maxh=4, target=4, maxt=0, sync=False, maxops=0)  # complete graph (8.5 k states, diameter 31)
    asynf = dict(BASE, kinds=["F"], faults=["block", "disconnect"], budget=1, sync=False, maxops=16 if th else 13)
    reactor_model(c, "full", full, 1 if th else 2, workers=lim)
    reactor_model(c, "silent", silent, 1, workers=lim)
    reactor_model(c, "async", asyn, 1, workers=lim)
    reactor_model(c, "async-faults", asynf, 2 if th else 4, workers=lim)
    if th:
        three = dict(BASE, peers=["p1", "p2", "p3"], liars=["p1"], kinds=["F"], faults=["block", "silence", "disconnect"], budget=2,
                     maxops=16)
        reactor_model(c, "three-peers", three, 2, workers=lim)
    for tag, m in (("silent", silent), ("async", asyn)) + ((("full", full),) if th else ()):
        reactor_nopanic(c, tag, m, ())
        reactor_nopanic(c, tag, m, ("enqueue-replaces", "processed-monotone"))
