"""C03 — a correct validator never equivocates and obeys the locking rules.
specs/node: KardiaNode.tla (handler-level transcription of consensus/state.go) and MC_NodeEnv.tla (one
validator against a fully adversarial environment).  TLC checks the C03 obligations on the model
(exhaustively to a small depth, by weighted simulation beyond); every generated behaviour is replayed on a
real ConsensusState (real chain, stores, signatures) comparing, after every step, the signature requests,
the published messages, the whole round state and the ticker."""
import os
from vlib import Infra
import checks.nodecommon as nc

def run(c):
    th = c.tier == "thorough"
    c.rule = ("behaviours of MC_NodeEnv: (a) weighted random walks (TLC -simulate) of <= 50 environment/own/timeout actions "
              "over proposals (valid, invalid, wrong proposer, with POL rounds), block parts, single votes, +2/3 bundles, bad "
              "signatures, late precommits, races with the node's own messages; (b) every transition of the exhaustive BFS to "
              "depth 2 (quick) / 3 (thorough); each replayed from genesis on a fresh real node as validator 1..4, comparing "
              "sign requests, queued messages, round state, vote sets, ticker after EVERY step; evaluations = handler steps "
              "executed on real nodes; non-trivial = the behaviour made the node lock, skip a round or commit")
    c.assumptions = ["fault assumption of the model: the environment never completes +2/3 votes for an invalid block",
                     "4 validators of equal power, blocks with one part, static validator set (other shapes: C01/C04 network runs)",
                     "in KardiaNode block validity is abstracted to valid / invalid(AppHash); the validation clauses themselves "
                     "(height, parent id, last commit against the previous set, application / validator hashes, median time) are "
                     "specified in specs/partset/BlockFields.tla and bound here by the same replay C13 uses (join below)"]
    table = nc.proposer_table(c)
    # the validity clause ("votes for and commits only valid extensions of its own chain"): every single-field
    # change of a genuine block the BlockFields specification generates, through the real ValidateBlock
    import checks.C13 as c13
    invs = ["BaseValid", "AcceptedIsValid", "TamperEvidentId"]
    for initial in (False, True):
        dump = os.path.join(c.scratch, "bf-%d.dump" % initial)
        tag = "join: MC_BlockFields %s" % ("initial height" if initial else "height 3")
        r = c.tlc("partset", "bf.cfg", module="MC_BlockFields", files={"bf.cfg": c13.cfg_bf(initial, False, 2, False, invs)},
                  dump_to=dump, timeout=3000, tag=tag)
        c13.must_hold(c, r, tag)
        g = c.gotest("partset", "TestBlockFields", env=dict(BF_DUMP=dump, BF_INITIAL=int(initial), BF_SCENES=2, BF_STRICT=1), timeout=3000,
                     tag="join: real ValidateBlock on " + tag)
        c.absorb(g)
        if not initial:
            g = c.gotest("partset", "TestBlockFields", env=dict(BF_DUMP=dump, BF_INITIAL=0, BF_CHANGED=1, BF_SCENES=2, BF_STRICT=1), timeout=3000,
                         tag="join: real ValidateBlock, validator set changed between heights 2 and 3")
            c.absorb(g)
        os.remove(dump)
    # (a) exhaustive from every start state (initial state + scripted prefixes: locked, moved on while locked,
    #     valid block, waiting for a POL, next height, commit without block): invariants on every state,
    #     every transition replayed on a real node
    d = nc.env_bfs(c, table, 2, 2, "bfs2-prefixes", prefixes=True)
    g = c.gotest("node", "TestEnvReplay", env=dict(NODE_DUMP=d, NODE_ME=2, NODE_LASTONLY=1, NODE_STRIDE=(1 if th else int(os.environ.get("VERIF_NODE_STRIDE", "10")))),
                 timeout=6000, tag="replay bfs depth 2 from all start states")
    c.absorb(g)
    os.remove(d)
    if th:
        for me in (1, 3, 4):
            d = nc.env_bfs(c, table, me, 2, "bfs2-me%d" % me)
            g = c.gotest("node", "TestEnvReplay", env=dict(NODE_DUMP=d, NODE_ME=me, NODE_LASTONLY=1), timeout=6000, tag="replay bfs me=%d" % me)
            c.absorb(g)
            os.remove(d)
    # deeper, without dump: the obligations on every reachable state
    if th:
        nc.env_bfs(c, table, 2, 3, "bfs3-prefixes-inv", dump=False, prefixes=True, timeout=6000)
        nc.env_bfs(c, table, 2, 4, "bfs4-inv", dump=False, timeout=6000)
    else:
        nc.env_bfs(c, table, 2, 3, "bfs3-inv", dump=False, timeout=6000)
    # (b) weighted random walks from the start states
    d = nc.env_walks(c, table, 2, (600 if th else 20), 40, c.seed * 100 + 2, "walks-prefixes", prefixes=True)
    g = c.gotest("node", "TestEnvReplay", env=dict(NODE_DUMP=d, NODE_ME=2), timeout=6000, tag="replay walks from all start states")
    c.absorb(g)
    os.remove(d)
    for me in (1, 3, 4):
        d = nc.env_walks(c, table, me, (300 if th else 8), 50, c.seed * 100 + me, "walks-me%d" % me)
        g = c.gotest("node", "TestEnvReplay", env=dict(NODE_DUMP=d, NODE_ME=me), timeout=6000, tag="replay walks me=%d" % me)
        c.absorb(g)
        os.remove(d)
    # skewed powers whose total is divisible by three (2,2,1,1: exactly two thirds is 4 of 6 - not a majority), and the
    # default configuration (round 1 proposed on the NewRound timeout)
    pw = (2, 2, 1, 1)
    tablew = nc.proposer_table(c, powers=pw)
    for me in ((1, 3) if th else (3,)):
        d = nc.env_bfs(c, tablew, me, 2, "bfs2-w2211-me%d" % me, powers=pw)
        g = c.gotest("node", "TestEnvReplay", env=dict(NODE_DUMP=d, NODE_ME=me, NODE_LASTONLY=1, NODE_POWERS="2,2,1,1", NODE_STRIDE=(1 if th else 3)),
                     timeout=6000, tag="replay bfs w2211 me=%d" % me)
        c.absorb(g)
        os.remove(d)
        d = nc.env_walks(c, tablew, me, (300 if th else 10), 50, c.seed * 100 + 20 + me, "walks-w2211-me%d" % me, powers=pw)
        g = c.gotest("node", "TestEnvReplay", env=dict(NODE_DUMP=d, NODE_ME=me, NODE_POWERS="2,2,1,1"), timeout=6000, tag="replay walks w2211 me=%d" % me)
        c.absorb(g)
        os.remove(d)
    d = nc.env_walks(c, table, 1, (300 if th else 10), 50, c.seed * 100 + 31, "walks-wait-me1", waittxs=True)
    g = c.gotest("node", "TestEnvReplay", env=dict(NODE_DUMP=d, NODE_ME=1, NODE_WAITTXS=1), timeout=6000, tag="replay walks (WaitForTxs) me=1")
    c.absorb(g)
    os.remove(d)
    # three block ids, higher rounds
    d = nc.env_walks(c, table, 3, (300 if th else 8), 60, c.seed * 100 + 9, "walks-3bids", maxround=4, bids='{"A", "B", "X"}')
    g = c.gotest("node", "TestEnvReplay", env=dict(NODE_DUMP=d, NODE_ME=3), timeout=6000, tag="replay walks 3 bids")
    c.absorb(g)
    os.remove(d)
