"""C16 — RLP encoding is canonical, round-trips, and rejects everything else.

specs/rlp:  RLP.tla        items, Enc (Yellow Paper), raw.go header parser, Dec = THE canonical decoder, mutation catalogue
            RLPStream.tla  lib/rlp/decode.go Stream, call by call (input limit / list limit discipline)
            RLPTyped.tla   Go types: TE (encode), TD (declarative typing of items), OD (the reflective decoders, operationally)
            RLPSchemas.tla the fixed schema set incl. the wire structs of types.Transaction / Receipt / Log / StateAccount / Header
            MC_RLPStrings  (a) every byte string over a boundary alphabet
            MC_RLPTrees    (b)+(c) item trees with boundary lengths, every mutation class at every position
            MC_RLPTyped    typed values chosen by TLC, their encodings and mutations, chain types
            MC_RLPHuge     (d) headers claiming up to 2^64-1 bytes
            MC_RLPStream   the Stream API as a state machine: all call sequences
harness/rlp: TestStrings TestTrees TestTyped TestHuge TestStream replay every printed transition into the real code."""
import json, os, random
from vlib import Infra

ALPHA = [0x00, 0x01, 0x7f, 0x80, 0x81, 0x82, 0xb7, 0xb8, 0xb9, 0xbf, 0xc0, 0xc1, 0xc2, 0xf7, 0xf8, 0xff]
SCALARS = ["uint", "bigv", "u8", "u16", "u32", "u64", "big", "bool", "bytes", "string", "arr1", "arr2", "arr20", "raw", "iface"]
STRUCTS = ["Inner", "Nested", "OptS", "OptP", "TailS", "NilS", "NilX", "PtrS", "Rows", "ArrU"]
# structs with rlp:"-" / unexported fields before, between and after optional / tail / nil-tagged fields, an embedded struct and
# a pointer to a struct with optional fields inside, structs whose only codec field is optional
IGNORED = ["IgA", "IgB", "IgT", "IgN", "OptIn", "IgE", "OnlyOpt", "IgOnly"]
# nil / non-nil pointers to every kind (bool, uint8..64, big.Int, string, [N]byte, []byte, struct, list) as plain, rlp:"nil", "nilString",
# "nilList" and "optional" fields and at top level; the specification (RLPTyped!NilKind) says which empty value (80 / C0) a nil one is
PTR_SMALL = ["pbool", "pu16", "pstr", "pInner", "PtrB"]
PTR_BIG = ["PtrPlain", "PtrNil", "PtrNilS", "PtrNilL", "PtrOpt"]
# slices of multi-byte elements (typed model, and MC_RLPLists: a list header never sizes an allocation)
SLICES = ["SU64", "SArr32", "SPtr", "SBig"]
CHAIN = ["tx", "log", "receipt", "sreceipt", "blockinfo", "account", "slim", "header"]


def tset(xs):
    return "{" + ", ".join(str(x) for x in xs) + "}"


def sset(xs):
    return "{" + ", ".join('"%s"' % x for x in xs) + "}"


def module(base, defs):
    return "---- MODULE MCgen ----\nEXTENDS %s\n%s\n====\n" % (base, "\n".join("%s == %s" % kv for kv in defs.items()))


def cfg(consts, subst, invs, view=False, dump=True):
    s = "SPECIFICATION Spec\nCONSTANTS\n"
    for k, v in consts.items():
        s += "  %s = %s\n" % (k, v)
    for k in subst:
        s += "  %s <- %sV\n" % (k, k)
    if view:
        s += "VIEW View\n"
    for i in invs:
        s += "INVARIANT %s\n" % i
    if dump:
        s += "ACTION_CONSTRAINT Dump\n"
    return s


def run_model(c, tag, base, defs, consts, invs, test, view=False, timeout=1500, env=None, workers=None):
    """One TLC run (complete BFS, every transition printed) + the Go test that replays the dump."""
    only = os.environ.get("C16_ONLY")            # development aid: run a subset of the models
    if only and tag not in only.split(","):
        return None
    files = {"MCgen.tla": module(base, {k + "V": v for k, v in defs.items()}),
             "MCgen.cfg": cfg(consts, list(defs.keys()), invs, view=view)}
    dump = os.path.join(c.scratch, "rlp-%s.dump" % tag)
    # C16_WORKERS caps the TLC workers (used while developing next to other work; unset = all cores)
    workers = workers or int(os.environ.get("C16_WORKERS", "0") or 0) or None
    r = c.tlc("rlp", "MCgen.cfg", module="MCgen", files=files, dump_to=dump, timeout=timeout, tag=tag, workers=workers)
    if r.violated:
        raise Infra("specification invariant %s violated in %s (the specification is wrong, not the code)\n%s"
                    % (r.violated, tag, c.tlc_tail(r)))
    if not r.ok:
        raise Infra("TLC failed on %s: %s\n%s" % (tag, r.error, c.tlc_tail(r)))
    if r.distinct < 10:
        raise Infra("%s: only %d states - vacuous model" % (tag, r.distinct))
    e = dict(RLP_DUMP=dump, RLP_TAG=tag.replace("-", "_"))
    e.update(env or {})
    try:
        g = c.gotest("rlp", test, env=e, timeout=timeout, tag="%s %s" % (test, tag))
    except Infra as ex:
        # a fatal out-of-memory of the test binary while the allocation guard was measuring an input
        marker = os.path.join(c.scratch, "rlp-alloc-current.json")
        if test == "TestHuge" and os.path.exists(marker):
            m = json.load(open(marker))
            c.report("rlp:alloc:fatal:" + m.get("entry", "?"),
                     "the test binary died while %s was decoding the adversarial header %s (claims 0x%s bytes): "
                     "an allocation sized by the header, not by the input" % (m.get("entry"), m.get("input"), m.get("claimed_size")), m)
            return None
        raise
    if int(g.get("behaviours", 0)) < r.distinct // 2:
        raise Infra("%s: the driver replayed %s of %d transitions" % (tag, g.get("behaviours"), r.generated))
    c.absorb(g)
    os.remove(dump)
    return g


def run_trace(c, events):
    """TV: TestRecord writes one ndjson event per byte string (what the real decoders did); RLPTrace.tla must explain all."""
    only = os.environ.get("C16_ONLY")
    if only and "trace" not in only.split(","):
        return
    trace = os.path.join(c.scratch, "rlp-trace.ndjson")
    g = c.gotest("rlp", "TestRecord", env=dict(RLP_EVENTS=events, RLP_TRACE=trace), timeout=900, tag="TestRecord (trace producer)")
    c.absorb(g)
    n = sum(1 for _ in open(trace))
    if n < events // 2:
        raise Infra("trace has %d of %d events" % (n, events))
    r = c.tlc("rlp", "RLPTrace.cfg", module="RLPTrace", files={"trace.ndjson": trace}, workers=1, timeout=1500,
              tag="RLPTrace: %d recorded events" % n)
    if r.ok:
        c.traces += n                      # events of the real code explained by the specification
        c.extra["trace_events_explained"] = n
        return
    # the first unexplained event: TLC printed <<"UNEXPLAINED", index, {clauses}>>
    idx, why = None, "?"
    for line in open(r.out, errors="replace"):
        if line.startswith('<<"UNEXPLAINED"'):
            parts = line.strip().strip("<>").split(",", 2)
            idx = int(parts[1])
            why = parts[2].strip().strip("{} ").replace('"', "").replace(" ", "")
            break
    if idx is None:
        raise Infra("TLC failed on the recorded trace: %s %s\n%s" % (r.violated, r.error, c.tlc_tail(r)))
    ev = json.loads(open(trace).read().split("\n")[idx - 1])
    inp = "".join("%02x" % b for b in ev["in"])
    for clause in why.split(","):
        c.report("rlp:tv:unexplained:" + clause,
                 "the real decoders' behaviour on input %s is not explained by the specification (clause %s): recorded %s"
                 % (inp, clause, {k: v for k, v in ev.items() if k not in ("in", "it")}),
                 dict(input=inp, event=ev, clauses=why, seed=c.seed, explained_before=idx - 1))
    c.traces += idx - 1


def run(c):
    th = c.tier == "thorough"
    rnd = random.Random(c.seed)
    c.rule = ("TLC enumerates (a) every byte string of length <= %d over a boundary alphabet (16 fixed bytes + 2 seed-chosen), "
              "(b) item trees (spine + siblings) with string lengths around 0/1/2/55/56/57/255/256 and wide lists, (c) every mutation class "
              "(truncate at k, append, +-1 on every header byte, one element more/less in any list, and well-formed non-canonical forms: "
              "wrapped single byte, long form for a short payload, leading zero in the length - enclosing headers recomputed) at every "
              "position, also stacked, (d) headers claiming up to 2^64-1, (e) TLC-chosen boundary values of a fixed schema set incl. the wire "
              "structs of Transaction/Receipt/ReceiptForStorage/BlockInfo/Log/StateAccount/Header and 8 structs with rlp:\"-\" / unexported fields "
              "before, between and after optional / tail / nil-tagged fields (ignored field's zero-ness opposite to its neighbours'; encoded, "
              "decoded into fresh and into prepopulated values), nil / non-nil pointers to every kind in plain / nil / nilString / nilList / optional "
              "positions, with their encodings and mutations, (d') list headers declaring 4 KB..1 MB decoded into slices of multi-byte elements "
              "with and without an input limit, allocation measured against the bound stated in RLPStream.tla, "
              "(f) every sequence of <= %d Stream calls on about %d inputs x 3 limits x NewStream/NewListStream; each printed transition "
              "carries the specified outcome of every entry point and is executed on the real lib/rlp + types: EncodeToBytes/Encode/"
              "EncodeToReader/EncoderBuffer = Enc, DecodeBytes/Decode/Stream.Decode into interface{}, RawValue and %d Go types, Split*/"
              "CountValues/SplitUint64/ListIterator, Stream.Kind/Bytes/Raw/Uint/Bool/List/ListEnd/ReadBytes accept iff specified with the "
              "specified value; accepted inputs must re-encode to themselves; hashes/sizes of chain types are functions of the canonical "
              "bytes; allocation per call is measured on every adversarial header; (g) %d seed-chosen random / randomly damaged byte "
              "strings go through the real decoders and TLC must explain every recorded outcome (trace validation). evaluations = real calls "
              "compared; distinct non-trivial = distinct byte strings / values / call histories other than a plain rejection of the first "
              "byte's type"
              % (4 if th else 3, 10 if th else 6, 47 if th else 28, len(SCALARS) + len(STRUCTS) + len(IGNORED) + len(PTR_SMALL) + len(PTR_BIG) + len(SLICES) + len(CHAIN), 20000 if th else 2000))
    c.assumptions = [
        "the input limit is set (DecodeBytes, bytes.Reader, explicit limit): without one (rlp.Decode / NewStream(r, 0) over a plain reader) a STRING header makes Bytes/Raw/BigInt allocate what it claims (documented upstream; tx_journal.go and snapshot/journal.go use that mode on local files) - only LIST headers are covered in that mode (MC_RLPLists)",
        "byte strings shorter than 2^24 bytes; declared sizes up to 2^64-1 are compared as digit strings, never as TLC integers",
        "'identical to the reference implementation' = identical to RLP.tla's Enc (Yellow Paper, Appendix B)",
        "equality of Go values is taken modulo the documented identifications: nil slice = empty slice, untagged nil pointer = pointer to the zero value (NilIsZero), 'nil'-tagged pointer to an empty-encoding value = nil (EmptyIsNil)",
        "RawValue is specified as the package documents it: header check only, content not verified (RawShallow)",
        "keccak256 is a function (hash stability is checked as: hash = keccak256(canonical bytes))",
    ]
    extra = sorted(rnd.sample([b for b in range(256) if b not in ALPHA], 2))
    c.extra["seed_alphabet_extra"] = ["%02x" % b for b in extra]

    # (0) the design-level finding OptionalZero must be FOUND by TLC (otherwise the typed theorem is vacuous there)
    files = {"MCgen.tla": module("MC_RLPStrings", {"AlphabetV": tset([0x01, 0x80, 0xc1, 0xc2]), "NamesV": sset(["OptS"])}),
             "MCgen.cfg": cfg({"N": 3}, ["Alphabet", "Names"], ["NoOptionalZero"], dump=False)}
    r = c.tlc("rlp", "MCgen.cfg", module="MCgen", files=files, timeout=300, tag="OptionalZero is reachable (expected violation)", workers=2)
    if r.violated != "NoOptionalZero":
        raise Infra("TLC did not find the OptionalZero counterexample (violated=%s error=%s)\n%s" % (r.violated, r.error, c.tlc_tail(r)))
    c.tlc_runs[-1]["expected_violation"] = True

    # (a) byte strings over the boundary alphabet
    run_model(c, "strings", "MC_RLPStrings",
              {"Alphabet": tset(ALPHA + extra), "Names": sset(SCALARS + STRUCTS + IGNORED + PTR_SMALL + ["SU64", "SBig", "SPtr"] + (["tx", "log", "account", "slim"] if th else []))},
              {"N": 4 if th else 3}, ["Inv", "TInv"], "TestStrings")

    # (b)+(c) trees and mutations
    singles = [0, 127, 128] + ([1, 255] if th else []) + [rnd.choice([b for b in range(2, 127)]), rnd.choice([b for b in range(129, 255)])]
    fill = rnd.choice([b for b in range(1, 255)])
    if th:
        tree_defs = {"Lens": tset([2, 54, 55, 56, 57, 253, 254, 255, 256]), "Fills": tset([fill]), "Singles": tset(sorted(set(singles))),
                     "Wide": tset([55, 56, 255, 256]),
                     "SibSets": "<<{S(<<>>), S(<<128>>), Str(55, 255), Str(256, 0)}, {L(<<S(<<5>>)>>), Str(54, 255)}>>",
                     "Names": sset(["u64", "big", "bool", "bytes", "arr2", "raw"])}
        tree_consts = {"Depth": 2, "MaxMut": 1, "TruncEvery": 48}
    else:
        tree_defs = {"Lens": tset([2, 55, 56]), "Fills": tset([fill]), "Singles": tset(sorted(set(singles))),
                     "Wide": tset([55, 56]),
                     "SibSets": "<<{S(<<>>), S(<<128>>), Str(55, 255)}, {L(<<S(<<5>>)>>)}>>",
                     "Names": sset(["u64", "big", "bool", "bytes", "arr2", "raw"])}
        tree_consts = {"Depth": 2, "MaxMut": 1, "TruncEvery": 40}
    run_model(c, "trees", "MC_RLPTrees", tree_defs, tree_consts, ["Inv"], "TestTrees", view=True)
    if th:
        # deeper nesting on a smaller leaf universe
        run_model(c, "trees-deep", "MC_RLPTrees",
                  {"Lens": tset([55, 56]), "Fills": tset([fill]), "Singles": tset([0, 128]), "Wide": tset([]),
                   "SibSets": "<<{S(<<>>), Str(55, 255)}, {L(<<S(<<5>>)>>), S(<<128>>)}, {L(<<>>)}, {S(<<1>>)}>>",
                   "Names": sset(["u64", "bytes", "raw"])},
                  {"Depth": 4, "MaxMut": 1, "TruncEvery": 48}, ["Inv"], "TestTrees", view=True)
    # stacked mutations (byte damage on top of a mutant) on a small seed-chosen universe
    deep_len = rnd.choice([55, 56, 57]) if not th else rnd.choice([255, 256])
    run_model(c, "trees-stacked", "MC_RLPTrees",
              {"Lens": tset([2, deep_len]), "Fills": tset([fill]), "Singles": tset([rnd.choice([0, 127]), 128]), "Wide": tset([]),
               "SibSets": "<<{S(<<>>), Str(55, 255)}, {L(<<S(<<5>>)>>)}>>", "Names": sset(["u64", "bytes", "raw"])},
              {"Depth": 1, "MaxMut": 3 if th else 2, "TruncEvery": 24}, ["Inv"], "TestTrees", view=True)

    # (e) typed values, chain types
    if th:
        mut_all = ["u8", "u64", "big", "bool", "bytes", "arr1", "arr2", "Inner", "Nested", "OptS", "OptP", "TailS", "NilS", "NilX", "PtrS", "Rows", "ArrU",
                   "tx", "account", "slim", "log"]
        mut_base = ["receipt", "sreceipt", "header"]
    else:
        mut_all = ["uint", "bigv", "u8", "u16", "u32", "u64", "big", "bool", "bytes", "arr1", "arr2", "Inner", "OptS", "NilX"]
        mut_base = ["Nested", "OptP", "TailS", "NilS", "PtrS", "Rows", "ArrU", "tx", "account", "log"]
    run_model(c, "typed", "MC_RLPTyped",
              {"Names": sset(SCALARS + STRUCTS + IGNORED + PTR_SMALL + PTR_BIG + SLICES + CHAIN),
               "MutBase": sset(mut_base + PTR_BIG + ["SArr32", "SPtr"]), "MutAll": sset(mut_all + IGNORED + PTR_SMALL + ["SU64", "SBig"])},
              {"MaxMut": 2 if th else 1, "TruncEvery": 40}, ["Inv"], "TestTyped", view=True)

    # (d) adversarial headers + allocation guard
    run_model(c, "huge", "MC_RLPHuge",
              {"Firsts": tset([0, 1, 127, 128, 255] + ([2, 254] if th else [])), "Mids": tset([0, 255]), "Lasts": tset([0, 55, 56, 255]),
               "Pays": tset([0, 1, 3] + ([56] if th else [])),
               "Names": sset(["u64", "big", "bool", "bytes", "string", "arr20", "raw", "iface", "Inner", "Rows", "TailS", "NilS", "tx"])},
              {}, ["Inv"], "TestHuge")

    # (d') list headers declaring large payloads x slices of multi-byte elements x with / without input limit: allocation bound
    run_model(c, "lists", "MC_RLPLists",
              {"LimSizes": tset([4096, 61440] + ([16384] if th else [])), "UnlClaims": tset([65536, 1048576] + ([4096, 262144] if th else [])),
               "Names": sset(SLICES + ["Rows", "iface"])},
              {}, ["Inv"], "TestLists")

    # (f) the Stream API
    good = ["S(<<>>)", "S(<<5>>)", "S(<<0>>)", "S(<<128>>)", "S(<<1, 2>>)", "S(<<0, 1>>)", "L(<<>>)", "L(<<S(<<1>>)>>)",
            "L(<<S(<<1>>), L(<<S(<<2>>), S(<<>>)>>), S(<<128, 0>>)>>)", "L(<<L(<<L(<<>>)>>)>>)",
            "S(Rep(7, 9))", "S(Rep(1, 33))", "S(Rep(1, 56))", "L(<<S(Rep(1, 55))>>)"]
    bad = ["<<129, 5>>", "<<184, 1, 5>>", "<<129>>", "<<193>>", "<<194, 193, 193>>", "<<196, 193, 193, 5, 6>>", "<<195, 130, 0, 1>>",
           "<<248, 1, 5>>", "<<194, 5>>", "<<193, 129, 5>>", "<<5, 6>>", "<<192, 192>>", "<<197, 194, 194, 5, 6, 7>>"]
    if th:
        good += ["L(<<S(<<1>>), S(<<2>>), S(<<3>>)>>)", "L(<<L(<<S(<<1>>)>>), L(<<>>), S(<<128>>)>>)", "S(Rep(255, 8))", "S(Rep(1, 32))",
                 "L(<<S(<<>>), S(<<>>)>>)", "L(<<L(<<S(Rep(2, 56))>>)>>)"]
        bad += ["<<185, 0, 56>>", "<<249, 0, 56>>", "<<191, 255, 255, 255, 255, 255, 255, 255, 255>>", "<<198, 196, 194, 194, 5, 6, 7>>",
                "<<194, 129, 5>>", "<<130, 0>>", "<<195, 129, 128, 5>>"]
    x = rnd.randrange(2, 127)
    good.append("L(<<S(<<%d>>), S(<<%d, %d>>)>>)" % (x, x + 128, x))
    run_model(c, "stream", "MC_RLPStream",
              {"Inputs": "{Enc(x) : x \\in {%s}} \\cup {%s}" % (", ".join(good), ", ".join(bad)), "LimitDeltas": "{0, 1, 0 - 1}"},
              {"MaxOps": 10 if th else 6}, ["Inv"], "TestStream", view=True)

    # (g) trace validation: seed-chosen random / damaged byte strings through the real decoders, judged by TLC
    run_trace(c, 20000 if th else 2000)

    c.exhaustive = True   # every model-checking run above is a completed breadth-first search
