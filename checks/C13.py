"""C13 - blocks are tamper-evident and reassemble exactly from their parts.

specs/partset:
  Merkle.tla / MC_Merkle        lib/merkle simple tree + proofs over an abstract (injective, domain-separated) hash algebra
  PartSet.tla / MC_PartSet      types.PartSet: AddPart as specified (proof index/total bound to the part), every arrival
                                order with duplicates and every adversarial part kind in between
  BlockFields.tla / MC_BlockFields   block = all header fields + txs + last commit + evidence; decode / ValidateBasic /
                                validateBlock / VerifyCommit / MedianTime transcribed; single-field mutation catalogue
                                (with / without re-hashing), validated by fresh and warm executors
  Codec.tla / MC_Codec          which votes / proposals / commits / parts the decoders return unchanged, boundary values
harness/partset: TestReplay, TestMerkle, TestBlockFields, TestCodec (one real execution per TLC transition / state)."""
import os
from vlib import Infra


def cfg_partset(total, keeprej, maxops=0, bind="TRUE", invs=("Inv", "RejectNoOp", "OnlyBelonging", "SenderOK"), dump=True):
    s = ("SPECIFICATION Spec\nCONSTANTS\n  BindIndex = %s\n  Total = %d\n  KeepRej = %d\n  MaxOps = %d\nVIEW View\n"
         "CONSTRAINT Bound\n") % (bind, total, keeprej, maxops)
    s += "".join("INVARIANT %s\n" % i for i in invs)
    if dump:
        s += "ACTION_CONSTRAINT Dump\n"
    return s


def cfg_merkle(ns, wide, invs=("Completeness", "ContentSound", "PositionSound"), dump=True):
    s = "SPECIFICATION Spec\nCONSTANTS\n  Ns = {%s}\n  Wide = %s\n" % (", ".join(map(str, ns)), "TRUE" if wide else "FALSE")
    s += "".join("INVARIANT %s\n" % i for i in invs)
    if dump:
        s += "ACTION_CONSTRAINT Dump\n"
    return s


def cfg_bf(initial, usecache, depth, pairs, invs, dump=True):
    s = ("SPECIFICATION Spec\nCONSTANTS\n  Initial = %s\n  UseCache = %s\n  Depth = %d\n  Pairs = %s\nVIEW View\n" %
         tuple(("TRUE" if x else "FALSE") if isinstance(x, bool) else x for x in (initial, usecache, depth, pairs)))
    s += "".join("INVARIANT %s\n" % i for i in invs)
    if dump:
        s += "ACTION_CONSTRAINT Dump\n"
    return s


def must_hold(c, r, what):
    if r.violated:
        # an invariant of the MODEL failing means the specification is wrong - never a verdict on the code
        raise Infra("specification invariant %s violated in %s\n%s" % (r.violated, what, c.tlc_tail(r)))
    if not r.ok:
        raise Infra("TLC failed on %s: %s\n%s" % (what, r.error, c.tlc_tail(r)))


def must_fail(c, r, what, inv):
    """Documented negative results: TLC has to REFUTE `inv` (otherwise the invariants of the family would be vacuous
    or the documentation in the modules wrong).  These runs never produce a verdict."""
    if r.violated != inv:
        raise Infra("%s: expected TLC to refute %s, got violated=%s error=%s\n%s" % (what, inv, r.violated, r.error, c.tlc_tail(r)))
    # the states of a refutation run are not coverage
    c.states -= r.distinct
    c.transitions -= r.generated


def run(c):
    th = c.tier == "thorough"
    c.rule = (
        "PartSet: every transition of MC_PartSet (state = part set + the last KeepRej refused offers; offers = genuine parts in any "
        "order incl. duplicates + 20 adversarial kinds derived by one field mutation: other index, proof of another leaf, Proof.Index / "
        "Proof.Total altered, truncated / extended / empty bytes with and without recomputed leaf hash, aunts dropped / added / reversed, "
        "part / proof / bytes of another block with the same total, part of a block with another total, index >= total, inner node as leaf, "
        "nil) is replayed from an empty types.NewPartSetFromHeader into the real PartSet built from REAL BLOCK BYTES (3 size shapes: exactly k "
        "parts, last part 1 byte, last part half; part sizes BlockPartSizeBytes / 2048 / 5), half of them through the Part wire codec; "
        "compared: added flag of every step, Count, IsComplete, BitArray, GetPart, final ReadAll(GetReader) bytes, decoded block hash and "
        "re-encoding; non-trivial = last step is not a plain first delivery of a genuine part.  Merkle: every state of MC_Merkle (proof of "
        "leaf i with Index, Total, aunts, leaf bytes, leaf hash mutated) against the real SimpleProof.Verify on 4 leaf-content families; "
        "non-trivial = not the genuine proof.  BlockFields: every behaviour of MC_BlockFields (1-2 validations of catalogue blocks by one "
        "executor, thorough: 3; catalogue = 48 single-field mutations, 23 of them also with the dependent content hash recomputed = 71 blocks, "
        "thorough: also all ordered pairs) executed on real "
        "nodes (4 validators, real chain state at height 3 and at the initial height) through part set -> BlockFromProto -> "
        "BlockExecutor.ValidateBlock and the uncached validateBlock; compared: accepted / refused, header hash changed, BlockID changed, "
        "no two different acceptable blocks with one BlockID; non-trivial = last validated block is not the genuine one.  Codec: every record "
        "of MC_Codec through ToProto/Marshal/Unmarshal/FromProto (+ consensus message envelope) and rawdb WriteBlock/Read*; distinct = "
        "distinct records")
    c.assumptions = [
        "sha256 / keccak are collision resistant (the hash algebra of Merkle.tla / BlockFields.tla is injective by construction; the driver "
        "tests the equalities and inequalities the models rely on, not collision resistance)",
        "secp256k1 signatures are unforgeable (abstract signature = record of what was signed and by whom)",
        "TLC integers are 32 bit: codec field values are symbolic boundary names mapped by the driver (max64 = 2^64-1, ...)",
        "a total of 0 parts (empty data) is modelled and replayed, but no block encodes to zero bytes: GetReader on the empty complete "
        "set is recorded as an observation, not judged",
    ]
    obs = {}

    # ------------------------------------------------------------------ Merkle
    ns = list(range(1, 10)) if th else list(range(1, 7))
    runs = [(ns, False)] + ([([1, 2, 3, 4, 5], True)] if th else [])
    for nset, wide in runs:
        name = "merkle.cfg"
        dump = os.path.join(c.scratch, "merkle.dump")
        r = c.tlc("partset", name, module="MC_Merkle", files={name: cfg_merkle(nset, wide)}, dump_to=dump, timeout=1500,
                  tag="MC_Merkle Ns=%s wide=%s" % (nset, wide))
        must_hold(c, r, "MC_Merkle %s" % nset)
        g = c.gotest("partset", "TestMerkle", env=dict(MK_DUMP=dump), timeout=1500, tag="merkle %s wide=%s" % (nset, wide))
        c.absorb(g)
        os.remove(dump)
    # documented negative: Verify alone does not pin Proof.Index / Proof.Total
    r = c.tlc("partset", "merkle-neg.cfg", module="MC_Merkle",
              files={"merkle-neg.cfg": cfg_merkle([4], False, invs=("VerifyPinsMeta",), dump=False)}, timeout=600,
              tag="MC_Merkle VerifyPinsMeta (expected: refuted)")
    must_fail(c, r, "MC_Merkle N=4", "VerifyPinsMeta")
    obs["merkle"] = "SimpleProof.Verify alone does not pin Proof.Index/Proof.Total (TLC refutes VerifyPinsMeta for 4 leaves)"

    # ------------------------------------------------------------------ PartSet
    # (total, keeprej, maxops, go stride quick, go stride thorough)
    psruns = [(0, 2, 4, 1, 1), (1, 2, 0, 1, 1), (2, 1, 0, 1, 1), (3, 1, 0, 1, 1), (4, 1, 0, 4, 1)]
    if th:
        psruns += [(2, 2, 0, 1, 1), (5, 1, 0, 1, 1)]
    for total, keep, maxops, sq, st in psruns:
        name = "ps.cfg"
        dump = os.path.join(c.scratch, "ps-%d-%d.dump" % (total, keep))
        r = c.tlc("partset", name, module="MC_PartSet", files={name: cfg_partset(total, keep, maxops)}, dump_to=dump, timeout=3000,
                  tag="MC_PartSet total=%d keeprej=%d" % (total, keep))
        must_hold(c, r, "MC_PartSet total=%d" % total)
        g = c.gotest("partset", "TestReplay", env=dict(PS_DUMP=dump, PS_TOTAL=total, PS_STRIDE=(st if th else sq)), timeout=3000,
                     tag="replay total=%d keeprej=%d" % (total, keep))
        c.absorb(g)
        os.remove(dump)
    # documented negative: the code AS WRITTEN (no index/total binding) admits a complete set that is not the original
    r = c.tlc("partset", "ps-neg.cfg", module="MC_PartSet",
              files={"ps-neg.cfg": cfg_partset(2, 0, 0, bind="FALSE", invs=("Inv",), dump=False)}, timeout=600,
              tag="MC_PartSet as written (BindIndex=FALSE; expected: Inv refuted)")
    must_fail(c, r, "MC_PartSet as written", "Inv")
    obs["partset_as_written"] = "with AddPart as written (Proof.Index/Total not compared with Index/total) TLC refutes Inv for 2 parts"

    # ------------------------------------------------------------------ BlockFields
    base_invs = ["BaseValid", "AcceptedIsValid", "TamperEvidentId"]
    # (initial scene?, invariants, pairs?, validations per executor)
    scenes = [(False, base_invs + ["TamperEvidentHash", "UniqueIds"], False, 2), (True, base_invs + ["UniqueIds"], False, 2)]
    if th:
        scenes += [(False, base_invs + ["TamperEvidentHash"], False, 3), (False, base_invs + ["TamperEvidentHash"], True, 2),
                   (True, base_invs, True, 2)]
    for initial, invs, pairs, depth in scenes:
        name = "bf.cfg"
        dump = os.path.join(c.scratch, "bf-%d-%d.dump" % (initial, pairs))
        tag = "MC_BlockFields %s%s depth=%d" % ("initial height" if initial else "height 3", " pairs" if pairs else "", depth)
        r = c.tlc("partset", name, module="MC_BlockFields", files={name: cfg_bf(initial, False, depth, pairs, invs)}, dump_to=dump,
                  timeout=3000, tag=tag)
        must_hold(c, r, tag)
        g = c.gotest("partset", "TestBlockFields", env=dict(BF_DUMP=dump, BF_INITIAL=int(initial), BF_SCENES=(8 if pairs or depth > 2 else 2)),
                     timeout=3000, tag="blockfields " + tag)
        c.absorb(g)
        if not initial and not pairs and depth == 2:
            # the same behaviours on a chain whose validator set changes exactly between heights 2 and 3: the last
            # commit is judged and the median time weighted by the PREVIOUS set
            g = c.gotest("partset", "TestBlockFields", env=dict(BF_DUMP=dump, BF_INITIAL=0, BF_CHANGED=1, BF_SCENES=2, BF_STRIDE=(1 if th else 3)),
                         timeout=3000, tag="blockfields (validator set changed between heights 2 and 3) " + tag)
            c.absorb(g)
        os.remove(dump)
    # documented negatives
    r = c.tlc("partset", "bf-neg1.cfg", module="MC_BlockFields",
              files={"bf-neg1.cfg": cfg_bf(False, True, 2, False, ["AcceptedIsValid"], dump=False)}, timeout=600,
              tag="MC_BlockFields with the header-hash cache as written (expected: AcceptedIsValid refuted)")
    must_fail(c, r, "MC_BlockFields UseCache", "AcceptedIsValid")
    obs["validation_cache_as_written"] = ("with BlockExecutor.ValidateBlock's cache keyed by the header hash TLC refutes AcceptedIsValid "
                                          "(genuine block validated, then the same header with another LastCommit.Round)")
    r = c.tlc("partset", "bf-neg2.cfg", module="MC_BlockFields",
              files={"bf-neg2.cfg": cfg_bf(True, False, 1, False, ["TamperEvidentHash"], dump=False)}, timeout=600,
              tag="MC_BlockFields initial height, header-hash wording (expected: TamperEvidentHash refuted)")
    must_fail(c, r, "MC_BlockFields initial TamperEvidentHash", "TamperEvidentHash")
    obs["initial_height_commit_fields"] = ("at the initial height the (empty) last commit's own Height/Round/BlockID are covered by the part-set "
                                           "hash only: such a change keeps the header hash and is acceptable; the BlockID differs "
                                           "(TamperEvidentId holds, TamperEvidentHash is refuted by TLC and reproduced as an observation)")

    # ------------------------------------------------------------------ Codec
    name = "cd.cfg"
    dump = os.path.join(c.scratch, "codec.dump")
    r = c.tlc("partset", name, module="MC_Codec", files={name: "SPECIFICATION Spec\nCONSTANTS\n  Wide = %s\nACTION_CONSTRAINT Dump\n" %
                                                          ("TRUE" if th else "FALSE")}, dump_to=dump, timeout=3000, tag="MC_Codec")
    must_hold(c, r, "MC_Codec")
    g = c.gotest("partset", "TestDeriveInjective", timeout=1500, tag="transactions hash injective at every position (index boundaries)")
    c.absorb(g)
    g = c.gotest("partset", "TestCodec", env=dict(CD_DUMP=dump), timeout=3000, tag="codec")
    c.absorb(g)
    os.remove(dump)

    c.extra["documented_negative_results"] = obs
    c.exhaustive = True
