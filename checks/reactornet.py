"""Family `reactornet` — C04 (liveness) and C01 (agreement) on REAL REACTOR NETWORKS.

What the consensus family (checks/C04.py, harness/node) leaves outside: there the messages between nodes are carried by a
single-threaded scheduler whose (re)transmission is a MODEL of consensus/manager.go (`gossipOnce`).  Here nothing in the
message path is modelled: N real nodes = real ConsensusState + real ConsensusManager (Receive, PeerState bookkeeping from
NewRoundStep / NewValidBlock / HasVote / VoteSetMaj23 / VoteSetBits, gossipDataRoutine incl. catch-up from the block store,
gossipVotesRoutine incl. pickSendVote / last commit / catch-up commit, queryMaj23Routine) on real p2p Switches connected in
memory (net.Pipe: real MConnection, SecretConnection, Switch), real goroutines, the real TimeoutTicker, the real
receiveRoutine, the real file WAL.

Scenario = seeded adversarial prefix (partitions cut on both sides and re-made, validators stopped and rebuilt on their
surviving database + WAL, steered lag/crash points) then the synchronous suffix (everybody up, connected, no faults).
Verdicts on the real code:  liveness (every node commits K heights beyond the maximum at the heal point within >= 20x the
calibrated fault-free time, stall diagnosis attached), agreement of the block stores, no panic (each scenario runs in a
child process).
Binding to the specification (model-based part): every node's handler calls — inputs from its WAL, post-states recorded
at the gate in the receive goroutine, signature requests — are validated by TLC against specs/reactornet/ReactorNetTrace.tla,
an extension of specs/node/KardiaNodeTrace.tla over the handlers of specs/node/KardiaNode.tla (same operators that
C01/C03/C04 bind by replay), with Agreement and the C03 obligations as invariants on the explained trace.
"""
import os, re, shutil, subprocess, time, json
from concurrent.futures import ThreadPoolExecutor
from vlib import Infra, SPECS, JAVA_CP, TLCResult, parse_tlc_output

# cfg:kind[@topology]:count   (kinds and topologies: harness/reactornet/scenario.go)
QUICK_PLAN = ("4eq:partition-heal:2,4w:partition-heal:1,4eq:partition-heal@line:1,4eq:partition-heal@full-1:1,"
              "4eq:node-restart:1,4w:node-restart@full-1:1,5nv:node-restart@ring:1,"
              "4eq:commit-lag:1,4w:commit-lag:1,"
              "4eq:node-crash:1,4w:node-crash@star:1,"
              "5nv:late-join:1,4eq:late-join@line:1,7eq:partition-heal@ring-1:1,4chg:node-restart:1")
THOROUGH_PLAN = ("4eq:partition-heal:10,4w:partition-heal:10,5nv:partition-heal:6,4eq:partition-heal@line:6,4w:partition-heal@ring:6,7eq:partition-heal:4,5w:partition-heal@star:4,"
                 "4eq:partition-heal@full-1:8,4w:partition-heal@full-1:6,7eq:partition-heal@ring-1:4,5w:partition-heal@full-1:4,"
                 "4eq:node-restart:10,4w:node-restart:10,5nv:node-restart@ring:6,3eq:node-restart:4,5w:node-restart:4,7eq:node-restart@ring:3,"
                 "4eq:node-restart@full-1:6,4w:node-restart@full-1:6,5nv:node-restart@ring-1:4,"
                 "4eq:commit-lag:8,4w:commit-lag:8,5w:commit-lag:4,4eq:commit-lag@line:4,7eq:commit-lag:3,5nv:commit-lag@ring-1:4,"
                 "4eq:node-crash:8,4w:node-crash@star:6,5nv:node-crash@ring:4,4eq:node-crash@full-1:4,"
                 "5nv:late-join:6,4eq:late-join@line:6,4w:late-join:4,7eq:late-join@ring:3,4eq:late-join@full-1:4,"
                 "4chg:partition-heal:4,4chg:node-restart:4,4chg:node-crash@ring:3,4chg:late-join:3")


def validate(c, files, parallel=6, timeout=900):
    """One TLC per recorded run.  The trace module lives in specs/reactornet and EXTENDS specs/node/KardiaNodeTrace.tla
    (over specs/node/KardiaNode.tla): the scratch copy gets both directories, so the binding is always to the CURRENT
    handler specification, never to a copy."""
    def one(k_f):
        k, f = k_f
        work = os.path.join(c.scratch, "tv-reactornet-%d-%d" % (len(c.tlc_runs), k))
        shutil.copytree(os.path.join(SPECS, "reactornet"), work)
        for fn in ("KardiaNode.tla", "KardiaNodeTrace.tla"):
            shutil.copy(os.path.join(SPECS, "node", fn), work)
        shutil.copy(f["path"], os.path.join(work, "trace.ndjson"))
        out = os.path.join(work, "tlc.out")
        cmd = ["java", "-XX:+UseParallelGC", "-Xss512m", "-Xmx3g", "-Djava.io.tmpdir=" + os.path.dirname(work), "-cp", JAVA_CP, "tlc2.TLC", "-config", "ReactorNetTrace.cfg",
               "-metadir", os.path.join(work, "meta"), "-workers", "1", "ReactorNetTrace.tla"]
        t0 = time.time()
        to = False
        with open(out, "w") as fo:
            try:
                rc = subprocess.run(cmd, cwd=work, stdout=fo, stderr=subprocess.STDOUT, timeout=timeout).returncode
            except subprocess.TimeoutExpired:
                rc, to = -1, True
        res = TLCResult()
        parse_tlc_output(out, res)
        text = open(out, errors="replace").read()
        diag = ""
        i = text.find('<< "MISMATCH"')
        if i >= 0:
            diag = " ".join(text[i:i + 20000].split())[:6000]
        deviations = sorted(set(re.findall(r'<<\s*"DEVIATION",\s*"([\w:-]+)"', text)))
        rejected = ("REJECTED" in text) or ("Postcondition" in text and "is false" in text)
        violated = res.violated
        err = res.error if (res.error and not rejected and not violated) else None
        shutil.rmtree(work, ignore_errors=True)
        return dict(f=f, accepted=(rc == 0 and not rejected and not violated and not err), rejected=rejected, violated=violated,
                    error=err, timed_out=to, diag=diag, states=res.distinct, deviations=deviations, wall_s=round(time.time() - t0, 1))
    with ThreadPoolExecutor(max_workers=parallel) as ex:
        results = list(ex.map(one, list(enumerate(files))))
    c.tlc_runs.append(dict(tag="ReactorNetTrace (real reactor networks)", family="reactornet", module="ReactorNetTrace",
                           mode="trace-validation", traces=len(files), accepted=sum(1 for r in results if r["accepted"]),
                           states=sum(r["states"] for r in results), wall_s=round(sum(r["wall_s"] for r in results), 1)))
    c.states += sum(r["states"] for r in results)
    c.transitions += sum(r["states"] for r in results)
    return results


GOSSIP_CFG = """SPECIFICATION Spec
CONSTANTS
  NV = 4
  SH = 3
  SR = 2
  SPV <- cSPV
  SPC <- cSPC
  SPCMaj <- cSPCMaj
  SLCR = 1
  SLC = {0, 1, 2}
  SCommit <- cSCommit
  Depth = %d
  Full = %s
INVARIANT Completeness
INVARIANT Sound
%s"""


def gossip_mbt(c):
    """specs/reactornet/GossipVotes.tla (PeerState bookkeeping + the vote-gossip decision of consensus/manager.go): TLC checks
    the C04 obligation on gossip (Completeness) and prints every peer history with the votes the specification sends at the
    routine's fixpoint; the Go driver replays each history on the real ConsensusManager.Receive / PeerState /
    gossipVotesRoutine of a real validator driven into the model's canonical sender state."""
    th = c.tier == "thorough"
    dump = os.path.join(c.scratch, "gossip.dump")
    r = c.tlc("reactornet", "MCg.cfg", module="MC_GossipVotes_gen", files={"MCg.cfg": GOSSIP_CFG % (3, "TRUE" if th else "FALSE", "ACTION_CONSTRAINT Dump\n")},
              dump_to=dump, timeout=1500, tag="MC_GossipVotes depth 3 %s menu, every history printed" % ("full" if th else "reduced"))
    if r.violated:
        raise Infra("invariant %s of the gossip specification is violated:\n%s" % (r.violated, c.tlc_tail(r, 60)))
    if not r.ok:
        raise Infra("TLC failed on MC_GossipVotes: %s\n%s" % (r.error, c.tlc_tail(r)))
    g = c.gotest("reactornet", "TestGossipReplay", env=dict(GOSSIP_DUMP=dump), timeout=1500, tag="reactornet: peer histories replayed on the real PeerState / gossipVotesRoutine")
    c.absorb(g)
    os.remove(dump)
    if th:
        # deeper, invariants only (4 messages: reaches the named deviation D3)
        r = c.tlc("reactornet", "MCg.cfg", module="MC_GossipVotes_gen", files={"MCg.cfg": GOSSIP_CFG % (4, "FALSE", "")}, timeout=1500,
                  jvm=["-Xmx12g"], tag="MC_GossipVotes depth 4 reduced menu, invariants")
        if r.violated:
            raise Infra("invariant %s of the gossip specification is violated:\n%s" % (r.violated, c.tlc_tail(r, 60)))
        if not r.ok:
            raise Infra("TLC failed on MC_GossipVotes depth 4: %s\n%s" % (r.error, c.tlc_tail(r)))


def run_part(c, prop_sigs=("reactornet:liveness", "reactornet:gossip", "reactornet:agreement", "reactornet:panic", "reactornet:trace")):
    """prop_sigs: which of this family's verdicts count for the calling property (C04: all; C01: agreement, panic, trace)."""
    th = c.tier == "thorough"
    c.rule += (" || reactornet: seeded scenarios on real reactor networks (real ConsensusManager gossip, p2p switches over net.Pipe, "
               "real ticker / receiveRoutine / WAL): adversarial prefix (partition-heal: halves, one node alone, rotating, re-split; "
               "node-restart / node-crash: stop or death at the gate + rebuild on surviving database and WAL; commit-lag: steered, a "
               "validator the rest cannot do without is exactly one height behind; late-join) then everybody up and connected in the "
               "full mesh / a line / ring / star, optionally one validator down for good; configurations 4 equal, (3,2,2,2), (3,2,2,1,1), 3, 7 "
               "validators, 4 + a non-validator, 4 with validator-set changes over 17 heights; plus every peer history of MC_GossipVotes "
               "replayed on the real PeerState / gossipVotesRoutine; evaluations = handler calls of real nodes explained by TLC + peer "
               "histories replayed; non-trivial = a node restarted, lagged at the heal point, or a round > 1 / distinct sets of votes to send")
    c.assumptions += ["reactornet: timely delivery is real time — consensus timeouts (0.8 s propose, 0.4 s prevote/precommit, growing "
                      "per round) far above in-memory delivery; the liveness bound is >= 20x the calibrated fault-free time of the same "
                      "network on the machine as loaded at that moment, a run that is merely slow is an infrastructure result",
                      "reactornet: all nodes are correct real nodes (no equivocation), so peer majority claims cannot change a vote set"]
    plan = os.environ.get("RN_PLAN") or (THOROUGH_PLAN if th else QUICK_PLAN)
    if th and not os.environ.get("RN_PLAN"):
        # three seeds' worth of every entry (about 600 scenarios, ~15 min on 16 cores)
        plan = ",".join("%s:%d" % (it.rsplit(":", 1)[0], 3 * int(it.rsplit(":", 1)[1])) for it in plan.split(","))
    d = os.path.join(c.scratch, "reactornet")
    # RN_BUDGET: the driver always reports within it (scenarios that take their whole liveness bound on a broken tree push
    # later ones out: those are listed as not run, the verdicts found stand)
    g = c.gotest("reactornet", "TestReactorNet", env=dict(RN_PLAN=plan, RN_DIR=d, RN_PAR=(10 if th else 8), RN_BUDGET=(1500 if th else 330),
                                                          RN_MAXBOUND=(300 if th else 150)), timeout=(1700 if th else 420),
                 tag="reactornet: real reactor networks " + plan)
    files = (g.get("extra") or {}).get("trace_files") or []
    g["mismatches"] = [m for m in (g.get("mismatches") or []) if m["sig"].startswith(tuple(prop_sigs)) or m["sig"].startswith("infra:")]
    c.absorb(g)
    c.extra["reactornet_scenarios"] = (g.get("extra") or {}).get("scenarios")
    if any(s.startswith("reactornet:liveness") for s in prop_sigs):
        gossip_mbt(c)
        # a validator that went through several rounds of a height (driven there by the other validators' nil votes) and is
        # restarted on its database and WAL must come back: real receive routine, real ticker, real WAL replay
        g2 = c.gotest("reactornet", "TestRestartAfterRounds", timeout=300, tag="reactornet: restart after 2/4/6/9 rounds of one height")
        c.absorb(g2)
    if not any(s.startswith("reactornet:trace") for s in prop_sigs):
        return
    for r in validate(c, files, parallel=(8 if th else 6)):
        f = r["f"]
        where = "%s:%s" % (f["cfg"], f["kind"])
        base = os.path.basename(f["path"])
        for dv in r.get("deviations") or []:
            # named deviations of the trace specification (same names and signatures as checks/C01.py net_runs)
            c.report("node:restart:%s" % dv, "real reactor-network run %s: %s (see ReactorNetTrace.tla RRestart / KardiaNodeTrace.tla RestartStep)" % (base, dv),
                     dict(trace=base, scenario=f))
        if r["accepted"]:
            continue
        if r["violated"]:
            c.report("reactornet:trace:%s:%s" % (r["violated"], where),
                     "invariant %s is false on the explained trace of real reactor-network run %s (seed %s)" % (r["violated"], base, f["seed"]),
                     dict(trace=base, scenario=f))
        elif r["rejected"]:
            c.report("reactornet:trace-rejected:%s" % where,
                     "real reactor-network run %s (seed %s) is not a behaviour of the handler-level specification: %s" % (base, f["seed"], r["diag"][:1500]),
                     dict(trace=base, scenario=f, diag=r["diag"]))
        else:
            raise Infra("trace validation of %s failed: %s" % (base, r["error"] or ("timeout" if r["timed_out"] else "?")))


def run(c):
    c.rule = ""
    c.assumptions = []
    run_part(c)
    c.rule = c.rule.lstrip(" |")
