"""Shared pieces of the consensus-node checks (C01, C03, C04, ...): model constants generated from
the real validator order, MC_NodeEnv configurations."""
import json, os
from vlib import Infra

def proposer_table(c, maxh=4, maxr=12, powers=None):
    e = dict(NODE_MAXH=maxh, NODE_MAXR=maxr)
    if powers:
        e["NODE_POWERS"] = ",".join(map(str, powers))
    g = c.gotest("node", "TestProposerTable", env=e, timeout=600, tag="proposer table")
    t = (g.get("extra") or {}).get("proposer_table")
    if not t:
        raise Infra("no proposer table from the real validator set")
    c.go_runs.pop()
    return t

def tla_seq(x):
    if isinstance(x, list):
        return "<<" + ", ".join(tla_seq(y) for y in x) + ">>"
    return str(x)

def gen_env(table, powers=(1, 1, 1, 1), prefixes=False):
    """prefixes: start from the scripted prefixes of NodePrefixes.tla (written for Me = 2 and the rotation 1,2,3,4)."""
    if prefixes and (table[0][:4] != [1, 2, 3, 4] or table[1][:4] != [2, 3, 4, 1]):
        raise Infra("the real proposer rotation %s is not the one NodePrefixes.tla was written for" % table[0][:4])
    return {"MCgen.tla": "---- MODULE MCgen ----\nEXTENDS MC_NodeEnv\nP == INSTANCE NodePrefixes\nPowerV == [h \\in 1..%d |-> %s]\nPropV == %s\nPrefixV == %s\n====\n" %
            (len(table) + 2, tla_seq(list(powers)), tla_seq(table), "P!All" if prefixes else "<< <<>> >>")}

def cfg_env(me, depth, usedie, maxround=3, maxheight=2, bids='{"A", "X"}', invariants=("C03", "TypeOK", "EvidenceOnlyForEquivocators"), extra="", waittxs=False):
    s = ("SPECIFICATION Spec\nCONSTANTS\n  N = 4\n  PowerAt <- PowerV\n  ProposerOf <- PropV\n  InvalidBids = {\"X\"}\n"
         "  SkipTimeoutCommit = FALSE\n  WaitForTxs = %s\n  Me = %d\n  Bids = %s\n  MyBid = \"M\"\n  MaxRound = %d\n  MaxHeight = %d\n"
         "  Depth = %d\n  UseDie = %s\n  Prefixes <- PrefixV\nVIEW View\n") % ("TRUE" if waittxs else "FALSE", me, bids, maxround, maxheight, depth, "TRUE" if usedie else "FALSE")
    for i in invariants:
        s += "INVARIANT %s\n" % i
    return s + extra

def env_walks(c, table, me, num_per_worker, depth, seed, tag, workers=None, maxround=3, maxheight=2, bids='{"A", "X"}', timeout=1500, prefixes=False, waittxs=False, powers=(1, 1, 1, 1)):
    """Simulation: weighted random walks of the adversarial environment, printed at their end."""
    files = gen_env(table, powers=powers, prefixes=prefixes)
    files["MCsim.cfg"] = cfg_env(me, depth, True, maxround, maxheight, bids, extra="", waittxs=waittxs)
    dump = os.path.join(c.scratch, "walks-%s.dump" % tag)
    r = c.tlc("node", "MCsim.cfg", module="MCgen", files=files, dump_to=dump, timeout=timeout, workers=workers,
              simulate="num=%d" % num_per_worker, depth=depth + 30, seed=seed, tag=tag)
    if r.violated:
        raise Infra("specification invariant %s violated in %s\n%s" % (r.violated, tag, c.tlc_tail(r, 60)))
    if not r.ok:
        raise Infra("TLC failed on %s: %s\n%s" % (tag, r.error, c.tlc_tail(r)))
    return dump

def env_bfs(c, table, me, depth, tag, dump=True, maxround=3, bids='{"A", "X"}', timeout=3000, prefixes=False, waittxs=False, powers=(1, 1, 1, 1)):
    """Exhaustive BFS of the adversarial environment to a small depth; every transition printed."""
    files = gen_env(table, powers=powers, prefixes=prefixes)
    files["MCbfs.cfg"] = cfg_env(me, depth, False, maxround, 2, bids, extra="ACTION_CONSTRAINT Dump\n" if dump else "", waittxs=waittxs)
    path = os.path.join(c.scratch, "bfs-%s.dump" % tag)
    r = c.tlc("node", "MCbfs.cfg", module="MCgen", files=files, dump_to=path, timeout=timeout, tag=tag)
    if r.violated:
        raise Infra("specification invariant %s violated in %s\n%s" % (r.violated, tag, c.tlc_tail(r, 60)))
    if not r.ok:
        raise Infra("TLC failed on %s: %s\n%s" % (tag, r.error, c.tlc_tail(r)))
    return path
