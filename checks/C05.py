"""C05 — crash recovery.  specs/crash/CrashRecovery.tla models the validator's durable operations in the
MEASURED program order and the recovery as implemented; TLC checks store consistency for every crash point
and lists, per crash point, what the restart computes (head, consensus state, WAL replay) and whether published
votes are left unprotected.  harness/node TestCrashSweep kills a REAL validator (real receiveRoutine under the
verif gate, real file WAL, counting database) before EVERY durable operation of a 3-height run, with both WAL
tail variants and in both cache modes, restarts it on the surviving files through the real NewBlockChain /
Store.Load / OnStart(catchupReplay) path and lets it continue against the live network; verdicts are taken on
the real run (start failure, stored block differs, conflicting signature vs published, no catch-up, lost block),
and the restart's (head, state) must be what the specification computes for that crash point."""
import json, os
from vlib import Infra

def model(c, cfg):
    dump = os.path.join(c.scratch, cfg + ".dump")
    r = c.tlc("crash", cfg + ".cfg", module="CrashRecovery", dump_to=dump, timeout=1800, tag="CrashRecovery " + cfg)
    if r.violated:
        raise Infra("invariant %s violated in CrashRecovery %s\n%s" % (r.violated, cfg, c.tlc_tail(r, 60)))
    if not r.ok:
        raise Infra("TLC failed on CrashRecovery %s: %s\n%s" % (cfg, r.error, c.tlc_tail(r)))
    pts = {}
    for line in open(dump, errors="replace"):
        if line.startswith('"'):
            d = json.loads(json.loads(line))
            pts[(d["mode"], d["h"], d["step"])] = d
    os.remove(dump)
    return pts

def run(c):
    th = c.tier == "thorough"
    c.rule = ("every cut k of the real validator's sequence of durable operations (database batches/puts, WAL writes and fsyncs; "
              "~22 per height, 3 heights) x WAL tail variant (unsynced tail lost / survived) x cache mode (flush every block / "
              "recent state in memory); each is one real kill + restart + continuation; non-trivial = every one (each is a "
              "different crash point)")
    c.assumptions = ["two start paths after the crash: straight to consensus (fast sync off) and, in flush mode, through the REAL block-sync reactor and consensus manager on a p2p switch without peers (nobody is ahead: the reactor finishes having fetched nothing and its demux routine calls SwitchToConsensus); the network is honest and timely after the restart",
                     "validator 1 of 4 equal validators is the victim (proposer of height 1); blocks are empty"]
    pts = {}
    pts.update(model(c, "MC_flush"))
    pts.update(model(c, "MC_memory"))
    # non-vacuity: the model must exhibit the known unprotected windows
    r = c.tlc("crash", "MC_flush_conflict.cfg", module="CrashRecovery", timeout=900, tag="CrashRecovery conflict reachable")
    if r.violated != "NoConflictingSignature":
        raise Infra("CrashRecovery: NoConflictingSignature was expected to be violated in the windows after #ENDHEIGHT")
    g = c.gotest("node", "TestCrashSweep", env=dict(CRASH_HEIGHTS=3, CRASH_WORKERS=8,
                 CRASH_VICTIM=(1 if not th else 1)), timeout=3000, tag="crash sweep victim 1")
    outs = (g.get("extra") or {}).pop("outcomes", [])
    c.absorb(g)
    if th:
        g2 = c.gotest("node", "TestCrashSweep", env=dict(CRASH_HEIGHTS=4, CRASH_WORKERS=8, CRASH_VICTIM=3), timeout=6000,
                      tag="crash sweep victim 3, 4 heights")
        outs += (g2.get("extra") or {}).pop("outcomes", [])
        c.absorb(g2)
    # the same sweep with the victim's WAL rotated after every second record (the log of one height spread over many
    # files, most without an #ENDHEIGHT marker): the search for the last marker and the replay must cross files
    g3 = c.gotest("node", "TestCrashSweep", env=dict(CRASH_HEIGHTS=3, CRASH_WORKERS=8, CRASH_VICTIM=1, CRASH_MODES="flush",
                  CRASH_ROTATE=(2 if c.seed % 2 else 3), CRASH_STRIDE=(1 if th else 2)), timeout=3000, tag="crash sweep, rotating WAL")
    outs += (g3.get("extra") or {}).pop("outcomes", [])
    c.absorb(g3)
    # conformance: the real restart computes what the specification says for that crash point
    compared = 0
    for o in outs:
        if o.get("problems") or o.get("start_err") or o["model_step"] == "end" or o["model_h"] > 3:
            continue
        m = pts.get((o["mode"], o["model_h"], o["model_step"]))
        if m is None:
            raise Infra("no model crash point for %s" % ((o["mode"], o["model_h"], o["model_step"]),))
        compared += 1
        where = "%s mode, crash before %s of height %d (durable operation %d, WAL tail %s)" % (
            o["mode"], o["model_step"], o["model_h"], o["cut"], o["wal"])
        if o["head_h"] != m["head"] or o["state_h"] != m["state"]:
            c.report("crash:recovery-differs:%s:before-%s" % (o["mode"], o["model_step"]),
                     "%s: the restart came up with head %d / consensus state %d, specified head %d / state %d" %
                     (where, o["head_h"], o["state_h"], m["head"], m["state"]), dict(outcome=o, model=m))
        # a conflicting signature may only occur where the specification says published votes are exposed
        if o.get("conflicts") and m["exposed"] == 0:
            c.report("crash:conflict-in-protected-window:%s:before-%s" % (o["mode"], o["model_step"]),
                     "%s: conflicting signature although the WAL discipline protects this crash point: %s" %
                     (where, o["conflicts"][0]), dict(outcome=o, model=m))
    # restarts BETWEEN handler calls inside adversarial network runs (several correct nodes, several restarts per run,
    # rounds > 1, a Byzantine validator): the trace specification's Restart action is the replay of the inputs
    # logged since the last #ENDHEIGHT — the recovered node must be exactly where its never-stopped twin is and
    # must re-publish only what it had signed before
    import checks.C01 as c01
    c01.net_runs(c, ["4w-restart", "5w-restart", "5w-change-restart"] + (["4eq-restart", "4w-wait-restart"] if th else []), 30 if th else 3,
                 ("net:agreement", "net:panic"))
    c.extra["crash_points_compared_with_model"] = compared
    c.extra["model_crash_points"] = len(pts)
    c.traces += compared
    c.exhaustive = True
