"""C17 — the transaction pool only offers executable transactions and respects its limits.
specs/pool: TxPool.tla (mainchain/tx_pool as implemented, deviations from the statement behind Fix*
switches), MC_TxPool (exhaustive histories + per-transition dump), TxPoolTrace (traces of random real
runs).  harness/pool: TestReplay (MBT), TestRecord (TV producer)."""
import json, os
from vlib import Infra

FIX_OFF = dict(FixCapAfterDemote=False, FixReorgAfterRemove=False, FixReplaceFirst=False, FixMarkOnReplace=False,
               FixGapAfterReorg=False)
FIX_ON = dict(FixCapAfterDemote=True, FixReorgAfterRemove=True, FixReplaceFirst=True, FixMarkOnReplace=True,
              FixGapAfterReorg=True)

BASE = dict(
    Accts=2, AccountSlots=16, GlobalSlots=64, AccountQueue=64, GlobalQueue=64, PriceLimit=1, PriceBump=10,
    InitLocals=[], NoLocals=False, UseJournal=False, BlackAccts=[],
    MaxNonce=2, Prices=[20], Kinds=["s"], ExtraTx=[], ResetNonces=[0, 1, 2, 3], Bals=[5000000], GasLimits=[1000000],
    InitBal=5000000, InitGas=1000000, Floors=[1], Acts=["ar", "al", "rs"], Depth=4, MaxMine=2, Batches=[])


def V(tag, depth_q, depth_t, stride_q=1, stride_t=1, q=None, t=None, **kw):
    """One configuration; q / t override constants for the quick / thorough tier."""
    d = dict(BASE)
    d.update(kw)
    d.setdefault("fixed", False)
    d.setdefault("evpath", False)
    d.update(tag=tag, depth=(depth_q, depth_t), stride=(stride_q, stride_t), over=(q or {}, t or {}))
    return d


# One vector per group of mechanisms; constants are as tight as the mechanism allows so that the
# interesting branches are reached within the depth bound.
VECTORS = [
    # validation / replacement with the price bump / promotion / reset with nonce and balance changes
    V("core", 4, 5, 1, 2, Prices=[20, 22], AccountQueue=1, Bals=[0, 2100000, 5000000],
      q=dict(ExtraTx=[(1, 0, 21, "s"), (1, 1, 21, "s")]), t=dict(Prices=[20, 21, 22])),
    # slot limits: truncatePending / truncateQueue / per-account queue cap / pool-full branch, locals exempt
    V("limits", 5, 8, 1, 1, Accts=3, MaxNonce=2, Prices=[20], AccountSlots=1, GlobalSlots=2, AccountQueue=2, GlobalQueue=2,
      ResetNonces=[0, 1], Bals=[5000000]),
    # fairness loop of truncatePending: offenders with pending lists of different length are equalised first
    V("fair", 6, 8, 1, 1, MaxNonce=2, Prices=[20], AccountSlots=1, GlobalSlots=3, AccountQueue=3, GlobalQueue=3,
      Acts=["ar", "al"], t=dict(Acts=["ar", "al", "ab"])),
    # the same loop with senders of DIFFERENT pending counts (3 and 2) over six fixed transactions, then room is freed
    # (SetGasPrice drops the cheaper sender) and the cut sender submits again -- in particular at the nonce Nonce(addr)
    # reports: with GlobalSlots=4 the equalisation alone brings the pool back under the limit (its setIfLower is the only
    # thing that corrects the virtual nonce), with GlobalSlots=3 the second loop has to cut too.  TrackGhosts keeps the
    # histories that went through a cut apart from those that never held the cut transaction.
    V("equalize4", 7, 8, 1, 1, Prices=[], ExtraTx=[(1, 0, 20, "s"), (1, 1, 20, "s"), (1, 2, 20, "s"), (1, 3, 20, "s"), (2, 0, 10, "s"), (2, 1, 10, "s")],
      AccountSlots=1, GlobalSlots=4, AccountQueue=4, GlobalQueue=4, Floors=[1, 15], Acts=["ar", "gp"], TrackGhosts=True),
    V("equalize3", 7, 8, 1, 1, Prices=[], ExtraTx=[(1, 0, 20, "s"), (1, 1, 20, "s"), (1, 2, 20, "s"), (1, 3, 20, "s"), (2, 0, 10, "s"), (2, 1, 10, "s")],
      AccountSlots=1, GlobalSlots=3, AccountQueue=4, GlobalQueue=4, Floors=[1, 15], Acts=["ar", "gp"], TrackGhosts=True),
    # price floor, pool-full eviction by price, local exemption, sender becoming local
    V("price", 5, 8, 1, 1, MaxNonce=1, Prices=[10, 20, 30], AccountSlots=1, GlobalSlots=2, AccountQueue=2, GlobalQueue=1,
      Floors=[1, 15, 25], Acts=["ar", "al", "gp"], fixed=True),
    # every class of submission (value > 0, gas above the block limit, intrinsic gas, oversized payload, bad signature,
    # wrong chain id, blacklisted sender), block gas limit and balance changing at resets
    V("kinds", 4, 6, 1, 2, Accts=3, BlackAccts=[3], MaxNonce=1, Prices=[20], Kinds=["s", "v", "b"],
      ExtraTx=[(1, 0, 20, "h"), (1, 0, 20, "x"), (2, 1, 20, "c"), (3, 0, 20, "s"), (2, 0, 20, "g"), (1, 1, 20, "g")],
      ResetNonces=[0, 1], Bals=[2000000, 3000000], GasLimits=[150000, 1000000], AccountQueue=1,
      t=dict(Bals=[2000000, 3000000, 5000000])),
    # lifetime expiry and journal reload, with a price change in between
    V("journal", 4, 6, 1, 4, MaxNonce=1, Prices=[20, 30], UseJournal=True, AccountQueue=1, ResetNonces=[0, 1], Bals=[2500000, 5000000],
      Floors=[1, 25], Acts=["ar", "al", "rs", "gp", "ex", "rst"], fixed=True),
    # two-slot transactions in a pool of 4 slots
    V("wide", 5, 8, 1, 1, MaxNonce=1, Prices=[10, 20], Kinds=["s", "w"], AccountSlots=1, GlobalSlots=2, AccountQueue=2, GlobalQueue=2,
      InitBal=50000000, Bals=[50000000], ResetNonces=[0, 1], Acts=["ar", "al", "rs"]),
    # configured locals / NoLocals
    V("cfglocals", 6, 8, 1, 1, InitLocals=[2], MaxNonce=1, Prices=[10, 20], AccountSlots=1, GlobalSlots=1, AccountQueue=1, GlobalQueue=1,
      Floors=[1, 15], Acts=["ar", "al", "gp", "ex"]),
    V("nolocals", 6, 8, 1, 1, NoLocals=True, MaxNonce=1, Prices=[10, 20], AccountSlots=1, GlobalSlots=1, AccountQueue=1, GlobalQueue=1,
      Floors=[1, 15], Acts=["ar", "al", "gp", "ex"]),
    # asynchronous submissions: the critical section and the promotion run as separate steps, interleaved with
    # further submissions, price changes and head events
    V("async", 5, 7, 1, 1, MaxNonce=1, Prices=[10, 20], AccountSlots=1, GlobalSlots=2, AccountQueue=1, GlobalQueue=1,
      ResetNonces=[0, 1], Bals=[1500000, 5000000], Floors=[1, 15], Acts=["xr", "xl", "pr", "rs", "gp"], fixed=True,
      q=dict(Bals=[1500000], Floors=[15])),
    # blocks that contain what the pool offered, and reorganisations of depth one (reinjection), all through the
    # ChainHeadEvent feed
    V("reorg", 6, 7, 1, 1, MaxNonce=2, Prices=[20, 22], AccountSlots=1, GlobalSlots=2, AccountQueue=1, GlobalQueue=1,
      ResetNonces=[0, 1], Bals=[2100000, 5000000], Acts=["ar", "al", "rs", "mn", "ro"], evpath=True,
      q=dict(Prices=[20], Acts=["ar", "rs", "mn", "ro"], Bals=[2100000], ResetNonces=[0]), fixed=True),
    # a transaction that was dropped at a head event and is submitted again, then a two-slot submission into the full
    # pool (depth 8 over five fixed transactions): the eviction must free two slots
    V("heapdup", 8, 9, 1, 1, Accts=4, Prices=[], ExtraTx=[(1, 0, 10, "s"), (2, 0, 20, "s"), (2, 1, 20, "s"), (3, 0, 20, "s"), (4, 0, 30, "w")],
      AccountSlots=2, GlobalSlots=2, AccountQueue=2, GlobalQueue=2, InitBal=60000000, ResetAccts=[1], ResetNonces=[0], Bals=[0, 60000000],
      Acts=["ar", "rs"], TrackGhosts=True),
    # whole batches through AddRemotesSync / AddLocals: runs of pre-filtered elements (pooled duplicates, bad signatures)
    # in front of and between new ones (unaffordable, valid); the per-slot outcome vector and the pool are compared
    V("batchvec", 3, 4, 1, 1, Prices=[], InitBal=2500000, Bals=[2500000],
      ExtraTx=[(1, 0, 20, "s"), (1, 1, 20, "s"), (2, 0, 20, "s")],
      Batches=[[(1, 0, 20, "s"), (1, 1, 20, "s"), (2, 0, 20, "v"), (2, 0, 20, "s")],
               [(1, 0, 20, "x"), (2, 0, 20, "x"), (2, 0, 20, "v"), (1, 2, 20, "s")],
               [(1, 0, 20, "s"), (1, 0, 20, "x"), (2, 0, 20, "v"), (1, 1, 20, "s")],
               [(1, 0, 20, "s"), (1, 1, 20, "s"), (1, 2, 20, "s")],
               [(1, 0, 20, "s"), (2, 0, 20, "s"), (1, 1, 20, "s")],
               [(1, 0, 20, "s"), (1, 1, 20, "s"), (1, 0, 20, "x"), (2, 1, 20, "s"), (2, 0, 20, "v")]],
      Acts=["ar", "bb", "bl"]),
    # batches of two (AddRemotesSync as the reactor calls it), tight limits
    V("batch", 3, 5, 1, 1, MaxNonce=1, Prices=[10, 20], AccountSlots=1, GlobalSlots=1, AccountQueue=1, GlobalQueue=1,
      ResetNonces=[0, 1], Bals=[1500000, 5000000], Acts=["ab", "al", "rs"]),
]


def R(tag, traces_q, traces_t, steps, rec, **kw):
    d = dict(BASE)
    d.update(kw)
    d.update(tag=tag, traces=(traces_q, traces_t), steps=steps, rec=rec)
    return d


ALLOPS = ["ar"] * 6 + ["al"] * 2 + ["ab"] * 2 + ["xr"] * 2 + ["xl", "pr", "pr"] + ["rs"] * 3 + ["gp", "ex"]
# Random real runs validated by TLC: larger universes and much longer histories than the exhaustive graphs reach.
RECORDS = [
    R("rnd-tight", 400, 4000, 60, dict(max_nonce=4, prices=[10, 20, 21, 22, 30], kinds=["s", "s", "s", "v", "b", "w", "g", "x"],
                                        bals=[1500000, 3000000, 60000000], gas_limits=[150000, 1000000], floors=[1, 15, 25], ops=ALLOPS),
      Accts=4, AccountSlots=2, GlobalSlots=4, AccountQueue=2, GlobalQueue=3, InitBal=60000000),
    R("rnd-journal", 300, 2400, 40, dict(max_nonce=3, prices=[10, 20, 30], kinds=["s", "s", "v"],
                                          bals=[1500000, 60000000], gas_limits=[1000000], floors=[1, 15], ops=ALLOPS + ["rst", "rst", "al"]),
      Accts=3, UseJournal=True, InitLocals=[3], AccountSlots=2, GlobalSlots=3, AccountQueue=2, GlobalQueue=2, InitBal=60000000),
    R("rnd-roomy", 300, 2400, 80, dict(max_nonce=7, prices=[10, 11, 12, 20], kinds=["s"],
                                        bals=[800000, 2500000, 60000000], gas_limits=[1000000], floors=[1, 11], ops=ALLOPS),
      Accts=5, BlackAccts=[5], AccountSlots=3, GlobalSlots=8, AccountQueue=3, GlobalQueue=6, InitBal=60000000),
]


def trace_cfg(v):
    cfg = ["SPECIFICATION Spec", "CONSTANTS", "  Accts = %s" % tla_set(range(1, v["Accts"] + 1))]
    for k in ("AccountSlots", "GlobalSlots", "AccountQueue", "GlobalQueue", "PriceLimit", "PriceBump", "InitBal", "InitGas"):
        cfg.append("  %s = %d" % (k, v[k]))
    for k in ("InitLocals", "BlackAccts"):
        cfg.append("  %s = %s" % (k, tla_set(v[k])))
    for k in ("NoLocals", "UseJournal"):
        cfg.append("  %s = %s" % (k, tla_bool(v[k])))
    for k, b in FIX_OFF.items():
        cfg.append("  %s = %s" % (k, tla_bool(b)))
    cfg += ["INVARIANT TraceInv", "INVARIANT Stuck", "POSTCONDITION Accepted"]
    return "\n".join(cfg) + "\n"


def tla_set(xs):
    def one(x):
        if isinstance(x, str):
            return '"%s"' % x
        if isinstance(x, (list, tuple)):
            return "<<" + ", ".join(one(y) for y in x) + ">>"
        return str(x)
    return "{" + ", ".join(one(x) for x in xs) + "}"


def tla_bool(b):
    return "TRUE" if b else "FALSE"


def mc_files(v, depth, fix, invariants, dump=True):
    name = "MCgen"
    mod = "---- MODULE %s ----\nEXTENDS MC_TxPool\nExtraTxV == %s\nBatchesV == %s\n====\n" % (
        name, tla_set(v["ExtraTx"]), tla_set(v["Batches"]))
    cfg = ["SPECIFICATION Spec", "CONSTANTS",
           "  Accts = %s" % tla_set(range(1, v["Accts"] + 1))]
    for k in ("AccountSlots", "GlobalSlots", "AccountQueue", "GlobalQueue", "PriceLimit", "PriceBump", "MaxNonce",
              "InitBal", "InitGas", "MaxMine"):
        cfg.append("  %s = %d" % (k, v[k]))
    for k in ("InitLocals", "BlackAccts", "Prices", "Kinds", "ResetNonces", "Bals", "GasLimits", "Floors", "Acts"):
        cfg.append("  %s = %s" % (k, tla_set(v[k])))
    cfg.append("  ResetAccts = %s" % tla_set(v.get("ResetAccts") or [a for a in range(1, v["Accts"] + 1) if a not in v["BlackAccts"]]))
    for k in ("NoLocals", "UseJournal"):
        cfg.append("  %s = %s" % (k, tla_bool(v[k])))
    cfg.append("  TrackGhosts = %s" % tla_bool(v.get("TrackGhosts", False)))
    for k, b in fix.items():
        cfg.append("  %s = %s" % (k, tla_bool(b)))
    cfg.append("  ExtraTx <- ExtraTxV")
    cfg.append("  Batches <- BatchesV")
    cfg.append("  Depth = %d" % depth)
    cfg.append("VIEW View")
    for i in invariants:
        cfg.append("INVARIANT %s" % i)
    cfg.append("PROPERTY StepProp")
    if dump:
        cfg.append("ACTION_CONSTRAINT Dump")
    return name, {name + ".tla": mod, name + ".cfg": "\n".join(cfg) + "\n"}


def go_cfg(v):
    return json.dumps(dict(accts=v["Accts"], account_slots=v["AccountSlots"], global_slots=v["GlobalSlots"],
                           account_queue=v["AccountQueue"], global_queue=v["GlobalQueue"], price_limit=v["PriceLimit"],
                           price_bump=v["PriceBump"], init_locals=v["InitLocals"], no_locals=v["NoLocals"],
                           use_journal=v["UseJournal"], black_accts=v["BlackAccts"], init_bal=v["InitBal"],
                           init_gas=v["InitGas"], tag=v["tag"]))


def run(c):
    th = c.tier == "thorough"
    only = os.environ.get("C17_ONLY")
    c.rule = ("every transition of the reachable graphs of MC_TxPool (one configuration per group of mechanisms: "
              "submissions of every class, replacement, promotion, head resets with arbitrary nonce/balance/gas-limit changes, "
              "truncation, pool-full eviction, SetGasPrice, expiry, journal reload, split asynchronous submissions) is replayed "
              "from a fresh real TxPool; result class, Content, Nonce, Locals, GasPrice, lookup flags, journal file are compared "
              "with the set of outcomes the specification allows, and the clauses of the statement are evaluated on the real pool "
              "against the stub chain after every operation; non-trivial = the last operation is not a plain accepted submission")
    c.assumptions = [
        "secp256k1 / keccak are sound; a transaction is identified with its (sender, nonce, price, kind) tuple",
        "IdealHeap: the price heap is modelled as the set of remote-flagged pooled transactions (stale entries are skipped lazily by the code)",
        "NoBeats: heartbeat times are not modelled; which silent account expires and the order of truncateQueue are left open",
        "the synchronous entry points (AddRemotesSync, AddLocal, VerifReset) and the two critical sections (addTxsLocked, runReorg) are "
        "driven one at a time; the merging of requests inside scheduleReorgLoop is mirrored by the driver, not exercised concurrently",
    ]
    import threading
    vectors = [v for v in VECTORS if not only or v["tag"] in only.split(",")]
    c.rule += ("; plus seeded random operation sequences on the real pool (4-5 accounts, 40-80 operations each) whose every "
               "step must be explained by the specification (TLC trace validation) and on which the clauses are evaluated too")
    pending = []          # the Go replay of the previous vector runs while TLC works on the next one

    def finish():
        while pending:
            th_, box, dump = pending.pop()
            th_.join()
            if os.path.exists(dump):
                os.remove(dump)
            if "exc" in box:
                raise box["exc"]
            c.absorb(box["r"])

    def replay(v, dump, stride, box):
        try:
            box["r"] = c.gotest("pool", "TestReplay", env=dict(POOL_DUMP=dump, POOL_CFG=go_cfg(v), POOL_STRIDE=stride,
                                                               POOL_EVICT=1 if "ex" in v["Acts"] else 0,
                                                               POOL_EVPATH=1 if v["evpath"] else 0),
                                timeout=3000, tag="replay %s" % v["tag"])
        except Exception as e:      # re-raised in the main thread
            box["exc"] = e

    try:
        for v0 in vectors:
            v = dict(v0)
            v.update(v0["over"][1 if th else 0])
            depth = v["depth"][1 if th else 0]
            stride = v["stride"][1 if th else 0]
            name, files = mc_files(v, depth, FIX_OFF, ["Inv"])
            dump = os.path.join(c.scratch, "pool-%s.dump" % v["tag"])
            r = c.tlc("pool", name + ".cfg", module=name, files=files, dump_to=dump, timeout=3000,
                      tag="MC_TxPool %s depth=%d" % (v["tag"], depth))
            if r.violated:
                raise Infra("specification invariant %s violated in MC_TxPool %s\n%s" % (r.violated, v["tag"], c.tlc_tail(r)))
            if not r.ok:
                raise Infra("TLC failed on MC_TxPool %s: %s\n%s" % (v["tag"], r.error, c.tlc_tail(r)))
            finish()
            box = {}
            t = threading.Thread(target=replay, args=(v, dump, stride, box))
            t.start()
            pending.append((t, box, dump))
            if v["fixed"] and (th or v["tag"] == "reorg"):
                # the same graph with the Fix* switches on: the strict reading of the statement must hold there
                # (the repaired design; thorough tier, and the small reorg graph in the quick tier)
                name, files = mc_files(v, depth, FIX_ON, ["Inv", "StrictInv"], dump=False)
                r = c.tlc("pool", name + ".cfg", module=name, files=files, timeout=3000,
                          tag="MC_TxPool %s depth=%d Fix* on, StrictInv" % (v["tag"], depth))
                if r.violated or not r.ok:
                    raise Infra("the repaired model of %s does not satisfy the strict invariants: %s %s\n%s" %
                                (v["tag"], r.violated, r.error, c.tlc_tail(r)))
    finally:
        finish()
    # ---- TV: seeded random runs of the real pool, validated against TxPoolTrace
    import re
    CHUNK = 400        # traces per TLC run (one JVM validates them all; the file stays small)
    for v in RECORDS:
        if only and v["tag"] not in only.split(","):
            continue
        total = v["traces"][1 if th else 0]
        for off in range(0, total, CHUNK):
            rec = dict(v["rec"])
            rec.update(traces=min(CHUNK, total - off), steps=v["steps"], offset=off)
            trace = os.path.join(c.scratch, "trace-%s.ndjson" % v["tag"])
            g = c.gotest("pool", "TestRecord", env=dict(POOL_TRACE=trace, POOL_CFG=go_cfg(v), POOL_REC=json.dumps(rec)),
                         timeout=3000, tag="record %s +%d" % (v["tag"], off))
            nbeh = int(g.get("behaviours", 0))
            g["behaviours"] = 0           # traces count as validated only once TLC has accepted them
            c.absorb(g)
            r = c.tlc("pool", "TxPoolTrace.cfg", module="TxPoolTrace",
                      files={"TxPoolTrace.cfg": trace_cfg(v), "trace.ndjson": trace},
                      workers=1, timeout=3000, tag="TxPoolTrace %s +%d" % (v["tag"], off))
            out = open(r.out, errors="replace").read()
            m = re.search(r'"REJECTED", (\d+), (\d+)', out)
            if r.violated:
                raise Infra("specification invariant %s violated on a state of an explained real trace (%s)\n%s" %
                            (r.violated, v["tag"], c.tlc_tail(r)))
            if m:
                # the specification cannot explain line k+1 of the trace: a disagreement between model and code
                k, n = int(m.group(1)), int(m.group(2))
                lines = open(trace).read().splitlines()
                bad = json.loads(lines[k]) if k < len(lines) else {}
                start = k
                while start > 0 and json.loads(lines[start]).get("op") != "new":
                    start -= 1
                hist = [json.loads(x) for x in lines[start:k + 1]]
                allowed = [x for x in re.findall(r'<<"STUCK", (\d+), (.*?)>>\n', out, re.S) if int(x[0]) == k + 1]
                allowed = " ".join(allowed[-1][1].split()) if allowed else "?"
                # known deviation from the ideal price heap: a transaction that had left the pool and was accepted again
                # is evicted by the unexplained operation (its stale heap entry counted twice)
                cause, last, gone, readded = "", set(), set(), set()
                for ev in hist[:-1]:
                    cur = set(tuple(x) for x in ev["p"] + ev["q"])
                    readded |= {x for x in cur if x in gone and x not in last}
                    gone |= last - cur
                    last = cur
                curk = set(tuple(x) for x in bad.get("p", []) + bad.get("q", []))
                if any(x in readded for x in last - curk) and bad.get("op") in ("ar", "al", "ab", "xr", "xl"):
                    cause = ":resurrected-heap-entry"
                c.report("pool:trace:%s%s" % (bad.get("op", "?"), cause),
                         "[%s] random real run: the specification cannot explain operation %s (result %s) -> pending %s queued %s "
                         "locals %s (line %d of the trace, %d operations into its run); the specification allows %s" %
                         (v["tag"], {x: bad.get(x) for x in ("op", "t", "u", "a", "n", "b", "g", "f", "S") if x in bad},
                          bad.get("res"), bad.get("p"), bad.get("q"), bad.get("l"), k + 1, k - start, allowed[:1500]),
                         dict(config=json.loads(go_cfg(v)), seed=c.seed, run=hist))
            elif not r.ok:
                raise Infra("TLC failed on TxPoolTrace %s: %s\n%s" % (v["tag"], r.error, c.tlc_tail(r)))
            else:
                c.traces += nbeh
            os.remove(trace)
    c.exhaustive = True
