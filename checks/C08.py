"""C08 — state changes are atomic: revert restores exactly; the root depends on content only.

specs/statedb
  StateDB.tla       kai/state: StateDB, journal, state objects, access list, transient storage, logs, refund,
                    Finalise / IntermediateRoot / Commit / Copy / state.New, the StorageTrie accessor
  SnapLayers.tla    kai/state/snapshot: disk layer + diff layers, reads, flatten, diffToDisk, Update / Cap
  MC_StateDB.tla    model: complete graphs of one-account universes, all histories to a bound for larger ones,
                    scripted multi-block prefixes + exhaustive suffix, simulation walks; per-transition dump
  StateDBTrace.tla  trace validator for runs recorded from the real code
harness/statedb
  TestReplay        MBT: replays every dumped behaviour into the real StateDB, in four snapshot-tree modes
                    (none / diff layers / flattened / disk layer), two value encodings, with reverted detours
  TestRecord        TV: seeded block-structured random runs of the real code -> ndjson -> TLC

Genuine finding on the unchanged tree (reported under signatures statedb:after-StorageTrie:...):
StateDB.StorageTrie (the accessor behind the GetProof API) flushes a COPY of the object, but the copy's
updateTrie writes the copy's dirty / pending slots into the snapshot cache (snapStorage) of the real StateDB.
If those slots are reverted or overwritten with the old value afterwards, the diff layer handed to the snapshot
tree at Commit carries values that were never committed: the trie and the snapshot layers disagree."""
import os
from vlib import Infra

ALL_OPS = ["ab", "sb", "bal", "non", "code", "st", "sui", "cre", "rf+", "rf-", "log", "pre", "tx", "ala", "als", "ts", "rd",
           "snap", "rev", "fin", "ir", "com", "open", "copy", "swap"]

DEFAULTS = dict(NA=1, NS=1, MaxBal=1, Ops=[], Amts=[0, 1], Nonces=[1], CodeIds=[1], Vals=[0, 1], Dels=[1],
                MaxRefund=2, MaxLogs=2, MaxSnaps=1, MaxTx=1, MaxCopies=1, MaxLayers=1, Depth=0, Sim=False, Prefixes=[[]])


def tla_set(xs):
    return "{" + ", ".join('"%s"' % x if isinstance(x, str) else str(x) for x in xs) + "}"


def tla_act(a):
    a = list(a) + [0] * (4 - len(a))
    return '<<"%s", %d, %d, %d>>' % tuple(a)


def gen_files(v):
    """MCgen.tla (tuple-valued constants) + MCgen.cfg for one vector."""
    p = dict(DEFAULTS)
    p.update(v)
    prefixes = "{" + ", ".join("<<" + ", ".join(tla_act(a) for a in pre) + ">>" for pre in p["Prefixes"]) + "}"
    tla = "---- MODULE MCgen ----\nEXTENDS MC_StateDB\nPrefixesV == %s\n====\n" % prefixes
    cfg = ["SPECIFICATION Spec", "CONSTANTS"]
    for k in ("NA", "NS", "MaxBal", "MaxRefund", "MaxLogs", "MaxSnaps", "MaxTx", "MaxCopies", "MaxLayers", "Depth"):
        cfg.append("  %s = %d" % (k, p[k]))
    for k in ("Ops", "Amts", "Nonces", "CodeIds", "Vals", "Dels"):
        cfg.append("  %s = %s" % (k, tla_set(p[k])))
    cfg.append("  Sim = %s" % ("TRUE" if p["Sim"] else "FALSE"))
    cfg.append("  Prefixes <- PrefixesV")
    cfg += ["VIEW View", "INVARIANT Inv"]
    if not p["Sim"]:
        if p.get("check_eff", True):
            cfg.append("INVARIANT RevertedLeaveNoTrace")
        cfg += ["PROPERTY CopyIndependent", "PROPERTY CommitOnly", "PROPERTY RootIsLiveContent", "PROPERTY NoTouchedEmpty",
                "ACTION_CONSTRAINT Dump"]
    return {"MCgen.tla": tla, "MCgen.cfg": "\n".join(cfg) + "\n"}


# ---- scripted prefixes: situations that need many steps from the empty state ---------------------------------
# committed base: account 1 with nonce and one slot; then a fresh StateDB at that root
BASE1 = [("st", 1, 1, 1), ("non", 1, 1), ("com", 1), ("open",)]
BASE2 = [("st", 1, 1, 1), ("st", 1, 2, 2), ("non", 1, 1), ("ab", 1, 1), ("com", 1), ("open",)]
PREFIXES_1SLOT = [
    [],
    BASE1,
    BASE1 + [("sui", 1), ("fin", 1)],                                    # destructed earlier in the block
    BASE1 + [("sui", 1), ("fin", 1), ("non", 1, 1), ("fin", 1)],         # ... and recreated
    BASE1 + [("sui", 1), ("fin", 1), ("st", 1, 1, 0), ("ir", 1)],        # ... recreated, intermediate root taken
    BASE1 + [("st", 1, 1, 0), ("fin", 1)],                               # slot cleared in an earlier transaction
    BASE1 + [("cre", 1), ("fin", 0)],                                    # create-over-existing earlier in the block
    BASE1 + [("st", 1, 1, 0), ("ir", 1)],
    BASE1 + [("st", 1, 1, 0), ("ir", 1), ("sui", 1), ("fin", 1)],        # destructed after its storage was flushed mid-block
    [("non", 1, 1), ("st", 1, 1, 1), ("ir", 1), ("sui", 1), ("fin", 1)],  # born, flushed and destructed in one block
    [("non", 1, 1), ("st", 1, 1, 1), ("ir", 1), ("sui", 1), ("fin", 1), ("com", 1), ("open",)],
    BASE1 + [("sui", 1), ("com", 1), ("open",)],                         # destructed in the previous block
]
PREFIXES_2SLOT = [
    BASE2,
    BASE2 + [("sui", 1), ("fin", 1), ("non", 1, 1), ("st", 1, 2, 1), ("fin", 1)],
    BASE2 + [("st", 1, 1, 2), ("fin", 1), ("st", 1, 2, 0), ("ir", 1)],
    BASE2 + [("sui", 1), ("com", 1), ("open",), ("st", 1, 2, 2), ("fin", 1)],      # destructed in the previous block
    BASE2 + [("copy",), ("sui", 1), ("com", 1), ("swap",)],                      # the copy committed a destruct
]

CORE = ["ab", "sb", "non", "code", "st", "sui", "cre", "rf+", "snap", "rev", "fin"]


def vectors(thorough):
    """(tag, constants, replay environment).  Sizes measured on the unchanged tree are in the comments
    (distinct states / transitions)."""
    LIFE = ["non", "st", "sui", "cre", "snap", "rev", "fin", "ir", "com", "open"]
    COPY = ["st", "ab", "sui", "rd", "snap", "rev", "fin", "ir", "com", "open", "copy", "swap"]
    PRE1 = ["ab", "non", "st", "sui", "cre", "rd", "snap", "rev", "fin", "ir", "com", "open"]
    STT = ["ab", "st", "stt", "snap", "rev", "fin", "ir", "com", "open"]
    AUX = ["log", "pre", "tx", "ala", "als", "ts", "rf+", "rf-", "snap", "rev", "fin", "copy", "swap"]
    core2 = dict(NA=2, NS=1, MaxBal=2, Ops=CORE, Amts=[0, 1], Nonces=[0, 1], Vals=[0, 1], Dels=[0, 1], MaxSnaps=2)
    if not thorough:
        return [
            # two accounts, in-block semantics, every history up to 5 actions                      28.6k / 112k
            ("core2-d5", dict(core2, Depth=5), {}),
            # COMPLETE graph: one account, storage life cycle over blocks and transactions, with the snapshot
            # layers it leaves behind (no in-transaction reverts)                                  4.8k / 43k
            ("blocks1-full", dict(Ops=[o for o in LIFE if o not in ("snap", "rev")], MaxBal=0), dict(SDB_MODES="pair")),
            # the same with snapshots / reverts, histories up to 9 actions                         7.9k / 48k
            ("life1-d9", dict(Ops=LIFE, MaxBal=0, Depth=9), dict(SDB_MODES="pair")),
            # COMPLETE graph: balance / emptiness / touch / deletion of empty accounts            3.8k / 42k
            ("bal1-full", dict(Ops=["ab", "sb", "sui", "cre", "snap", "rev", "fin", "com", "open"], Dels=[0, 1]),
             dict(SDB_MODES="pair")),
            # COMPLETE graph: code                                                                 5.8k / 46k
            ("code1-full", dict(Ops=["code", "sui", "cre", "snap", "rev", "fin", "com", "open"], CodeIds=[1, 2], MaxBal=0), {}),
            # logs, refund, preimages, access list, transient storage, tx context, snapshots, copies  39k / 92k
            ("aux1-d6", dict(Ops=AUX, MaxSnaps=2, Depth=6), {}),
            # Copy in every situation, continuing on both sides                                    12.9k / 36k
            ("copy1-d6", dict(Ops=COPY, Depth=6), dict(SDB_MODES="pair")),
            # scripted situations + every continuation of 4 (3) actions                            2.7k / 11k, 3.0k / 7k
            ("pre1-d4", dict(Ops=PRE1, Depth=4, Prefixes=PREFIXES_1SLOT), dict(SDB_MODES="all")),
            ("pre2-d3", dict(NS=2, Ops=PRE1 + ["copy", "swap"], Vals=[0, 1, 2], Depth=3, Prefixes=PREFIXES_2SLOT, MaxSnaps=2),
             dict(SDB_MODES="all")),
            # the StorageTrie accessor (GetProof API) in the middle of transactions: a getter must not change anything
            ("stt1-d5", dict(Ops=STT, Amts=[1], Depth=5, Prefixes=[BASE1]), dict(SDB_MODES="all")),
        ]
    return [
        ("core2-d6", dict(core2, Depth=6), {}),                                                  # ~120k / 500k
        ("life1-full", dict(Ops=LIFE + ["rd"], MaxBal=0), dict(SDB_MODES="pair")),                # 107k / 1.12M
        ("bal1-full", dict(Ops=["ab", "sb", "sui", "cre", "rd", "snap", "rev", "fin", "com", "open"], Dels=[0, 1]),
         dict(SDB_MODES="all")),                                                                  # 7.6k / 88k
        ("code1-full", dict(Ops=["code", "sui", "cre", "rd", "snap", "rev", "fin", "com", "open"], CodeIds=[0, 1, 2], MaxBal=0),
         dict(SDB_MODES="pair")),
        ("two2-d8", dict(NA=2, Ops=[o for o in LIFE if o not in ("snap", "rev")], MaxBal=0, Depth=8), dict(SDB_MODES="pair")),  # 51k / 286k
        ("aux1-d7", dict(Ops=AUX, MaxSnaps=2, Depth=7), {}),                                      # 153k / 378k
        ("copy1-d8", dict(Ops=COPY, Depth=8), dict(SDB_MODES="pair")),                            # 168k / 575k
        ("pre1-d5", dict(Ops=PRE1, Depth=5, Prefixes=PREFIXES_1SLOT), dict(SDB_MODES="all")),
        ("pre2-d4", dict(NS=2, Ops=PRE1 + ["copy", "swap"], Vals=[0, 1, 2], Depth=4, Prefixes=PREFIXES_2SLOT, MaxSnaps=2),
         dict(SDB_MODES="all")),
        ("stt1-d7", dict(Ops=STT, Amts=[1], Depth=7, Prefixes=[[], BASE1]), dict(SDB_MODES="all")),
    ]


def sim_vectors(thorough):
    full = dict(NA=2, NS=2, MaxBal=2, Ops=ALL_OPS, Amts=[0, 1], Nonces=[0, 1], CodeIds=[0, 1, 2], Vals=[0, 1, 2], Dels=[0, 1],
                MaxRefund=2, MaxLogs=3, MaxSnaps=3, MaxTx=2, MaxCopies=1, Depth=40, Sim=True)
    one = dict(full, NA=1, Ops=[o for o in ALL_OPS if o not in ("log", "pre", "tx", "ala", "als", "ts", "rf+", "rf-", "bal")])
    three = dict(full, NA=3, NS=1)
    # (tag, constants, depth, walks per TLC worker)
    if not thorough:
        return [("sim-all", full, 40, 25), ("sim-one", one, 40, 25)]
    return [("sim-all", full, 40, 150), ("sim-one", one, 40, 150), ("sim-three", three, 40, 60)]


def trace_validation(c, tag, na, ns, traces, length):
    """TV: record seeded random real runs, validate them against StateDBTrace with TLC."""
    import json
    trace = os.path.join(c.scratch, "sdb-%s.ndjson" % tag)
    g = c.gotest("statedb", "TestRecord", env=dict(SDB_TRACE=trace, SDB_NA=na, SDB_NS=ns, SDB_TRACES=traces, SDB_LEN=length),
                 timeout=3000, tag="record " + tag)
    for m in (g.get("mismatches") or []):               # panics of the real code while recording
        c.report(m.get("sig", "unspecified"), m.get("text", ""), m.get("detail"))
    if not os.path.exists(trace):
        raise Infra("recorder wrote no trace for %s" % tag)
    cfg = ("SPECIFICATION Spec\nCONSTANTS\n  NA = %d\n  NS = %d\n  MaxBal = 3\n  MaxLayers = 2\nINVARIANT Inv\nPOSTCONDITION AllConsumed\n" % (na, ns))
    r = c.tlc("statedb", "Trace.cfg", module="StateDBTrace", files={"trace.ndjson": trace, "Trace.cfg": cfg}, workers=1,
              timeout=3000, tag=tag)
    if r.violated:
        raise Infra("specification invariant %s violated on a recorded trace (%s)\n%s" % (r.violated, tag, c.tlc_tail(r)))
    if not r.ok:
        raise Infra("TLC could not validate the recorded traces of %s: %s\n%s" % (tag, r.error, c.tlc_tail(r)))
    lines = open(trace).read().splitlines()
    bad = 0
    with open(r.out, errors="replace") as f:
        for ln in f:
            if not ln.startswith('"'):
                continue
            try:
                ev = json.loads(json.loads(ln))
            except Exception:
                continue
            if ev.get("tv") != "unexplained":
                continue
            bad += 1
            n = ev["line"]                      # 1-based line of the unexplained event
            start = n - 1
            while start > 0 and json.loads(lines[start])["a"][0] != "reset":
                start -= 1
            hist = " ".join("%s(%s)" % (a[0], ",".join(map(str, a[1:]))) for a in
                            (json.loads(x)["a"] for x in lines[start + 1:n]))
            what = sorted(ev["what"])
            first = what[0].split("(")[0]
            c.report("statedb:tv:%s:%s" % (first, ev["op"]),
                     "real run not explained by the specification at its last step: [%s]; differing: %s; recorded event: %s" %
                     (hist, ", ".join(what), lines[n - 1][:600]),
                     dict(history=hist, differing=what, event=json.loads(lines[n - 1]), reset=json.loads(lines[start]), seed=c.seed,
                          universe=[na, ns]))
    c.traces += traces - bad
    c.evaluations += len(lines) - traces
    c.extra["tv_events_" + tag] = len(lines) - traces
    os.remove(trace)


def run(c):
    th = c.tier == "thorough"
    c.rule = ("MBT: every transition of the reachable graph of MC_StateDB for each vector (complete graphs of one-account universes; "
              "graphs of all states reachable within a depth bound for larger ones; every continuation of scripted multi-block / "
              "multi-transaction prefixes) and every step of seeded random walks of 40 actions is replayed from a fresh real StateDB "
              "in one or more of four modes (no snapshot tree / diff layers / flattened / disk layer), two value encodings, a third "
              "of them with an inserted reverted detour; compared: the result of every step, all getters of the current and of the "
              "parked (Copy) StateDB, the committed root read back through fresh StateDBs (trie and snapshot path), the "
              "content<->root table and the fresh-state root.  TV: seeded block-structured random runs of the real code (up to 4 "
              "accounts x 2 slots, 60-80 calls) must be explained call by call by the specification.  distinct_nontrivial counts "
              "distinct MBT histories that contain a revert, finalise, intermediate root, commit, reopen, copy, self-destruct or "
              "create-over-existing")
    c.assumptions = ["TLC and the Go driver's mapping between abstract and real values are trusted",
                     "keccak256 is collision free on the explored contents (root <-> content bijection)",
                     "kaidb/memorydb behaves like the production key-value store",
                     "address 0x03 (RIPEMD precompile touch exception), negative balances, SubRefund below zero, "
                     "RevertToSnapshot of an unknown id, SetStorage and database read errors are outside the model",
                     "balances, nonces and storage values are explored as small integers and replayed in two encodings "
                     "(single byte / multi byte)",
                     "snapshot.Tree.Cap is not asked to flatten once a state root has repeated among the layers of a run "
                     "(its removal of stale layers recurses forever on a root cycle A->B->A: fatal stack overflow; roots "
                     "cannot repeat on a chain because nonces only grow)",
                     "one StateDB is driven by one goroutine (no concurrent use, no trie prefetcher)"]
    workers = min(16, os.cpu_count() or 4)
    sums = {}

    def absorb(g):
        c.absorb(g)
        for k, v in (g.get("extra") or {}).items():       # counters are per driver process: add them up
            if isinstance(v, int) and not k.startswith(("replayed_", "steps_", "observations_", "root_table")):
                sums[k] = sums.get(k, 0) + v
                c.extra[k] = sums[k]
            elif k == "mismatch_counts" and isinstance(v, dict):
                mc = sums.setdefault(k, {})
                for sig, n in v.items():
                    mc[sig] = mc.get(sig, 0) + n
                c.extra[k] = dict(mc)

    # TV first (code -> specification): larger universes, long histories
    if th:
        for k, (na, ns) in enumerate([(3, 2), (2, 2), (4, 1), (1, 2)]):
            trace_validation(c, "tv%d-%dx%d" % (k, na, ns), na, ns, 800, 80)
    else:
        trace_validation(c, "tv-3x2", 3, 2, 300, 60)

    # TLC runs (producer thread, one at a time) are overlapped with the replays (this thread, one at a time)
    import threading, queue
    jobs = [(tag, consts, env, None, None) for tag, consts, env in vectors(th)] + \
           [(tag, consts, {}, depth, num) for tag, consts, depth, num in sim_vectors(th)]
    q = queue.Queue(maxsize=2)

    def produce():
        for tag, consts, env, depth, num in jobs:
            dump = os.path.join(c.scratch, "sdb-%s.dump" % tag)
            try:
                if depth is None:
                    r = c.tlc("statedb", "MCgen.cfg", module="MCgen", files=gen_files(consts), dump_to=dump, timeout=6000, tag=tag)
                else:
                    # -simulate num is per worker
                    r = c.tlc("statedb", "MCgen.cfg", module="MCgen", files=gen_files(consts), dump_to=dump, timeout=6000, tag=tag,
                              simulate="num=%d" % num, depth=depth + 3, workers=workers)
                q.put((tag, env, dump, r, None))
            except Exception as e:   # noqa
                q.put((tag, env, dump, None, e))
                return
        q.put(None)

    th_prod = threading.Thread(target=produce, daemon=True)
    th_prod.start()
    while True:
        item = q.get()
        if item is None:
            break
        tag, env, dump, r, exc = item
        if exc is not None:
            raise Infra("TLC run for vector %s could not be started: %r" % (tag, exc))
        if r.violated:
            raise Infra("specification invariant %s violated in vector %s\n%s" % (r.violated, tag, c.tlc_tail(r)))
        if not r.ok:
            raise Infra("TLC failed on vector %s: %s\n%s" % (tag, r.error, c.tlc_tail(r)))
        e = dict(SDB_DUMP=dump, SDB_TAG=tag)
        e.update(env)
        g = c.gotest("statedb", "TestReplay", env=e, timeout=6000, tag="replay " + tag)
        absorb(g)
        os.remove(dump)
    # the BFS vectors are complete (whole graph, or every history to the stated bound); the simulation walks and the
    # recorded traces are samples beyond them, so the run as a whole is not an exhaustive enumeration
    c.exhaustive = False
    c.extra["complete_bfs_vectors"] = [r["tag"] for r in c.tlc_runs if r.get("mode") == "bfs" and not r["tag"].startswith("tv")]
    c.extra["explanation"] = ("states / transitions: TLC totals over all vectors (simulation: generated states); "
                              "traces_validated_against_impl: MBT behaviours replayed into the real StateDB + recorded real traces "
                              "accepted by StateDBTrace; evaluations: real replays (a behaviour may be replayed in several "
                              "snapshot modes) + recorded events")
