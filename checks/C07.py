"""C07 — the Merkle Patricia trie is an authenticated map with a canonical root.
specs/mpt: MPT.tla (trie/trie.go insert/delete/get, hasher embedding rule, NodeIterator, Prove/VerifyProof,
StackTrie), MPTCache.tla (the partially loaded trie with cache flags: Hash, Commit, reopen, Copy),
MC_MPT (histories, Canonical), MC_Table (content -> canonical tree, stack trie), MC_Proof (proof mutations),
MC_Cache (histories with Hash/Commit/Copy placed by TLC), MC_Derive (DeriveSha key order);
harness/mpt: replay of every TLC transition / case into the real trie package."""
import json, os
from vlib import Infra

# ---- universes (keys must be in ascending byte order: Canon inserts in index order) -------------------
U4 = [[0x00], [0x00, 0x00], [0x00, 0x01], [0x10]]
U6 = [[0x00], [0x00, 0x00], [0x00, 0x00, 0x00], [0x00, 0x01], [0x01], [0x10]]
U10 = [[0x00], [0x00, 0x00], [0x00, 0x00, 0x00], [0x00, 0x01], [0x01], [0x10],
       [0x12, 0x34, 0x56], [0x12, 0x34, 0x57], [0x12, 0x35], [0xf0]]
def _u31():
    al = [0x00, 0x01, 0x10, 0x11, 0xf0]
    ks = [[a] for a in al] + [[a, b] for a in al for b in al] + [[0x00, 0x00, 0x22]]
    return sorted(ks)
U31 = _u31()
# prefix-free, variable length, shared prefixes: the domain of the stack trie
UPF = [[0x00, 0x00], [0x00, 0x01, 0x00], [0x00, 0x01, 0x01], [0x01], [0x10, 0x00], [0x10, 0x01, 0xff], [0x12]]

# equal-length keys (range proofs); small universes for the node database
UR6 = [[0x00, 0x00], [0x00, 0x01], [0x00, 0x10], [0x01, 0x00], [0x10, 0x00], [0x10, 0x01]]
UD3 = [[0x00, 0x01], [0x10, 0x01], [0x10, 0x02]]
UD4 = [[0x00, 0x01], [0x10, 0x01], [0x10, 0x02], [0x10, 0x02, 0x00]]

# prefix-free, an extension above a branch above leaves with one-nibble remainders: with values of 3..6 bytes the
# branch encodes to 28..34 bytes, i.e. exactly around the embedding threshold (31 embedded, 32 hashed)
UB = [[0x00, 0x00], [0x00, 0x01], [0x00, 0x02], [0x10]]

# long keys: compact encodings beyond 55 bytes (long-string RLP header inside short nodes), deep prefix chain
UL = [[0xab], [0xab] * 30, [0xab] * 60, [0xab] * 59 + [0xac]]

# value classes: (byte length, single byte < 0x80)
VA = [(1, True), (40, False)]                       # tiny (embedded everywhere) and clearly hashed
VB = [(1, False), (29, False), (32, False)]         # 0x81-prefixed byte, the leaf-embedding boundary, hash-sized value
VC = [(1, True), (1, False), (28, False), (32, False), (56, False)]   # + long-string RLP header
VD = [(27, False), (33, False)]
VE = [(26, False), (27, False), (28, False), (29, False)]   # leaves of exactly 30..34 bytes for both key-remainder lengths
VF = [(3, False), (4, False), (5, False), (6, False)]       # branches of exactly 28..34 bytes over UB


def keccak256(data):
    """Keccak-256 (the pre-NIST padding used by Ethereum); hashlib only has SHA3-256.  Checked against the
    real implementation by the driver (TestSecure refuses a universe whose keys are not keccak(preimage))."""
    RC = [0x0000000000000001, 0x0000000000008082, 0x800000000000808A, 0x8000000080008000, 0x000000000000808B,
          0x0000000080000001, 0x8000000080008081, 0x8000000000008009, 0x000000000000008A, 0x0000000000000088,
          0x0000000080008009, 0x000000008000000A, 0x000000008000808B, 0x800000000000008B, 0x8000000000008089,
          0x8000000000008003, 0x8000000000008002, 0x8000000000000080, 0x000000000000800A, 0x800000008000000A,
          0x8000000080008081, 0x8000000000008080, 0x0000000080000001, 0x8000000080008008]
    ROT = [[0, 36, 3, 41, 18], [1, 44, 10, 45, 2], [62, 6, 43, 15, 61], [28, 55, 25, 21, 56], [27, 20, 39, 8, 14]]
    M = (1 << 64) - 1
    rol = lambda x, n: ((x << n) | (x >> (64 - n))) & M if n else x
    rate = 136
    msg = bytearray(data) + b"\x01" + b"\x00" * ((-len(data) - 2) % rate) + b"\x80" if (len(data) + 1) % rate else bytearray(data) + b"\x81"
    A = [[0] * 5 for _ in range(5)]
    for off in range(0, len(msg), rate):
        blk = msg[off:off + rate]
        for i in range(rate // 8):
            A[i % 5][i // 5] ^= int.from_bytes(blk[8 * i:8 * i + 8], "little")
        for rnd in range(24):
            C = [A[x][0] ^ A[x][1] ^ A[x][2] ^ A[x][3] ^ A[x][4] for x in range(5)]
            D = [C[(x - 1) % 5] ^ rol(C[(x + 1) % 5], 1) for x in range(5)]
            A = [[A[x][y] ^ D[x] for y in range(5)] for x in range(5)]
            B = [[0] * 5 for _ in range(5)]
            for x in range(5):
                for y in range(5):
                    B[y][(2 * x + 3 * y) % 5] = rol(A[x][y], ROT[x][y])
            A = [[B[x][y] ^ ((~B[(x + 1) % 5][y]) & B[(x + 2) % 5][y]) for y in range(5)] for x in range(5)]
            A[0][0] ^= RC[rnd]
    out = b"".join(A[i % 5][i // 5].to_bytes(8, "little") for i in range(4))
    return out


def hashed_universe(preimages):
    """keys = keccak(preimage) in ascending order, with the preimages aligned"""
    pairs = sorted((list(keccak256(bytes(p))), p) for p in preimages)
    return [k for k, _ in pairs], [p for _, p in pairs]


def tla_seq(xs):
    return "<<" + ", ".join(tla_seq(x) if isinstance(x, list) else str(x) for x in xs) + ">>"


def gen(base, name, keys, vals):
    return {name + ".tla": "---- MODULE %s ----\nEXTENDS %s\nKeyBytesV == %s\nValLenV == %s\nValSmallV == <<%s>>\n====\n" % (
        name, base, tla_seq(keys), tla_seq([v[0] for v in vals]),
        ", ".join("TRUE" if v[1] else "FALSE" for v in vals))}


HEAD = "SPECIFICATION Spec\nCONSTANTS\n  KeyBytes <- KeyBytesV\n  ValLen <- ValLenV\n  ValSmall <- ValSmallV\n"


def env(keys, vals, tag, **kw):
    e = dict(MPT_KEYS=json.dumps(keys), MPT_VALLEN=",".join(str(v[0]) for v in vals),
             MPT_VALSMALL=",".join("1" if v[1] else "0" for v in vals), MPT_TAG=tag)
    e.update(kw)
    return e


# development knob (binding self-tests on a shared machine): C07_WORKERS=4 limits TLC; the registered commands do not set it
W = int(os.environ.get("C07_WORKERS", "0")) or None


def need(c, r, what):
    if r.violated:
        # an invariant of the MODEL failed: a defect of the specification, never a verdict on the code
        raise Infra("specification invariant %s violated in %s\n%s" % (r.violated, what, c.tlc_tail(r)))
    if not r.ok:
        raise Infra("TLC failed on %s: %s\n%s" % (what, r.error, c.tlc_tail(r)))


def table(c, keys, vals, tag, canonstep=False):
    files = gen("MC_Table", "MCtab", keys, vals)
    # CanonStep restates MC_MPT.Canonical per content; it is only switched on for small universes
    files["MCtab.cfg"] = HEAD + "INVARIANT Inv\n" + ("INVARIANT CanonStep\n" if canonstep else "") + "ACTION_CONSTRAINT Dump\n"
    out = os.path.join(c.scratch, "table-%s.dump" % tag)
    r = c.tlc("mpt", "MCtab.cfg", module="MCtab", files=files, dump_to=out, timeout=3000, tag="MC_Table " + tag, workers=W)
    need(c, r, "MC_Table " + tag)
    return out


def histories(c, keys, vals, tag, tab=None, maxops=0, sample=1, fulldepth=0, stride=1, gotest="TestReplay", extra_env=None):
    files = gen("MC_MPT", "MCgen", keys, vals)
    files["MCgen.cfg"] = HEAD + ("  MaxOps = %d\n  Inline = %s\n  Sample = %d\n  Salt = %d\n  FullDepth = %d\n"
                                 "VIEW View\nINVARIANT Inv\nACTION_CONSTRAINT Dump\n") % (
        maxops, "FALSE" if tab else "TRUE", sample, c.seed % 1000, fulldepth)
    dump = os.path.join(c.scratch, "hist-%s.dump" % tag)
    r = c.tlc("mpt", "MCgen.cfg", module="MCgen", files=files, dump_to=dump, timeout=3000, tag="MC_MPT " + tag, workers=W)
    need(c, r, "MC_MPT " + tag)
    e = env(keys, vals, tag, MPT_DUMP=dump, MPT_STRIDE=stride)
    if tab:
        e["MPT_TABLE"] = tab
    e.update(extra_env or {})
    g = c.gotest("mpt", gotest, env=e, timeout=3000, tag="%s %s" % (gotest, tag))
    c.absorb(g)
    return dump


def proofs(c, keys, vals, tag, kinds, stride=1):
    files = gen("MC_Proof", "MCprf", keys, vals)
    files["MCprf.cfg"] = HEAD + "  Kinds = {%s}\nINVARIANT Inv\nACTION_CONSTRAINT Dump\n" % ", ".join('"%s"' % k for k in kinds)
    dump = os.path.join(c.scratch, "proof-%s.dump" % tag)
    r = c.tlc("mpt", "MCprf.cfg", module="MCprf", files=files, dump_to=dump, timeout=3000, tag="MC_Proof " + tag, workers=W)
    need(c, r, "MC_Proof " + tag)
    g = c.gotest("mpt", "TestProof", env=env(keys, vals, tag, MPT_DUMP=dump, MPT_STRIDE=stride), timeout=3000, tag="TestProof " + tag)
    c.absorb(g)
    os.remove(dump)


def derive(c, vals, maxlen, lens):
    files = {"MCd.tla": "---- MODULE MCd ----\nEXTENDS MC_Derive\nValLenV == %s\nValSmallV == <<%s>>\n====\n" % (
        tla_seq([v[0] for v in vals]), ", ".join("TRUE" if v[1] else "FALSE" for v in vals)),
        "MCd.cfg": "SPECIFICATION Spec\nCONSTANTS\n  KeyBytes <- DKeys\n  ValLen <- ValLenV\n  ValSmall <- ValSmallV\n  MaxLen = %d\n  Lens = {%s}\n"
                   "INVARIANT Inv\nACTION_CONSTRAINT Dump\n" % (maxlen, ", ".join(map(str, lens)))}
    dump = os.path.join(c.scratch, "derive.dump")
    r = c.tlc("mpt", "MCd.cfg", module="MCd", files=files, dump_to=dump, timeout=3000, tag="MC_Derive 0..%d" % maxlen, workers=W)
    need(c, r, "MC_Derive")
    g = c.gotest("mpt", "TestDerive", env=env([[0]], vals, "derive", MPT_DUMP=dump), timeout=3000, tag="TestDerive")
    c.absorb(g)
    os.remove(dump)


def cache(c, keys, vals, tag, maxops, maxmarks=2, maxhash=1):
    tab = table(c, keys, vals, tag, canonstep=True)
    files = gen("MC_Cache", "MCc", keys, vals)
    files["MCc.cfg"] = HEAD + ("  MaxOps = %d\n  MaxMarks = %d\n  MaxHash = %d\nVIEW View\nINVARIANT Inv\nACTION_CONSTRAINT Dump\n"
                               % (maxops, maxmarks, maxhash))
    dump = os.path.join(c.scratch, "cache-%s.dump" % tag)
    r = c.tlc("mpt", "MCc.cfg", module="MCc", files=files, dump_to=dump, timeout=3000, tag="MC_Cache %s depth %d" % (tag, maxops), workers=W)
    need(c, r, "MC_Cache " + tag)
    g = c.gotest("mpt", "TestCache", env=env(keys, vals, tag, MPT_DUMP=dump, MPT_TABLE=tab), timeout=3000, tag="TestCache " + tag)
    c.absorb(g)
    os.remove(dump)


def rangeproofs(c, keys, vals, tag, stride=1):
    files = gen("MC_Range", "MCr", keys, vals)
    files["MCr.cfg"] = HEAD + "INVARIANT Inv\nACTION_CONSTRAINT Dump\n"
    dump = os.path.join(c.scratch, "range-%s.dump" % tag)
    r = c.tlc("mpt", "MCr.cfg", module="MCr", files=files, dump_to=dump, timeout=3000, tag="MC_Range " + tag, workers=W)
    need(c, r, "MC_Range " + tag)
    g = c.gotest("mpt", "TestRange", env=env(keys, vals, tag, MPT_DUMP=dump, MPT_STRIDE=stride), timeout=3000, tag="TestRange " + tag)
    c.absorb(g)
    os.remove(dump)


def nodedb(c, keys, vals, tag, maxops, maxversions=3):
    tab = table(c, keys, vals, tag)
    files = gen("MC_Db", "MCdb", keys, vals)
    files["MCdb.cfg"] = HEAD + "  MaxOps = %d\n  MaxVersions = %d\nVIEW View\nINVARIANT Inv\nACTION_CONSTRAINT Dump\n" % (maxops, maxversions)
    dump = os.path.join(c.scratch, "db-%s.dump" % tag)
    r = c.tlc("mpt", "MCdb.cfg", module="MCdb", files=files, dump_to=dump, timeout=3000, tag="MC_Db %s depth %d" % (tag, maxops), workers=W)
    need(c, r, "MC_Db " + tag)
    g = c.gotest("mpt", "TestDb", env=env(keys, vals, tag, MPT_DUMP=dump, MPT_TABLE=tab), timeout=3000, tag="TestDb " + tag)
    c.absorb(g)
    os.remove(dump)


def tracevalidation(c, keys, vals, tag, traces, length):
    """TV: the Go driver only records; TLC decides (MPTTrace.tla)."""
    trace = os.path.join(c.scratch, "trace-%s.ndjson" % tag)
    g = c.gotest("mpt", "TestTraceRecord", env=env(keys, vals, tag, MPT_TRACE_OUT=trace, MPT_TRACES=traces, MPT_TRACE_LEN=length),
                 timeout=3000, tag="TestTraceRecord " + tag)
    c.absorb(g, traces_key="behaviours")
    if g.get("mismatches"):
        return
    nlines = sum(1 for _ in open(trace))
    files = gen("MPTTrace", "MCtv", keys, vals)
    files["MCtv.cfg"] = HEAD + '  TraceFile = "%s"\nINVARIANT Inv\nPOSTCONDITION Accept\n' % trace
    r = c.tlc("mpt", "MCtv.cfg", module="MCtv", files=files, workers=1, timeout=3000, tag="MPTTrace %s (%d lines)" % (tag, nlines))
    if r.violated:
        raise Infra("specification invariant %s violated while validating a trace\n%s" % (r.violated, c.tlc_tail(r)))
    if r.error and "ostcondition" in r.error:
        # the specification cannot explain line r.depth of the trace: the real trie returned something else there
        bad = open(trace).read().splitlines()[r.depth - 1] if 0 < r.depth <= nlines else "?"
        try:
            kind = json.loads(bad).get("t", "?")
        except Exception:
            kind = "?"
        c.report("mpt:trace:unexplained:" + kind,
                 "trace of the real trie rejected by MPTTrace.tla at line %d of %d: %s (what the real code returned there is not "
                 "what MPT.tla specifies after the preceding calls)" % (r.depth, nlines, bad[:300]),
                 dict(seed=c.seed, line=r.depth, event=bad, universe=tag, traces=traces, length=length,
                      reproduce="VERIF_SEED=%d ./check C07 %s (the recorder is deterministic in the seed)" % (c.seed, c.tier)))
        return
    if not r.ok:
        raise Infra("TLC failed on MPTTrace: %s\n%s" % (r.error, c.tlc_tail(r)))
    c.traces += traces
    os.remove(trace)


ALLK = ["none", "drop", "flip", "dup", "trunc", "other", "bloat", "swap", "stale", "xtrie"]
BASEK = ["none", "drop", "flip", "dup", "trunc", "other", "bloat", "stale"]


def run(c):
    th = c.tier == "thorough"
    c.rule = (
        "all cases are generated by TLC from specs/mpt and executed on the real trie package: "
        "(1) MC_MPT: every transition (Update incl. empty value / Delete out of every reachable tree) over key universes with shared "
        "prefixes, keys that are prefixes of keys, 1..60-byte and keccak-hashed 32-byte keys, and value classes on both sides of the "
        "32-byte embedding rule; each is replayed from a fresh trie.Trie under one of 8 placements of Hash / Commit+reopen / Copy / "
        "reads; non-trivial = the transition deletes, overwrites or is a no-op (not a plain first insertion), distinct by "
        "(pre-content, operation); (2) MC_Cache: every history in which TLC places Hash, Commit+reopen, Copy and node-loading Gets; "
        "non-trivial = contains a commit or copy, distinct by history; (3) MC_Db: chains of versions over one node database with "
        "Reference / Dereference / Commit(root) / Cap; non-trivial = contains a release or flush; (4) MC_Proof: every (content, key, "
        "proof mutation); non-trivial = the proof is really altered (not none/dup/bloat); (5) MC_Range: every (content, first, last, "
        "claim = truth or one-point deviation); non-trivial = the claim deviates; (6) MC_Derive: DeriveSha per list length; "
        "(7) MPTTrace: seeded random long histories of the real trie validated by TLC line by line. Compared: Get of every key, "
        "NodeIterator sequence (path, leaf, standalone/embedded; also from every seek key) against the canonical tree of the content, "
        "root against the driver's own RLP+keccak of the specified tree, StackTrie root and written nodes, commit node sets, reopened "
        "committed roots, the untouched handle after Copy, content<->root bijection, VerifyProof / VerifyRangeProof outcome, nodes "
        "kept in memory by the garbage collector, SecureTrie over the preimages, DeriveSha over StackTrie and regular trie")
    c.assumptions = [
        "keccak256 is collision-free on the node encodings met (the specification identifies a hash with the subtree it covers)",
        "a verifier stores every received proof node under the hash it computes itself (VerifyProof trusts the proof database's keys)",
        "D2: absence in the EMPTY trie is witnessed by root = EmptyRootHash; Prove returns no element and VerifyProof returns an error there",
        "D3: StackTrie is compared on prefix-free key sets in ascending order only (outside that domain the code panics by design)",
        "D4: iteration / seek order is the order of hex keys with the terminator as largest nibble (ascending key order on prefix-free sets)",
        "VerifyRangeProof is checked against its contract on equal-length keys with honest edge proofs (claims are mutated, proof nodes are not)",
        "the version a trie was opened from stays referenced in the node database while that trie is in use (MC_Db Protocol)",
        "TLC and the Go driver (value classes are mapped to fixed byte strings of the specified length)",
    ]
    # (1) histories, exhaustive universes with a table
    # US: 32-byte keys (the keccak of short preimages), the shape of every production trie; also replayed into StateTrie
    US, PRE = hashed_universe(U6 if th else U4)
    for keys, vals, tag in ([(U6, VA, "u6a"), (U6, VB, "u6b"), (US, VA, "us"), (U4, VE, "u4e"), (UB, VF, "ubf"),
                             (UL, [(1, True), (56, False)], "ul")] +
                            ([(U6, VC, "u6c"), (U10, VA, "u10a"), (UPF, VD, "upf")] if th else [])):
        tab = table(c, keys, vals, tag, canonstep=(len(vals) + 1) ** len(keys) < 1000)
        dump = histories(c, keys, vals, tag, tab=tab)
        if tag == "us":
            g = c.gotest("mpt", "TestSecure", env=env(keys, vals, tag, MPT_DUMP=dump, MPT_TABLE=tab, MPT_PREIMAGES=json.dumps(PRE)),
                         timeout=3000, tag="TestSecure " + tag)
            c.absorb(g)
        os.remove(dump)
        os.remove(tab)
    # (1b) large universe: depth-bounded BFS and sampled deep histories (lines carry their expected tree)
    if th:
        os.remove(histories(c, U31, VA, "u31-d3", maxops=3))
        os.remove(histories(c, U31, [(1, True), (33, False)], "u31-deep", maxops=16, sample=44, fulldepth=1))
    else:
        os.remove(histories(c, U31, VA, "u31-d2", maxops=2))
    # (2) partially loaded trie
    cache(c, U4, VA, "u4a", 7 if th else 6)
    if th:
        cache(c, U4, [(29, False), (32, False)], "u4d", 6)
        cache(c, [[0x00], [0x00, 0x00], [0x01]], VB, "u3b", 7, maxhash=2)
    # (3) proofs
    proofs(c, U6, VA, "u6a", ALLK if th else BASEK)
    proofs(c, U4, VB, "u4b", ALLK)
    if th:
        proofs(c, US, VA, "us", BASEK)
    # (2b) node database: versions, Reference / Dereference / Commit(root) / Cap
    nodedb(c, UD3, VA, "d3", 7 if th else 6)
    if th:
        nodedb(c, UD4, [(33, False)], "d4", 7, maxversions=3)
    # (4) DeriveSha: list roots over the stack trie
    # (lists of >= 100 items also reach the parallel hasher of the regular trie: Trie.unhashed >= 100)
    derive(c, [(1, True), (40, False), (7, False), (33, False)], 131,
           range(0, 132) if th else [0, 1, 2, 3, 16, 17, 18, 101, 127, 128, 129, 131])
    # (5) trace validation: long random histories of the real trie, validated by TLC
    tracevalidation(c, U31, VA, "tv31", 120 if th else 30, 300 if th else 120)
    if th:
        tracevalidation(c, U10, VC, "tv10", 100, 400)
    # (6) range proofs (last: the part with the recorded finding)
    rangeproofs(c, UR6, VA, "r6")
    if th:
        rangeproofs(c, hashed_universe(UR6[:5])[0], [(33, False)], "r5s")
    # every TLC run above is a completed breadth-first search of its (possibly depth-bounded) model; the parts that are
    # NOT an exhaustive enumeration of their universe are named here
    c.extra["not_exhaustive_parts"] = (["u31-deep: a pseudo-random 1/44 of the transitions beyond depth 1, histories up to 16 operations (Keep)"] if th else []) + [
        "u31-d%d: histories up to %d operations only" % ((3, 3) if th else (2, 2)),
        "MC_Cache / MC_Db: histories up to MaxOps operations", "tv*: seeded random histories (trace validation)"]
    c.exhaustive = True
    # group the per-universe counters of the drivers: coverage["by_universe"][tag][counter]
    by = {}
    for k in [k for k in c.extra if "." in k and k != "not_exhaustive_parts"]:
        name, tag = k.split(".", 1)
        by.setdefault(tag, {})[name] = c.extra.pop(k)
    c.extra["by_universe"] = by
