------------------------------- MODULE MC_RLPLists -----------------------------
(******************************************************************************)
(* Generation (d'), the LIST half of "adversarial headers claiming huge sizes":*)
(* a list header that declares a large payload, decoded into slices of multi-  *)
(* byte elements ([]uint64, [][32]byte, []struct, []*struct, []*big.Int,       *)
(* []interface{}).  Two modes:                                                 *)
(*   "lim"  the payload is really there (N bytes: one first element, then the  *)
(*          non-canonical pair 81 00 repeated), decoded by DecodeBytes;        *)
(*   "unl"  only the header and one or two elements are there, the claim is up *)
(*          to 2^20, decoded WITHOUT an input limit (rlp.Decode / NewStream(r, *)
(*          0) over a plain io.Reader; RLPStream!NewStreamU).                  *)
(* In both modes every decoder stops after at most two elements (Early), so    *)
(* the allocation the specification allows is the constant part of             *)
(* RLPStream!AllocBound: a list header never sizes an allocation.  The driver  *)
(* (TestLists) measures the real allocation of every call against              *)
(*   AllocC2 + AllocC1 * len(input) + AllocGrow * (k + 4) * sizeof(element)    *)
(* with k = number of elements the specification says are decoded, and         *)
(* compares accept / reject.                                                   *)
(******************************************************************************)
EXTENDS RLPSchemas, Json

CONSTANTS LimSizes,    \* payload sizes of the "lim" inputs
          UnlClaims,   \* declared sizes of the "unl" inputs (< 2^24)
          Names        \* slice schemas

VARIABLES ph, mode, n, first, b
vars == <<ph, mode, n, first, b>>

LongLens == <<255, 256, 257, 65535, 65536, 65537, 16777215>>
Firsts == {<<129, 0>>, <<1>>, <<192>>, <<193, 1>>, <<160>> \o Rep(7, 32)}
Bad    == <<129, 0>>                                   \* a single byte wrapped as a string
RECURSIVE Fill(_)
Fill(k) == IF k <= 0 THEN <<>> ELSE IF k = 1 THEN <<129>> ELSE Bad \o Fill(k - 2)
\* m copies of the pair, built by doubling to keep the recursion shallow
RECURSIVE Pairs(_)
Pairs(m) == IF m < 32 THEN Fill(2 * m)
            ELSE LET h == Pairs(m \div 2) IN h \o h \o Fill(2 * (m - 2 * (m \div 2)))
Pattern(k) == Pairs(k \div 2) \o (IF k % 2 = 1 THEN <<129>> ELSE <<>>)

Init == /\ ph = "seed" /\ b = <<>>
        /\ first \in Firsts
        /\ \/ mode = "lim" /\ n \in LimSizes
           \/ mode = "unl" /\ n \in UnlClaims
Gen == /\ ph = "seed" /\ ph' = "gen" /\ UNCHANGED <<mode, n, first>>
       /\ b' = IF mode = "lim" THEN Hdr(192, n) \o first \o Pattern(n - Len(first))
               ELSE Hdr(192, n) \o first \o Bad
Spec == Init /\ [][Gen]_vars

\* one decoder call: class and number of elements in the outermost slice when it returns
Run(nm, bb, md) == LET sc == Schema(nm)
                       r  == OD(sc, IF md = "lim" THEN NewStream(bb, Len(bb)) ELSE NewStreamU(bb))
                   IN [e |-> r.err, k |-> IF sc.t = "slice" THEN Len(r.v) ELSE 0]

(******************************** invariants **********************************)
\* nothing is accepted, and every decoder gives up within the first two elements
Early == ph = "gen" => \A nm \in Names : LET r == Run(nm, b, mode) IN r.e # "ok" /\ r.k <= 2
\* with the payload present the canonical decoder rejects as well, and the typed decoders agree
LimDec == (ph = "gen" /\ mode = "lim") =>
             LET d == Dec(b) IN d.err # "ok" /\ \A nm \in Names : TypedAgreeD(Schema(nm), b, d, DecodeBytesT(Schema(nm), b))
Inv == Early /\ LimDec

(********************************** dump **************************************)
\* the input is printed as prefix + total length (the rest is the pair 81 00 repeated)
Dump == PrintT(ToJson([mode |-> mode', claim |-> n',
                       pre  |-> IF mode' = "lim" THEN Hdr(192, n') \o first' ELSE b',
                       len  |-> Len(b'),
                       c1 |-> AllocC1, c2 |-> AllocC2, grow |-> AllocGrow,
                       \* the length side of putint at the two- / three-byte boundary, lifted: for a
                       \* payload of n bytes Enc is by definition Hdr(base, n) followed by the payload, so
                       \* only the headers are printed; the driver builds the n-byte payloads itself
                       hd |-> [i \in 1..Len(LongLens) |-> [n |-> LongLens[i], s |-> Hdr(128, LongLens[i]), l |-> Hdr(192, LongLens[i])]],
                       ty |-> [nm \in Names |-> Run(nm, b', mode')]]))
================================================================================
