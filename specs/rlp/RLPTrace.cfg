SPECIFICATION Spec
POSTCONDITION Accepted
