------------------------------ MODULE MC_RLPTyped ------------------------------
(******************************************************************************)
(* Typed round trips and typed rejection (C16: "decoding the encoding of any   *)
(* supported value returns an equal value ... transactions, headers-by-RLP,    *)
(* receipts and accounts keep their hashes across encode/decode").             *)
(*                                                                            *)
(* State machine, per schema name of the fixed set (RLPSchemas):               *)
(*   schema  --Choose-->  value   TLC picks an abstract value v from the       *)
(*                                boundary set Rich(schema) (every field in    *)
(*                                turn through its boundary values, the others *)
(*                                at the zero-like / the typical sample);      *)
(*                                b = Enc(TE(schema, v))                       *)
(*   value   --MutS/MutB--> mut   the mutation catalogue of RLP.tla applied to *)
(*                                the encoding (positions taken from the item  *)
(*                                TE(schema, v)); only for the values / names  *)
(*                                selected by MutBase / MutAll                 *)
(* Checked on value states: RoundTripT (decode(encode v) = v for values in     *)
(* normal form; the re-encoding is always the same bytes).  On every state:    *)
(* the operational typed decoder = canonical decoding + declarative typing     *)
(* (TypedAgree), an accepted input is THE encoding of its value                *)
(* (TypedCanonical, modulo OptionalZero), and the untyped properties.  On      *)
(* structural mutants: the well-formed non-canonical encoding is rejected.     *)
(* Every transition is printed and replayed by harness/rlp TestTyped: the Go   *)
(* value is BUILT from v, encoded by the real encoder (must equal b), decoded  *)
(* by the real decoder (must equal the specified value), re-encoded; for the   *)
(* chain types the real types.Transaction / Receipt / ReceiptForStorage / Log /*)
(* StateAccount / Header go through the same steps and keep their hash.        *)
(******************************************************************************)
EXTENDS RLPSchemas, Json

CONSTANTS Names,       \* set of schema names
          MutBase,     \* names whose two sample values Pick(sc, 1..2) are mutated
          MutAll,      \* names whose every value is mutated
          MaxMut, TruncEvery

VARIABLES ph, nm, v, ms, b
vars == <<ph, nm, v, ms, b>>

\* receipts: the first field must be one of the three forms Receipt.setStatus accepts
FixStatus(val) == IF val[1] \in StatusVals THEN val ELSE [val EXCEPT ![1] = <<1>>]
\* a valid storage receipt from an arbitrary structural value
ValsOf(n) == LET sc == Schema(n) IN
             IF n \in {"receipt", "sreceipt"}
             THEN {FixStatus(val) : val \in Rich(sc)} \cup {[Pick(sc, 2) EXCEPT ![1] = st] : st \in StatusVals}
             ELSE IF n = "blockinfo"
             THEN \* scalar fields through their boundary sets, the receipt list through a few shapes
                  LET r1 == FixStatus(Pick(SReceipt, 1)) r2 == FixStatus(Pick(SReceipt, 2))
                      base == [Pick(sc, 2) EXCEPT ![3] = <<r2, r1>>]
                  IN {[base EXCEPT ![1] = x] : x \in Rich(U64)} \cup {[base EXCEPT ![2] = x] : x \in Rich(TBig)}
                     \cup {[base EXCEPT ![3] = x] : x \in {<<>>, <<r1>>, <<r2>>, <<r1, r2, r1>>,
                                                          <<[r2 EXCEPT ![1] = Rep(171, 32)]>>, <<[r2 EXCEPT ![6] = <<>>]>>}}
                     \cup {[base EXCEPT ![4] = x] : x \in Rich(TArr(256))}
             ELSE Rich(sc)
\* what the real type adds to the structural schema (Receipt.setStatus)
StatusOK(st) == st \in {<<>>, <<1>>} \/ Len(st) = 32
SemOK(n, val) == /\ (n \in {"receipt", "sreceipt"} => StatusOK(val[1]))
                 /\ (n = "blockinfo" => \A i \in 1..Len(val[3]) : StatusOK(val[3][i][1]))

Init == ph = "schema" /\ nm \in Names /\ v = <<>> /\ ms = <<>> /\ b = <<>>

Choose == /\ ph = "schema"
          /\ \E val \in ValsOf(nm) : v' = val /\ b' = Enc(TE(Schema(nm), val))
          /\ ph' = "value" /\ UNCHANGED <<nm, ms>>

FixSt(val) == IF nm \in {"receipt", "sreceipt"} THEN FixStatus(val) ELSE val
BaseVals == IF nm = "blockinfo"
            THEN {[Pick(BlockInfo, 2) EXCEPT ![3] = <<FixStatus(Pick(SReceipt, 2)), FixStatus(Pick(SReceipt, 1))>>]}
            ELSE {FixSt(Pick(Schema(nm), 1)), FixSt(Pick(Schema(nm), 2))}
Mutable == ph = "value" /\ (nm \in MutAll \/ (nm \in MutBase /\ v \in BaseVals))

X == TE(Schema(nm), v)          \* the item of the unmutated encoding
Forms == {"wrap", "long", "lz"}
MutS == /\ Mutable
        /\ \E p \in Paths(X), f \in Forms \cup {"izero"} :
              /\ FormApplies(At(X, p), f)
              /\ b' = EncAt(X, p, f) /\ ms' = <<<<f, p>>>>
        /\ ph' = "mut" /\ UNCHANGED <<nm, v>>
\* one element more (a single byte / an empty list) or one element less in any list of the item
MutL == /\ Mutable
        /\ \E p \in ListPaths(X) :
              \/ \E y \in {S(<<5>>), L(<<>>)} : b' = Enc(AddAt(X, p, y)) /\ ms' = <<<<IF y.k = "s" THEN "add" ELSE "addl", p>>>>
              \/ At(X, p).e # <<>> /\ b' = Enc(DropAt(X, p)) /\ ms' = <<<<"drop", p>>>>
        /\ ph' = "mut" /\ UNCHANGED <<nm, v>>
HdrPos   == IF ms = <<>> THEN HeaderIdx(X) ELSE 1..(IF Len(b) < 12 THEN Len(b) ELSE 12)
TruncPos == IF ms = <<>> THEN TruncPoints(X, TruncEvery)
            ELSE {k \in 0..(Len(b) - 1) : k < 12 \/ k > Len(b) - 4}
MutB == /\ (Mutable \/ ph = "mut") /\ Len(ms) < MaxMut
        /\ \/ \E k \in TruncPos : b' = SubSeq(b, 1, k) /\ ms' = Append(ms, <<"trunc", k>>)
           \/ \E z \in {0, 128, 192} : b' = Append(b, z) /\ ms' = Append(ms, <<"app", z>>)
           \/ \E i \in HdrPos : b[i] < 255 /\ b' = [b EXCEPT ![i] = @ + 1] /\ ms' = Append(ms, <<"inc", i>>)
           \/ \E i \in HdrPos : b[i] > 0 /\ b' = [b EXCEPT ![i] = @ - 1] /\ ms' = Append(ms, <<"dec", i>>)
        /\ ph' = "mut" /\ UNCHANGED <<nm, v>>

Next == Choose \/ MutS \/ MutL \/ MutB
Spec == Init /\ [][Next]_vars

\* two values may share an encoding (NilIsZero): value states are told apart by v as well
View == <<ph, nm, IF ph = "value" THEN v ELSE <<>>, b, Len(ms)>>

(******************************** invariants **********************************)
RoundTrips == ph = "value" => RoundTripT(Schema(nm), v)
TypedOK    == ph # "schema" => TypedAll(Schema(nm), b, Dec(b)) /\ UntypedInv(b)
Structural == ph = "mut" /\ Len(ms) = 1 /\ ms[1][1] \in Forms
\* a raw field hides what is below it (RawShallow): only mutations outside raw fields count
NonCanonicalRejected == (Structural /\ ~HasRaw(Schema(nm))) => DecodeBytesT(Schema(nm), b).err # "ok"
Inv == RoundTrips /\ TypedOK /\ NonCanonicalRejected

(********************************** dump **************************************)
Dump == LET sc == Schema(nm') o == DecodeBytesT(sc, b') IN
        ph' # "schema" =>
        PrintT(ToJson([n    |-> nm',
                       v    |-> IF ph' = "value" THEN PV(sc, v') ELSE 0,
                       norm |-> ph' = "value" /\ IsNorm(sc, v'),
                       ms   |-> ms',
                       b    |-> PB(b'),
                       d    |-> Dec(b').err,
                       o    |-> TOut(nm', b'),
                       sem  |-> o.err = "ok" => SemOK(nm', o.v)]))
================================================================================
