-------------------------------- MODULE RLPTrace -------------------------------
(******************************************************************************)
(* Trace validation (code -> specification) for C16.                           *)
(*                                                                            *)
(* harness/rlp TestRecord feeds seed-chosen byte strings - uniformly random    *)
(* ones, and encodings produced by the REAL encoder (random item trees, random *)
(* transactions) damaged at random (bit flips, truncation, inserted / deleted  *)
(* / duplicated bytes, overwritten headers) - to the real decoders and records *)
(* one ndjson event per string:                                                *)
(*    in    the bytes                                                          *)
(*    acc   rlp.DecodeBytes(in, &interface{}) accepted                         *)
(*    it    the decoded tree, as [k, b, e] records (when acc)                  *)
(*    raw   DecodeBytes into RawValue accepted                                 *)
(*    sp    rlp.Split accepted,  cv  rlp.CountValues result (-1 = error)       *)
(*    u64, big, bytes, tx   DecodeBytes into uint64 / *big.Int / []byte /      *)
(*          types.Transaction accepted                                         *)
(*    re    the accepted input re-encodes to itself (real encoder)             *)
(* Here every event must be EXPLAINED by the specification: Dec / RawAccepts / *)
(* ReadKind / CountValues / the typed decoders must say the same.  The trace   *)
(* is accepted iff TLC walks through all of it (POSTCONDITION on the diameter; *)
(* run with -workers 1, deadlock checking off).  The first unexplained event   *)
(* is the depth TLC reached; the runner reports it with its input.             *)
(******************************************************************************)
EXTENDS RLPSchemas, Json, TLC

Trace == ndJsonDeserialize("trace.ndjson")

VARIABLE i
Init == i = 0

\* the clauses an event must satisfy, by name
Clauses(ev) ==
  LET bb == ev.in
      d  == Dec(bb)
      c  == CountValues(bb)
  IN [accept   |-> (d.err = "ok") = ev.acc,
      item     |-> ev.acc => (d.err = "ok" /\ d.it = ev.it),         \* same tree
      reencode |-> ev.acc => ev.re,                                  \* accepted = canonical
      stream   |-> (DecodeBytesWalk(bb).err = "ok") = ev.acc,        \* the stream transcription agrees as well
      raw      |-> RawAccepts(bb) = ev.raw,
      split    |-> (ReadKind(bb).err = "ok") = ev.sp,
      count    |-> ev.cv = (IF c.err = "ok" THEN c.n ELSE 0 - 1),
      u64      |-> (DecodeBytesT(U64, bb).err = "ok") = ev.u64,
      big      |-> (DecodeBytesT(TBig, bb).err = "ok") = ev.big,
      bytes    |-> (DecodeBytesT(TBytes, bb).err = "ok") = ev.bytes,
      tx       |-> (DecodeBytesT(TxData, bb).err = "ok") = ev.tx]
Explains(ev) == LET cl == Clauses(ev) IN \A n \in DOMAIN cl : cl[n]
Why(ev)      == LET cl == Clauses(ev) IN {n \in DOMAIN cl : ~cl[n]}

Next == /\ i < Len(Trace)
        /\ \/ i' = i + 1 /\ Explains(Trace[i + 1])
           \* diagnosis of the first unexplained event (no successor: the walk ends here)
           \/ ~Explains(Trace[i + 1]) /\ PrintT(<<"UNEXPLAINED", i + 1, Why(Trace[i + 1])>>) /\ FALSE /\ i' = i
Spec == Init /\ [][Next]_i

Accepted == TLCGet("stats").diameter - 1 = Len(Trace)
================================================================================
