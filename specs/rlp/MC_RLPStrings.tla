----------------------------- MODULE MC_RLPStrings -----------------------------
(******************************************************************************)
(* Generation (a) of C16: EVERY byte string up to length N over a boundary     *)
(* alphabet (00 01 7f | 80 81 82 b7 | b8 b9 bf | c0 c1 c2 f7 | f8 ff ...).     *)
(* The state is the string; a step appends one byte.  On every string TLC      *)
(* checks that                                                                 *)
(*   - Dec accepts only encodings            (Canonical),                      *)
(*   - the streaming decoder (RLPStream.Walk, i.e. DecodeBytes into            *)
(*     interface{}) agrees with Dec          (WalkAgrees),                     *)
(*   - the slice based parser of raw.go is as strict as Dec on the outermost   *)
(*     header and on strings                 (SplitAgrees, SplitUintAgrees),   *)
(*   - for every schema of the fixed set the operational typed decoder accepts *)
(*     exactly the canonical encodings of items of the right shape, with the   *)
(*     same value, and an accepted input is THE encoding of that value         *)
(*                                           (TInv = TypedAgree, TypedCanonical)*)
(*   - RawValue is the identity on what it accepts (RawIdentity),              *)
(*   - rlp.Decode from a reader takes exactly the first item (WalkFirstAgrees),*)
(*     the list iterator delivers what CountValues counts (IterAgrees).        *)
(* The conjuncts are spelled out in RLPSchemas!UntypedInv / TypedInv.          *)
(* Every transition is printed (Dump) with all specified results and replayed  *)
(* into the real code by harness/rlp TestStrings.                              *)
(******************************************************************************)
EXTENDS RLPSchemas, Json

CONSTANTS Alphabet,     \* set of bytes
          N,            \* maximal length
          Names         \* set of schema names decoded on every string

VARIABLES ph, b
vars == <<ph, b>>

Init == ph = "seed" /\ b = <<>>
Next == \/ ph = "seed" /\ ph' = "gen" /\ b' = b                 \* emits the empty string
        \/ ph = "gen" /\ Len(b) < N /\ ph' = ph /\ \E x \in Alphabet : b' = Append(b, x)
Spec == Init /\ [][Next]_vars

(******************************** invariants **********************************)
Inv  == UntypedInv(b)          \* see RLPSchemas: Canonical, WalkAgrees, SplitAgrees, ... RawIdentity
TInv == TypedInv(Names, b)     \* TypedAgree and TypedCanonical for every schema

\* the design-level finding OptionalZero: TLC must FIND a string that OptS accepts although it is
\* not the encoding of the decoded value (checked as an invariant that is expected to be violated)
NoOptionalZero == LET o == DecodeBytesT(OptS, b) IN o.err = "ok" => Enc(TE(OptS, o.v)) = b

(********************************** dump **************************************)
Dump == PrintT(ToJson([b  |-> b',
                       u  |-> UntypedOut(b'),
                       ty |-> [n \in Names |-> TOut(n, b')]]))
================================================================================
