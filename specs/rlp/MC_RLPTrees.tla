------------------------------ MODULE MC_RLPTrees ------------------------------
(******************************************************************************)
(* Generations (b) and (c) of C16: item trees with boundary string lengths,    *)
(* their encodings, and every mutation class at every position of them.        *)
(*                                                                            *)
(* State machine                                                               *)
(*   seed   a leaf (string with a boundary length / first byte) or a wide list *)
(*   Emit   seed -> item           (prints the unmutated leaf)                 *)
(*   Grow   item x -> item L(..x..): x alone, or x with one / two siblings     *)
(*          from SibSets[level] on either side, up to Depth levels.  All trees *)
(*          whose nodes have at most one child outside the sibling sets.       *)
(*   MutS   item -> mutant: a WELL-FORMED non-canonical encoding of the tree   *)
(*          (node at any path written as wrapped single byte / long form for a *)
(*          short payload / length with a leading zero; every enclosing header *)
(*          re-computed)                                                       *)
(*   MutL   item -> mutant: one element more / less in any list of the tree    *)
(*          (the canonical encoding of another tree)                           *)
(*   MutB   item or mutant -> mutant: byte level damage (truncate at k, append *)
(*          a byte, +1 / -1 on any header byte); up to MaxMut mutations stack  *)
(*                                                                            *)
(* On every state: RLPSchemas!UntypedInv (Canonical, WalkAgrees, SplitAgrees,  *)
(* RawIdentity, ...) and TypedInv for the scalar schemas; on items: RoundTrip, *)
(* HeaderExact; on                                                             *)
(* structural mutants: NonCanonicalRejected - the specification's Dec, the     *)
(* stream walk and every strict scalar decoder must reject, although every     *)
(* length in the string is consistent.                                         *)
(******************************************************************************)
EXTENDS RLPSchemas, Json

CONSTANTS Lens,        \* string lengths >= 2 used for leaves
          Fills,       \* fill bytes of those strings
          Singles,     \* values of the one-byte strings
          Wide,        \* numbers of empty strings in the wide seed lists
          Depth,       \* number of Grow steps
          SibSets,     \* sequence (one entry per level) of sets of sibling items
          MaxMut,      \* 1: every single mutation; 2: byte damage on top of a mutant
          TruncEvery,  \* encodings up to this length are truncated at every position
          Names        \* scalar schemas decoded on every state

VARIABLES ph,    \* "seed" | "item" | "mut"
          x,     \* the tree (of the unmutated encoding)
          lvl,   \* Grow steps so far
          ms,    \* mutations applied: sequence of <<kind, argument>>
          b      \* the byte string
vars == <<ph, x, lvl, ms, b>>

Str(n, f)  == S(Rep(f, n))
Leaves     == {S(<<>>)} \cup {S(<<v>>) : v \in Singles} \cup {Str(n, f) : n \in Lens, f \in Fills}
WideLists  == {L([i \in 1..n |-> S(<<>>)]) : n \in Wide}
Sibs(l)    == SibSets[l]

Init == /\ ph = "seed" /\ x \in Leaves \cup WideLists \cup {L(<<>>)}
        /\ lvl = 0 /\ ms = <<>> /\ b = Enc(x)

Emit == ph = "seed" /\ ph' = "item" /\ UNCHANGED <<x, lvl, ms, b>>

Grow == /\ ph = "item" /\ lvl < Depth
        /\ \E y \in {L(<<x>>)} \cup {L(<<x, s>>) : s \in Sibs(lvl + 1)} \cup {L(<<s, x>>) : s \in Sibs(lvl + 1)}
                   \cup {L(<<s, x, S(<<>>)>>) : s \in Sibs(lvl + 1)} :
             x' = y /\ b' = Enc(y)
        /\ lvl' = lvl + 1 /\ UNCHANGED <<ph, ms>>

Forms == {"wrap", "long", "lz"}
MutS == /\ ph = "item"
        /\ \E p \in Paths(x), f \in Forms \cup {"izero"} :
              /\ FormApplies(At(x, p), f)
              /\ b' = EncAt(x, p, f) /\ ms' = <<<<f, p>>>>
        /\ ph' = "mut" /\ UNCHANGED <<x, lvl>>

\* one element more (a single byte / an empty list) or one element less in any list of the item
MutL == /\ ph = "item"
        /\ \E p \in ListPaths(x) :
              \/ \E y \in {S(<<5>>), L(<<>>)} : b' = Enc(AddAt(x, p, y)) /\ ms' = <<<<IF y.k = "s" THEN "add" ELSE "addl", p>>>>
              \/ At(x, p).e # <<>> /\ b' = Enc(DropAt(x, p)) /\ ms' = <<<<"drop", p>>>>
        /\ ph' = "mut" /\ UNCHANGED <<x, lvl>>
\* positions of byte damage: derived from the tree for the first mutation, plain prefixes / the
\* first bytes for damage on top of a mutant
HdrPos   == IF ms = <<>> THEN HeaderIdx(x) ELSE 1..(IF Len(b) < 12 THEN Len(b) ELSE 12)
TruncPos == IF ms = <<>> THEN TruncPoints(x, TruncEvery)
            ELSE {k \in 0..(Len(b) - 1) : k < 12 \/ k > Len(b) - 4}
MutB == /\ ph \in {"item", "mut"} /\ Len(ms) < MaxMut
        /\ \/ \E k \in TruncPos : b' = SubSeq(b, 1, k) /\ ms' = Append(ms, <<"trunc", k>>)
           \/ \E v \in {0, 128, 192} : b' = Append(b, v) /\ ms' = Append(ms, <<"app", v>>)
           \/ \E i \in HdrPos : b[i] < 255 /\ b' = [b EXCEPT ![i] = @ + 1] /\ ms' = Append(ms, <<"inc", i>>)
           \/ \E i \in HdrPos : b[i] > 0 /\ b' = [b EXCEPT ![i] = @ - 1] /\ ms' = Append(ms, <<"dec", i>>)
        /\ ph' = "mut" /\ UNCHANGED <<x, lvl>>

Next == Emit \/ Grow \/ MutS \/ MutL \/ MutB
Spec == Init /\ [][Next]_vars

\* b determines x while unmutated; afterwards only b and the number of mutations matter
View == <<ph, b, Len(ms)>>

(******************************** invariants **********************************)
ItemOK  == ph \in {"seed", "item"} => RoundTrip(x) /\ HeaderExact(x) /\ b = Enc(x)
\* a well-formed non-canonical encoding is rejected by Dec, by the stream walk and by every scalar
\* decoder; RawValue (RawShallow) notices it only in the outermost header
Structural == ph = "mut" /\ Len(ms) = 1 /\ ms[1][1] \in Forms
NonCanonicalRejected ==
  Structural => /\ Dec(b).err # "ok"
                /\ DecodeBytesWalk(b).err # "ok"
                /\ \A n \in Names : n = "raw" \/ DecodeBytesT(Schema(n), b).err # "ok"
                /\ (ms[1][2] = <<>> /\ ms[1][1] # "wrap" => DecodeBytesT(TRaw, b).err # "ok")
Inv == UntypedInv(b) /\ TypedInv(Names, b) /\ ItemOK /\ NonCanonicalRejected

(********************************** dump **************************************)
Dump == PrintT(ToJson([h  |-> [x |-> PItem(x'), ms |-> ms'],
                       b  |-> PB(b'),
                       u  |-> UntypedOut(b'),
                       ty |-> [n \in Names |-> TOut(n, b')]]))
================================================================================
