---------------------------------- MODULE RLP ----------------------------------
(******************************************************************************)
(* Recursive Length Prefix encoding as implemented by lib/rlp (property C16). *)
(*                                                                            *)
(* This module is the DEFINITIONAL layer:                                     *)
(*   - items (byte strings and lists) and Enc(item), the Yellow-Paper         *)
(*     encoding (Appendix B).  "Identical to the reference implementation" is *)
(*     read as: rlp.EncodeToBytes(v) = Enc(item of v);                        *)
(*   - ReadKind / Split / SplitString / SplitList / SplitUint64 / CountValues *)
(*     transcribed from lib/rlp/raw.go (the slice based header parser);       *)
(*   - Dec(bytes), THE canonical decoder: built from ReadKind, strict on every*)
(*     nested header, no trailing bytes.  MC modules check                    *)
(*          Dec(Enc(x)) = x   and   Dec(b) accepted  =>  Enc(Dec(b)) = b      *)
(*     i.e. a byte string is accepted iff it is the encoding of an item;      *)
(*   - canonical integers (big-endian, no leading zero);                      *)
(*   - the catalogue of mutations applied to encodings (truncation, appended  *)
(*     bytes, +-1 on every header byte, and WELL-FORMED non-canonical forms:  *)
(*     long form for short payloads, leading zero in the length, single byte  *)
(*     wrapped as a string - with all enclosing headers re-computed, so that  *)
(*     the only reason to reject is the non-canonical header itself).         *)
(*                                                                            *)
(* RLPStream.tla transcribes the streaming decoder (lib/rlp/decode.go) on top *)
(* of this, RLPTyped.tla the mapping to Go types.                             *)
(*                                                                            *)
(* Numbers.  TLC integers are 32 bit.  Every byte sequence handled by a model *)
(* is shorter than 2^24 bytes (MaxLen); a DECLARED size, which may be as big  *)
(* as 2^64-1, is kept as its big-endian byte sequence and compared by length  *)
(* first (SizeGT), never converted unless it has at most three bytes.         *)
(* Integers carried by items (uint64, big.Int) are never converted at all:    *)
(* their value IS the canonical byte string.                                  *)
(******************************************************************************)
EXTENDS Integers, Sequences, FiniteSets, TLC

Byte   == 0..255
MaxLen == 16777215            \* 2^24 - 1

(******************************* items ****************************************)
\* uniform record shape (TLC refuses to compare values of different shapes)
S(b) == [k |-> "s", b |-> b, e |-> <<>>]        \* byte string
L(e) == [k |-> "l", b |-> <<>>, e |-> e]        \* list of items

\* n copies of byte x
Rep(x, n) == [i \in 1..n |-> x]

(**************************** natural numbers *********************************)
\* minimal big-endian representation ("BE" of the Yellow Paper); BE(0) = <<>>
RECURSIVE BE(_)
BE(n) == IF n = 0 THEN <<>> ELSE BE(n \div 256) \o <<n % 256>>

\* value of a big-endian byte sequence; only used when Len(bs) <= 3
RECURSIVE BEVal(_)
BEVal(bs) == IF bs = <<>> THEN 0 ELSE BEVal(SubSeq(bs, 1, Len(bs) - 1)) * 256 + bs[Len(bs)]

\* declared size sb (big-endian, first byte non-zero) compared with a real length n <= MaxLen
Huge(sb)      == Len(sb) > 3
SizeGT(sb, n) == Huge(sb) \/ BEVal(sb) > n
\* value of sb below a small constant c <= 256 (sb may have a zero first byte only when Len = 1)
ValLT(sb, c)  == Len(sb) = 0 \/ (Len(sb) = 1 /\ sb[1] < c)

(******************************** encoding ************************************)
\* header for a payload of n bytes; base 128 (0x80) for strings, 192 (0xC0) for lists
Hdr(base, n) == IF n < 56 THEN <<base + n>>
                ELSE LET l == BE(n) IN <<base + 55 + Len(l)>> \o l

RECURSIVE Enc(_), EncSeq(_)
Enc(x) == IF x.k = "s"
          THEN IF Len(x.b) = 1 /\ x.b[1] < 128 THEN x.b        \* a single byte < 0x80 is its own encoding
               ELSE Hdr(128, Len(x.b)) \o x.b
          ELSE LET p == EncSeq(x.e) IN Hdr(192, Len(p)) \o p
EncSeq(es) == IF es = <<>> THEN <<>> ELSE Enc(Head(es)) \o EncSeq(Tail(es))

(*********************** raw.go: slice based header parser ********************)
\* kinds: "b" Byte (single byte < 0x80), "s" String, "l" List
\* error classes (the exported errors of the package):
\*   "unexpected_eof" io.ErrUnexpectedEOF     "canon_size" ErrCanonSize
\*   "too_large"      ErrValueTooLarge
RK(err, k, ts, cs) == [err |-> err, k |-> k, ts |-> ts, cs |-> cs]

\* readSize(b, slen): b = the bytes after the tag
ReadSize(b, ll) ==
  IF ll > Len(b) THEN [err |-> "unexpected_eof", sb |-> <<>>]
  ELSE LET sb == SubSeq(b, 1, ll) IN
       \* "s < 56 || b[0] == 0": a value < 56 written with >= 2 bytes has a zero first byte
       IF sb[1] = 0 \/ (ll = 1 /\ sb[1] < 56) THEN [err |-> "canon_size", sb |-> sb]
       ELSE [err |-> "ok", sb |-> sb]

\* readKind(buf) -> (kind, tagsize, contentsize, err)
ReadKind(buf) ==
  IF buf = <<>> THEN RK("unexpected_eof", "b", 0, 0)
  ELSE
    LET t == buf[1]
        avail(ts) == Len(buf) - ts
        Short(k, n) == IF n > avail(1) THEN RK("too_large", k, 0, 0) ELSE RK("ok", k, 1, n)
        Long(k, ll) == LET r == ReadSize(Tail(buf), ll) IN
                       IF r.err # "ok" THEN RK(r.err, k, 0, 0)
                       ELSE IF SizeGT(r.sb, avail(ll + 1)) THEN RK("too_large", k, 0, 0)
                       ELSE RK("ok", k, ll + 1, BEVal(r.sb))
    IN IF t < 128 THEN RK("ok", "b", 0, 1)
       ELSE IF t < 184 THEN
            \* "Reject strings that should've been single bytes" - tested before the size
            IF t = 129 /\ Len(buf) > 1 /\ buf[2] < 128 THEN RK("canon_size", "s", 0, 0)
            ELSE Short("s", t - 128)
       ELSE IF t < 192 THEN Long("s", t - 183)
       ELSE IF t < 248 THEN Short("l", t - 192)
       ELSE Long("l", t - 247)

Content(buf, h) == SubSeq(buf, h.ts + 1, h.ts + h.cs)
Rest(buf, h)    == SubSeq(buf, h.ts + h.cs + 1, Len(buf))

\* Split / SplitString / SplitList: [err, k, c (content), r (rest)]
SplitRes(err, k, c, r) == [err |-> err, k |-> k, c |-> c, r |-> r]
Split(buf) == LET h == ReadKind(buf) IN
              IF h.err # "ok" THEN SplitRes(h.err, "b", <<>>, buf)
              ELSE SplitRes("ok", h.k, Content(buf, h), Rest(buf, h))
SplitString(buf) == LET r == Split(buf) IN
                    IF r.err = "ok" /\ r.k = "l" THEN SplitRes("expected_string", "b", <<>>, buf) ELSE r
SplitList(buf)   == LET r == Split(buf) IN
                    IF r.err = "ok" /\ r.k # "l" THEN SplitRes("expected_list", "b", <<>>, buf) ELSE r

\* SplitUint64: [err, v (canonical bytes of the value), r]
SplitUint64(buf) ==
  LET r == SplitString(buf) IN
  IF r.err # "ok" THEN [err |-> r.err, v |-> <<>>, r |-> buf]
  ELSE IF Len(r.c) = 0 THEN [err |-> "ok", v |-> <<>>, r |-> r.r]
  ELSE IF Len(r.c) = 1 THEN IF r.c[1] = 0 THEN [err |-> "canon_int", v |-> <<>>, r |-> buf]
                            ELSE [err |-> "ok", v |-> r.c, r |-> r.r]
  ELSE IF Len(r.c) > 8 THEN [err |-> "uint_overflow", v |-> <<>>, r |-> buf]
  \* readSize(content, len): rejects a zero first byte (its "value < 56" clause is implied by it
  \* for two or more bytes)
  ELSE IF r.c[1] = 0 THEN [err |-> "canon_int", v |-> <<>>, r |-> buf]
  ELSE [err |-> "ok", v |-> r.c, r |-> r.r]

\* CountValues: [err, n]
RECURSIVE CountValues(_)
CountValues(buf) ==
  IF buf = <<>> THEN [err |-> "ok", n |-> 0]
  ELSE LET h == ReadKind(buf) IN
       IF h.err # "ok" THEN [err |-> h.err, n |-> 0]
       ELSE LET c == CountValues(Rest(buf, h)) IN
            IF c.err # "ok" THEN c ELSE [err |-> "ok", n |-> c.n + 1]

(************************ iterator.go: listIterator ***************************)
\* NewListIterator(data) followed by  for it.Next() { it.Value(); if it.Err() != nil { break } }
\*   err   class of NewListIterator's error ("ok" if none)
\*   n     number of values delivered without error
\*   ierr  "ok" if the loop ended because the data was used up, else the class of it.Err()
\* (IteratorStuck: after an error Next() keeps returning true without advancing; a caller that does
\*  not test Err() loops forever.  C16 does not speak about it; the driver stops at the first error.)
RECURSIVE IterLoop(_, _)
IterLoop(data, n) ==
  IF data = <<>> THEN [n |-> n, ierr |-> "ok"]
  ELSE LET h == ReadKind(data) IN
       IF h.err # "ok" THEN [n |-> n, ierr |-> h.err] ELSE IterLoop(Rest(data, h), n + 1)
ListIter(buf) ==
  LET h == ReadKind(buf) IN
  IF h.err # "ok" THEN [err |-> h.err, n |-> 0, ierr |-> "ok"]
  ELSE IF h.k # "l" THEN [err |-> "expected_list", n |-> 0, ierr |-> "ok"]
  ELSE LET r == IterLoop(Content(buf, h), 0) IN [err |-> "ok", n |-> r.n, ierr |-> r.ierr]

(*************************** the canonical decoder ****************************)
\* DecItem(buf): one item from the front of buf: [err, it, n (bytes consumed)]
\* DecSeq(buf) : buf is exactly a concatenation of encodings: [err, es]
\* Dec(buf)    : buf is exactly one encoding: [err, it]
\* additional error class: "trailing" (ErrMoreThanOneValue)
NoItem == S(<<>>)
RECURSIVE DecItem(_), DecSeq(_)
DecItem(buf) ==
  LET h == ReadKind(buf) IN
  IF h.err # "ok" THEN [err |-> h.err, it |-> NoItem, n |-> 0]
  ELSE IF h.k # "l" THEN [err |-> "ok", it |-> S(Content(buf, h)), n |-> h.ts + h.cs]
  ELSE LET r == DecSeq(Content(buf, h)) IN
       IF r.err # "ok" THEN [err |-> r.err, it |-> NoItem, n |-> 0]
       ELSE [err |-> "ok", it |-> L(r.es), n |-> h.ts + h.cs]
DecSeq(buf) ==
  IF buf = <<>> THEN [err |-> "ok", es |-> <<>>]
  ELSE LET r == DecItem(buf) IN
       IF r.err # "ok" THEN [err |-> r.err, es |-> <<>>]
       ELSE LET t == DecSeq(SubSeq(buf, r.n + 1, Len(buf))) IN
            IF t.err # "ok" THEN t ELSE [err |-> "ok", es |-> <<r.it>> \o t.es]
Dec(buf) == LET r == DecItem(buf) IN
            IF r.err # "ok" THEN [err |-> r.err, it |-> NoItem]
            ELSE IF r.n < Len(buf) THEN [err |-> "trailing", it |-> NoItem]
            ELSE [err |-> "ok", it |-> r.it]

\* --- the property on the definitional level -------------------------------------------------
RoundTrip(x)  == Dec(Enc(x)) = [err |-> "ok", it |-> x]
Canonical(b)  == Dec(b).err = "ok" => Enc(Dec(b).it) = b
\* ReadKind agrees with the encoder on the outermost header
HeaderExact(x) == LET b == Enc(x) h == ReadKind(b) IN
                  /\ h.err = "ok" /\ h.ts + h.cs = Len(b)
                  /\ (h.k = "l") = (x.k = "l")
                  /\ (x.k = "s" => Content(b, h) = x.b)

(***************************** canonical integers *****************************)
\* an integer is the string BE(value): no leading zero byte (so 0 is the empty string)
CanonInt(b) == Len(b) = 0 \/ b[1] # 0

(******************* well-formed NON-canonical encodings **********************)
\* forms: "wrap"  single byte < 0x80 written as 0x81 xx
\*        "long"  payload < 56 bytes written in long form with one length byte (b8 nn / f8 nn)
\*        "lz"    long form whose length has one extra leading zero byte
\* and one form that is the CANONICAL encoding of another string - the same number written with a
\* leading zero digit - which every integer decoder must refuse and every byte-string decoder accept:
\*        "izero" the string 00 || b
Payload(x) == IF x.k = "s" THEN x.b ELSE EncSeq(x.e)
Base(x)    == IF x.k = "s" THEN 128 ELSE 192
FormApplies(x, form) ==
  CASE form = "wrap" -> x.k = "s" /\ Len(x.b) = 1 /\ x.b[1] < 128
    [] form = "long" -> Len(Payload(x)) < 56
    [] form = "lz"   -> TRUE
    [] form = "izero" -> x.k = "s" /\ Len(x.b) >= 1
    [] OTHER         -> FALSE
HdrNC(base, n, form) ==
  IF form = "long" THEN <<base + 56, n>>
  ELSE LET l == IF n = 0 THEN <<0>> ELSE BE(n) IN <<base + 56 + Len(l), 0>> \o l     \* "lz"
EncNode(x, form) == LET p == Payload(x) IN
                    IF form = "wrap" THEN <<129>> \o p
                    ELSE IF form = "izero" THEN Enc(S(<<0>> \o p))
                    ELSE HdrNC(Base(x), Len(p), form) \o p

\* the encoding of x in which the node at `path` (sequence of child indices) has the given
\* non-canonical form and everything else, in particular every enclosing header, is canonical
RECURSIVE EncAt(_, _, _), EncSeqAt(_, _, _, _)
EncAt(x, path, form) ==
  IF path = <<>> THEN EncNode(x, form)
  ELSE LET p == EncSeqAt(x.e, 1, path, form) IN Hdr(192, Len(p)) \o p
EncSeqAt(es, i, path, form) ==
  IF i > Len(es) THEN <<>>
  ELSE (IF i = path[1] THEN EncAt(es[i], Tail(path), form) ELSE Enc(es[i])) \o EncSeqAt(es, i + 1, path, form)

\* positions inside wide lists: only the first two and the last child of a list with more than
\* four elements are visited when mutation positions are enumerated (the others are alike)
Kids(x) == IF Len(x.e) <= 4 THEN 1..Len(x.e) ELSE {1, 2, Len(x.e)}
RECURSIVE Paths(_)
Paths(x) == {<<>>} \cup (IF x.k = "l"
                         THEN UNION {{<<i>> \o p : p \in Paths(x.e[i])} : i \in Kids(x)}
                         ELSE {})
RECURSIVE At(_, _)
At(x, path) == IF path = <<>> THEN x ELSE At(x.e[path[1]], Tail(path))

(********************* mutations of the item itself ***************************)
\* one element more / one element less in the list at `path`.  The result is the canonical
\* encoding of ANOTHER item: the untyped decoders accept it, decoders of a fixed arity (structs,
\* arrays) must notice the surplus / missing element wherever it is nested.
RECURSIVE AddAt(_, _, _), DropAt(_, _)
AddAt(x, path, y) == IF path = <<>> THEN L(Append(x.e, y))
                     ELSE L([x.e EXCEPT ![path[1]] = AddAt(@, Tail(path), y)])
DropAt(x, path)   == IF path = <<>> THEN L(SubSeq(x.e, 1, Len(x.e) - 1))
                     ELSE L([x.e EXCEPT ![path[1]] = DropAt(@, Tail(path))])
ListPaths(x) == {p \in Paths(x) : At(x, p).k = "l"}

(************************ positions inside an encoding ************************)
\* Spans(x, off): for every node of x one record [o, hl, pl]: 1-based index of its first byte in
\* Enc(root), header length (0 for a self-encoded single byte) and payload length
HdrLen(x) == IF x.k = "s" /\ Len(x.b) = 1 /\ x.b[1] < 128 THEN 0 ELSE Len(Hdr(128, Len(Payload(x))))
RECURSIVE Spans(_, _), SpansSeq(_, _, _, _)
Spans(x, off) == {[o |-> off, hl |-> HdrLen(x), pl |-> Len(Payload(x))]}
                 \cup (IF x.k = "l" THEN SpansSeq(x, 1, off + HdrLen(x), Kids(x)) ELSE {})
SpansSeq(x, i, off, kids) ==
  IF i > Len(x.e) THEN {}
  ELSE (IF i \in kids THEN Spans(x.e[i], off) ELSE {}) \cup SpansSeq(x, i + 1, off + Len(Enc(x.e[i])), kids)

\* indices of all header bytes (tag and length bytes) of Enc(x)
HeaderIdx(x) == UNION {sp.o .. (sp.o + sp.hl - 1) : sp \in Spans(x, 1)}
\* prefix lengths at which truncation is tried: every one for short encodings, otherwise every
\* structural boundary (start of node, end of header, end of node) and its two neighbours
TruncPoints(x, every) ==
  LET n == Len(Enc(x)) IN
  IF n <= every THEN 0..(n - 1)
  ELSE {k \in UNION {{sp.o - 2, sp.o - 1, sp.o, sp.o + sp.hl - 2, sp.o + sp.hl - 1, sp.o + sp.hl,
                      sp.o + sp.hl + sp.pl - 2, sp.o + sp.hl + sp.pl - 1} : sp \in Spans(x, 1)}
          : k >= 0 /\ k < n}

(**************************** output compaction *******************************)
\* used only when printing: a byte sequence in which every run of four or more equal bytes is
\* replaced by the pair <<byte, count>>, e.g. <<248, 56, <<0, 56>>>>
\* length of the run that starts at i: doubling, then bisection (depth log n; runs may be 2^16 long)
AllEqC(s, c, a, b) == \A k \in a..b : s[k] = c
RECURSIVE RunGrow(_, _, _), RunFix(_, _, _, _), Rle(_, _)
\* s[i .. i+m-1] is known to be a run; try to double it
RunGrow(s, i, m) == IF i + 2 * m - 1 <= Len(s) /\ AllEqC(s, s[i], i + m, i + 2 * m - 1) THEN RunGrow(s, i, 2 * m) ELSE m
\* the run has at least lo and at most hi elements
RunFix(s, i, lo, hi) == IF lo = hi THEN lo
                        ELSE LET mid == (lo + hi + 1) \div 2 IN
                             IF AllEqC(s, s[i], i + lo, i + mid - 1) THEN RunFix(s, i, mid, hi) ELSE RunFix(s, i, lo, mid - 1)
RunLen(s, i) == LET m  == RunGrow(s, i, 1)
                    hi == IF i + 2 * m - 1 <= Len(s) THEN 2 * m - 1 ELSE Len(s) - i + 1
                IN RunFix(s, i, m, hi)
Rle(s, i) == IF i > Len(s) THEN <<>>
             ELSE LET n == RunLen(s, i) IN
                  IF n < 4 THEN <<s[i]>> \o Rle(s, i + 1) ELSE <<<<s[i], n>>>> \o Rle(s, i + n)
PB(s) == IF Len(s) < 4 THEN s ELSE Rle(s, 1)
RECURSIVE PItem(_), PItems(_)
PItem(x) == IF x.k = "s" THEN [s |-> PB(x.b)] ELSE [l |-> PItems(x.e)]
PItems(es) == IF es = <<>> THEN <<>> ELSE <<PItem(Head(es))>> \o PItems(Tail(es))
================================================================================
