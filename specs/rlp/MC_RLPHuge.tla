------------------------------- MODULE MC_RLPHuge ------------------------------
(******************************************************************************)
(* Generation (d) of C16: adversarial headers.  A long-form string or list     *)
(* header whose length field claims anything up to 2^64-1, followed by a few   *)
(* (or no) payload bytes, alone or as the only element of a list whose own     *)
(* header is honest; and the short-form headers that claim more than follows.  *)
(* The declared size is never converted to a TLC integer (RLP!SizeGT compares  *)
(* by length first).                                                           *)
(*                                                                            *)
(* Checked: the untyped and typed properties of every such string, that a      *)
(* claim exceeding what is there is rejected by every decoder (Overclaim), and *)
(* on the level of the stream transcription that no operation asks for a       *)
(* buffer larger than the input limit allows (AllocBounded: the `a` component  *)
(* of Bytes / Raw / BigInt).  The driver (TestHuge) additionally MEASURES the  *)
(* allocation of every real entry point on every string.                       *)
(******************************************************************************)
EXTENDS RLPSchemas, Json

CONSTANTS Firsts,    \* values of the first length byte
          Mids,      \* fill values of the middle length bytes
          Lasts,     \* values of the last length byte
          Pays,      \* numbers of payload bytes that follow the header
          Names

VARIABLES ph, tag, b, claim
vars == <<ph, tag, b, claim>>

LongTags  == (184..191) \cup (248..255)
ShortTags == {183, 247, 129, 130, 193, 194}
LL(t) == IF t < 192 THEN t - 183 ELSE t - 247

Init == ph = "seed" /\ tag \in LongTags \cup ShortTags /\ b = <<>> /\ claim = <<>>

SizeBytes(ll) == IF ll = 1 THEN {<<f>> : f \in Firsts \cup Lasts}
                 ELSE {<<f>> \o Rep(m, ll - 2) \o <<l>> : f \in Firsts, m \in Mids, l \in Lasts}
\* the string alone, or as the single element of an honest list, or after an honest first element
Wrapped(core) == {core, Hdr(192, Len(core)) \o core, Hdr(192, Len(core) + 1) \o <<5>> \o core}

Gen == /\ ph = "seed" /\ ph' = "gen" /\ tag' = tag
       /\ \E k \in Pays :
            IF tag \in LongTags
            THEN \E sb \in SizeBytes(LL(tag)) : \E w \in Wrapped(<<tag>> \o sb \o Rep(129, k)) : b' = w /\ claim' = sb
            ELSE \E w \in Wrapped(<<tag>> \o Rep(129, k)) : b' = w /\ claim' = <<tag % 64>>
Next == Gen
Spec == Init /\ [][Next]_vars

(******************************** invariants **********************************)
\* a claim of four or more length bytes exceeds every input of a model: nothing may accept it
Overclaim == (ph = "gen" /\ Huge(claim)) =>
                /\ Dec(b).err # "ok" /\ DecodeBytesWalk(b).err # "ok"
                \* RawValue looks at the outermost header only (RawShallow): it must refuse the bare
                \* string, and lets it pass inside an honest list
                /\ (b[1] = tag => DecodeBytesT(TRaw, b).err # "ok" /\ Split(b).err # "ok")
                /\ \A n \in Names : HasRaw(Schema(n)) \/ DecodeBytesT(Schema(n), b).err # "ok"
\* buffers requested by the stream operations, at top level and inside the outer list
AllocBounded ==
  ph = "gen" =>
    LET s0 == NewStream(b, Len(b))
        l  == List(s0)
        ok(st) == /\ Bytes(st).a <= Len(b) /\ Raw(st).a <= Len(b) + 9 /\ BigInt(st).a <= Len(b)
    IN ok(s0) /\ (l.err = "ok" => ok(l.s) /\ (LET r == Raw(l.s) IN r.err = "ok" => ok(r.s)))
Inv == (ph = "gen" => UntypedInv(b) /\ TypedInv(Names, b)) /\ Overclaim /\ AllocBounded

(********************************** dump **************************************)
Dump == PrintT(ToJson([b  |-> PB(b'),
                       cl |-> claim',
                       u  |-> UntypedOut(b'),
                       ty |-> [n \in Names |-> TOut(n, b')]]))
================================================================================
