------------------------------ MODULE RLPSchemas -------------------------------
(******************************************************************************)
(* The FIXED schema set of the C16 check and the boundary values TLC chooses   *)
(* for it.  Every name below has a Go type of the same name in                 *)
(* harness/rlp/schemas.go (the driver builds the Go value from the abstract    *)
(* value by reflection, and reads it back the same way).                       *)
(*                                                                            *)
(*   scalars     u8 u16 u32 u64 big bool bytes string arr1 arr2 arr20 raw iface*)
(*   composite   Inner  struct{X uint64; Y []byte}                             *)
(*               Nested struct{A uint64; I Inner; B string}                    *)
(*               OptS   struct{A uint64; B uint64 `optional`; C *big.Int `optional`} *)
(*               OptP   struct{A uint64; P *big.Int `optional`; Q *[2]byte `optional`} *)
(*               TailS  struct{A uint64; R []uint64 `tail`}                    *)
(*               NilS   struct{P *[20]byte `nil`; Q *Inner `nil`; U *uint64 `nil`; L *[]uint64 `nil`} *)
(*               NilX   struct{Q *Inner `nilString`; U *uint64 `nilList`}      *)
(*               PtrS   struct{U *uint64; I *Inner}                            *)
(*               Rows   []Inner              ArrU  [2]uint64                   *)
(*   ignored fields (rlp:"-" and unexported) at every position relative to     *)
(*   optional / tail / nil-tagged fields - before, between, after, several in  *)
(*   a row (lower case = unexported; the sample values give an ignored field   *)
(*   the OPPOSITE zero-ness of its neighbours):                                *)
(*               IgA    struct{A uint64; Cache uint64 `-`; B, C uint64 `optional`}       *)
(*               IgB    struct{hidden uint64; A uint64; x uint64; y bool;      *)
(*                             B *big.Int `optional`; z uint64; C uint64 `optional`; W uint64 `-`} *)
(*               IgT    struct{X uint64 `-`; A uint64; h uint64; R []uint64 `tail`; t uint64} *)
(*               IgN    struct{c uint64; P *uint64 `nil`; Skip uint64 `-`; Q *Inner `nil`; d bool} *)
(*               OptIn  struct{X uint64; Cache uint64 `-`; Y uint64 `optional`} *)
(*               IgE    struct{A uint64; OptIn (embedded); n uint64; P *OptIn `nil`; Z uint64 `optional`} *)
(*               OnlyOpt struct{O uint64 `optional`}   (the only exported field is optional) *)
(*               IgOnly struct{h uint64; O uint64 `optional`; T uint64 `-`}    *)
(*   chain types (the wire structs of /repo/types, field by field)             *)
(*               tx        types.txdata (Transaction)                          *)
(*               log       types.rlpLog (Log, LogForStorage)                   *)
(*               receipt   types.receiptRLP (consensus encoding of Receipt)    *)
(*               sreceipt  types.receiptStorageRLP (ReceiptForStorage)         *)
(*               blockinfo types.storageBlockInfo (BlockInfo: what rawdb stores for  *)
(*                         a block: gas used, rewards, storage receipts, bloom)*)
(*               account   types.StateAccount      slim  types.SlimAccount     *)
(*               header    types.Header through its generated EncodeRLP        *)
(*                         (time.Time has no exported field: an empty list)    *)
(******************************************************************************)
EXTENDS RLPTyped

U8  == TUint(1)
U16 == TUint(2)
U32 == TUint(4)
U64 == TUint(8)
PBig == TPtr(TBig, "no")          \* *big.Int where nil matters (optional fields)

Inner  == TStruct(<<F(U64), F(TBytes)>>)
Nested == TStruct(<<F(U64), F(Inner), F(TBytes)>>)
OptS   == TStruct(<<F(U64), FOpt(U64), FOpt(PBig)>>)
OptP   == TStruct(<<F(U64), FOpt(PBig), FOpt(TPtr(TArr(2), "no"))>>)
TailS  == TStruct(<<F(U64), FTail(U64)>>)
NilS   == TStruct(<<F(TPtr(TArr(20), "s")), F(TPtr(Inner, "l")), F(TPtr(U64, "s")), F(TPtr(TSlice(U64), "l"))>>)
NilX   == TStruct(<<F(TPtr(Inner, "s")), F(TPtr(U64, "l"))>>)
PtrS   == TStruct(<<F(TPtr(U64, "no")), F(TPtr(Inner, "no"))>>)
Rows   == TSlice(Inner)
ArrU   == TLArr(2, U64)
\* pointers to every kind, in every position.  NilKind (RLPTyped) says which empty value a nil
\* pointer is written as: 0x80 for *bool, *uintN, *big.Int, *string, *[N]byte, *[]byte; 0xC0 for
\* a pointer to a struct or to a list; a tag overrides it - except on *big.Int, which has its own
\* reader / writer that ignore the tags (BigP: the same schema in all positions).
PtrKinds(nk) == <<F(TPtr(TBool, nk)), F(TPtr(U8, nk)), F(TPtr(U16, nk)), F(TPtr(U32, nk)), F(TPtr(U64, nk)), F(PBig),
                  F(TPtr(TBytes, nk)), F(TPtr(TArr(2), nk)), F(TPtr(TBytes, nk)), F(TPtr(Inner, nk)), F(TPtr(TSlice(U64), nk))>>
PtrPlain == TStruct(PtrKinds("no"))
\* rlp:"nil": the default kind of the element
PtrNil   == TStruct(<<F(TPtr(TBool, "s")), F(TPtr(U8, "s")), F(TPtr(U16, "s")), F(TPtr(U32, "s")), F(TPtr(U64, "s")), F(PBig),
                      F(TPtr(TBytes, "s")), F(TPtr(TArr(2), "s")), F(TPtr(TBytes, "s")), F(TPtr(Inner, "l")), F(TPtr(TSlice(U64), "l"))>>)
PtrNilS  == TStruct(PtrKinds("s"))
PtrNilL  == TStruct(PtrKinds("l"))
PtrOpt   == TStruct(<<F(U64), FOpt(TPtr(TBool, "no")), FOpt(TPtr(U8, "no")), FOpt(TPtr(U16, "no")), FOpt(TPtr(U32, "no")),
                      FOpt(TPtr(U64, "no")), FOpt(PBig), FOpt(TPtr(TBytes, "no")), FOpt(TPtr(TArr(2), "no")),
                      FOpt(TPtr(TBytes, "no")), FOpt(TPtr(Inner, "no")), FOpt(TPtr(TSlice(U64), "no"))>>)
\* the seeded example: struct{N uint64; Active *bool; Name string}
PtrB     == TStruct(<<F(U64), F(TPtr(TBool, "no")), F(TBytes)>>)
\* slices of multi-byte elements (allocation per decoded element, MC_RLPLists)
SU64   == TSlice(U64)
SArr32 == TSlice(TArr(32))
SPtr   == TSlice(TPtr(Inner, "no"))
SBig   == TSlice(TBig)

IgA    == TStruct(<<F(U64), FIgn(U64), FOpt(U64), FOpt(U64)>>)
IgB    == TStruct(<<FIgn(U64), F(U64), FIgn(U64), FIgn(TBool), FOpt(PBig), FIgn(U64), FOpt(U64), FIgn(U64)>>)
IgT    == TStruct(<<FIgn(U64), F(U64), FIgn(U64), FTail(U64), FIgn(U64)>>)
IgN    == TStruct(<<FIgn(U64), F(TPtr(U64, "s")), FIgn(U64), F(TPtr(Inner, "l")), FIgn(TBool)>>)
OptIn  == TStruct(<<F(U64), FIgn(U64), FOpt(U64)>>)
IgE    == TStruct(<<F(U64), F(OptIn), FIgn(U64), F(TPtr(OptIn, "l")), FOpt(U64)>>)
OnlyOpt == TStruct(<<FOpt(U64)>>)
IgOnly == TStruct(<<FIgn(U64), FOpt(U64), FIgn(U64)>>)

Hash == TArr(32)
Addr == TArr(20)
TxData   == TStruct(<<F(U64), F(TBig), F(U64), F(TPtr(Addr, "s")), F(TBig), F(TBytes), F(TBig), F(TBig), F(TBig)>>)
LogT     == TStruct(<<F(Addr), F(TSlice(Hash)), F(TBytes)>>)
Receipt  == TStruct(<<F(TBytes), F(U64), F(TArr(256)), F(TSlice(LogT))>>)
SReceipt == TStruct(<<F(TBytes), F(U64), F(TArr(256)), F(Hash), F(Addr), F(TSlice(LogT)), F(U64)>>)
BlockInfo == TStruct(<<F(U64), F(TBig), F(TSlice(SReceipt)), F(TArr(256))>>)
Account  == TStruct(<<F(U64), F(TBig), F(Hash), F(TBytes)>>)
Slim     == TStruct(<<F(U64), F(TBig), F(TBytes), F(TBytes)>>)
BlockID  == TStruct(<<F(Hash), F(TStruct(<<F(U32), F(Hash)>>))>>)
Header   == TStruct(<<F(U64), F(TStruct(<<>>)), F(U64), F(U64), F(BlockID), F(Addr),
                      F(Hash), F(Hash), F(Hash), F(Hash), F(Hash), F(Hash), F(Hash)>>)

ScalarNames == <<"uint", "bigv", "u8", "u16", "u32", "u64", "big", "bool", "bytes", "string", "arr1", "arr2", "arr20", "raw", "iface">>
StructNames == <<"Inner", "Nested", "OptS", "OptP", "TailS", "NilS", "NilX", "PtrS", "Rows", "ArrU",
                 "IgA", "IgB", "IgT", "IgN", "OptIn", "IgE", "OnlyOpt", "IgOnly",
                 "pbool", "pu16", "pstr", "pInner", "PtrPlain", "PtrNil", "PtrNilS", "PtrNilL", "PtrOpt", "PtrB",
                 "SU64", "SArr32", "SPtr", "SBig">>
ChainNames  == <<"tx", "log", "receipt", "sreceipt", "blockinfo", "account", "slim", "header">>

Schema(name) ==
  CASE name = "u8" -> U8 [] name = "u16" -> U16 [] name = "u32" -> U32 [] name = "u64" -> U64
    [] name = "uint" -> U64 [] name = "bigv" -> TBig          \* Go uint (64 bit), big.Int by value
    [] name = "big" -> TBig [] name = "bool" -> TBool
    [] name = "bytes" -> TBytes [] name = "string" -> TBytes
    [] name = "arr1" -> TArr(1) [] name = "arr2" -> TArr(2) [] name = "arr20" -> TArr(20)
    [] name = "raw" -> TRaw [] name = "iface" -> TIface
    [] name = "Inner" -> Inner [] name = "Nested" -> Nested [] name = "OptS" -> OptS [] name = "OptP" -> OptP
    [] name = "TailS" -> TailS [] name = "NilS" -> NilS [] name = "NilX" -> NilX [] name = "PtrS" -> PtrS
    [] name = "Rows" -> Rows [] name = "ArrU" -> ArrU
    [] name = "IgA" -> IgA [] name = "IgB" -> IgB [] name = "IgT" -> IgT [] name = "IgN" -> IgN
    [] name = "OptIn" -> OptIn [] name = "IgE" -> IgE [] name = "OnlyOpt" -> OnlyOpt [] name = "IgOnly" -> IgOnly
    [] name = "pbool" -> TPtr(TBool, "no") [] name = "pu16" -> TPtr(U16, "no") [] name = "pstr" -> TPtr(TBytes, "no")
    [] name = "pInner" -> TPtr(Inner, "no")
    [] name = "PtrPlain" -> PtrPlain [] name = "PtrNil" -> PtrNil [] name = "PtrNilS" -> PtrNilS [] name = "PtrNilL" -> PtrNilL
    [] name = "PtrOpt" -> PtrOpt [] name = "PtrB" -> PtrB
    [] name = "SU64" -> SU64 [] name = "SArr32" -> SArr32 [] name = "SPtr" -> SPtr [] name = "SBig" -> SBig
    [] name = "tx" -> TxData [] name = "log" -> LogT [] name = "receipt" -> Receipt
    [] name = "sreceipt" -> SReceipt [] name = "blockinfo" -> BlockInfo [] name = "account" -> Account [] name = "slim" -> Slim
    [] name = "header" -> Header

(************************* boundary values chosen by TLC **********************)
\* Integers ARE their big-endian digit strings (base 256), so every power of 256 and its two
\* neighbours can be written down without arithmetic:
\*     256^k - 1 = ff..ff (k digits)   256^k = 01 00..00 (k zeros)   256^k + 1 = 01 00..00 01
\* (the encoder's putint / intsize and the decoders' size switches branch exactly there).
P256m(k) == Rep(255, k)
P256(k)  == <<1>> \o Rep(0, k)
P256p(k) == <<1>> \o Rep(0, k - 1) \o <<1>>
\* an n-byte unsigned type: 0, 1, 0x7f, 0x80 and, for every k, the three numbers as far as they fit
UintVals(n) == {<<>>, <<1>>, <<127>>, <<128>>}
               \cup {P256m(k) : k \in 1..n} \cup {P256(k) : k \in 1..(n - 1)} \cup {P256p(k) : k \in 1..(n - 1)}
\* big.Int: the same for k = 1..9 (k = 8: 2^64 - 1, 2^64, 2^64 + 1), 16 and 32 (32 bytes is the
\* size of Stream.uintbuf), and a 56-byte number (long header)
BigVals == UintVals(8) \cup UNION {{P256m(k), P256(k), P256p(k)} : k \in {8, 9, 16, 32}} \cup {Rep(127, 56)}
BytesVals == {<<>>, <<0>>, <<127>>, <<128>>, <<0, 0>>, Rep(1, 55), Rep(0, 56)}
ArrVals(n) == IF n = 1 THEN {<<0>>, <<127>>, <<128>>, <<255>>}
              ELSE {Rep(0, n), Rep(255, n), <<1>> \o Rep(0, n - 1), Rep(0, n - 1) \o <<1>>}

\* Pick(sc, j): a fixed sample of the schema; j = 1 "zero-like", j = 2 "typical"
RECURSIVE Pick(_, _), PickFields(_, _, _)
Pick(sc, j) ==
  CASE sc.t = "uint"  -> IF j = 1 THEN <<>> ELSE <<128>>
    [] sc.t = "big"   -> IF j = 1 THEN <<>> ELSE <<1, 0>>
    [] sc.t = "bool"  -> j = 2
    [] sc.t = "bytes" -> IF j = 1 THEN <<>> ELSE <<128, 1>>
    [] sc.t = "arr"   -> IF j = 1 THEN Rep(0, sc.n) ELSE Rep(255, sc.n)
    [] sc.t = "raw"   -> IF j = 1 THEN <<128>> ELSE <<193, 5>>
    [] sc.t = "iface" -> IF j = 1 THEN S(<<>>) ELSE L(<<S(<<1>>)>>)
    [] sc.t = "slice" -> IF j = 1 THEN <<>> ELSE <<Pick(sc.e, 2), Pick(sc.e, 1)>>
    [] sc.t = "larr"  -> [i \in 1..sc.n |-> Pick(sc.e, j)]
    [] sc.t = "ptr"   -> IF j = 1 THEN (IF sc.nk = "no" THEN PVal(Pick(sc.e, 1)) ELSE NilV) ELSE PVal(Pick(sc.e, 2))
    [] sc.t = "struct" -> PickFields(sc.f, 1, j)
PickFields(fs, i, j) ==
  IF i > Len(fs) THEN <<>>
  ELSE <<CASE fs[i].tag = "tail" -> IF j = 1 THEN <<>> ELSE <<Pick(fs[i].s, 2)>>
           \* an ignored field is non-zero in the zero-like sample and zero in the typical one
           [] fs[i].tag = "ign" -> Pick(fs[i].s, 3 - j)
           [] fs[i].tag = "opt" /\ fs[i].s.t = "ptr" /\ j = 1 -> NilV
           [] OTHER -> Pick(fs[i].s, j)>> \o PickFields(fs, i + 1, j)

\* Rich(sc): the boundary set of a schema.  Structs: every field in turn runs through its own
\* boundary set while the others stay at the "zero-like" or at the "typical" sample.
RECURSIVE Rich(_)
Rich(sc) ==
  CASE sc.t = "uint"  -> UintVals(sc.n)
    [] sc.t = "big"   -> BigVals
    [] sc.t = "bool"  -> BOOLEAN
    [] sc.t = "bytes" -> BytesVals
    [] sc.t = "arr"   -> ArrVals(sc.n)
    [] sc.t = "raw"   -> {<<128>>, <<5>>, <<192>>, <<193, 5>>, <<130, 1, 2>>}
    [] sc.t = "iface" -> {S(<<>>), S(<<5>>), S(<<128>>), L(<<>>), L(<<S(<<1>>), L(<<>>)>>)}
    [] sc.t = "slice" -> {<<>>} \cup {<<x>> : x \in Rich(sc.e)}
                         \cup {<<Pick(sc.e, 2), Pick(sc.e, 1)>>, <<Pick(sc.e, 2), Pick(sc.e, 2), Pick(sc.e, 2)>>}
    [] sc.t = "larr"  -> UNION {{[Pick(sc, j) EXCEPT ![i] = x] : x \in Rich(sc.e)} : i \in 1..sc.n, j \in {1, 2}}
    [] sc.t = "ptr"   -> {NilV} \cup {PVal(x) : x \in Rich(sc.e)}
    [] sc.t = "struct" ->
         IF sc.f = <<>> THEN {<<>>}
         ELSE UNION {{[Pick(sc, j) EXCEPT ![i] = x] :
                        x \in IF sc.f[i].tag = "tail"
                              THEN {<<>>, <<Pick(sc.f[i].s, 2), Pick(sc.f[i].s, 1)>>} \cup {<<y>> : y \in Rich(sc.f[i].s)}
                              ELSE Rich(sc.f[i].s)}
                     : i \in 1..Len(sc.f), j \in {1, 2}}

(********************* the properties of one byte string **********************)
\* Canonical       Dec accepts only encodings: Dec(bb) = x  =>  Enc(x) = bb
\* WalkAgrees      the streaming decoder (DecodeBytes into interface{}) = Dec
\* WalkFirstAgrees rlp.Decode(reader) reads ONE value, strictly, and leaves the rest
\* SplitAgrees     raw.go: an accepted string has a valid outermost header spanning it and counts
\*                 as one value; for strings the header parser alone is as strict as Dec; for a
\*                 list Split accepts whatever the payload is and Dec decides on the payload
\* SplitUintAgrees SplitUint64 = typed decoding into uint64
\* IterAgrees      the list iterator delivers exactly the elements CountValues counts
\* RawIdentity     RawValue: header check only, identity on what it accepts
UntypedInv(bb) ==
  LET d  == Dec(bb)
      d1 == DecItem(bb)
      w  == Walk(NewStream(bb, Len(bb)))
      h  == ReadKind(bb)
      c  == CountValues(bb)
      u  == SplitUint64(bb)
      o  == DecodeBytesT(U64, bb)
      li == ListIter(bb)
      whole == h.err = "ok" /\ h.ts + h.cs = Len(bb)
  IN /\ (d.err = "ok" => Enc(d.it) = bb)
     /\ (w.err = "ok") = (d1.err = "ok")
     /\ (d1.err = "ok" => w.v = d1.it /\ w.s.pos = d1.n)
     /\ (d.err = "ok") = (d1.err = "ok" /\ d1.n = Len(bb))
     /\ (d.err = "ok" => d.it = d1.it /\ DecodeBytesWalk(bb) = d)
     /\ (d.err = "ok" => whole /\ c = [err |-> "ok", n |-> 1])
     /\ (whole /\ h.k # "l" => d.err = "ok" /\ d.it = S(Content(bb, h)))
     /\ (whole /\ h.k = "l" => (d.err = "ok") = (DecSeq(Content(bb, h)).err = "ok"))
     /\ (c.err = "ok" /\ c.n = 1 => whole)
     /\ (u.err = "ok" /\ u.r = <<>>) = (o.err = "ok")
     /\ (o.err = "ok" => u.v = o.v)
     /\ (li.err = "ok" => LET cc == CountValues(Content(bb, h)) IN
                           (li.ierr = "ok") = (cc.err = "ok") /\ (cc.err = "ok" => li.n = cc.n))
     /\ RawIdentity(bb)
\* TypedAgree /\ TypedCanonical for every schema name in names
TypedInv(names, bb) == LET d == Dec(bb) IN \A n \in names : TypedAll(Schema(n), bb, d)

(********************* what is printed about a byte string ********************)
\* everything the untyped entry points must return for the byte string bb
UntypedOut(bb) ==
  [d  |-> LET d == Dec(bb) IN IF d.err = "ok" THEN [e |-> "ok", it |-> PItem(d.it)] ELSE [e |-> d.err, it |-> 0],
   d1 |-> LET d == DecItem(bb) IN [e |-> d.err, n |-> d.n],
   sp |-> LET r == Split(bb) IN [e |-> r.err, k |-> r.k, c |-> Len(r.c), r |-> Len(r.r)],
   cv |-> LET c == CountValues(bb) IN [e |-> c.err, n |-> c.n],
   su |-> LET u == SplitUint64(bb) IN [e |-> u.err, v |-> u.v, r |-> Len(u.r)],
   li |-> LET l == ListIter(bb) IN [e |-> l.err, n |-> l.n, ie |-> l.ierr],
   rw |-> LET o == DecodeBytesT(TRaw, bb) IN [e |-> o.err]]
\* the typed result for schema name n:
\*   e1, n  rlp.Decode(reader, &v): class and number of bytes consumed (one value, the rest stays)
\*   e, v   rlp.DecodeBytes(bb, &v): class (adds "trailing") and value
\*   c      is the input THE encoding of that value (FALSE only for deviation OptionalZero)
TOut(nm, bb) ==
  LET sc == Schema(nm)
      r  == OD(sc, NewStream(bb, Len(bb)))
      e  == IF r.err # "ok" THEN r.err ELSE IF r.s.pos < Len(bb) THEN "trailing" ELSE "ok"
  IN IF e = "ok" THEN [e |-> "ok", v |-> PV(sc, r.v), c |-> HasRaw(sc) \/ Enc(TE(sc, r.v)) = bb, e1 |-> "ok", n |-> r.s.pos]
     ELSE [e |-> e, v |-> 0, c |-> TRUE, e1 |-> r.err, n |-> r.s.pos]

\* receipts: the status field is one of the three forms setStatus accepts
StatusVals == {<<>>, <<1>>, Rep(171, 32)}
================================================================================
