------------------------------- MODULE RLPStream -------------------------------
(******************************************************************************)
(* The streaming decoder of lib/rlp/decode.go (type Stream), transcribed       *)
(* operation by operation.  Every public call is an operator                   *)
(*        Op(s, args) = [s |-> stream state after the call,                    *)
(*                       err |-> "ok" or the error class,                      *)
(*                       v   |-> the returned value,                           *)
(*                       a   |-> size of the buffer the call allocates]        *)
(* and mirrors the statements of the Go function of the same name, including   *)
(* the order of the checks and what has been consumed when an error is         *)
(* returned.  The private helpers (willRead, readByte, readFull, readUint,     *)
(* readKind) are transcribed too, because the input limit / list limit         *)
(* discipline lives there.                                                     *)
(*                                                                            *)
(* State of a stream (fields of the Go struct):                                *)
(*   in, pos      the underlying reader: all bytes, and how many were read     *)
(*   rem          s.remaining  (s.limited is always TRUE here, see below)      *)
(*   stack        s.stack: remaining size of every open list, innermost last   *)
(*   kind,size,kerr,bv   the cached header of the value ahead (s.kind = -1 is  *)
(*                "none"), s.size, s.kinderr, s.byteval                        *)
(*                                                                            *)
(* Deliberate deviations (named):                                              *)
(*   LimitedOnly  the models use streams with an input limit (DecodeBytes,     *)
(*                NewStream over bytes.Reader / with an explicit limit).       *)
(*                Without a limit (field lim = FALSE: rlp.Decode / NewStream(r,*)
(*                0) over a plain io.Reader, NewStreamU below) a STRING header *)
(*                makes Bytes / Raw / BigInt allocate what it claims           *)
(*                (documented at rlp.Decode); C16 speaks of "sizes within the  *)
(*                input limit".  A LIST header never sizes an allocation, with *)
(*                or without a limit: slices grow with the elements actually   *)
(*                decoded (decodeSliceElems: capacity 4, then +50%).  That is  *)
(*                what MC_RLPLists states, in both modes, with the bound       *)
(*                AllocBound below for the real allocation.                    *)
(*   HugeSize     a declared size of more than three bytes exceeds every       *)
(*                limit of a model; s.size is then recorded as 0 together      *)
(*                with the error (no operation reads s.size after an error).   *)
(*   WrapAround   uint64 subtraction below zero (List() subtracts the inner    *)
(*                size from the outer limit AFTER Kind() compared it with the  *)
(*                limit read BEFORE the header was consumed) yields the        *)
(*                constant Wrap, which is larger than every input.             *)
(*                                                                            *)
(* Error classes in addition to those of RLP.tla:                              *)
(*   "eof" io.EOF   "eol" EOL   "elem_too_large" ErrElemTooLarge               *)
(*   "canon_int" ErrCanonInt   "expected_string"   "expected_list"             *)
(*   "uint_overflow" errUintOverflow   "not_in_list"   "not_at_eol"            *)
(*   "bad_bool"   "wrong_size" (ReadBytes / byte arrays)                       *)
(******************************************************************************)
EXTENDS RLP

Wrap == 1073741824     \* 2^30, stands for 2^64 - k

NewStream(in, limit) ==
  [in |-> in, pos |-> 0, rem |-> limit, lim |-> TRUE, stack |-> <<>>,
   kind |-> "none", size |-> 0, kerr |-> "ok", bv |-> 0]
\* no input limit: s.limited = false (Reset with inputLimit 0 over a reader that is not a
\* bytes.Reader / bytes.Buffer / strings.Reader).  Declared sizes stay below 2^24 in the models.
NewStreamU(in) == [NewStream(in, 0) EXCEPT !.lim = FALSE]

\* The real allocation of ONE decoder call on an input of n bytes that decodes k elements into its
\* outermost slice (k = 0 for other targets) is specified to stay below
\*     AllocC2 + AllocC1 * n + AllocGrow * (k + 4) * (size of one element)
\* bytes: a fixed overhead (stream, reader buffer, reflection, error values), the bytes that are
\* copied out of the input, and the geometric growth of the slice - never a header's claim.
AllocC1   == 2
AllocC2   == 8192
AllocGrow == 6

InList(s) == Len(s.stack) > 0
Top(s)    == s.stack[Len(s.stack)]
USub(a, b) == IF a >= b THEN a - b ELSE Wrap

Res(s, err, v, a) == [s |-> s, err |-> err, v |-> v, a |-> a]

(******************************* private helpers ******************************)
\* willRead(n): "checks n against size limits, and updates the limits if n doesn't overflow them"
WillRead(s, n) ==
  LET s1 == [s EXCEPT !.kind = "none"] IN                               \* s.kind = -1 // rearm Kind
  IF InList(s1) /\ n > Top(s1) THEN [s |-> s1, err |-> "elem_too_large"]
  ELSE LET s2 == IF InList(s1) THEN [s1 EXCEPT !.stack[Len(s1.stack)] = @ - n] ELSE s1 IN
       IF ~s2.lim THEN [s |-> s2, err |-> "ok"]                         \* "if s.limited"
       ELSE IF n > s2.rem THEN [s |-> s2, err |-> "too_large"]
       ELSE [s |-> [s2 EXCEPT !.rem = @ - n], err |-> "ok"]

\* readByte
ReadByte(s) ==
  LET w == WillRead(s, 1) IN
  IF w.err # "ok" THEN Res(w.s, w.err, 0, 0)
  ELSE IF w.s.pos >= Len(w.s.in) THEN Res(w.s, "unexpected_eof", 0, 0)     \* reader at EOF
  ELSE Res([w.s EXCEPT !.pos = @ + 1], "ok", w.s.in[w.s.pos + 1], 0)

\* readFull(buf) with len(buf) = n
ReadFull(s, n) ==
  LET w == WillRead(s, n) IN
  IF w.err # "ok" THEN Res(w.s, w.err, <<>>, 0)
  ELSE IF w.s.pos + n > Len(w.s.in)
       THEN Res([w.s EXCEPT !.pos = Len(w.s.in)], "unexpected_eof", <<>>, 0)  \* short read
       ELSE Res([w.s EXCEPT !.pos = @ + n], "ok", SubSeq(w.s.in, w.s.pos + 1, w.s.pos + n), 0)

\* readUint(size): the value is returned as the bytes read (0 bytes = the number 0)
ReadUint(s, n) ==
  IF n = 0 THEN Res([s EXCEPT !.kind = "none"], "ok", <<>>, 0)
  ELSE IF n = 1 THEN LET r == ReadByte(s) IN Res(r.s, r.err, <<r.v>>, 0)      \* no zero check here
  ELSE LET r == ReadFull(s, n) IN
       IF r.err # "ok" THEN r
       ELSE IF r.v[1] = 0 THEN Res(r.s, "canon_size", <<>>, 0)                \* "buffer[start] == 0"
       ELSE r

\* readKind: [s, err, kind, size, huge]
KRes(s, err, kind, size, huge) == [s |-> s, err |-> err, kind |-> kind, size |-> size, huge |-> huge]
ReadKindS(s) ==
  LET r == ReadByte(s) IN
  IF r.err # "ok" THEN
       \* at top level the error becomes io.EOF ("used by callers to determine when to stop decoding")
       KRes(r.s, IF ~InList(r.s) /\ r.err \in {"unexpected_eof", "too_large"} THEN "eof" ELSE r.err, "b", 0, FALSE)
  ELSE
    LET s1 == [r.s EXCEPT !.bv = 0]
        t  == r.v
        Long(kind, ll) ==
          LET u == ReadUint(s1, ll) IN
          IF u.err # "ok" THEN KRes(u.s, u.err, kind, 0, FALSE)
          ELSE IF ValLT(u.v, 56) THEN KRes(u.s, "canon_size", kind, 0, FALSE)   \* "size < 56"
          ELSE IF Huge(u.v) THEN KRes(u.s, "ok", kind, 0, TRUE)
          ELSE KRes(u.s, "ok", kind, BEVal(u.v), FALSE)
    IN IF t < 128 THEN KRes([s1 EXCEPT !.bv = t], "ok", "b", 0, FALSE)
       ELSE IF t < 184 THEN KRes(s1, "ok", "s", t - 128, FALSE)
       ELSE IF t < 192 THEN Long("s", t - 183)
       ELSE IF t < 248 THEN KRes(s1, "ok", "l", t - 192, FALSE)
       ELSE Long("l", t - 247)

(********************************* public calls *******************************)
\* Kind(): [s, err, kind, size]
Kind(s) ==
  IF s.kind # "none" THEN [s |-> s, err |-> s.kerr, kind |-> s.kind, size |-> s.size]
  ELSE IF InList(s) /\ Top(s) = 0 THEN [s |-> s, err |-> "eol", kind |-> "b", size |-> 0]
  ELSE
    LET limit0 == IF InList(s) THEN Top(s) ELSE 0        \* listLimit is read BEFORE the header is consumed
        r      == ReadKindS(s)
        kerr   == IF r.err # "ok" THEN r.err
                  ELSE IF InList(s) /\ (r.huge \/ r.size > limit0) THEN "elem_too_large"
                  ELSE IF r.s.lim /\ (r.huge \/ r.size > r.s.rem) THEN "too_large"     \* s.remaining AFTER the header
                  ELSE "ok"
        s2     == [r.s EXCEPT !.kind = r.kind, !.size = r.size, !.kerr = kerr]
    IN [s |-> s2, err |-> kerr, kind |-> r.kind, size |-> r.size]

\* Bytes()
Bytes(s) ==
  LET k == Kind(s) IN
  IF k.err # "ok" THEN Res(k.s, k.err, <<>>, 0)
  ELSE IF k.kind = "b" THEN Res([k.s EXCEPT !.kind = "none"], "ok", <<k.s.bv>>, 0)
  ELSE IF k.kind = "s" THEN
       LET r == ReadFull(k.s, k.size) IN                       \* b := make([]byte, size)
       IF r.err # "ok" THEN Res(r.s, r.err, <<>>, k.size)
       ELSE IF k.size = 1 /\ r.v[1] < 128 THEN Res(r.s, "canon_size", <<>>, k.size)
       ELSE Res(r.s, "ok", r.v, k.size)
  ELSE Res(k.s, "expected_string", <<>>, 0)

\* ReadBytes(b) with len(b) = n
ReadBytes(s, n) ==
  LET k == Kind(s) IN
  IF k.err # "ok" THEN Res(k.s, k.err, <<>>, 0)
  ELSE IF k.kind = "b" THEN IF n # 1 THEN Res(k.s, "wrong_size", <<>>, 0)
                            ELSE Res([k.s EXCEPT !.kind = "none"], "ok", <<k.s.bv>>, 0)
  ELSE IF k.kind = "s" THEN
       IF n # k.size THEN Res(k.s, "wrong_size", <<>>, 0)
       ELSE LET r == ReadFull(k.s, n) IN
            IF r.err # "ok" THEN Res(r.s, r.err, <<>>, 0)
            ELSE IF k.size = 1 /\ r.v[1] < 128 THEN Res(r.s, "canon_size", <<>>, 0)
            ELSE Res(r.s, "ok", r.v, 0)
  ELSE Res(k.s, "expected_string", <<>>, 0)

\* Raw(): the value with a freshly written (canonical) header in front of the payload.
\* The payload is NOT inspected: a list's content may be anything, and 0x81 0x05 passes
\* (deviation RawShallow of RLPTyped.tla).
Raw(s) ==
  LET k == Kind(s) IN
  IF k.err # "ok" THEN Res(k.s, k.err, <<>>, 0)
  ELSE IF k.kind = "b" THEN Res([k.s EXCEPT !.kind = "none"], "ok", <<k.s.bv>>, 0)
  ELSE LET h == Hdr(IF k.kind = "s" THEN 128 ELSE 192, k.size)
           r == ReadFull(k.s, k.size)                          \* buf := make([]byte, headsize + size)
       IN IF r.err # "ok" THEN Res(r.s, r.err, <<>>, Len(h) + k.size)
          ELSE Res(r.s, "ok", h \o r.v, Len(h) + k.size)

\* uint(maxbits) with maxbytes = maxbits / 8; the value is its canonical big-endian string
Uint(s, maxbytes) ==
  LET k == Kind(s) IN
  IF k.err # "ok" THEN Res(k.s, k.err, <<>>, 0)
  ELSE IF k.kind = "b" THEN IF k.s.bv = 0 THEN Res(k.s, "canon_int", <<>>, 0)
                            ELSE Res([k.s EXCEPT !.kind = "none"], "ok", <<k.s.bv>>, 0)
  ELSE IF k.kind = "s" THEN
       IF k.size > maxbytes THEN Res(k.s, "uint_overflow", <<>>, 0)
       ELSE LET r == ReadUint(k.s, k.size) IN
            IF r.err = "canon_size" THEN Res(r.s, "canon_int", <<>>, 0)
            ELSE IF r.err # "ok" THEN Res(r.s, r.err, <<>>, 0)
            ELSE IF k.size > 0 /\ ValLT(r.v, 128) THEN Res(r.s, "canon_size", <<>>, 0)
            ELSE Res(r.s, "ok", r.v, 0)
  ELSE Res(k.s, "expected_string", <<>>, 0)

\* Bool()
Bool(s) ==
  LET u == Uint(s, 1) IN
  IF u.err # "ok" THEN Res(u.s, u.err, FALSE, 0)
  ELSE IF u.v = <<>> THEN Res(u.s, "ok", FALSE, 0)
  ELSE IF u.v = <<1>> THEN Res(u.s, "ok", TRUE, 0)
  ELSE Res(u.s, "bad_bool", FALSE, 0)

\* List(): v = size of the list
List(s) ==
  LET k == Kind(s) IN
  IF k.err # "ok" THEN Res(k.s, k.err, 0, 0)
  ELSE IF k.kind # "l" THEN Res(k.s, "expected_list", 0, 0)
  ELSE LET s1 == IF InList(k.s) THEN [k.s EXCEPT !.stack[Len(k.s.stack)] = USub(@, k.size)] ELSE k.s
       IN Res([s1 EXCEPT !.stack = Append(@, k.size), !.kind = "none", !.size = 0], "ok", k.size, 0)

\* ListEnd()
ListEnd(s) ==
  IF ~InList(s) THEN Res(s, "not_in_list", 0, 0)
  ELSE IF Top(s) > 0 THEN Res(s, "not_at_eol", 0, 0)
  ELSE Res([s EXCEPT !.stack = SubSeq(@, 1, Len(@) - 1), !.kind = "none", !.size = 0], "ok", 0, 0)

\* decodeBigInt (reached through Stream.Decode into a big.Int); value = canonical big-endian string
BigInt(s) ==
  LET k == Kind(s)
      Fin(s1, buf, a) == IF Len(buf) > 0 /\ buf[1] = 0 THEN Res(s1, "canon_int", <<>>, a)   \* "Reject leading zero bytes"
                         ELSE Res(s1, "ok", buf, a)
  IN IF k.err # "ok" THEN Res(k.s, k.err, <<>>, 0)
     ELSE IF k.kind = "l" THEN Res(k.s, "expected_string", <<>>, 0)
     ELSE IF k.kind = "b" THEN Fin([k.s EXCEPT !.kind = "none"], <<k.s.bv>>, 0)
     ELSE IF k.size = 0 THEN Fin([k.s EXCEPT !.kind = "none"], <<>>, 0)
     ELSE LET a == IF k.size <= 32 THEN 0 ELSE k.size          \* s.uintbuf is used up to 32 bytes
              r == ReadFull(k.s, k.size)
          IN IF r.err # "ok" THEN Res(r.s, r.err, <<>>, a)
             ELSE IF k.size = 1 /\ r.v[1] < 128 THEN Res(r.s, "canon_size", <<>>, a)
             ELSE Fin(r.s, r.v, a)

\* decodeByteArray for [n]byte
ByteArray(s, n) ==
  LET k == Kind(s) IN
  IF k.err # "ok" THEN Res(k.s, k.err, <<>>, 0)
  ELSE IF k.kind = "b" THEN IF n # 1 THEN Res(k.s, "wrong_size", <<>>, 0)
                            ELSE Res([k.s EXCEPT !.kind = "none"], "ok", <<k.s.bv>>, 0)
  ELSE IF k.kind = "s" THEN
       IF n # k.size THEN Res(k.s, "wrong_size", <<>>, 0)
       ELSE LET r == ReadFull(k.s, n) IN
            IF r.err # "ok" THEN Res(r.s, r.err, <<>>, 0)
            ELSE IF k.size = 1 /\ r.v[1] < 128 THEN Res(r.s, "canon_size", <<>>, 0)
            ELSE Res(r.s, "ok", r.v, 0)
  ELSE Res(k.s, "expected_string", <<>>, 0)

(************ decodeInterface: the generic walk that rebuilds the item *********)
RECURSIVE Walk(_), WalkElems(_, _)
Walk(s) ==
  LET k == Kind(s) IN
  IF k.err # "ok" THEN Res(k.s, k.err, NoItem, 0)
  ELSE IF k.kind = "l" THEN
       LET l == List(k.s) IN                                   \* decodeListSlice
       IF l.v = 0 THEN LET e == ListEnd(l.s) IN Res(e.s, e.err, L(<<>>), 0)
       ELSE LET r == WalkElems(l.s, <<>>) IN
            IF r.err # "ok" THEN Res(r.s, r.err, NoItem, 0)
            ELSE LET e == ListEnd(r.s) IN Res(e.s, e.err, L(r.v), 0)
  ELSE LET b == Bytes(k.s) IN Res(b.s, b.err, S(b.v), 0)
\* decodeSliceElems: "if err == EOL break"
WalkElems(s, acc) ==
  LET r == Walk(s) IN
  IF r.err = "eol" THEN Res(r.s, "ok", acc, 0)
  ELSE IF r.err # "ok" THEN Res(r.s, r.err, acc, 0)
  ELSE WalkElems(r.s, Append(acc, r.v))

\* DecodeBytes(b, &interface{}): limit = len(b), then "if r.Len() > 0 return ErrMoreThanOneValue"
DecodeBytesWalk(b) ==
  LET r == Walk(NewStream(b, Len(b))) IN
  IF r.err # "ok" THEN [err |-> r.err, it |-> NoItem]
  ELSE IF r.s.pos < Len(b) THEN [err |-> "trailing", it |-> NoItem]
  ELSE [err |-> "ok", it |-> r.v]

(*************************** properties of a stream state *********************)
\* never reads past the input; every open list fits into the input limit unless it wrapped
\* (a wrapped limit is harmless: see MC_RLPStream.WrapNeverAccepted)
StreamSane(s) ==
  /\ s.pos <= Len(s.in) /\ s.rem >= 0
  /\ \A i \in 1..Len(s.stack) : s.stack[i] >= 0
================================================================================
