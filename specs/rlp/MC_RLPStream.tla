------------------------------ MODULE MC_RLPStream -----------------------------
(******************************************************************************)
(* The Stream API as a state machine: from NewStream(input, limit) - or from   *)
(* NewListStream(payload, limit) - every sequence of public calls                                                    *)
(*   Kind  Bytes  Raw  Uint64  Uint8  Bool  BigInt (Decode into big.Int)  List  *)
(*   ListEnd  ReadBytes(1)  ReadBytes(2)  Walk (Decode into interface{})       *)
(* up to MaxOps calls, for a set of inputs that contains encodings of small    *)
(* trees, non-canonical forms, truncated strings, lists whose elements         *)
(* overrun them (including the uint64 wrap-around of List()), and input limits *)
(* smaller / larger than the data.  A history ends at the first error that     *)
(* leaves the stream in an unspecified position; it continues after EOL, after *)
(* "expected string / list", after a refused ListEnd and after an integer that *)
(* is too wide, because those leave the stream exactly where it was (cached    *)
(* header included) and callers rely on that to probe the structure.           *)
(*                                                                            *)
(* Every transition is printed with the whole history (operation, error        *)
(* class, value) and replayed on a real rlp.Stream by harness/rlp TestStream:  *)
(* every call must return what the transcription returns.                      *)
(******************************************************************************)
EXTENDS RLPSchemas, Json

CONSTANTS Inputs,        \* set of byte strings
          LimitDeltas,   \* input limit = Len(input) + delta
          MaxOps

VARIABLES s,      \* the stream (RLPStream!NewStream record)
          lim,    \* the limit it was created with
          ls,     \* created by NewListStream (the input is the PAYLOAD of a list of lim bytes)
          hist,   \* <<operation, error class, printable value>>, ...
          dead,   \* an error left the position unspecified: no more calls
          bad     \* an operation asked for a buffer larger than the remaining input limit allows
vars == <<s, lim, ls, hist, dead, bad>>

Ops == {"kind", "bytes", "raw", "u64", "u8", "bool", "big", "list", "listend", "rb1", "rb2", "walk"}
\* errors after which the stream is exactly where it was before the call
Continuable == {"eol", "expected_string", "expected_list", "uint_overflow", "not_in_list", "not_at_eol", "wrong_size"}

\* [s, err, p (printable value), a]
Apply(op, st) ==
  CASE op = "kind"    -> LET k == Kind(st) IN [s |-> k.s, err |-> k.err, p |-> <<k.kind, k.size>>, a |-> 0]
    [] op = "bytes"   -> LET r == Bytes(st) IN [s |-> r.s, err |-> r.err, p |-> PB(r.v), a |-> r.a]
    [] op = "raw"     -> LET r == Raw(st) IN [s |-> r.s, err |-> r.err, p |-> PB(r.v), a |-> r.a]
    [] op = "u64"     -> LET r == Uint(st, 8) IN [s |-> r.s, err |-> r.err, p |-> r.v, a |-> 0]
    [] op = "u8"      -> LET r == Uint(st, 1) IN [s |-> r.s, err |-> r.err, p |-> r.v, a |-> 0]
    [] op = "bool"    -> LET r == Bool(st) IN [s |-> r.s, err |-> r.err, p |-> r.v, a |-> 0]
    [] op = "big"     -> LET r == BigInt(st) IN [s |-> r.s, err |-> r.err, p |-> PB(r.v), a |-> r.a]
    [] op = "list"    -> LET r == List(st) IN [s |-> r.s, err |-> r.err, p |-> r.v, a |-> 0]
    [] op = "listend" -> LET r == ListEnd(st) IN [s |-> r.s, err |-> r.err, p |-> 0, a |-> 0]
    [] op = "rb1"     -> LET r == ReadBytes(st, 1) IN [s |-> r.s, err |-> r.err, p |-> r.v, a |-> 0]
    [] op = "rb2"     -> LET r == ReadBytes(st, 2) IN [s |-> r.s, err |-> r.err, p |-> r.v, a |-> 0]
    [] op = "walk"    -> LET r == Walk(st) IN [s |-> r.s, err |-> r.err, p |-> IF r.err = "ok" THEN PItem(r.v) ELSE 0, a |-> 0]

\* NewListStream(r, len): "pretends to be positioned at an encoded list of the given length"
NewListStream(in, n) == [NewStream(in, n) EXCEPT !.kind = "l", !.size = n]

Init == /\ \E in \in Inputs, d \in LimitDeltas :
             /\ Len(in) + d > 0
             /\ lim = Len(in) + d
             /\ \/ s = NewStream(in, Len(in) + d) /\ ls = FALSE
                \/ s = NewListStream(in, Len(in) + d) /\ ls = TRUE
        /\ hist = <<>> /\ dead = FALSE /\ bad = FALSE

Next == /\ ~dead /\ Len(hist) < MaxOps
        /\ \E op \in Ops :
             LET r == Apply(op, s) IN
             /\ s' = r.s
             /\ hist' = Append(hist, <<op, r.err, IF r.err = "ok" THEN r.p ELSE 0>>)
             /\ dead' = (r.err # "ok" /\ r.err \notin Continuable)
             /\ bad' = (bad \/ r.a > s.rem + 9)
        /\ lim' = lim /\ ls' = ls
Spec == Init /\ [][Next]_vars

View == <<s, lim, ls, dead, bad>>

(******************************** invariants **********************************)
\* never past the data, limits never negative; a list limit is either within the input limit or
\* it wrapped around (WrapAround) - and then it can never come back to 0, so that list can never
\* be closed: ListEnd fails, every decoder that entered it fails
LimitsSane == /\ StreamSane(s)
              /\ \A i \in 1..Len(s.stack) : s.stack[i] <= lim \/ s.stack[i] >= Wrap - lim
\* "an allocation larger than the input justifies": every buffer is requested after the size was
\* compared with the remaining input limit
AllocBounded == ~bad
\* a complete walk of the first value followed by io.EOF means the input is one canonical item
\* (the limit equals the data length in that case)
WalkMeansDec ==
  (~ls /\ Len(hist) = 2 /\ hist[1][1] = "walk" /\ hist[1][2] = "ok" /\ hist[2][1] = "kind" /\ hist[2][2] = "eof" /\ lim = Len(s.in))
     => Dec(s.in).err = "ok"
\* ... and a list stream walked to its end means the input is a concatenation of canonical items
ListWalkMeansDecSeq ==
  (ls /\ Len(hist) = 1 /\ hist[1][1] = "walk" /\ hist[1][2] = "ok" /\ lim = Len(s.in)) => DecSeq(s.in).err = "ok"
Inv == LimitsSane /\ AllocBounded /\ WalkMeansDec /\ ListWalkMeansDecSeq

(********************************** dump **************************************)
Dump == PrintT(ToJson([in |-> s'.in, lim |-> lim', ls |-> ls', h |-> hist']))
================================================================================
