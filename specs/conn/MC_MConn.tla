-------------------------------- MODULE MC_MConn --------------------------------
(* Exhaustive model of an MConnection pair (MConn.tla): every interleaving of Send on  *)
(* the channels (message lengths from Lens: below, at and above the packet size, zero, *)
(* up to and beyond RecvMessageCapacity), of packets of different channels, of         *)
(* updateStats ticks and of the receiver reading.                                      *)
(*   Sched = "any"   the sender may emit a packet of ANY pending channel: the receiver *)
(*                   is checked against every packet interleaving across channels      *)
(*                   (C20: "all packet interleavings"), whatever the scheduler does;   *)
(*   Sched = "prio"  the sender emits what sendPacketMsg chooses (LeastRatio).         *)
(* Batching = "any" makes explicit what the receiver has ALREADY READ when an error      *)
(* occurs; Injects adds the other error branches of recvRoutine (unknown channel,         *)
(* malformed / over-long / empty packet, read error) and ping / pong.                    *)
(* Every transition into a quiescent state (nothing left to send, wire read or         *)
(* receiver stopped) is printed (Dump) and replayed by harness/conn TestMConnReplay:   *)
(* Sched = "any"  -> the packets are encoded by the driver and read by a real, running *)
(*                   MConnection (recvRoutine, recvPacketMsg, onReceive / onError);    *)
(* Sched = "prio" -> additionally the packets come out of a real MConnection's         *)
(*                   sendPacketMsg stepped by the driver.  Verdicts are taken on what  *)
(*                   onReceive gets and on a sender that reports "nothing pending"     *)
(*                   with an accepted message unsent; TrySend result, channel chosen   *)
(*                   and the cut of every packet are lock-step only (a difference is   *)
(*                   counted and the behaviour is then judged by its deliveries).      *)
EXTENDS MConn, Json

CONSTANTS Lens,      \* message lengths
          MaxMsgs,   \* messages sent in one behaviour
          MaxTicks,  \* updateStats ticks
          Sched,     \* "any" | "prio"
          Frag,      \* "max": packets are cut as the code cuts them (SendPacketOp);  "any": every cut MConn!CanPacket
                     \* allows (next n <= MaxPayload bytes, EOF on the completing one, possibly an empty EOF packet):
                     \* the receiver is then checked against every fragmentation, too (only with Sched = "any")
          EagerRecv, \* TRUE: a packet is read as soon as it is on the wire (the receiver is sequential, so this
                     \* loses no wire order and no receiver behaviour; it only removes redundant interleavings)
          Batching,  \* "each": every packet is flushed on its own;  "any": TLC chooses where the sender flushes, i.e. which
                     \* packets arrive TOGETHER in the receiver's read buffer -- in particular the packet that crosses the
                     \* capacity (or any other packet that stops the connection) in front of small EOF packets of the
                     \* same and of other channels
          StopMode,  \* "off", or "drain": the sender's send routine is asleep (messages are only queued: TrySend accepted
                     \* them, nothing has been packetised yet) and then the connection is closed gracefully with FlushStop
          StopLimit, \* 0 = FlushStop as specified;  k = it drains at most k packets (MConn!CanDrain), must violate Inv
          Injects    \* kinds of foreign packets (MConn!InjectKinds) of which one may appear in the stream

VARIABLES m, nt, nu, hist
vars == <<m, nt, nu, hist>>

Init == m = Empty /\ nt = 0 /\ nu = 0 /\ hist = <<>>

Step(r, a) == m' = r.st /\ hist' = Append(hist, a)
MustRecv   == EagerRecv /\ CanRecv(m)
\* with Batching = "each" a packet is flushed in the step that produces it
Out(x)     == IF Batching = "each" THEN FlushOp(x) ELSE x

DoSend == \E c \in Ch, n \in Lens :
            /\ ~MustRecv /\ m.nid <= MaxMsgs /\ ~m.draining /\ (m.sclosed => Len(hist) > 0 /\ hist[Len(hist)][1] # "send")
            /\ LET r == SendOp(m, c, n) IN Step(r, <<"send", c, n, r.res, 0>>)
            /\ UNCHANGED <<nt, nu>>
DoFlushStop == /\ ~MustRecv /\ StopMode = "drain" /\ ~m.sclosed /\ ~m.draining /\ m.nid > 1
               /\ m' = FlushStopBegin(m) /\ hist' = Append(hist, <<"flushstop", 0, 0, "", 0>>) /\ UNCHANGED <<nt, nu>>
DoDrain     == /\ ~MustRecv /\ CanDrain(m, StopLimit) /\ m' = Out(DrainStep(m)) /\ UNCHANGED <<nt, nu, hist>>
DoStopEnd   == /\ ~MustRecv /\ m.draining /\ ~CanDrain(m, StopLimit) /\ m' = FlushStopEnd(m) /\ UNCHANGED <<nt, nu, hist>>
DoPkt  == \E c \in Ch :
            /\ ~MustRecv /\ StopMode = "off" /\ Pending(m, c) /\ (Sched = "prio" => c = LeastRatio(m))
            /\ IF Frag = "max"
               THEN LET r == SendPacketOp(m, c) IN
                    /\ m' = Out(r.st)
                    /\ hist' = Append(hist, <<"pkt", c, r.res[2], IF r.res[1] THEN "eof" ELSE "more", LastPacket(r.st).id>>)
               ELSE \E n \in 0..MaxPayload, eof \in BOOLEAN :
                    /\ CanPacket(m, c, eof, n) /\ (n > 0 \/ eof)
                    /\ LET x == SendPacketGen(m, c, eof, n) IN
                       /\ m' = Out(x)
                       /\ hist' = Append(hist, <<"pkt", c, n, IF eof THEN "eof" ELSE "more", LastPacket(x).id>>)
            /\ UNCHANGED <<nt, nu>>
DoFlush == /\ ~MustRecv /\ Batching = "any" /\ m.obuf # <<>>
           /\ m' = FlushOp(m) /\ hist' = Append(hist, <<"flush", 0, 0, "", 0>>) /\ UNCHANGED <<nt, nu>>
DoTick == /\ ~MustRecv /\ Sched = "prio" /\ nt < MaxTicks /\ \E c \in Ch : m.recent[c] > 0
          /\ m' = UpdateStatsOp(m) /\ hist' = Append(hist, <<"tick", 0, 0, "", 0>>) /\ nt' = nt + 1 /\ UNCHANGED nu
DoInject == \E k \in Injects :
             /\ ~MustRecv /\ nu = 0
             /\ m' = Out(InjectOp(m, k)) /\ hist' = Append(hist, <<"inj", 0, 1, k, 0>>) /\ nu' = 1 /\ UNCHANGED nt
DoRecv == /\ CanRecv(m)
          /\ LET r == RecvPacketOp(m)  pk == NextPacket(m) IN Step(r, <<"recv", pk.c, pk.len, r.res, pk.id>>)
          /\ UNCHANGED <<nt, nu>>

Next == DoSend \/ DoFlushStop \/ DoDrain \/ DoStopEnd \/ DoPkt \/ DoFlush \/ DoTick \/ DoInject \/ DoRecv
Spec == Init /\ [][Next]_vars
\* recentlySent only matters to the code's scheduler
View == <<IF Sched = "any" THEN [m EXCEPT !.recent = [c \in Ch |-> 0]] ELSE m, nt, nu>>

\* ---- C20 on the multiplexed connection ----
Inv == /\ PerChannelFIFOExactlyOnce(m)
       /\ NoCrossChannelMixing(m)
       /\ OversizeRefused(m)
       /\ StopsOnlyForOversize(m)
       /\ AllDelivered(m)
       /\ NoDeliveryAfterError(m)
       /\ DeliveredIsSent(m)
\* with DrainAfter # {} (a bare `break` in an error branch of recvRoutine) these must be VIOLATED: checks/C20.py requires
\* the counterexamples (a batch with the stopping packet in front of a small EOF packet)
NoDeliveryAfterErrorInv == NoDeliveryAfterError(m)
DeliveredIsSentInv      == DeliveredIsSent(m)
\* with EmptyLoss = TRUE (the code before the repair) this must be VIOLATED: checks/C20.py requires the counterexample
NoEmptyLost == ~EmptyLost(m)

\* deliveries as the driver sees them: per channel the sequence of [id, len]
Delivered(x) == [c \in Ch |-> [i \in 1..Len(x.dlv[c]) |-> <<x.dlv[c][i].id, FragLen(x.dlv[c][i].fr)>>]]
Dump == IF Quiescent(m') /\ (m'.nid > 1 \/ nu' = 1)
        THEN PrintT(ToJson([h |-> hist', d |-> Delivered(m'), stop |-> m'.rstop]))
        ELSE TRUE
==================================================================================
