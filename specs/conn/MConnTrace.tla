-------------------------------- MODULE MConnTrace --------------------------------
(* Trace validation for MConn.tla: events recorded from a real MConnection pair that   *)
(* runs over a real SecretConnection pair with concurrent senders (harness/conn        *)
(* TestMConnRecord) must be explained, line by line, by the operators of MConn.tla;    *)
(* the C20 invariants are evaluated on every state of the explained trace.             *)
(*                                                                                     *)
(* Events (ndjson, total order = one sequence number taken under one mutex):           *)
(*   reset                    a new connection pair                                    *)
(*   send ch id n             TrySend(ch, msg) returned true (logged while the same    *)
(*                            mutex is held across the call, so before any packet of   *)
(*                            this message can be logged); id = 1, 2, ... in log order *)
(*   pkt ch eof n             a PacketMsg decoded from the bytes the sending           *)
(*                            MConnection wrote to its connection, logged before the   *)
(*                            bytes are passed on                                      *)
(*   dlv ch ids n             onReceive(ch, bytes) on the receiving side; ids = every   *)
(*                            sent message that has exactly these n bytes (message     *)
(*                            contents depend on id and position; only very short      *)
(*                            messages coincide)                                       *)
(*                            (a dlv after a rerr "stop" has no explanation: nothing is  *)
(*                            delivered once the connection has stopped)               *)
(*   rerr k                   the receiver's onError: "stop" (it stopped the connection *)
(*                            with an error of its own: capacity exceeded, unknown     *)
(*                            channel; the text is not looked at), "eof" (the sender   *)
(*                            did FlushStop: everything it accepted was flushed, then  *)
(*                            the connection was closed)                               *)
(* Packet scheduling is a nondeterministic choice here (any pending channel), and so   *)
(* is the cutting (any packet that carries the next <= MaxPayload bytes of the message  *)
(* in progress, EOF on the one that completes it: MConn!CanPacket), and so              *)
(* is the moment the receiver reads: a dlv / rerr event stands for "the receiver read  *)
(* the wire up to the packet that caused it".  The packet log runs behind the sender's *)
(* real state (bufio), therefore the send-queue bound is not checked here (QCap is set *)
(* high); MC_MConn / TestMConnReplay check it exactly.                                 *)
(*                                                                                     *)
(* With EmptyLoss = TRUE (second pass over a REJECTED trace only, to name the cause)    *)
(* zero-length messages at the front of channels other than the one that sends may be   *)
(* forgotten, as connection.go did before the repair (see MConn!Forget).                *)
EXTENDS MConn, Json

CONSTANT TraceFile
Trace == ndJsonDeserialize(TraceFile)

VARIABLES m, l
vars == <<m, l>>

Init == m = Empty /\ l = 1
Ev(k) == l <= Len(Trace) /\ Trace[l].e = k
ChanIdx(id) == CHOOSE c \in Ch : ChId[c] = id
KnownCh(id) == \E c \in Ch : ChId[c] = id

Reset == Ev("reset") /\ m' = Empty /\ l' = l + 1

SendEv == /\ Ev("send") /\ KnownCh(Trace[l].ch)
          /\ LET e == Trace[l]  r == SendOp(m, ChanIdx(e.ch), e.n) IN
             r.res = "ok" /\ e.id = m.nid /\ m' = r.st
          /\ l' = l + 1

\* the deviation, made nondeterministic because the log lags: drop k leading zero-length messages of channel d
LeadingEmpty(x, d) == IF Active(x.snd[d]) THEN x.snd[d].len = 0 /\ x.snd[d].off = 0
                      ELSE x.sendq[d] # <<>> /\ Head(x.sendq[d]).len = 0
DropFront(x, d) == IF Active(x.snd[d]) THEN [x EXCEPT !.snd[d] = NoMsg, !.lost = @ \cup {x.snd[d].id}]
                   ELSE [x EXCEPT !.sendq[d] = Tail(@), !.lost = @ \cup {Head(x.sendq[d]).id}]
RECURSIVE Losses(_, _)
\* all states reachable from x by forgetting leading empties on the channels in D
Losses(x, D) == IF D = {} THEN {x}
                ELSE LET d == CHOOSE y \in D : TRUE
                         rest == Losses(x, D \ {d})
                     IN rest \cup UNION {IF LeadingEmpty(y, d) THEN Losses(DropFront(y, d), {d}) ELSE {} : y \in rest}

PktEv == /\ Ev("pkt") /\ KnownCh(Trace[l].ch)
         /\ LET e == Trace[l]  c == ChanIdx(e.ch) IN
            \E x \in (IF EmptyLoss THEN Losses(m, Ch \ {c}) ELSE {m}) :
               /\ CanPacket(x, c, e.eof, e.n)
               /\ m' = FlushOp(SendPacketGen(x, c, e.eof, e.n))     \* how packets are batched is not visible here
         /\ l' = l + 1

\* the receiver reads packets until one of them delivers a message or stops the connection
RECURSIVE RecvUntil(_)
RecvUntil(x) == IF ~CanRecv(x) THEN [st |-> x, res |-> "empty"]
                ELSE LET r == RecvPacketOp(x) IN IF r.res = "" THEN RecvUntil(r.st) ELSE r

DlvEv == /\ Ev("dlv") /\ m.rstop = "" /\ KnownCh(Trace[l].ch)
         /\ LET e == Trace[l]  c == ChanIdx(e.ch)  r == RecvUntil(m) IN
            /\ r.res = "deliver"
            /\ Len(r.st.dlv[c]) = Len(m.dlv[c]) + 1
            /\ LET d == r.st.dlv[c][Len(r.st.dlv[c])] IN d.id \in {e.ids[i] : i \in 1..Len(e.ids)} /\ FragLen(d.fr) = e.n
            /\ m' = r.st
         /\ l' = l + 1

RerrEv == /\ Ev("rerr") /\ m.rstop = ""
          /\ LET e == Trace[l]  r == RecvUntil(m) IN
             \/ e.k = "stop" /\ r.res \in {"cap", "chan", "err"} /\ m' = r.st
             \* FlushStop + close: nothing accepted by TrySend may be left in the sender, on the wire or half received
             \/ /\ e.k = "eof" /\ WireEmpty(m) /\ \A c \in Ch : m.rcv[c] = <<>>
                /\ \E x \in (IF EmptyLoss THEN Losses(m, Ch) ELSE {m}) : ~AnyPending(x) /\ m' = [x EXCEPT !.rstop = "eof"]
          /\ l' = l + 1

Next == Reset \/ SendEv \/ PktEv \/ DlvEv \/ RerrEv
Spec == Init /\ [][Next]_vars

Inv == /\ NoDeliveryAfterError(m) /\ DeliveredIsSent(m)
       /\ PerChannelFIFOExactlyOnce(m)
       /\ NoCrossChannelMixing(m)
       /\ OversizeRefused(m)
       /\ StopsOnlyForOversize(m)
       /\ (m.rstop = "eof" => \A c \in Ch : Ids(m.dlv[c]) = Ids(m.sent[c]))
\* second pass (EmptyLoss = TRUE): only the messages named lost may be missing, and they are all zero-length
InvLoss == /\ NoCrossChannelMixing(m) /\ OversizeRefused(m)
           /\ \A c \in Ch : \A i \in 1..Len(m.sent[c]) : m.sent[c][i].id \in m.lost => m.sent[c][i].len = 0

Accepted == IF TLCGet("stats").diameter - 1 = Len(Trace) THEN TRUE
            ELSE /\ PrintT(<<"REJECTED", TLCGet("stats").diameter - 1, Len(Trace)>>)
                 /\ PrintT(<<"FIRST-UNEXPLAINED", IF TLCGet("stats").diameter <= Len(Trace) THEN Trace[TLCGet("stats").diameter] ELSE "none">>)
                 /\ FALSE
==================================================================================
