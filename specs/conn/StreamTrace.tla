-------------------------------- MODULE StreamTrace --------------------------------
(* Trace validation for concurrent writers on one SecretConnection (SecretConn.tla,    *)
(* part 2).  SecretConnection.Write holds sendMtx for the whole call, so concurrent     *)
(* Writes are atomic: the stream the peer reads must be a sequential interleaving of    *)
(* whole Writes, each writer's Writes in its own order (C20: "every byte written is     *)
(* read once, in order and unchanged however reads and writes are split ... concurrent  *)
(* writers").                                                                           *)
(* harness/conn TestWriters lets W goroutines write self-describing blocks on a real    *)
(* MakeSecretConnection pair while a reader reads with random buffer sizes, then cuts   *)
(* what was READ into blocks.  Events:                                                  *)
(*   reset                      new connection pair                                     *)
(*   plan w sizes               writer w will issue Writes of these sizes, in order     *)
(*   blk w k n off ok           the bytes read at stream offset off are block k of      *)
(*                              writer w, n bytes, content intact (ok)                  *)
(*   bad off                    the bytes read at off are not the start of any block    *)
(*   end n                      the reader got n bytes and then EOF                     *)
(* A blk event is explained by WriteOp(s, n) being the next Write of the connection     *)
(* (the linearisation order IS the order in the stream) and the reader draining it.     *)
EXTENDS Integers, Sequences, FiniteSets, TLC, Json

CONSTANT TraceFile
Trace == ndJsonDeserialize(TraceFile)

INSTANCE SecretConn WITH Honest <- {"A"}, Adv <- "M", SessOwner <- <<>>, SessEph <- <<>>, AdvEphs <- {},
                         SigBindsChallenge <- TRUE, DirectionalKeys <- TRUE

VARIABLES s,     \* stream state
          plan,  \* plan[w]: sizes writer w still has to write (function on the writers seen so far)
          nextk, \* nextk[w]: index of w's next block
          l
vars == <<s, plan, nextk, l>>

Init == s = EmptyStream /\ plan = <<>> /\ nextk = <<>> /\ l = 1
Ev(k) == l <= Len(Trace) /\ Trace[l].e = k

Reset == Ev("reset") /\ s' = EmptyStream /\ plan' = <<>> /\ nextk' = <<>> /\ l' = l + 1
\* writers announce themselves as 1, 2, ... in order
Plan == /\ Ev("plan") /\ Trace[l].w = Len(plan) + 1
        /\ plan' = Append(plan, Trace[l].sizes) /\ nextk' = Append(nextk, 1)
        /\ UNCHANGED s /\ l' = l + 1

\* the reader reads everything that is on the wire
RECURSIVE Drain(_)
Drain(x) == IF x.rb.len = 0 /\ WireBytes(x.wire) < SealedSize THEN x ELSE Drain(ReadOp(x, 1024).st)

Blk == /\ Ev("blk")
       /\ LET e == Trace[l] IN
          /\ e.w \in 1..Len(plan) /\ e.ok
          /\ e.k = nextk[e.w] /\ e.k <= Len(plan[e.w]) /\ e.n = plan[e.w][e.k]
          /\ e.off = s.total                                   \* where the specification puts this Write
          /\ LET x == Drain(WriteOp(s, e.n).st) IN
             /\ DeliveredBytes(x) = x.total /\ x.errs = 0
             /\ s' = x
          /\ nextk' = [nextk EXCEPT ![e.w] = @ + 1]
       /\ UNCHANGED plan /\ l' = l + 1

End == /\ Ev("end") /\ Trace[l].n = s.total
       /\ \A w \in 1..Len(plan) : nextk[w] = Len(plan[w]) + 1     \* every Write arrived
       /\ UNCHANGED <<s, plan, nextk>> /\ l' = l + 1

Next == Reset \/ Plan \/ Blk \/ End       \* no action explains "bad"
Spec == Init /\ [][Next]_vars

Inv == DeliveredIsPrefixOfSent(s) /\ OnlyGenuineFramesOpen(s) /\ CleanIsComplete(s)

Accepted == IF TLCGet("stats").diameter - 1 = Len(Trace) THEN TRUE
            ELSE /\ PrintT(<<"REJECTED", TLCGet("stats").diameter - 1, Len(Trace)>>)
                 /\ PrintT(<<"FIRST-UNEXPLAINED", IF TLCGet("stats").diameter <= Len(Trace) THEN Trace[TLCGet("stats").diameter] ELSE "none">>)
                 /\ FALSE
==================================================================================
