---------------------------------- MODULE MConn ----------------------------------
(***************************************************************************)
(* The multiplexed connection of lib/p2p/conn/connection.go: messages of    *)
(* several channels are cut into PacketMsg{ChannelID, EOF, Data} of at most *)
(* maxPacketMsgPayloadSize bytes, packets of different channels are         *)
(* interleaved on one ordered byte stream (the SecretConnection of          *)
(* SecretConn.tla), and the receiver reassembles per channel, refusing      *)
(* messages above RecvMessageCapacity.                                      *)
(* Property C20, second half: "each message sent on a channel is delivered  *)
(* to the receiving reactor exactly once, intact and in per-channel order,  *)
(* for any mix of message sizes across channels, and oversized messages     *)
(* are refused".                                                            *)
(*                                                                         *)
(* Functional style: a state record m and one operator per call /           *)
(* critical section:                                                        *)
(*   SendOp        MConnection.TrySend / Send  -> Channel.trySendBytes      *)
(*   SendPacketOp  MConnection.sendPacketMsg   -> isSendPending (on every   *)
(*                 channel), nextPacketMsg, writePacketMsgTo                *)
(*   LeastRatio    the channel sendPacketMsg picks (recentlySent/priority)  *)
(*   UpdateStatsOp Channel.updateStats (every 2 s in sendRoutine)           *)
(*   RecvPacketOp  recvRoutine, case PacketMsg -> Channel.recvPacketMsg,    *)
(*                 onReceive / stopForError                                 *)
(* Message bytes are positions: message id carries bytes 0..len-1; a        *)
(* packet carries [id, off, len] as ghost fields, so "intact" and "not      *)
(* mixed" are statements about which positions of which message a           *)
(* delivered message is made of.                                            *)
(***************************************************************************)
EXTENDS Integers, Sequences, FiniteSets, TLC

CONSTANTS ChId,        \* ChId[c]: the channel's byte id (position c = position in MConnection.channels)
          Prio,        \* Prio[c]: ChannelDescriptor.Priority
          QCap,        \* QCap[c]: SendQueueCapacity
          RCap,        \* RCap[c]: RecvMessageCapacity
          MaxPayload,  \* MConnConfig.MaxPacketMsgPayloadSize
          DrainAfter,  \* {} = as specified and as the code is: after ANY error recvRoutine leaves its loop (break FOR_LOOP).
                       \* A set of stop kinds ("cap", "chan", "err") = the mistake of leaving only the switch (a bare
                       \* `break`) in that error branch: the connection is stopped and onError called, but the loop goes on
                       \* consuming the packets it has ALREADY READ into its bufio buffer (NAMED DEVIATION, see RecvPacketOp)
          EmptyLoss    \* FALSE = as specified (and the code since /repo commit "fix: MConnection no longer drops
                       \* zero-length messages").  TRUE = connection.go before that commit: isSendPending() tested
                       \* len(ch.sending) == 0, so a zero-length message that was taken from the queue during a scan
                       \* in which another channel was chosen was forgotten (NAMED DEVIATION, see Forget / EmptyLost);
                       \* kept so that the check names the defect precisely should it ever return

Ch == 1..Len(ChId)
MinI(a, b) == IF a < b THEN a ELSE b
NoMsg == [id |-> 0, len |-> 0, off |-> 0]

\* sendq[c]  Channel.sendQueue (messages [id, len])       snd[c]   Channel.sending: message and bytes already packetised
\* recent[c] Channel.recentlySent                         obuf     packets in the sender's bufConnWriter, not flushed yet
\* wire      BATCHES of packets: one flush = one batch = what one read of the receiver's bufio.Reader can take in
\* rbuf      the rest of the batch the receiver has read and not yet consumed (bufConnReader's buffer)
\* rcv[c]    Channel.recving as a list of fragments       dlv[c]   messages handed to onReceive: [id, fr fragments,
\*                                                                 late = delivered after the connection had stopped]
\* rstop     "" running, else the first error the receiver stopped with (stopForError): "cap" capacity exceeded,
\*           "chan" unknown channel, "err" malformed / over-long / empty packet or read error
\* sclosed   the sender has closed the connection gracefully (FlushStop)
\* rhalt     the receive loop has really been left (always together with rstop unless DrainAfter says otherwise)
\* sent[c]   ghost: messages accepted by Send, in order   nid      next message id
\* lost      ghost: ids of messages dropped by the EmptyLoss deviation
Empty == [sendq  |-> [c \in Ch |-> <<>>], snd |-> [c \in Ch |-> NoMsg], recent |-> [c \in Ch |-> 0],
          obuf   |-> <<>>, wire |-> <<>>, rbuf |-> <<>>, rcv |-> [c \in Ch |-> <<>>], dlv |-> [c \in Ch |-> <<>>],
          rstop  |-> "", rhalt |-> FALSE, sclosed |-> FALSE, draining |-> FALSE, drained |-> 0,
          sent   |-> [c \in Ch |-> <<>>], nid |-> 1, lost |-> {}]

\* ---- wire size of a packet (protoio delimited kp2p.Packet{PacketMsg}), needed for recentlySent ----
Sov(x) == IF x < 128 THEN 1 ELSE IF x < 16384 THEN 2 ELSE IF x < 2097152 THEN 3 ELSE 4
PacketMsgSize(chid, eof, n) == (IF chid # 0 THEN 1 + Sov(chid) ELSE 0) + (IF eof THEN 2 ELSE 0)
                               + (IF n > 0 THEN 1 + n + Sov(n) ELSE 0)
PacketSize(chid, eof, n) == LET i == PacketMsgSize(chid, eof, n)  p == 1 + i + Sov(i) IN p + Sov(p)

\* ---- sender ---------------------------------------------------------------------------------------
\* TrySend: false when the queue is full.  (Send blocks up to 10 s instead; the drivers use TrySend.)
SendOp(m, c, n) ==
  IF m.sclosed \/ m.draining THEN [st |-> m, res |-> "closed"]                       \* not running any more: Send / TrySend return false
  ELSE IF Len(m.sendq[c]) >= QCap[c] THEN [st |-> m, res |-> "full"]
  ELSE LET msg == [id |-> m.nid, len |-> n] IN
       [st  |-> [m EXCEPT !.sendq[c] = Append(@, msg), !.sent[c] = Append(@, msg), !.nid = @ + 1],
        res |-> "ok"]

Active(x)     == x.id # 0
Pending(m, c) == Active(m.snd[c]) \/ m.sendq[c] # <<>>
AnyPending(m) == \E c \in Ch : Pending(m, c)

\* isSendPending() on every channel: a channel without a message in progress takes the next one from its queue
Popped(m) == [m EXCEPT !.snd   = [c \in Ch |-> IF ~Active(m.snd[c]) /\ m.sendq[c] # <<>>
                                              THEN [id |-> Head(m.sendq[c]).id, len |-> Head(m.sendq[c]).len, off |-> 0]
                                              ELSE m.snd[c]],
                       !.sendq = [c \in Ch |-> IF ~Active(m.snd[c]) /\ m.sendq[c] # <<>> THEN Tail(m.sendq[c]) ELSE m.sendq[c]]]

\* the channel sendPacketMsg chooses: least recentlySent/priority, the first one on ties (strict <).
\* float32(r)/float32(p) is compared here as r1*p2 < r2*p1 (exact for the sizes explored).
Less(m, c, d)  == m.recent[c] * Prio[d] < m.recent[d] * Prio[c]
LeastRatio(m)  == CHOOSE c \in Ch : /\ Pending(m, c)
                                    /\ \A d \in Ch : Pending(m, d) => (Less(m, c, d) \/ (~Less(m, d, c) /\ c <= d))

\* one packet of channel c (c must be pending), as specified.  res = <<eof, n>>.
SendPacketCore(m, c) ==
  LET p    == Popped(m)
      x    == p.snd[c]
      rem  == x.len - x.off
      n    == MinI(MaxPayload, rem)
      eof  == rem <= MaxPayload
      pkt  == [k |-> "msg", c |-> c, eof |-> eof, len |-> n, id |-> x.id, off |-> x.off]
  IN [st  |-> [p EXCEPT !.snd[c]    = IF eof THEN NoMsg ELSE [x EXCEPT !.off = @ + n],
                        !.recent[c] = @ + PacketSize(ChId[c], eof, n),
                        !.obuf      = Append(@, pkt)],
      res |-> <<eof, n>>]

\* The general packetisation rule, of which SendPacketCore is the code's instance (fill every packet, EOF on the
\* last data packet): the next n bytes of the message in progress, n <= MaxPayload, EOF exactly when that
\* completes the message.  The trace validator accepts any such packet: how a message is cut is not part of
\* C20 as long as the pieces arrive in order and the last one carries EOF.
CanPacket(m, c, eof, n) == LET x == Popped(m).snd[c] IN
                           /\ Pending(m, c) /\ 0 <= n /\ n <= MaxPayload /\ n <= x.len - x.off
                           /\ eof => n = x.len - x.off
SendPacketGen(m, c, eof, n) ==
  LET p == Popped(m)  x == p.snd[c]
      pkt == [k |-> "msg", c |-> c, eof |-> eof, len |-> n, id |-> x.id, off |-> x.off]
  IN [p EXCEPT !.snd[c]    = IF eof THEN NoMsg ELSE [x EXCEPT !.off = @ + n],
               !.recent[c] = @ + PacketSize(ChId[c], eof, n),
               !.obuf      = Append(@, pkt)]

\* NAMED DEVIATION "empty message lost" (found by this check, repaired in /repo).  isSendPending() decided "no
\* message in progress" by len(ch.sending) == 0.  sendPacketMsg calls it on EVERY channel before choosing one, so a
\* zero-length message that was taken from its queue while another channel was chosen was indistinguishable from
\* "nothing in progress": the next scan overwrote or ignored it, it was never put on the wire (and sendQueueSize
\* was never decremented for it).  Forget(p, c) is that effect after a scan that chose channel c.
Forget(p, c) == LET gone == {d \in Ch \ {c} : Active(p.snd[d]) /\ p.snd[d].len = 0} IN
                [p EXCEPT !.snd  = [d \in Ch |-> IF d \in gone THEN NoMsg ELSE p.snd[d]],
                          !.lost = @ \cup {p.snd[d].id : d \in gone}]

SendPacketOp(m, c) == LET r == SendPacketCore(m, c) IN
                      IF EmptyLoss THEN [st |-> Forget(r.st, c), res |-> r.res] ELSE r

\* bufConnWriter.Flush(): everything written since the last flush goes out together.  sendRoutine batches (up to
\* numBatchPacketMsgs packets per wake-up, flush throttled) and the SecretConnection below carries up to 1024 bytes
\* per frame, so the receiver regularly has SEVERAL packets in its read buffer at once.
FlushOp(m) == IF m.obuf = <<>> THEN m ELSE [m EXCEPT !.wire = Append(@, m.obuf), !.obuf = <<>>]
LastPacket(m) == m.obuf[Len(m.obuf)]

(* MConnection.FlushStop, the graceful close: the send routine is stopped first, then EVERYTHING that Send / TrySend *)
(* accepted before is packetised in the usual channel-scheduling order (sendSomePacketMsgs until it reports that    *)
(* nothing is pending), flushed, and only then the connection is closed; afterwards sends are refused.  The         *)
(* receiver therefore gets every accepted message completely before it sees the end of the connection.              *)
(* limit = 0 is that.  limit = k > 0 is the mistake of draining only once (one sendSomePacketMsgs = at most          *)
(* numBatchPacketMsgs = 10 packets): the tail of a longer message and whatever waits on other channels is never      *)
(* transmitted although Send returned true (MC_MConn requires the counterexample to AllDelivered).                   *)
\* (three steps, so that a model can take the drain one packet at a time)
FlushStopBegin(m)   == [m EXCEPT !.draining = TRUE, !.drained = 0]
CanDrain(m, limit)  == m.draining /\ AnyPending(m) /\ (limit = 0 \/ m.drained < limit)
DrainStep(m)        == [SendPacketOp(m, LeastRatio(m)).st EXCEPT !.drained = @ + 1]
FlushStopEnd(m)     == [FlushOp(m) EXCEPT !.sclosed = TRUE, !.draining = FALSE]

\* something other than a PacketMsg of ours gets into the stream (a peer with another channel set, a broken or
\* hostile peer, the connection itself):
\*   "unknown"   PacketMsg on a channel we do not have           "ping" / "pong"  keep-alive packets (harmless)
\*   "malformed" bytes that do not unmarshal as a Packet           "toolong"  a length prefix above maxPacketMsgSize
\*   "nosum"     a Packet without content (unknown message type)  "readerr"  the underlying read returns an error
InjectKinds == {"unknown", "ping", "pong", "malformed", "toolong", "nosum", "readerr"}
InjectOp(m, kind) == [m EXCEPT !.obuf = Append(@, [k |-> kind, c |-> 0, eof |-> TRUE, len |-> 1, id |-> 0, off |-> 0])]

\* recentlySent := int64(float64(recentlySent) * 0.8)
UpdateStatsOp(m) == [m EXCEPT !.recent = [c \in Ch |-> (m.recent[c] * 4) \div 5]]

\* ---- receiver -------------------------------------------------------------------------------------
RECURSIVE FragLen(_)
FragLen(fs) == IF fs = <<>> THEN 0 ELSE Head(fs).len + FragLen(Tail(fs))

\* The receiver takes a whole batch into its read buffer and consumes it packet by packet.  After ANY error it calls
\* stopForError (Stop, onError) and LEAVES THE LOOP: what is still in the read buffer is never looked at.
\* DrainAfter # {} is the deviation: after an error of such a kind the loop goes on through the buffer.  The refused
\* packet was not appended to Channel.recving and the earlier packets of the refused message are still there, so a
\* following small EOF packet on that channel "fits" again and a byte string nobody sent is handed to onReceive --
\* after onError.
Loaded(m)  == IF m.rbuf = <<>> /\ m.wire # <<>> THEN [m EXCEPT !.rbuf = Head(m.wire), !.wire = Tail(m.wire)] ELSE m
WireEmpty(m) == m.wire = <<>> /\ m.rbuf = <<>>
CanRecv(m) == \/ m.rstop = "" /\ ~WireEmpty(m)
              \/ m.rstop # "" /\ ~m.rhalt /\ m.rbuf # <<>>
NextPacket(m) == Head(Loaded(m).rbuf)
\* res: "" consumed without effect for the reactor, "deliver" onReceive called, "cap" / "chan" / "err" stopForError
RecvPacketOp(m) ==
  LET x0   == Loaded(m)
      pk   == Head(x0.rbuf)
      x    == [x0 EXCEPT !.rbuf = Tail(@)]
      late == m.rstop # ""
      c    == pk.c
      Stop(kind) == [st  |-> [x EXCEPT !.rstop = IF late THEN @ ELSE kind, !.rhalt = (@ \/ kind \notin DrainAfter)],
                     res |-> kind]
  IN IF pk.k \in {"ping", "pong"} THEN [st |-> x, res |-> ""]
     ELSE IF pk.k \in {"malformed", "toolong", "nosum", "readerr"} THEN Stop("err")
     ELSE IF pk.k = "unknown" THEN Stop("chan")
     ELSE IF RCap[c] < FragLen(x.rcv[c]) + pk.len THEN Stop("cap")      \* recving is left as it is
     ELSE LET buf == IF pk.len > 0 THEN Append(x.rcv[c], [id |-> pk.id, off |-> pk.off, len |-> pk.len]) ELSE x.rcv[c]
          IN IF pk.eof
             THEN [st |-> [x EXCEPT !.rcv[c] = <<>>, !.dlv[c] = Append(@, [id |-> pk.id, fr |-> buf, late |-> late])], res |-> "deliver"]
             ELSE [st |-> [x EXCEPT !.rcv[c] = buf], res |-> ""]

\* ---- the properties -------------------------------------------------------------------------------
Ids(seq)     == [i \in 1..Len(seq) |-> seq[i].id]
IsPrefix(a, b) == Len(a) <= Len(b) /\ \A i \in 1..Len(a) : a[i] = b[i]
MsgOf(m, c, id) == CHOOSE x \in {m.sent[c][i] : i \in 1..Len(m.sent[c])} : x.id = id
SentOn(m, c)  == {m.sent[c][i].id : i \in 1..Len(m.sent[c])}

\* fragments fs are exactly bytes 0..len-1 of message id, in order
RECURSIVE Contig(_, _, _)
Contig(fs, id, from) == IF fs = <<>> THEN TRUE
                        ELSE Head(fs).id = id /\ Head(fs).off = from /\ Contig(Tail(fs), id, from + Head(fs).len)
Intact(m, c, d) == d.id \in SentOn(m, c) /\ Contig(d.fr, d.id, 0) /\ FragLen(d.fr) = MsgOf(m, c, d.id).len

\* what channel c's reactor has received is the sequence of messages sent on c, each once, in order, complete
PerChannelFIFOExactlyOnce(m) == \A c \in Ch : /\ IsPrefix(Ids(m.dlv[c]), Ids(m.sent[c]))
                                              /\ \A i \in 1..Len(m.dlv[c]) : Intact(m, c, m.dlv[c][i])
\* no byte of a message of one channel ever sits in the buffer or in a delivery of another
NoCrossChannelMixing(m) == \A c \in Ch :
      /\ \A i \in 1..Len(m.rcv[c]) : m.rcv[c][i].id \in SentOn(m, c)
      /\ \A i \in 1..Len(m.dlv[c]) : \A j \in 1..Len(m.dlv[c][i].fr) : m.dlv[c][i].fr[j].id \in SentOn(m, c)
\* a message above the capacity is never delivered, neither whole nor truncated, and never buffered beyond it
OversizeRefused(m) == \A c \in Ch : /\ FragLen(m.rcv[c]) <= RCap[c]
                                    /\ \A i \in 1..Len(m.dlv[c]) : FragLen(m.dlv[c][i].fr) <= RCap[c]
                                    /\ \A i \in 1..Len(m.dlv[c]) : MsgOf(m, c, m.dlv[c][i].id).len <= RCap[c]
\* ... and the connection stops exactly when such a message arrives
StopsOnlyForOversize(m) == m.rstop = "cap" => \E c \in Ch : \E i \in 1..Len(m.sent[c]) : m.sent[c][i].len > RCap[c]
\* after an error of any kind nothing is handed to the reactor any more
NoDeliveryAfterError(m) == \A c \in Ch : \A i \in 1..Len(m.dlv[c]) : ~m.dlv[c][i].late
\* every byte string handed to the reactor is one of the messages sent on that channel, and each at most once
DeliveredIsSent(m) == \A c \in Ch :
      /\ \A i \in 1..Len(m.dlv[c]) : Intact(m, c, m.dlv[c][i])
      /\ \A a, b \in 1..Len(m.dlv[c]) : (a # b) => (m.dlv[c][a].id # m.dlv[c][b].id)
\* when everything has been sent, flushed and read and the connection is alive, everything was delivered
\* (after a graceful close nothing more will ever be sent, pending or not)
Quiescent(m)    == (~AnyPending(m) \/ m.sclosed) /\ m.obuf = <<>> /\ ~CanRecv(m)
AllDelivered(m) == (Quiescent(m) /\ m.rstop = "") => \A c \in Ch : Ids(m.dlv[c]) = Ids(m.sent[c])
\* the named deviation: a message is lost
EmptyLost(m) == m.lost # {}
==================================================================================
