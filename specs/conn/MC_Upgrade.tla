-------------------------------- MODULE MC_Upgrade --------------------------------
(* MultiplexTransport.upgrade (SecretConn.tla, part 3) on every combination of        *)
(*   auth     the long-term key the remote side completes the secret connection with  *)
(*            (NoKey: it cannot complete it; "A" = our own key: another process that  *)
(*            holds our key, or the self-reflection of SecretConn.tla part 1)         *)
(*   dialed   the ID we dialed (NoKey: inbound connection)                            *)
(*   claimed  the ID in the NodeInfo the remote side sends over the connection        *)
(*   compat   whether that NodeInfo is compatible (same network)                      *)
(* with self = "A".  There are no transitions: each initial state is one call of the  *)
(* real upgrade() on an in-memory connection whose other end is the driver            *)
(* (harness/conn TestUpgrade).  UpgradeSound is C20's "each side learns the other's   *)
(* true public key" at the level where peers are created.                             *)
EXTENDS Integers, Sequences, FiniteSets, TLC, Json

INSTANCE SecretConn WITH Honest <- {"A", "B"}, Adv <- "M", SessOwner <- <<>>, SessEph <- <<>>, AdvEphs <- {},
                         SigBindsChallenge <- TRUE, DirectionalKeys <- TRUE

VARIABLE u
Init == u \in [auth : Keys \cup {NoKey}, dialed : Keys \cup {NoKey}, claimed : Keys, self : {"A"}, compat : BOOLEAN]
Next == UNCHANGED u
Spec == Init /\ [][Next]_u

Sound == UpgradeSound(u)
\* nobody gets in under an ID whose key it did not prove, in particular not under the dialed one
NoImpersonationAtTransport == Upgrade(u) = "ok" => (u.claimed = u.auth /\ (u.dialed # NoKey => u.dialed = u.auth))
\* and an honest, compatible, other peer IS accepted
Complete == (u.auth # NoKey /\ u.auth # u.self /\ u.claimed = u.auth /\ u.compat /\ u.dialed \in {NoKey, u.auth}) => Upgrade(u) = "ok"

Dump == PrintT(ToJson([u |-> u, r |-> Upgrade(u)]))
==================================================================================
