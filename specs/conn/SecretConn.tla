------------------------------- MODULE SecretConn -------------------------------
(***************************************************************************)
(* The authenticated encrypted peer connection of lib/p2p/conn/             *)
(* secret_connection.go and the identity checks of lib/p2p/transport.go.    *)
(* Property C20, first half: "each side learns the other's true public key, *)
(* every byte written is read once, in order and unchanged however reads    *)
(* and writes are split, and any modification, reordering, truncation or    *)
(* replay of ciphertext frames is detected as an error rather than          *)
(* delivered".                                                              *)
(*                                                                         *)
(* Three parts, all in functional style (operators from a state record to   *)
(* [st, res]) so that the same text serves the exhaustive models            *)
(* (MC_Handshake, MC_Stream, MC_Upgrade), the per-transition dumps that the *)
(* Go driver replays on real MakeSecretConnection pairs, and the trace      *)
(* validator for concurrent writers (StreamTrace):                          *)
(*                                                                         *)
(*   Part 1  the handshake (MakeSecretConnection) as a Dolev-Yao algebra    *)
(*   Part 2  the frame stream of one direction (Write / Read) with a man    *)
(*           in the middle who owns the wire                                *)
(*   Part 3  the transport's use of the authenticated key (upgrade)         *)
(*                                                                         *)
(* Cryptography is abstracted in the usual way: X25519, HKDF, the merlin    *)
(* transcript, ChaCha20-Poly1305 and ECDSA are perfect (a sealed frame      *)
(* opens iff key, nonce and every byte are the ones used for sealing; a     *)
(* signature verifies iff it was made with that key over that challenge;    *)
(* a DH secret is known to exactly the holders of one of the two private    *)
(* halves).  What is decided here is the protocol logic built from them.    *)
(***************************************************************************)
EXTENDS Integers, Sequences, FiniteSets, TLC

Min(a, b) == IF a < b THEN a ELSE b
Max(a, b) == IF a < b THEN b ELSE a

(***************************************************************************)
(* Part 1.  Handshake.                                                      *)
(*                                                                         *)
(* MakeSecretConnection(conn, locPrivKey), in the order of the code:        *)
(*   genEphKeys                      fresh ephemeral X25519 pair            *)
(*   shareEphPubKey                  send ours in clear, receive "theirs"   *)
(*   sort32 / transcript             lo, hi = the two public halves sorted  *)
(*   computeDHSecret                 fails on low-order points              *)
(*   deriveSecrets(dh, locIsLeast)   two AEAD keys; which one is used for   *)
(*                                   sending depends on locIsLeast          *)
(*   challenge                       transcript(lo, hi, dh) extract         *)
(*   signChallenge                   long-term key signs the challenge      *)
(*   shareAuthSignature              [pubkey, signature] sent SEALED with   *)
(*                                   the send key, nonce 0; the peer's is   *)
(*                                   opened with the receive key, nonce 0   *)
(*   VerifySignature                 the received signature must be by the  *)
(*                                   received pubkey over OUR challenge     *)
(*                                                                         *)
(* Ephemeral keys are positive integers (public half = the integer, the     *)
(* lexical order of sort32 = integer order); 0 stands for a low-order       *)
(* point.  Long-term keys are names.                                        *)
(***************************************************************************)
CONSTANTS Honest,            \* names of the honest long-term keys, e.g. {"A", "B"}
          Adv,               \* the adversary's own long-term key, e.g. "M"
          SessOwner,         \* SessOwner[s] \in Honest: the party that runs handshake session s
          SessEph,           \* SessEph[s]: the ephemeral key session s generates (distinct positive integers)
          AdvEphs,           \* ephemeral keys whose private half the adversary holds
          SigBindsChallenge, \* TRUE = the code: the signed challenge is derived from (lo, hi, dh)
          DirectionalKeys    \* TRUE = the code: the two directions use different AEAD keys

Keys     == Honest \cup {Adv}
Sessions == 1..Len(SessOwner)
LowOrder == 0
NoKey    == "none"

\* X25519(a, pub(b)) = X25519(b, pub(a)): the secret is the unordered pair
DH(x, y) == {x, y}
\* the adversary can compute a DH secret iff it holds one of the two private halves
AdvKnowsDH(dh) == dh \cap AdvEphs # {}

\* challenge := transcript(lo, hi, dh).ExtractBytes   (SigBindsChallenge = FALSE: a constant, the
\* classical mistake that lets a man in the middle forward signatures between two sessions)
Chal(loc, rem) == IF SigBindsChallenge
                  THEN [lo |-> Min(loc, rem), hi |-> Max(loc, rem), dh |-> DH(loc, rem)]
                  ELSE [lo |-> 0, hi |-> 0, dh |-> {}]

\* deriveSecrets: res[0:32] is used for receiving by the side whose ephemeral key is the least
\* ("down": high -> low), res[32:64] for sending by it ("up": low -> high).  With equal keys
\* (a reflected key) sort32 makes locIsLeast true.
SendKey(loc, rem) == [dh |-> DH(loc, rem), dir |-> IF ~DirectionalKeys THEN "both" ELSE IF loc <= rem THEN "up" ELSE "down"]
RecvKey(loc, rem) == [dh |-> DH(loc, rem), dir |-> IF ~DirectionalKeys THEN "both" ELSE IF loc <= rem THEN "down" ELSE "up"]

\* one handshake session: st \in
\*   "init"   not started          "wEph"  ephemeral key sent, waiting for the remote one
\*   "wAuth"  sealed [pubkey, signature] sent, waiting for the remote one
\*   "done"   MakeSecretConnection returned a connection with RemotePubKey() = peer
\*   "failE"  returned an error before sending the auth frame (low-order point)
\*   "failA"  returned an error after sending it (frame does not open / signature does not verify)
InitSess == [st |-> "init", rem |-> -1, peer |-> NoKey]
InitHS   == [s \in Sessions |-> InitSess]

SentAuth(x) == x.st \in {"wAuth", "done", "failA"}

\* the sealed auth frame session s put on the wire
AuthOf(hs, s) == [key |-> SendKey(SessEph[s], hs[s].rem),
                  pub |-> SessOwner[s],
                  sig |-> [k |-> SessOwner[s], c |-> Chal(SessEph[s], hs[s].rem)]]
Junk == [key |-> [dh |-> {}, dir |-> "junk"], pub |-> Adv, sig |-> [k |-> Adv, c |-> Chal(0, 0)]]

\* --- steps of an honest session -------------------------------------------------------------
StartSess(hs, s) == [hs EXCEPT ![s].st = "wEph"]

\* receives ephemeral public key e (whatever the network hands over)
RecvEph(hs, s, e) == IF e = LowOrder THEN [hs EXCEPT ![s].st = "failE", ![s].rem = e]
                     ELSE [hs EXCEPT ![s].st = "wAuth", ![s].rem = e]

\* receives a sealed frame m
AuthAccepts(hs, s, m) == /\ m.key = RecvKey(SessEph[s], hs[s].rem)       \* opens with recvAead, nonce 0
                         /\ m.sig.k = m.pub                               \* signature is by the claimed key ...
                         /\ m.sig.c = Chal(SessEph[s], hs[s].rem)         \* ... over OUR challenge
RecvAuth(hs, s, m) == IF AuthAccepts(hs, s, m)
                      THEN [hs EXCEPT ![s].st = "done", ![s].peer = m.pub]
                      ELSE [hs EXCEPT ![s].st = "failA"]

\* --- what the man in the middle can hand to a session (Dolev-Yao closure, kept finite) ---------
\* ephemeral public keys: every one seen on the wire, its own, a low-order point
KnownEphs(hs) == {SessEph[s] : s \in {x \in Sessions : hs[x].st # "init"}} \cup AdvEphs \cup {LowOrder}
\* sealed frames seen on the wire (forward, reflect, replay into another session)
WireAuth(hs) == {s \in Sessions : SentAuth(hs[s])}
\* signatures it has read: those inside frames whose key it can derive
ReadableAuth(hs) == {s \in WireAuth(hs) : AdvKnowsDH(AuthOf(hs, s).key.dh)}
\* a frame built by the adversary for session s: needs the session's DH secret
CanBuildFor(hs, s) == hs[s].st = "wAuth" /\ AdvKnowsDH(DH(SessEph[s], hs[s].rem))
\*   dir  "recv" = sealed with the key s receives with, "send" = with the key s sends with (wrong direction)
\*   pub  the long-term key claimed
\*   from 0 = adversary signs s's challenge with its own key, s2 > 0 = signature copied out of s2's frame
Built(hs, s, dir, pub, from) ==
   [key |-> IF dir = "recv" THEN RecvKey(SessEph[s], hs[s].rem) ELSE SendKey(SessEph[s], hs[s].rem),
    pub |-> pub,
    sig |-> IF from = 0 THEN [k |-> Adv, c |-> Chal(SessEph[s], hs[s].rem)] ELSE AuthOf(hs, from).sig]

\* --- the properties ------------------------------------------------------------------------------
\* s2 is a session of the holder of K that ran on the same transcript as s (and is not s itself)
Matching(hs, s, s2) == /\ s2 # s /\ SentAuth(hs[s2])
                       /\ SessEph[s2] = hs[s].rem /\ hs[s2].rem = SessEph[s]
\* if s completes believing the peer is ANOTHER honest party K, the holder of K signed that very challenge
Authenticated(hs) == \A s \in Sessions : (hs[s].st = "done" /\ hs[s].peer \in Honest \ {SessOwner[s]}) =>
                        \E s2 \in Sessions : SessOwner[s2] = hs[s].peer /\ Matching(hs, s, s2)
\* a party without the private key cannot complete as that identity: whenever the adversary holds the
\* session secret, the identity learnt is the adversary's own -- or the session owner's own key, see below
NoImpersonation(hs) == \A s \in Sessions : (hs[s].st = "done" /\ AdvKnowsDH(DH(SessEph[s], hs[s].rem))) =>
                          hs[s].peer \in {Adv, SessOwner[s]}
\* both ends of an honest pair agree on each other
Mutual(hs) == \A s, s2 \in Sessions : (hs[s].st = "done" /\ hs[s2].st = "done" /\ Matching(hs, s, s2)) =>
                        (hs[s].peer = SessOwner[s2] /\ hs[s2].peer = SessOwner[s])

(* NAMED DEVIATION "self-reflection".  Both sides sign the SAME challenge and the signature carries no    *)
(* role, so whoever shares the session secret with s (the adversary running the handshake under its own   *)
(* ephemeral key) can open s's auth frame and seal s's own [pubkey, signature] back to it: s completes    *)
(* with RemotePubKey() = its OWN key although the holder of that key never ran a second session.  The     *)
(* SecretConnection alone therefore authenticates "another party or myself"; it is the transport          *)
(* (part 3: `Reject self`) that closes the gap, and EstablishedSound below is the property of the         *)
(* composition.  SelfReflected is reachable in MC_Handshake (checks/C20.py requires the counterexample)   *)
(* and is reproduced on the real MakeSecretConnection by the driver; a handshake that refused it would    *)
(* also satisfy C20, so the driver accepts "fail" wherever the specification says "own key".              *)
SelfReflected(hs, s) == /\ hs[s].st = "done" /\ hs[s].peer = SessOwner[s]
                        /\ ~\E s2 \in Sessions : SessOwner[s2] = SessOwner[s] /\ Matching(hs, s, s2)

(***************************************************************************)
(* Part 2.  The frame stream of one direction after the handshake.          *)
(*                                                                         *)
(* Write(data) cuts data into chunks of at most dataMaxSize = 1024 bytes,   *)
(* puts each behind a 4-byte length into a 1028-byte frame, seals it with   *)
(* sendNonce (then increments it) and writes the 1044 sealed bytes.         *)
(* Read(buf) serves buffered bytes first; otherwise reads exactly 1044      *)
(* bytes, opens them with recvNonce (incremented only on success), copies   *)
(* what fits into buf and buffers the rest.                                 *)
(*                                                                         *)
(* Data bytes are positions in the sender's stream: frame i carries the     *)
(* range [off, off+len).  The wire is a sequence of SEGMENTS of sealed      *)
(* frames, [k, i, a, b, fl]: bytes a..b-1 of the sealed form of frame i     *)
(* (k = "f") or of something not sealed in this direction of this session   *)
(* (k = "x"), fl = set of byte offsets (within the sealed frame) at which   *)
(* a bit has been flipped.  The man in the middle owns the unread wire.     *)
(*                                                                         *)
(* Abstraction used by Opens: 1044 bytes open iff they are, byte for byte,  *)
(* the sealed form of the frame whose nonce is recvNonce.  Pieces of        *)
(* different frames are taken to differ from the bytes they replace; on     *)
(* real ciphertext a one-byte cut is undone by the next frame's first byte  *)
(* with probability 1/256 -- the replay driver recognises that case (the    *)
(* bytes read ARE a genuine frame) and skips the behaviour.                 *)
(* Not modelled: a peer that holds the session keys and seals frames with   *)
(* a length field above 1024 or of length zero (that is C18's subject).     *)
(***************************************************************************)
DataMax    == 1024
SealedSize == DataMax + 4 + 16     \* dataMaxSize + dataLenSize + aeadSizeOverhead = 1044

\* the frames Write(n) seals when `off` bytes have been sealed before and sendNonce = nonce.  w = how many of the
\* frame's 1044 sealed bytes reached the wire (all of them unless the underlying write failed, see WriteFaultOp)
RECURSIVE Frames(_, _, _)
Frames(off, n, nonce) == IF n = 0 THEN <<>>
                         ELSE LET k == Min(n, DataMax) IN
                              <<[off |-> off, len |-> k, nonce |-> nonce, w |-> SealedSize]>> \o Frames(off + k, n - k, nonce + 1)
NumFrames(n) == (n + DataMax - 1) \div DataMax

Seg(i)  == [k |-> "f", i |-> i, a |-> 0, b |-> SealedSize, fl |-> {}]
\* a frame of THIS session and direction that was sealed with frame counter j before the part of the session that is
\* modelled here (the adversary's archive, see StreamAt)
ArchSeg(j) == [k |-> "a", i |-> j, a |-> 0, b |-> SealedSize, fl |-> {}]
Foreign == [k |-> "x", i |-> 0, a |-> 0, b |-> SealedSize, fl |-> {}]
SegLen(g) == g.b - g.a

\* sent    frames sealed so far, each with the nonce it was sealed with   total   bytes sealed
\* sn      sendNonce                                                      lossy   a fault lost bytes of the stream
\* rfaults Reads that failed because the underlying read did
\* wire    unread segments                                                closed  writer closed the pipe
\* rn      recvNonce = number of frames opened                            rb      recvBuffer as a range
\* dl      delivered ranges, adjacent ones merged                         errs    Reads that returned an error
\* nm      manipulations so far
(* POSITION INDEPENDENCE.  The frame counter is a 64-bit integer (nonce[4:12], little endian) incremented by one   *)
(* per frame: a session that has already carried `base` frames seals its next frames with base, base+1, ... and    *)
(* expects exactly those.  The map k |-> base + k is INJECTIVE on the whole life of a session (the code panics     *)
(* rather than wrap at 2^64-1), so under one key no two frames ever share a nonce.  That, and nothing else, is why  *)
(* a frame recorded earlier in the same session (counter j < base <= recvNonce) can never open again: NonceOrder    *)
(* below.  StreamAt(base) is the state of such a session; the model's `sent` / `total` / `dl` count from there.      *)
StreamAt(base) == [sent |-> <<>>, total |-> 0, sn |-> base, base |-> base, wire |-> <<>>, closed |-> FALSE, rn |-> base,
                   rb |-> [off |-> 0, len |-> 0], dl |-> <<>>, errs |-> 0, nm |-> 0, lossy |-> FALSE, rfaults |-> 0]
EmptyStream == StreamAt(0)

RECURSIVE WireBytes(_)
WireBytes(w) == IF w = <<>> THEN 0 ELSE SegLen(Head(w)) + WireBytes(Tail(w))

\* --- sender ------------------------------------------------------------------------------------------
WriteOp(s, n) ==
  LET fs == Frames(s.total, n, s.sn)  base == Len(s.sent) IN
  [st  |-> [s EXCEPT !.sent = @ \o fs, !.total = @ + n, !.sn = @ + Len(fs),
                     !.wire = @ \o [j \in 1..Len(fs) |-> Seg(base + j)]],
   res |-> <<"ok", n, 0>>]

(* FAULT OF THE UNDERLYING CONNECTION on the writer's side.  Write(n) seals its k-th frame and the underlying     *)
(* conn.Write of those 1044 bytes returns a (transient) error although c of them reached the wire: c = 1044 all,   *)
(* 0 < c < 1044 a prefix, c = 0 none.  Write returns (bytes of the frames before, error); the frames after the    *)
(* k-th are never sealed.  The application KEEPS USING the connection.  The code seals, increments sendNonce and   *)
(* only then writes (Seal; incrNonce; conn.Write), so the failed frame has consumed its nonce: nonces are never    *)
(* reused, the frame is part of `sent` (its data are stream positions like any other's), and a receiver that       *)
(* never gets all of its bytes can never get past it -- it runs into decrypt errors, it never skips silently.       *)
(* reuse = TRUE is the tempting mistake (increment only after a successful write): the next frame is then sealed   *)
(* with the same nonce (MC_Stream requires the counterexamples to NoNonceReuse and DeliveredIsPrefixOfSent).       *)
WriteFaultOp(s, n, k, c, reuse) ==
  LET fs   == SubSeq(Frames(s.total, n, s.sn), 1, k)
      fs2  == [fs EXCEPT ![k].w = c]
      base == Len(s.sent)
      segs == [j \in 1..(k - 1) |-> Seg(base + j)] \o (IF c = 0 THEN <<>> ELSE <<[Seg(base + k) EXCEPT !.b = c]>>)
  IN [st  |-> [s EXCEPT !.sent = @ \o fs2, !.total = fs[k].off + fs[k].len,
                        !.sn = IF reuse THEN @ + k - 1 ELSE @ + k,
                        !.wire = @ \o segs, !.lossy = (@ \/ c < SealedSize)],
      res |-> <<"err", fs[k].off - s.total, 0>>]
CloseOp(s) == [st |-> [s EXCEPT !.closed = TRUE], res |-> <<"ok", 0, 0>>]

\* --- man in the middle (j, k: positions in the unread wire) ---------------------------------------------
RemoveAt(w, j)    == SubSeq(w, 1, j - 1) \o SubSeq(w, j + 1, Len(w))
InsertAt(w, j, x) == SubSeq(w, 1, j - 1) \o <<x>> \o SubSeq(w, j, Len(w))
Manip(s, w)       == [st |-> [s EXCEPT !.wire = w, !.nm = @ + 1], res |-> <<"ok", 0, 0>>]

CanFlip(s, j, off)  == j \in 1..Len(s.wire) /\ off \in 0..(SegLen(s.wire[j]) - 1) /\ (s.wire[j].a + off) \notin s.wire[j].fl
Flip(s, j, off)     == Manip(s, [s.wire EXCEPT ![j].fl = @ \cup {s.wire[j].a + off}])   \* flip a bit of byte off of segment j
Drop(s, j)          == Manip(s, RemoveAt(s.wire, j))
Dup(s, j)           == Manip(s, InsertAt(s.wire, j + 1, s.wire[j]))
Swap(s, j, k)       == Manip(s, [s.wire EXCEPT ![j] = s.wire[k], ![k] = s.wire[j]])
CanCut(s, j, c)     == j \in 1..Len(s.wire) /\ c \in 1..(SegLen(s.wire[j]) - 1)
CutTail(s, j, c)    == Manip(s, [s.wire EXCEPT ![j].b = s.wire[j].a + c])            \* keep the first c bytes
CutHead(s, j, c)    == Manip(s, [s.wire EXCEPT ![j].a = s.wire[j].a + c])            \* lose the first c bytes
Recorded(s)         == {i \in 1..Len(s.sent) : s.sent[i].w = SealedSize}               \* frames that were on the wire completely
Replay(s, j, i)     == Manip(s, InsertAt(s.wire, j, Seg(i)))                         \* re-insert a recorded frame
Archive(s, j, c)    == Manip(s, InsertAt(s.wire, j, ArchSeg(c)))                     \* re-insert the session's frame with counter c < base
Inject(s, j)        == Manip(s, InsertAt(s.wire, j, Foreign))                        \* frame of the other direction / an older
                                                                                      \* session / noise (the history names which)

\* --- receiver ---------------------------------------------------------------------------------------
\* io.ReadFull(conn, sealedFrame): n bytes off the head of the wire
RECURSIVE Take(_, _)
Take(w, n) == IF n = 0 \/ w = <<>> THEN [got |-> <<>>, rest |-> w]
              ELSE LET h == Head(w)  l == SegLen(h) IN
                   IF l <= n THEN LET r == Take(Tail(w), n - l) IN [got |-> <<h>> \o r.got, rest |-> r.rest]
                   ELSE [got |-> <<[h EXCEPT !.b = h.a + n]>>, rest |-> <<[h EXCEPT !.a = h.a + n]>> \o Tail(w)]

\* adjacent pieces of the same sealed frame that continue each other are the same bytes as one piece
RECURSIVE Norm(_)
Norm(g) == IF Len(g) < 2 THEN g
           ELSE LET x == g[1]  y == g[2] IN
                IF x.k = "f" /\ y.k = "f" /\ x.i = y.i /\ x.b = y.a
                THEN Norm(<<[x EXCEPT !.b = y.b, !.fl = x.fl \cup y.fl]>> \o SubSeq(g, 3, Len(g)))
                ELSE <<x>> \o Norm(Tail(g))

\* recvAead.Open(frame, recvNonce, sealedFrame): exactly the sealed bytes of a frame that was sealed with recvNonce
Opens(s, g) == /\ Len(g) = 1 /\ g[1].k = "f" /\ g[1].a = 0 /\ g[1].b = SealedSize /\ g[1].fl = {}
               /\ s.sent[g[1].i].nonce = s.rn

AddRange(dl, off, k) == IF k = 0 THEN dl
                        ELSE IF dl # <<>> /\ dl[Len(dl)].off + dl[Len(dl)].len = off
                        THEN [dl EXCEPT ![Len(dl)].len = @ + k]
                        ELSE Append(dl, [off |-> off, len |-> k])

\* a Read on an open pipe with less than one sealed frame available blocks
ReadEnabled(s) == s.rb.len > 0 \/ WireBytes(s.wire) >= SealedSize \/ s.closed

\* result <<"ok", k, off>>: k bytes, the stream positions off .. off+k-1;  <<"err", 0, 0>>
ReadOp(s, n) ==
  IF s.rb.len > 0
  THEN LET k == Min(n, s.rb.len) IN
       [st  |-> [s EXCEPT !.rb = [off |-> s.rb.off + k, len |-> s.rb.len - k], !.dl = AddRange(@, s.rb.off, k)],
        res |-> <<"ok", k, s.rb.off>>]
  ELSE IF WireBytes(s.wire) >= SealedSize
  THEN LET t == Take(s.wire, SealedSize)  g == Norm(t.got) IN
       IF Opens(s, g)
       THEN LET f == s.sent[g[1].i]  k == Min(n, f.len) IN
            [st  |-> [s EXCEPT !.wire = t.rest, !.rn = @ + 1,
                               !.rb = [off |-> f.off + k, len |-> f.len - k],
                               !.dl = AddRange(@, f.off, k)],
             res |-> <<"ok", k, f.off>>]
       ELSE \* the 1044 bytes are consumed, recvNonce stays
            [st |-> [s EXCEPT !.wire = t.rest, !.errs = @ + 1], res |-> <<"err", 0, 0>>]
  ELSE \* closed pipe: EOF / unexpected EOF, whatever was left is consumed
       [st |-> [s EXCEPT !.wire = <<>>, !.errs = @ + 1], res |-> <<"err", 0, 0>>]

(* FAULT OF THE UNDERLYING CONNECTION on the reader's side.  Read has to go to the wire, the underlying read hands  *)
(* over c < 1044 bytes and then returns a (transient) error; the application reads again later.  The code reads    *)
(* into a scratch buffer (io.ReadFull into a pooled slice) and returns the error: the c bytes are gone, recvNonce   *)
(* stays.  For c > 0 every later frame is read out of step and fails to open -- an error, never wrong data.         *)
ReadFaultEnabled(s, c) == s.rb.len = 0 /\ c < SealedSize /\ WireBytes(s.wire) >= c
ReadFaultOp(s, c) == [st  |-> [s EXCEPT !.wire = Take(s.wire, c).rest, !.errs = @ + 1, !.rfaults = @ + 1,
                                        !.lossy = (@ \/ c > 0)],
                      res |-> <<"err", 0, 0>>]

\* --- the properties ------------------------------------------------------------------------------
RECURSIVE SumLen(_, _)
SumLen(fs, n) == IF n = 0 THEN 0 ELSE fs[n].len + SumLen(fs, n - 1)
DeliveredBytes(s) == IF s.dl = <<>> THEN 0 ELSE s.dl[1].len

\* every byte delivered is the next byte of what was written: once, in order (unchanged: the position IS the byte)
DeliveredIsPrefixOfSent(s) == s.dl = <<>> \/ (Len(s.dl) = 1 /\ s.dl[1].off = 0 /\ s.dl[1].len <= s.total)
\* what has been handed out or is buffered is exactly the content of the first rn frames: nothing that
\* was touched, re-ordered, replayed or foreign ever contributes a byte
OnlyGenuineFramesOpen(s)   == /\ DeliveredBytes(s) + s.rb.len = SumLen(s.sent, s.rn - s.base)
                              /\ s.base <= s.rn /\ s.rn - s.base <= Len(s.sent)
\* the counters only grow and an archived frame's counter lies below where the modelled part of the session began:
\* it can never be the one the receiver expects (Opens accepts frames of `sent` only, and this is why that is right)
NonceOrder(s) == /\ s.base <= s.rn /\ s.rn <= s.sn
                 /\ \A j \in 1..Len(s.wire) : s.wire[j].k = "a" => s.wire[j].i < s.rn
\* an untouched stream (no manipulation, no fault that lost bytes) is delivered completely and without any error of
\* the connection's own before the end of the pipe -- also when a write "failed" after all bytes were out
CleanIsComplete(s) == (s.nm = 0 /\ ~s.lossy) =>
   /\ s.errs > s.rfaults => (s.closed /\ s.wire = <<>>)
   /\ (s.wire = <<>> /\ s.rb.len = 0) => DeliveredBytes(s) = s.total
\* the sender never seals two frames with the same nonce, whatever the underlying writes reported
NoNonceReuse(s) == /\ \A i, j \in 1..Len(s.sent) : i # j => s.sent[i].nonce # s.sent[j].nonce
                   /\ \A i \in 1..Len(s.sent) : s.sent[i].nonce < s.sn
\* the reader runs into an error as soon as it reaches something that is not the next genuine frame
\* (stated on ReadOp itself: MC_Stream checks it as an action property)
NextIsGenuine(s) == /\ WireBytes(s.wire) >= SealedSize
                    /\ Opens(s, Norm(Take(s.wire, SealedSize).got))

(***************************************************************************)
(* Part 3.  MultiplexTransport.upgrade: what the transport does with the    *)
(* authenticated key.  auth = the key the secret connection authenticated   *)
(* (NoKey: handshake failed), dialed = the ID the caller dialed (NoKey for  *)
(* inbound), claimed = NodeInfo.ID the peer reports over the connection,    *)
(* self = our own ID, compat = NodeInfo.CompatibleWith.                     *)
(***************************************************************************)
Upgrade(u) == IF u.auth = NoKey THEN "auth"                              \* "secret conn failed"
              ELSE IF u.dialed # NoKey /\ u.auth # u.dialed THEN "auth"  \* "conn.ID dialed ID mismatch"
              ELSE IF u.claimed # u.auth THEN "auth"                     \* "conn.ID NodeInfo.ID mismatch"
              ELSE IF u.claimed = u.self THEN "self"
              ELSE IF ~u.compat THEN "incompatible"
              ELSE "ok"
\* an accepted peer is the one that was dialed, the ID it goes by is the authenticated one, and it is not us
UpgradeSound(u) == Upgrade(u) = "ok" => /\ u.auth # NoKey /\ u.claimed = u.auth /\ u.auth # u.self
                                         /\ (u.dialed # NoKey => u.auth = u.dialed)

\* Composition with part 1: session s becomes a peer connection iff the handshake returned and upgrade
\* accepts the authenticated key (the peer reports the ID it authenticated as -- anything else is refused
\* anyway -- and is compatible).  dialed = NoKey: inbound.
Established(hs, s, dialed) == /\ hs[s].st = "done"
                              /\ Upgrade([auth |-> hs[s].peer, dialed |-> dialed, claimed |-> hs[s].peer,
                                           self |-> SessOwner[s], compat |-> TRUE]) = "ok"
\* C20, first sentence, for peer connections: the peer of an established connection is another party; if it
\* is honest it really ran this handshake; if the adversary holds the session secret the peer is known
\* under the adversary's own key
EstablishedSound(hs) == \A s \in Sessions, d \in Keys \cup {NoKey} : Established(hs, s, d) =>
      /\ hs[s].peer # SessOwner[s]
      /\ d # NoKey => hs[s].peer = d
      /\ hs[s].peer \in Honest => \E s2 \in Sessions : SessOwner[s2] = hs[s].peer /\ Matching(hs, s, s2)
      /\ AdvKnowsDH(DH(SessEph[s], hs[s].rem)) => hs[s].peer = Adv
==================================================================================
