-------------------------------- MODULE MC_Stream --------------------------------
(* Exhaustive model of one direction of a SecretConnection (SecretConn.tla, part 2):  *)
(* every interleaving of Write(n), Close, Read(n) and of the man-in-the-middle        *)
(* manipulations Flip / Drop / Dup / Swap / CutTail / CutHead / Replay / Inject on    *)
(* the unread wire, and of FAULTS OF THE UNDERLYING CONNECTION (a frame write that      *)
(* reports an error although all / a prefix / none of the frame went out, a read that   *)
(* fails mid-frame; the application keeps using the connection), within the bounds      *)
(* given by the constants.  `hist` (the path) is                                        *)
(* hidden by the VIEW; every transition that ends in a Read is printed by the action  *)
(* constraint Dump and replayed on a real MakeSecretConnection pair whose wire is     *)
(* owned by the Go driver (harness/conn TestStream): each step's result and, for      *)
(* Reads, the exact bytes are compared.                                               *)
EXTENDS Integers, Sequences, FiniteSets, TLC, Json

CONSTANTS WSizes,     \* sizes a Write may have
          RSizes,     \* buffer sizes a Read may have
          MaxWrites, MaxReads,
          MaxManip,   \* number of manipulations
          Kinds,      \* manipulation kinds enabled, subset of AllKinds
          FlipOffs,   \* byte offsets (within the segment) tried by Flip
          CutOffs,    \* cut positions tried by CutTail / CutHead
          InjKinds,   \* what Inject inserts: "rev" frame of the reverse direction with the expected nonce,
                      \* "old" frame with the expected nonce from an earlier session of the same two keys, "junk" noise
                      \* (the history carries recvNonce so that the driver can pick that frame)
          MaxWire,    \* manipulations address wire positions 1..MaxWire only
          MaxFaults,  \* faults of the underlying connection (write and read side together)
          FaultPass,  \* WriteFault: how many of the failed frame's 1044 sealed bytes reach the wire (0 none .. 1044 all)
          RFaultAt,   \* ReadFault: after how many bytes of the frame the underlying read fails
          Base,       \* frames the session has carried before (SecretConn!StreamAt).  The driver replays one dump at several
                      \* REAL counter values (2^32-2, 2^32-1, 2^32, 2^63, 2^64-3, ...): any real value >= ArchN stands for it
          ArchN,      \* the adversary's archive: the session's frames with counters 0 .. Min(Base, ArchN)-1
          ReuseNonce  \* FALSE = the code (Seal; incrNonce; conn.Write).  TRUE = nonce consumed only by a successful write:
                      \* checks/C20.py requires TLC to find the counterexamples to NoNonceReuseInv and Inv

AllKinds == {"flip", "drop", "dup", "swap", "cutt", "cuth", "replay", "inject", "archive"}

INSTANCE SecretConn WITH Honest <- {"A"}, Adv <- "M", SessOwner <- <<>>, SessEph <- <<>>, AdvEphs <- {},
                         SigBindsChallenge <- TRUE, DirectionalKeys <- TRUE

VARIABLES s,      \* the stream state (SecretConn!EmptyStream ...)
          nw, nr, \* Writes / Reads so far
          nf,     \* faults so far
          hist    \* the path: <<action, args..., result>>
vars == <<s, nw, nr, nf, hist>>

Init == s = StreamAt(Base) /\ nw = 0 /\ nr = 0 /\ nf = 0 /\ hist = <<>>

Step(r, a) == s' = r.st /\ hist' = Append(hist, a \o r.res)

Pos == 1..Min(Len(s.wire), MaxWire)

DoWrite == \E n \in WSizes : /\ ~s.closed /\ nw < MaxWrites
                             /\ Step(WriteOp(s, n), <<"w", n, 0, 0>>) /\ nw' = nw + 1 /\ UNCHANGED <<nr, nf>>
\* Write(n) whose k-th underlying frame write fails after c bytes; the application goes on writing afterwards
DoWriteFault == \E n \in WSizes \ {0} : \E k \in 1..NumFrames(n), c \in FaultPass :
                             /\ ~s.closed /\ nw < MaxWrites /\ nf < MaxFaults
                             /\ Step(WriteFaultOp(s, n, k, c, ReuseNonce), <<"wf", n, k, c>>)
                             /\ nw' = nw + 1 /\ nf' = nf + 1 /\ UNCHANGED nr
DoClose == /\ ~s.closed /\ nw > 0 /\ Step(CloseOp(s), <<"c", 0, 0, 0>>) /\ UNCHANGED <<nw, nr, nf>>
DoRead  == \E n \in RSizes : /\ ReadEnabled(s) /\ nr < MaxReads
                             /\ Step(ReadOp(s, n), <<"r", n, 0, 0>>) /\ nr' = nr + 1 /\ UNCHANGED <<nw, nf>>
\* Read(n) whose underlying read fails after c bytes of the frame; the application reads again afterwards
DoReadFault == \E n \in RSizes, c \in RFaultAt :
                             /\ ReadFaultEnabled(s, c) /\ nr < MaxReads /\ nf < MaxFaults
                             /\ Step(ReadFaultOp(s, c), <<"rf", n, c, 0>>)
                             /\ nr' = nr + 1 /\ nf' = nf + 1 /\ UNCHANGED nw
DoManip == /\ s.nm < MaxManip /\ UNCHANGED <<nw, nr, nf>>
           /\ \/ "flip" \in Kinds /\ \E j \in Pos, o \in FlipOffs : CanFlip(s, j, o) /\ Step(Flip(s, j, o), <<"flip", j, o, 0>>)
              \/ "drop" \in Kinds /\ \E j \in Pos : Step(Drop(s, j), <<"drop", j, 0, 0>>)
              \/ "dup" \in Kinds /\ \E j \in Pos : Step(Dup(s, j), <<"dup", j, 0, 0>>)
              \/ "swap" \in Kinds /\ \E j, k \in Pos : j < k /\ Step(Swap(s, j, k), <<"swap", j, k, 0>>)
              \/ "cutt" \in Kinds /\ \E j \in Pos, c \in CutOffs : CanCut(s, j, c) /\ Step(CutTail(s, j, c), <<"cutt", j, c, 0>>)
              \/ "cuth" \in Kinds /\ \E j \in Pos, c \in CutOffs : CanCut(s, j, c) /\ Step(CutHead(s, j, c), <<"cuth", j, c, 0>>)
              \/ "replay" \in Kinds /\ \E j \in 1..(Min(Len(s.wire), MaxWire) + 1), i \in Recorded(s) :
                                            Step(Replay(s, j, i), <<"replay", j, i, 0>>)
              \/ "inject" \in Kinds /\ \E j \in 1..(Min(Len(s.wire), MaxWire) + 1), k \in InjKinds :
                                            Step(Inject(s, j), <<"inject", j, s.rn - Base, k>>)
              \* a frame recorded at the start of the session is put in front of the j-th unread segment
              \/ "archive" \in Kinds /\ \E j \in 1..(Min(Len(s.wire), MaxWire) + 1), c \in 0..(Min(Base, ArchN) - 1) :
                                            Step(Archive(s, j, c), <<"archive", j, c, 0>>)

Next == DoWrite \/ DoWriteFault \/ DoClose \/ DoRead \/ DoReadFault \/ DoManip
Spec == Init /\ [][Next]_vars
View == <<s, nw, nr, nf>>

\* ---- C20 on the stream ----
Inv == /\ DeliveredIsPrefixOfSent(s)
       /\ OnlyGenuineFramesOpen(s)
       /\ CleanIsComplete(s)
       /\ NoNonceReuse(s)
       /\ NonceOrder(s)
\* separately, for the expected counterexamples with ReuseNonce = TRUE
NoNonceReuseInv == NoNonceReuse(s)
PrefixInv       == DeliveredIsPrefixOfSent(s)
\* a Read that has to go to the wire succeeds iff the next 1044 bytes are the next genuine frame; otherwise it
\* reports an error and hands out nothing ("detected as an error rather than delivered")
TamperDetected == [][\A n \in RSizes :
                       (s.rb.len = 0 /\ ReadEnabled(s) /\ ~NextIsGenuine(s)) =>
                          (ReadOp(s, n).res[1] = "err" /\ ReadOp(s, n).st.dl = s.dl /\ ReadOp(s, n).st.rb.len = 0)]_vars

\* printed: transitions whose last action is a Read (the earlier steps are checked on the way)
Dump == IF hist'[Len(hist')][1] \in {"r", "rf"}
        THEN PrintT(ToJson([h |-> hist', d |-> DeliveredBytes(s'), e |-> s'.errs]))
        ELSE TRUE
==================================================================================
