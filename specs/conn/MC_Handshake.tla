------------------------------ MODULE MC_Handshake ------------------------------
(* Exhaustive Dolev-Yao model of MakeSecretConnection (SecretConn.tla, part 1).       *)
(* Honest sessions (SessOwner, SessEph) run the handshake; the adversary sits on      *)
(* every wire: each message a session receives is chosen by the adversary among       *)
(* everything it can produce from what it has seen, its own ephemeral keys (AdvEphs,  *)
(* lexically below, between and above the honest ones) and its own long-term key Adv. *)
(*                                                                                    *)
(* Invariants Authenticated / NoImpersonation / Mutual are C20's "each side learns    *)
(* the other's true public key (a party without the private key cannot complete the  *)
(* handshake as that identity)".  With SigBindsChallenge or DirectionalKeys FALSE the *)
(* same model yields the relay and the reflection attack (checks/C20.py requires both *)
(* counterexamples, so the invariants are known not to hold vacuously).               *)
(*                                                                                    *)
(* Every transition into a state where all sessions have returned is printed (Dump)   *)
(* and replayed by harness/conn TestHandshake: the honest sessions are real           *)
(* MakeSecretConnection calls, the adversary is the driver with its own               *)
(* implementation of the cryptography.                                                *)
EXTENDS SecretConn, Json

VARIABLES hs,    \* per session [st, rem, peer]
          hist   \* the path
vars == <<hs, hist>>

Init == hs = InitHS /\ hist = <<>>

Do(h2, a) == hs' = h2 /\ hist' = Append(hist, a)
\* result of MakeSecretConnection as the driver compares it: the authenticated key, "self" for the owner's own
\* key (the driver also accepts "fail" there, see SelfReflected), "fail", or "wait" (has not returned yet)
Res(h2, s) == IF h2[s].st = "done" THEN (IF h2[s].peer = SessOwner[s] THEN "self" ELSE h2[s].peer)
              ELSE IF h2[s].st \in {"failE", "failA"} THEN "fail" ELSE "wait"

Start == \E s \in Sessions : hs[s].st = "init" /\ Do(StartSess(hs, s), <<"start", s, 0, "", "", 0, "wait">>)
\* the adversary hands ephemeral key e to session s (its own, another session's = relay, s's own = reflection, low order)
GiveEph == \E s \in Sessions, e \in KnownEphs(hs) :
              /\ hs[s].st = "wEph"
              /\ LET h2 == RecvEph(hs, s, e) IN Do(h2, <<"eph", s, e, "", "", 0, Res(h2, s)>>)
\* it forwards the sealed frame of session s2 to s (s2 = the honest peer: relay; s2 = s: reflection; else replay)
Forward == \E s \in Sessions, s2 \in WireAuth(hs) :
              /\ hs[s].st = "wAuth"
              /\ LET h2 == RecvAuth(hs, s, AuthOf(hs, s2)) IN Do(h2, <<"fwd", s, s2, "", "", 0, Res(h2, s)>>)
\* it seals a frame of its own making for s (possible iff it shares the DH secret with s)
Build == \E s \in Sessions, dir \in {"recv", "send"}, pub \in Keys, from \in {0} \cup ReadableAuth(hs) :
              /\ CanBuildFor(hs, s)
              /\ LET h2 == RecvAuth(hs, s, Built(hs, s, dir, pub, from))
                 IN Do(h2, <<"mk", s, 0, dir, pub, from, Res(h2, s)>>)
Noise == \E s \in Sessions : /\ hs[s].st = "wAuth"
                             /\ LET h2 == RecvAuth(hs, s, Junk) IN Do(h2, <<"junk", s, 0, "", "", 0, Res(h2, s)>>)

Next == Start \/ GiveEph \/ Forward \/ Build \/ Noise
Spec == Init /\ [][Next]_vars
View == hs

Inv == Authenticated(hs) /\ NoImpersonation(hs) /\ Mutual(hs) /\ EstablishedSound(hs)
\* separately, for the two expected counterexamples
InvAuthenticated   == Authenticated(hs)
InvNoImpersonation == NoImpersonation(hs)
InvMutual          == Mutual(hs)

\* reachability companions (must be VIOLATED): two honest sessions do complete with each other, and the
\* adversary does complete under its own name
NeverHonestPair == ~(\E s, s2 \in Sessions : s # s2 /\ hs[s].st = "done" /\ hs[s2].st = "done" /\ Matching(hs, s, s2))
NeverAdvAsItself == ~(\E s \in Sessions : hs[s].st = "done" /\ hs[s].peer = Adv)
\* the named deviation is real (must be VIOLATED as well)
NeverSelfReflected == ~(\E s \in Sessions : SelfReflected(hs, s))

Terminated(h) == \A s \in Sessions : h[s].st \in {"done", "failE", "failA"}
Dump == IF Terminated(hs')
        THEN PrintT(ToJson([h |-> hist', o |-> [s \in Sessions |-> Res(hs', s)]]))
        ELSE TRUE
==================================================================================
