----------------------------- MODULE ReactorNetTrace -----------------------------
(***************************************************************************)
(* Trace validation of REAL REACTOR NETWORKS (harness/reactornet).          *)
(*                                                                         *)
(* The runs explained here are not driven by a scheduler of the harness:    *)
(* N real nodes — ConsensusState + ConsensusManager (consensus/manager.go:  *)
(* Receive, PeerState bookkeeping, gossipDataRoutine, gossipVotesRoutine,    *)
(* queryMaj23Routine) on real p2p Switches over net.Pipe, the real           *)
(* TimeoutTicker, the real receiveRoutine, the real file WAL — run on their   *)
(* own goroutines through an adversarial prefix (partitions, nodes stopped    *)
(* and rebuilt on their surviving database and WAL, late joiners) and a        *)
(* synchronous suffix.  What each node did must nevertheless be a behaviour   *)
(* of the handler-level specification specs/node/KardiaNode.tla: this module  *)
(* EXTENDS specs/node/KardiaNodeTrace.tla (same state, same Proj, same        *)
(* Restart-is-replay semantics, same Agreement / C03 invariants) and replaces *)
(* only what cannot be observed the same way in a free-running node.          *)
(*                                                                         *)
(* Where the lines come from (nothing is reconstructed by guessing):          *)
(*   input   of handler call k of a node = k-th msgInfo / timeoutInfo record  *)
(*           of the node's WAL (the real receiveRoutine logs every input      *)
(*           before it handles it; own messages come back through the         *)
(*           internal queue with an empty peer id: own = TRUE);               *)
(*   post    = projection of cs.RoundState recorded by consensus.VerifGate at *)
(*           the top of the NEXT iteration of the receive loop, in the        *)
(*           receive goroutine (nothing else writes the round state);         *)
(*   signed  = the PrivValidator.SignVote / SignProposal requests made        *)
(*           between the two gate calls, i.e. during this handler call.       *)
(*                                                                         *)
(* Differences to KardiaNodeTrace!Step:                                      *)
(*  (1) `out`.  A free-running node's own messages are not drained after the  *)
(*      call; they sit in cs.internalMsgQueue and come back as LATER inputs.  *)
(*      The specification therefore keeps the queue: pend[n] = the messages   *)
(*      the handlers of n have emitted and n has not yet taken back.  An own  *)
(*      input must be the HEAD of pend[n] (FIFO channel), and every call      *)
(*      appends its MsgOuts.  What the call signed is compared directly with  *)
(*      the signature requests observed during the call (C03 is stated on     *)
(*      these).                                                              *)
(*  (2) `touts`.  The real ticker cannot be read.  Instead: a timeout that    *)
(*      FIRES must have been SCHEDULED by an earlier handler call of the       *)
(*      node (sched[n]; OnStart's scheduleRound0 contributes                   *)
(*      <<h, 1, NewHeight>>).  Whether a scheduled timeout eventually fires    *)
(*      is part of the liveness verdict of the driver, not of this module.     *)
(*  (3) restart.  The replay's own messages are put on the internal queue of  *)
(*      the NEW process (signAddVote / decideProposal run in replay mode), so *)
(*      pend[n] := MsgOuts of the replay; what the replay signs must already  *)
(*      be in the node's signature log AND is what the real process asked its  *)
(*      PrivValidator to sign while replaying.                                 *)
(*                                                                         *)
(* Peer majority claims (VoteSetMaj23 -> HeightVoteSet.SetPeerMaj23) change a *)
(* vote set's behaviour only for CONFLICTING votes; every node of these runs   *)
(* is a correct real node, so no conflicting vote exists unless a restarted    *)
(* node double-signs — which is a violation in its own right and makes the     *)
(* trace unexplainable here (as it should).  No cut is applied.               *)
(***************************************************************************)
EXTENDS KardiaNodeTrace

VARIABLES pend,   \* pend[n]: own messages emitted by the handlers of n, not yet taken back from the internal queue
          sched   \* sched[n]: every <<h, r, step>> the handlers of n have handed to the ticker so far
rvars == <<vars, pend, sched>>

TKey(o) == <<o.h, o.r, o.step>>
RECURSIVE TKeys(_)
TKeys(s) == IF s = <<>> THEN {} ELSE {TKey(Head(s))} \cup TKeys(Tail(s))

RInit == /\ Init
         /\ pend  = [n \in Nodes |-> <<>>]
         \* OnStart: scheduleRound0.  <<0, 1, 1>> is the ticker's own initial timeoutInfo (consensus/ticker.go
         \* EmptyTimeoutInfo): NewTimeoutTicker creates its timer with duration 0 and stops it at once; when the expiry
         \* races with stopTimer's drain the ticker delivers that record once.  handleTimeout ignores it (height 0 is
         \* never the node's height) and so does HandleTimeout; observed in real runs, it is part of the ticker's behaviour.
         /\ sched = [n \in Nodes |-> {<<1, 1, K!NewHeight>>, <<0, 1, 1>>}]

\* an input message in the shape of the output record that produced it
AsOut(m) == IF m.k = "vote" THEN [o |-> "vote", type |-> m.type, h |-> m.h, r |-> m.r, bid |-> m.bid, i |-> m.i]
            ELSE IF m.k = "proposal" THEN [o |-> "proposal", h |-> m.h, r |-> m.r, pol |-> m.pol, bid |-> m.bid, i |-> m.i]
            ELSE [o |-> "part", h |-> m.h, r |-> m.r, bid |-> m.bid]

RStep ==
  /\ l <= Len(Trace)
  /\ Trace[l].k # "restart"
  /\ LET e   == Trace[l]
         s   == st[e.n]
         res == Handle(s, e)
         own == e.k = "msg" /\ e.own
         ownOK  == own => (pend[e.n] # <<>> /\ Norm(Head(pend[e.n])) = AsOut(e.m))     \* (1) FIFO internal queue
         firedOK == (e.k = "timeout") => (<<e.ti.h, e.ti.r, e.ti.step>> \in sched[e.n])   \* (2) only scheduled timeouts fire
         match == /\ Proj(res.s) = e.post                                  \* the real node's state is the specified one
                  /\ NormSeq(SignedOf(res.out)) = NormSeq(e.signed)        \* it signed exactly what the specification signs
                  /\ ownOK /\ firedOK
         sp  == Proj(res.s)
         dif == {<<f, sp[f], e.post[f]>> : f \in {g \in DOMAIN sp : sp[g] # e.post[g]}}
     IN /\ IF match THEN TRUE
           ELSE (PrintT(<<"MISMATCH", "line", l, "node", e.n, "event", [x \in DOMAIN e \ {"post"} |-> e[x]],
                          "state fields <<name, specified, real>>", dif,
                          "spec_signed", NormSeq(SignedOf(res.out)), "real_signed", NormSeq(e.signed),
                          "own_input_is_head_of_internal_queue", ownOK,
                          "internal_queue", IF Len(pend[e.n]) > 0 THEN Head(pend[e.n]) ELSE "empty",
                          "fired_timeout_was_scheduled", firedOK>>) /\ FALSE)
        /\ st' = [st EXCEPT ![e.n] = res.s]
        /\ signed' = [signed EXCEPT ![e.n] = @ \o SignedOf(res.out)]
        /\ seen' = [seen EXCEPT ![e.n] = @ \cup SeenOf(e)]
        /\ committed' = [committed EXCEPT ![e.n] = @ \o AppSeq(Applies(res.out))]
        /\ pend' = [pend EXCEPT ![e.n] = (IF own THEN Tail(@) ELSE @) \o MsgOuts(res.out)]
        /\ sched' = [sched EXCEPT ![e.n] = @ \cup TKeys(TimeOuts(res.out))]
        /\ IF res.s.h # s.h
           THEN hbase' = [hbase EXCEPT ![e.n] = res.s] /\ hlog' = [hlog EXCEPT ![e.n] = <<>>]
           ELSE hbase' = hbase /\ hlog' = [hlog EXCEPT ![e.n] = Append(@, [k |-> e.k, newBid |-> e.newBid,
                                                  m |-> IF e.k = "msg" THEN e.m ELSE [k |-> "none"],
                                                  ti |-> IF e.k = "timeout" THEN e.ti ELSE [h |-> 0, r |-> 0, step |-> 0]])]
  /\ l' = l + 1

RRestart ==
  /\ l <= Len(Trace)
  /\ Trace[l].k = "restart"
  /\ LET e   == Trace[l]
         rec == Recovered(e.n)
         sp  == Proj(rec.s)
         dif == {<<f, sp[f], e.post[f]>> : f \in {g \in DOMAIN sp : sp[g] # e.post[g]}}
         resigned == SignedOf(rec.out)
         so == NormSeq(resigned)
         ro == NormSeq(e.signed)
         \* NAMED DEVIATION, the one of KardiaNodeTrace!RestartStep (known finding node:restart:reproposed-different-block
         \* of C05): the replay passes through decideProposal again BEFORE it reaches the logged own proposal and signs a
         \* NEW block built from what the node holds NOW (e.g. LastCommit rebuilt from the stored seen-commit instead of
         \* the precommits it had collected, evidence, transactions).  Tolerated for a "proposal" at the same position with
         \* the same height, round, POL round and signer; the second proposal only ever sits in the internal queue (the
         \* logged proposal is restored by the replay and wins), which is exactly what pend' below says.
         Reproposed(k) == /\ so[k].o = "proposal" /\ ro[k].o = "proposal"
                          /\ so[k].h = ro[k].h /\ so[k].r = ro[k].r /\ so[k].bid # ro[k].bid
                          /\ so[k].i = ro[k].i /\ so[k].pol = ro[k].pol
         signedModulo == Len(so) = Len(ro) /\ \A k \in 1..Len(so) : so[k] = ro[k] \/ Reproposed(k)
         deviates == so # ro /\ signedModulo
         \* what sits in the new process's internal queue: the replay's messages, a re-created proposal (and its part)
         \* under the block id the real process signed
         RealBid(o) == IF o.o \in {"proposal", "part"}
                          /\ \E k \in 1..Len(ro) : ro[k].o = "proposal" /\ ro[k].h = o.h /\ ro[k].r = o.r /\ ro[k].bid # o.bid
                       THEN LET k == CHOOSE k \in 1..Len(ro) : ro[k].o = "proposal" /\ ro[k].h = o.h /\ ro[k].r = o.r /\ ro[k].bid # o.bid
                            IN [o EXCEPT !.bid = ro[k].bid]
                       ELSE o
         queue == [k \in 1..Len(rec.out) |-> IF deviates THEN RealBid(rec.out[k]) ELSE rec.out[k]]
         match == /\ sp = e.post                                              \* it is where the replay of its log puts it
                  /\ signedModulo                                            \* the replay asked for exactly these signatures (see above)
                  /\ \A k \in 1..Len(resigned) : InLog(signed[e.n], resigned[k])   \* and what the replay signs is in its log (C05)
     IN /\ (deviates => PrintT(<<"DEVIATION", "reproposed-different-block", "line", l, "node", e.n>>))
        /\ IF match THEN TRUE
           ELSE (PrintT(<<"MISMATCH", "line", l, "node", e.n, "event", "restart",
                          "state fields <<name, specified, real>>", dif,
                          "spec_signed", so, "real_signed", ro>>) /\ FALSE)
        /\ st' = [st EXCEPT ![e.n] = rec.s]
        /\ hbase' = [hbase EXCEPT ![e.n] = SeenCommitOf(@)]
        /\ pend' = [pend EXCEPT ![e.n] = queue]                                \* (3) the new process's internal queue
        /\ sched' = [sched EXCEPT ![e.n] = @ \cup {<<rec.s.h, 1, K!NewHeight>>}]  \* scheduleRound0 of the new process
        /\ UNCHANGED <<signed, seen, committed, hlog>>
  /\ l' = l + 1

RNext == RStep \/ RRestart
RSpec == RInit /\ [][RNext]_rvars
==================================================================================
