SPECIFICATION Spec
CONSTANTS
  NV = 4
  SH = 3
  SR = 2
  SPV <- cSPV
  SPC <- cSPC
  SPCMaj <- cSPCMaj
  SLCR = 1
  SLC = {0, 1, 2}
  SCommit <- cSCommit
  Depth = 3
  Full = FALSE
INVARIANT Completeness
INVARIANT Sound
