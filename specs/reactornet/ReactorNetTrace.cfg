SPECIFICATION RSpec
INVARIANT AgreementAtEnd
INVARIANT C03AtEnd
POSTCONDITION Accepted
CHECK_DEADLOCK FALSE
