---- MODULE MC_GossipVotes_gen ----
EXTENDS MC_GossipVotes
cSPV == (0 :> {} @@ 1 :> {0, 1, 2} @@ 2 :> {0, 1, 2} @@ 3 :> {})
cSPC == (0 :> {} @@ 1 :> {0, 1, 2} @@ 2 :> {0, 1} @@ 3 :> {})
cSPCMaj == (0 :> FALSE @@ 1 :> TRUE @@ 2 :> FALSE @@ 3 :> FALSE)
cSCommit == (1 :> [r |-> 1, s |-> {0, 1, 3}])
====
