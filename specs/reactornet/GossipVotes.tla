------------------------------- MODULE GossipVotes -------------------------------
(***************************************************************************)
(* What consensus/manager.go knows about ONE peer and which votes it sends   *)
(* to it: the PeerState bookkeeping (cstypes.PeerRoundState behind            *)
(* ApplyNewRoundStepMessage, ApplyHasVoteMessage, SetHasVote,                 *)
(* SetHasProposal, EnsureVoteBitArrays, getVoteBitArray,                      *)
(* ensureCatchupCommitRound) and the decision cascade of gossipVotesRoutine   *)
(* / gossipVotesForHeight / PickSendVote.  One operator per function of the   *)
(* code, effects in the code's order.                                         *)
(*                                                                         *)
(* The SENDER's side is a constant: the projection of a real node's round     *)
(* state and block store (which votes it holds for which height / round /     *)
(* type).  The PEER's side is a history of messages it sent us (it may say    *)
(* anything a peer can say).  Gossip(p) runs the routine to its fixpoint and  *)
(* returns every vote that was handed to peer.Send.                           *)
(*                                                                         *)
(* Bit arrays are OBJECTS in the code and several fields of PeerRoundState    *)
(* may point to the same one (CatchupCommit = Precommits in                   *)
(* ensureCatchupCommitRound, Precommits = CatchupCommit in                    *)
(* ApplyNewRoundStepMessage): the model keeps a heap (id -> set of indices),  *)
(* fields hold ids, 0 = nil.                                                  *)
(*                                                                         *)
(* Transcribed AS IMPLEMENTED, deviations from upstream Tendermint named:     *)
(*  D1  ApplyNewRoundStepMessage "shifts Precommits to LastCommit" AFTER it   *)
(*      has set Precommits to nil: LastCommit is always nil after a height    *)
(*      change (upstream saves lastPrecommits first).  Effect: last-commit    *)
(*      precommits the peer already holds are sent again; nothing is lost.    *)
(*  D2  PickVoteToSend marks the vote as held by the peer BEFORE Send is      *)
(*      called (PickSendVote marks it again after a successful Send): a vote  *)
(*      whose Send fails on a live connection is not re-sent.  Send cannot    *)
(*      fail here (the model's peer accepts everything), see the family       *)
(*      report.                                                               *)
(***************************************************************************)
EXTENDS Integers, Sequences, FiniteSets, TLC

CONSTANTS NV,        \* number of validators = size of every bit array
          SH, SR,    \* sender's height and round
          SPV,       \* SPV[r]: indices whose prevote of round r (height SH) the sender holds; DOMAIN = the rounds its HeightVoteSet has
          SPC,       \* SPC[r]: same for precommits
          SPCMaj,    \* SPCMaj[r]: the precommits of round r have a +2/3 majority (VoteSet.IsCommit)
          SLCR, SLC, \* LastCommit: round and indices of the precommits of height SH-1 the sender holds (always a commit)
          SCommit    \* SCommit[h]: [r |-> round, s |-> indices] of the stored commit of height h (LoadBlockCommit), h < SH-1

Idx == 0..(NV - 1)
NewHeight == 1  Propose == 3  Prevote == 4  PrevoteWait == 5  Precommit == 6  PrecommitWait == 7  Commit == 8
PrevoteT == 1  PrecommitT == 2

\* ---- peer state ----
InitPeer == [h |-> 0, r |-> 0, step |-> 0, prop |-> FALSE, parts |-> FALSE, polr |-> 0, pol |-> 0, pv |-> 0, pc |-> 0,
             lcr |-> 0, lc |-> 0, ccr |-> 0, cc |-> 0,
             heap |-> <<>>]            \* heap[id] = set of indices; ids 1..Len(heap)

Alloc(p) == [p EXCEPT !.heap = Append(@, {})]
NewId(p) == Len(p.heap) + 1

CmpHRS(h1, r1, s1, h2, r2, s2) ==
  IF h1 < h2 THEN -1 ELSE IF h1 > h2 THEN 1
  ELSE IF r1 < r2 THEN -1 ELSE IF r1 > r2 THEN 1
  ELSE IF s1 < s2 THEN -1 ELSE IF s1 > s2 THEN 1 ELSE 0

\* NewRoundStepMessage.ValidateHeight (initial height 1), then PeerState.ApplyNewRoundStepMessage
ApplyNRS(p, m) ==
  IF (m.h = 1 /\ m.lcr # 0) \/ (m.h > 1 /\ m.lcr = 0) THEN p
  ELSE IF CmpHRS(m.h, m.r, m.step, p.h, p.r, p.step) <= 0 THEN p
  ELSE
    LET p1 == [p EXCEPT !.h = m.h, !.r = m.r, !.step = m.step]
        p2 == IF p.h # m.h \/ p.r # m.r
              THEN [p1 EXCEPT !.prop = FALSE, !.parts = FALSE, !.polr = 0, !.pol = 0, !.pv = 0, !.pc = 0] ELSE p1
        p3 == IF p.h = m.h /\ p.r # m.r /\ m.r = p.ccr THEN [p2 EXCEPT !.pc = p.cc] ELSE p2
    IN IF p.h # m.h
       THEN \* D1: p3.pc is already nil here, so LastCommit becomes nil in both branches
            [p3 EXCEPT !.lcr = m.lcr, !.lc = IF p.h + 1 = m.h /\ p.r = m.lcr THEN p3.pc ELSE 0, !.ccr = 0, !.cc = 0]
       ELSE p3

\* PeerState.getVoteBitArray: id of the array that tracks votes (h, r, t) of this peer, 0 if none
VoteArray(p, h, r, t) ==
  IF p.h = h THEN
       IF p.r = r THEN (IF t = PrevoteT THEN p.pv ELSE p.pc)
       ELSE IF p.ccr = r THEN (IF t = PrevoteT THEN 0 ELSE p.cc)
       ELSE IF p.polr = r THEN (IF t = PrevoteT THEN p.pol ELSE 0)
       ELSE 0
  ELSE IF p.h = h + 1 THEN
       IF p.lcr = r THEN (IF t = PrevoteT THEN 0 ELSE p.lc) ELSE 0
  ELSE 0

\* PeerState.ensureVoteBitArrays(height, numValidators > 0)
EnsureOne(p, f) == IF p[f] = 0 THEN [Alloc(p) EXCEPT ![f] = NewId(p)] ELSE p
Ensure(p, h) ==
  IF p.h = h THEN EnsureOne(EnsureOne(EnsureOne(EnsureOne(p, "pv"), "pc"), "cc"), "pol")
  ELSE IF p.h = h + 1 THEN EnsureOne(p, "lc")
  ELSE p

\* PeerState.setHasVote
SetHasVote(p, h, r, t, i) ==
  LET a == VoteArray(p, h, r, t) IN IF a = 0 THEN p ELSE [p EXCEPT !.heap[a] = @ \cup {i}]

\* PeerState.ApplyHasVoteMessage
ApplyHasVote(p, m) == IF p.h # m.h THEN p ELSE SetHasVote(p, m.h, m.r, m.t, m.i)

\* ConsensusManager.Receive, VoteChannel: a vote FROM the peer
ReceiveVote(p, m) == SetHasVote(Ensure(Ensure(p, SH), SH - 1), m.h, m.r, m.t, m.i)

\* ConsensusManager.Receive, DataChannel: PeerState.SetHasProposal (the proposal itself goes to the consensus state)
SetHasProposal(p, m) ==
  IF p.h # m.h \/ p.r # m.r THEN p
  ELSE IF p.prop THEN p
  ELSE IF p.parts THEN [p EXCEPT !.prop = TRUE]
  ELSE [p EXCEPT !.prop = TRUE, !.parts = TRUE, !.polr = m.polr, !.pol = 0]

Apply(p, m) == CASE m.k = "nrs"  -> ApplyNRS(p, m)
                 [] m.k = "has"  -> ApplyHasVote(p, m)
                 [] m.k = "vote" -> ReceiveVote(p, m)
                 [] m.k = "prop" -> SetHasProposal(p, m)

\* ---- the sender's vote sets (types.VoteSetReader) ----
NoVotes == [size |-> 0, h |-> 0, r |-> 0, t |-> 0, commit |-> FALSE, s |-> {}]
SPrevotes(r)   == IF r \in DOMAIN SPV THEN [size |-> NV, h |-> SH, r |-> r, t |-> PrevoteT, commit |-> FALSE, s |-> SPV[r]] ELSE NoVotes
SPrecommits(r) == IF r \in DOMAIN SPC THEN [size |-> NV, h |-> SH, r |-> r, t |-> PrecommitT, commit |-> SPCMaj[r], s |-> SPC[r]] ELSE NoVotes
SLastCommit    == IF SH > 1 THEN [size |-> NV, h |-> SH - 1, r |-> SLCR, t |-> PrecommitT, commit |-> TRUE, s |-> SLC] ELSE NoVotes
SStored(h)     == IF h \in DOMAIN SCommit THEN [size |-> NV, h |-> h, r |-> SCommit[h].r, t |-> PrecommitT, commit |-> TRUE, s |-> SCommit[h].s]
                  ELSE NoVotes

\* PeerState.ensureCatchupCommitRound
EnsureCatchup(p, h, r) ==
  IF p.h # h \/ p.ccr = r THEN p
  ELSE IF r = p.r THEN [p EXCEPT !.ccr = r, !.cc = p.pc]
  ELSE [Alloc(p) EXCEPT !.ccr = r, !.cc = NewId(p)]

\* PickSendVote until the set has nothing left for this peer (every pick marks its vote; the routine comes back to the
\* same branch while it yields).  c = [p, sent]; the side effects of a pick that finds nothing stay.
Pick(c, v) ==
  IF v.size = 0 THEN [c EXCEPT !.hit = FALSE]
  ELSE LET p1 == IF v.commit THEN EnsureCatchup(c.p, v.h, v.r) ELSE c.p
           p2 == Ensure(p1, v.h)
           a  == VoteArray(p2, v.h, v.r, v.t)
       IN IF a = 0 THEN [c EXCEPT !.p = p2, !.hit = FALSE]
          ELSE LET cand == v.s \ p2.heap[a]
               IN IF cand = {} THEN [c EXCEPT !.p = p2, !.hit = FALSE]
                  ELSE [p |-> [p2 EXCEPT !.heap[a] = @ \cup cand], hit |-> TRUE,
                        sent |-> c.sent \cup {<<v.h, v.r, v.t, i>> : i \in cand}]

\* one branch of the cascade: tried only if nothing was picked before in this iteration
Try(c, cond, v) == IF c.hit \/ ~cond THEN c ELSE Pick(c, v)

\* one iteration of gossipVotesRoutine's loop (prs = the snapshot taken at its top)
Iteration(c0) ==
  LET prs == c0.p
      c   == [c0 EXCEPT !.hit = FALSE]
      sameH == SH = prs.h
      \* gossipVotesForHeight
      a == Try(c, sameH /\ prs.step = NewHeight, SLastCommit)
      b == Try(a, sameH /\ prs.step <= Propose /\ prs.r # 0 /\ prs.r <= SR /\ prs.polr # 0, SPrevotes(prs.polr))
      d == Try(b, sameH /\ prs.step <= PrevoteWait /\ prs.r <= SR, SPrevotes(prs.r))
      e == Try(d, sameH /\ prs.step <= PrecommitWait /\ prs.r # 0 /\ prs.r <= SR, SPrecommits(prs.r))
      f == Try(e, sameH /\ prs.r # 0 /\ prs.r <= SR, SPrevotes(prs.r))
      g == Try(f, sameH /\ prs.polr # 0, SPrevotes(prs.polr))
      \* peer lags by one height: LastCommit; by more: the stored commit
      i == Try(g, prs.h # 0 /\ SH = prs.h + 1, SLastCommit)
      j == Try(i, prs.h # 0 /\ SH >= prs.h + 2, SStored(prs.h))
  IN j

RECURSIVE Fix(_)
Fix(c) == LET n == Iteration(c) IN IF n.hit THEN Fix(n) ELSE n
Gossip(p) == Fix([p |-> p, hit |-> FALSE, sent |-> {}])

(***************************************************************************)
(* C04's obligations on gossip (what a lagging / partitioned / restarted peer *)
(* needs and only this routine provides).  For a peer whose state we know     *)
(* (it told us height, round, step, POL round), after the fixpoint every vote  *)
(* of the following sets that the sender HOLDS has been sent now or was        *)
(* marked before (the peer said it has it / we sent it earlier):               *)
(*   O1  same height, peer's round <= ours: prevotes of the peer's round       *)
(*   O2  ... and its precommits, unless the peer is in the Commit step (it     *)
(*       has +2/3 of them)                                                    *)
(*   O3  the prevotes of the peer's proposal POL round (what frees a lock a    *)
(*       node took in an earlier round: without them a validator the others    *)
(*       cannot do without — a Byzantine one keeps silent — stays locked)      *)
(*   O4  peer exactly one height behind: our LastCommit (the rest may be        *)
(*       unable to reach the next height without that peer)                    *)
(*   O5  peer further behind: the stored commit of its height                  *)
(* LastCommit for a peer in NewHeight at OUR height is sent but not owed.       *)
(***************************************************************************)
Owed(p) ==
  LET sameH == SH = p.h
      set(v) == {<<v.h, v.r, v.t, i>> : i \in v.s}
  IN    (IF sameH /\ p.r # 0 /\ p.r <= SR THEN set(SPrevotes(p.r)) ELSE {})
   \cup (IF sameH /\ p.r # 0 /\ p.r <= SR /\ p.step <= PrecommitWait THEN set(SPrecommits(p.r)) ELSE {})
   \cup (IF sameH /\ p.polr # 0 THEN set(SPrevotes(p.polr)) ELSE {})
   \cup (IF p.h # 0 /\ SH = p.h + 1 THEN set(SLastCommit) ELSE {})
   \cup (IF p.h # 0 /\ SH >= p.h + 2 THEN set(SStored(p.h)) ELSE {})

\* after the fixpoint: the vote is marked in the array that tracks it
Marked(p, v) == LET a == VoteArray(p, v[1], v[2], v[3]) IN a # 0 /\ v[4] \in p.heap[a]
=================================================================================
