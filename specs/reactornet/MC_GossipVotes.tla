----------------------------- MODULE MC_GossipVotes -----------------------------
(***************************************************************************)
(* Model for TLC: every history of up to Depth messages of one peer           *)
(* (NewRoundStep / HasVote / a vote / a proposal, in any order, plus "the      *)
(* gossip routine ran to its fixpoint" as an event of its own) against the     *)
(* CANONICAL SENDER — the state harness/reactornet TestGossipReplay drives a   *)
(* real validator into before it replays these histories on the real           *)
(* ConsensusManager.Receive / PeerState / gossipVotesRoutine:                  *)
(*   height 3, round 2; round 1 failed with +2/3 nil precommits;               *)
(*   prevotes   r1 {0,1,2}   r2 {0,1,2}      precommits r1 {0,1,2} (nil, +2/3) *)
(*   r2 {0,1};  LastCommit (height 2, round 1) {0,1,2};                        *)
(*   stored commit of height 1 (in block 2): round 1, {0,1,3}.                 *)
(* Every transition is printed (Dump) with the votes the specification sends   *)
(* at the gossip fixpoint of the new state; Completeness is the C04 obligation *)
(* on gossip.                                                                 *)
(***************************************************************************)
EXTENDS GossipVotes, Json

CONSTANTS Depth,      \* messages per history
          Full        \* TRUE: the whole menu at every position; FALSE: the reduced menu after the first two

VARIABLES hist, p
vars == <<hist, p>>

Steps == {NewHeight, Propose, Prevote, Precommit, Commit}
NRS == {[k |-> "nrs", h |-> h, r |-> r, step |-> s, lcr |-> l] :
          h \in 1..4, r \in 1..3, s \in Steps, l \in 0..2}
NRSok == {m \in NRS : (m.h = 1 /\ m.lcr = 0) \/ (m.h > 1 /\ m.lcr \in {1, 2})}
Has  == {[k |-> "has", h |-> h, r |-> r, t |-> t, i |-> i] : h \in {2, 3}, r \in {1, 2}, t \in {PrevoteT, PrecommitT}, i \in {1, 3}}
Vote == {[k |-> "vote", h |-> h, r |-> r, t |-> t, i |-> 1] : h \in {2, 3}, r \in {1, 2}, t \in {PrevoteT, PrecommitT}}
Prop == {[k |-> "prop", h |-> 3, r |-> r, polr |-> q] : r \in {2, 3}, q \in {0, 1}}
Goss == {[k |-> "gossip"]}
Menu == NRSok \cup Has \cup Vote \cup Prop \cup Goss
Small == {m \in NRSok : m.h \in {3, 4} /\ m.r \in {2, 3} /\ m.lcr = 1 /\ m.step \in {NewHeight, Propose, Precommit}}
         \cup {m \in Has : m.h = 3 /\ m.i = 1} \cup Prop \cup Goss

Do(q, m) == IF m.k = "gossip" THEN Gossip(q).p ELSE Apply(q, m)

Init == hist = <<>> /\ p = InitPeer
Next == /\ Len(hist) < Depth
        /\ \E m \in (IF Full \/ Len(hist) < 2 THEN Menu ELSE Small) :
              /\ (Len(hist) = 0 => m.k = "nrs")       \* until it has announced a height a peer is at height 0: nothing else has any effect
              /\ hist' = Append(hist, m)
              /\ p' = Do(p, m)
Spec == Init /\ [][Next]_vars

\* projection of the peer state compared with the real PeerRoundState: arrays as sets, nil as "nil"
Arr(q, id) == IF id = 0 THEN <<"nil">> ELSE <<"set", q.heap[id]>>
ProjP(q) == [h |-> q.h, r |-> q.r, step |-> q.step, prop |-> q.prop, polr |-> q.polr, lcr |-> q.lcr, ccr |-> q.ccr,
             pv |-> Arr(q, q.pv), pc |-> Arr(q, q.pc), lc |-> Arr(q, q.lc), cc |-> Arr(q, q.cc), pol |-> Arr(q, q.pol)]

\* h: the history; s: the votes sent at the fixpoint; o: those of them that are owed (C04); q: the peer state after it
Dump == LET g == Gossip(p') IN PrintT(ToJson([h |-> hist', s |-> g.sent, o |-> g.sent \cap Owed(g.p), q |-> ProjP(g.p)]))

(***************************************************************************)
(* C04's obligation on gossip: after the fixpoint everything owed is marked.  *)
(* NAMED DEVIATION D3 (same in upstream Tendermint): getVoteBitArray gives     *)
(* the catch-up commit round precedence over the POL round — once precommits   *)
(* with a +2/3 majority (for nil too) of round q have been offered to the      *)
(* peer, PREVOTES of round q are untracked for the rest of the height and are  *)
(* never sent as POL prevotes.  Excluded from the obligation here, described   *)
(* in the family report.                                                      *)
(***************************************************************************)
D3(q, v) == v[3] = PrevoteT /\ v[1] = q.h /\ v[2] # q.r /\ q.ccr = v[2]
Completeness == LET g == Gossip(p) IN \A v \in Owed(g.p) : Marked(g.p, v) \/ D3(g.p, v)
\* nothing is sent that the sender does not hold
Sound == LET g == Gossip(p) IN
           \A v \in g.sent : \/ v \in {<<SH, r, PrevoteT, i>> : r \in DOMAIN SPV, i \in Idx} /\ v[4] \in SPV[v[2]]
                             \/ v \in {<<SH, r, PrecommitT, i>> : r \in DOMAIN SPC, i \in Idx} /\ v[4] \in SPC[v[2]]
                             \/ v[1] = SH - 1 /\ v[2] = SLCR /\ v[3] = PrecommitT /\ v[4] \in SLC
                             \/ v[1] \in DOMAIN SCommit /\ v[2] = SCommit[v[1]].r /\ v[3] = PrecommitT /\ v[4] \in SCommit[v[1]].s
View == <<hist, p>>
=================================================================================
