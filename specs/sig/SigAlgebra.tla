------------------------------ MODULE SigAlgebra ------------------------------
(***************************************************************************)
(* Signatures of votes, proposals and transactions as an algebra           *)
(* (property C11), and the acceptance paths of the code written over it.   *)
(*                                                                         *)
(* The consensus specifications (KardiaBFT / KardiaNode) are checked under *)
(* the Dolev-Yao assumption                                                *)
(*                                                                         *)
(*      Verify(sig, m', signer')  <=>  sig = Sign(signer, m)               *)
(*                                     /\ m' = m /\ signer' = signer       *)
(*                                                                         *)
(* where m is the FULL content of the message.  This module states what    *)
(* "full content" means for each message kind -- i.e. which fields the     *)
(* signed bytes cover -- and transcribes every place of the code that      *)
(* accepts a signature:                                                    *)
(*                                                                         *)
(*   VoteSignBytes / ProposalSignBytes   types/canonical_types.go          *)
(*                                       CreateCanonicalVote / -Proposal   *)
(*   VerifySig                           types/signable.go VerifySignature *)
(*                                       lib/crypto/signature.go  (same)   *)
(*   VoteVerify                          types/vote.go  Vote.Verify        *)
(*   VoteValidateBasic, ProposalValidateBasic   ...FromProto/ValidateBasic *)
(*   AddVote                             types/vote_set.go addVote (checks)*)
(*                                       consensus/types HeightVoteSet     *)
(*                                       .AddVote (routes by round, type)  *)
(*   VerifyCommit, CommitVote            types/validator_set.go,commit.go  *)
(*   VerifyDuplicateVote                 types/evidence/verify.go          *)
(*   SetProposal                         consensus/state.go setProposal    *)
(*   HashFrontier / HashChainID          types/transaction_signing.go Hash *)
(*   SignatureValues, SignTx, WithSig    transaction.go / _signing.go      *)
(*   TxSender, RecoverPlain              Signer.Sender, recoverPlain,      *)
(*                                       crypto.ValidateSignatureValues    *)
(*                                                                         *)
(* The operators use nothing but equality on field values (and "is the     *)
(* zero value" for the three parts of a block id), so the abstract values  *)
(* 0..2 of the models can be made concrete by ANY injective table that     *)
(* maps 0 to the zero value there; harness/sig uses several.               *)
(*                                                                         *)
(* A message "hash"/"sign bytes" is the RECORD of the covered fields:      *)
(* hashes and encodings are injective constructors in the algebra.  That   *)
(* the real encodings (protobuf canonical types, RLP) are injective on     *)
(* the covered fields and cover every field is exactly what the Go driver  *)
(* decides by replaying every enumerated case into the real code.          *)
(*                                                                         *)
(* Deliberate deviations / design decisions of the code, named:            *)
(*   VoteTypeSigned        FALSE = the code as found: CreateCanonicalVote  *)
(*                         wrote Type: PrevoteType for every vote          *)
(*                         (DESIGN 5-1; repaired by fix 55e88ca)           *)
(*   SignTxUsesSignerHash  FALSE = the code as found: types.SignTx signed  *)
(*                         the chain-id-free hash whatever signer it was   *)
(*                         given (DESIGN 5-12; repaired by fix 6c7ba1a)    *)
(*       Both constants are TRUE in every run that is compared with the    *)
(*       code; the FALSE runs only show that TypeBound / RoundTrip notice. *)
(*   unprotected transactions (V = 27/28) are accepted by every            *)
(*       ChainIDSigner (as documented in the code and as upstream          *)
(*       EIP-155): "signed for one chain id is rejected on another" can    *)
(*       only hold for replay-protected transactions (TxSender)            *)
(*   ChainIDSigner(0) is degenerate: Hash covers chain id 0 but            *)
(*       SignatureValues produces an unprotected V (SignatureValues)       *)
(*   vote/proposal signature VALUES need not be canonical: the high-s      *)
(*       twin, the compressed-key flag (v+4) and trailing bytes verified   *)
(*       as the original does in the code as found and are refused since   *)
(*       fix 8befce6 (class "twin" below).  C11 demands rejection of       *)
(*       malleable values for transactions only, so the outcome is left    *)
(*       open ("any") -- but a twin must still bind message and signer     *)
(*   CommitSig.ValidatorAddress is not looked at by VerifyCommit (the slot *)
(*       index names the signer), Vote.ValidatorIndex is not looked at by  *)
(*       VerifyDuplicateVote (the address names the signer)                *)
(*   setProposal's POLRound test is vacuous for unsigned rounds (5-10)     *)
(* As specified, verification of a malformed signature FAILS (verdict      *)
(* "sig"); the specification has no "panic" outcome.  (VerifySignature as  *)
(* found indexed signature[64] without a length check and handed           *)
(* r = 0 mod N to btcec's key recovery: both panicked -- the driver        *)
(* reports a panic as sig:panic:<form>:<path>; repaired by fix 8befce6.)   *)
(***************************************************************************)
EXTENDS Integers, Sequences, FiniteSets

CONSTANTS VoteTypeSigned,       \* TRUE = as specified
          SignTxUsesSignerHash  \* TRUE = as specified

NoAddr  == 0    \* "nobody we know": what recovery yields when the signature is not over these bytes
NoChain == -1   \* chain marker of an unprotected signature (V = 27/28)

VoteTypes == {"prevote", "precommit"}

(***************************************************************************)
(* Signature values.  A signature is the triple                            *)
(*    k  the key that made it,  m  the bytes (record) it was made over,    *)
(*    f  its FORM: how the 65 bytes offered relate to the honest ones.     *)
(* Forms are made concrete by the driver from the honest (r, s, v):        *)
(*   valid   r || s || v as produced by crypto.Sign (low s)                *)
(*   highs   r || N-s || v^1   the malleable twin                          *)
(*   comp    v+4               btcec's "compressed key" flag (votes only)  *)
(*   len66   one trailing byte (votes, proposals; tx: WithSignature)       *)
(*   vflip   v^1               the other recovery id                       *)
(*   v2      v+2               recovery ids 2/3 (x = r + N)                *)
(*   vbig    v = 8, 27, 255    outside every accepted range                *)
(*   r0 s0   r = 0 / s = 0     rN sN   r = N / s = N  (>= group order)     *)
(*   r0v2    r = 0 with v = 2  (x = N: the point may exist, r has no       *)
(*                              inverse)                                   *)
(*   rwide   R = 2^256 + r     (tx only: 33-byte integer on the wire)      *)
(*   zero    65 zero bytes     rand    seeded random 65 bytes              *)
(*   len64   v missing         len1 / len0   one byte / empty              *)
(*   vraw v26 vhuge            tx only: V = v, V = 26, V >= 2^64           *)
(***************************************************************************)
Sign(k, m)     == [k |-> k, m |-> m, f |-> "valid"]
Reform(sig, f) == [sig EXCEPT !.f = f]

\* votes and proposals: types.VerifySignature = recover the key, compare addresses; no check of
\* the signature values themselves
ConsForms == {"valid", "highs", "comp", "len66", "vflip", "v2", "vbig", "r0", "r0v2", "s0",
              "rN", "sN", "zero", "rand", "len64", "len1", "len0"}
ConsClass(f) == CASE f = "valid"                     -> "same"
                  [] f \in {"highs", "comp", "len66"} -> "twin"
                  [] OTHER                            -> "dead"

\* transactions: recoverPlain validates (v, r, s) with homestead = TRUE before recovering
TxForms == {"valid", "highs", "vflip", "r0", "s0", "rN", "sN", "rwide", "zero", "rand",
            "vraw", "v26", "vhuge", "len64", "len66"}
TxClass(f) == IF f = "valid" THEN "same" ELSE "dead"

(* types/signable.go VerifySignature(addr, hash, signature):                         *)
(*   "ok"   the recovered address equals addr                                       *)
(*   "sig"  it does not (or nothing can be recovered)                               *)
(*   "any"  twin of a signature that would verify: outcome left open (see above)    *)
VerifySig(addr, bytes, sig) ==
  IF ConsClass(sig.f) = "dead" \/ sig.m # bytes \/ sig.k # addr \/ addr = NoAddr THEN "sig"
  ELSE IF ConsClass(sig.f) = "same" THEN "ok" ELSE "any"

Accepting == {"ok", "any", "added", "set"}   \* verdicts that (may) mean "signature accepted"

(***************************************************************************)
(* Votes and proposals.  A message is a record                             *)
(*   type  "prevote" | "precommit" | "proposal"                            *)
(*   h r   height, round            pol  POL round (proposals only)        *)
(*   bh pt ph   block id: hash, part-set total, part-set hash              *)
(*              (0 = the zero value; all three 0 = the nil block id)       *)
(*   ts    timestamp                                                       *)
(*   va vi validator address / index carried by a vote (proposals carry    *)
(*         neither; there vi names the proposer the verifier expects)      *)
(* The chain id is not part of the wire message: it is the verifier's.     *)
(***************************************************************************)
BlockID(m)    == [bh |-> m.bh, pt |-> m.pt, ph |-> m.ph]
IsZeroBid(m)  == m.bh = 0 /\ m.pt = 0 /\ m.ph = 0
IsComplete(m) == m.bh # 0 /\ ~(m.pt = 0 /\ m.ph = 0)

\* CreateCanonicalVote + VoteSignBytes.  ValidatorAddress / ValidatorIndex are not covered:
\* the signer is bound by the key.  Votes have no POL round.
VoteSignBytes(chain, v) ==
  [kind |-> "vote", chain |-> chain,
   type |-> IF VoteTypeSigned THEN v.type ELSE "prevote",
   h |-> v.h, r |-> v.r, pol |-> 0, bid |-> BlockID(v), ts |-> v.ts]

\* CreateCanonicalProposal + ProposalSignBytes (another protobuf message: kind differs)
ProposalSignBytes(chain, p) ==
  [kind |-> "proposal", chain |-> chain, type |-> "proposal",
   h |-> p.h, r |-> p.r, pol |-> p.pol, bid |-> BlockID(p), ts |-> p.ts]

SignBytes(chain, m) == IF m.type = "proposal" THEN ProposalSignBytes(chain, m)
                       ELSE VoteSignBytes(chain, m)

\* Vote.Verify(chainID, address)
VoteVerify(chain, addr, v, sig) ==
  IF v.va # addr THEN "addr" ELSE VerifySig(addr, VoteSignBytes(chain, v), sig)

\* Vote.ValidateBasic as called by VoteFromProto (what a peer's bytes must pass first)
VoteValidateBasic(v, sig) ==
  /\ v.type \in VoteTypes
  /\ IsZeroBid(v) \/ IsComplete(v)
  /\ sig.f # "len0"
\* Proposal.ValidateBasic as called by ProposalFromProto
ProposalValidateBasic(p, sig) == IsComplete(p) /\ sig.f # "len0"

\* decode(encode(v)) then Verify: the path of a vote received from a peer
VoteFromWire(chain, addr, v, sig) ==
  IF ~VoteValidateBasic(v, sig) THEN "basic" ELSE VoteVerify(chain, addr, v, sig)

(* VoteSet.addVote on a set for (chain, h, r, type) with validators vals (index -> address), *)
(* up to and including the signature check; the set is empty, so no duplicate / conflict     *)
(* logic is involved (that is VoteSet.tla).                                                  *)
AddVote(set, v, sig) ==
  IF v.va = NoAddr THEN "addr"
  ELSE IF v.h # set.h \/ v.r # set.r \/ v.type # set.type THEN "step"
  ELSE IF v.vi \notin DOMAIN set.vals THEN "index"
  ELSE IF v.va # set.vals[v.vi] THEN "addr"
  ELSE LET res == VoteVerify(set.chain, set.vals[v.vi], v, sig)
       IN IF res = "ok" THEN "added" ELSE res

(* Commit.GetVote(idx): the vote a commit slot stands for.  The type is always precommit,    *)
(* the block id is the commit's for flag "commit" and nil for flag "nil".                    *)
CommitVote(c, i) ==
  LET s == c.sigs[i] IN
  [type |-> "precommit", h |-> c.h, r |-> c.r, pol |-> 0,
   bh |-> IF s.flag = "commit" THEN c.bh ELSE 0,
   pt |-> IF s.flag = "commit" THEN c.pt ELSE 0,
   ph |-> IF s.flag = "commit" THEN c.ph ELSE 0,
   ts |-> s.ts, va |-> s.va, vi |-> i]

(* ValidatorSet.VerifyCommit(chain, blockID, height, commit); vals: index -> address, equal  *)
(* powers.  Every present signature must verify for the validator OF THAT SLOT; the tally is *)
(* C02's business.  The address inside the CommitSig is not used by the code; whether a slot *)
(* whose address field names somebody else is accepted is left open ("any"): the field is    *)
(* neither content nor signer.                                                               *)
VerifyCommit(chain, vals, bid, h, c) ==
  LET n    == Len(c.sigs)
      one(i) == LET v == VerifySig(vals[i], VoteSignBytes(chain, CommitVote(c, i)), c.sigs[i].sig)
                IN IF v = "ok" /\ c.sigs[i].va # vals[i] THEN "any" ELSE v
      res  == [i \in 1..n |-> IF c.sigs[i].flag = "absent" THEN "ok" ELSE one(i)]
      forB == {i \in 1..n : c.sigs[i].flag = "commit"}
  IN IF n # Len(vals) THEN "size"
     ELSE IF h # c.h THEN "height"
     ELSE IF bid # BlockID(c) THEN "blockid"
     ELSE IF \E i \in 1..n : res[i] = "sig" THEN "sig"
     ELSE IF 3 * Cardinality(forB) <= 2 * n THEN "power"
     ELSE IF \E i \in 1..n : res[i] = "any" THEN "any" ELSE "ok"

(* evidence.VerifyDuplicateVote(e, chain, valSet) for e = [a, b, sa, sb] (two votes and      *)
(* their signatures); the power fields of the evidence are taken to be right.  The validator *)
(* is found by ADDRESS; the votes' ValidatorIndex is not used by the code, and a vote whose  *)
(* index does not belong to its address is left open ("any") like the address of a CommitSig *)
VerifyDuplicateVote(chain, vals, e) ==
  LET one(v, sg) == LET res == VerifySig(v.va, VoteSignBytes(chain, v), sg)
                    IN IF res = "ok" /\ (v.vi \notin DOMAIN vals \/ vals[v.vi] # v.va) THEN "any" ELSE res
      ra == one(e.a, e.sa)
      rb == one(e.b, e.sb)
  IN IF \A i \in DOMAIN vals : vals[i] # e.a.va THEN "notval"
     ELSE IF e.a.h # e.b.h \/ e.a.r # e.b.r \/ e.a.type # e.b.type THEN "hrs"
     ELSE IF e.a.va # e.b.va THEN "addr"
     ELSE IF BlockID(e.a) = BlockID(e.b) THEN "sameblock"
     ELSE IF ra = "sig" \/ rb = "sig" THEN "sig"
     ELSE IF ra = "any" \/ rb = "any" THEN "any" ELSE "ok"

(* ConsensusState.setProposal for a node at (cs.h, cs.r) on chain cs.chain whose proposer    *)
(* is cs.proposer, with no proposal yet.  "ignored" = returns nil without storing.           *)
(* The POLRound test of the code ((pol < 1) && (pol > 0 || pol > round)) can never fire.     *)
SetProposal(cs, p, sig) ==
  IF p.h # cs.h \/ p.r # cs.r THEN "ignored"
  ELSE LET res == VerifySig(cs.proposer, ProposalSignBytes(cs.chain, p), sig)
       IN IF res = "ok" THEN "set" ELSE res

(***************************************************************************)
(* Transactions.  Content fields: nonce price gas to value data            *)
(* (to = 0: nil recipient, contract creation).  On the wire a transaction  *)
(* is the six fields plus (V, R, S); V carries the recovery id and a chain *)
(* marker vc: NoChain for V = 27/28, else the chain id (V = 35+2c+v).      *)
(* A signer (types.Signer) is [kind: "homestead" | "chainid", chain].      *)
(* FrontierSigner behaves as HomesteadSigner here (both pass homestead =   *)
(* TRUE to recoverPlain).                                                  *)
(***************************************************************************)
TxContent(tx) == [nonce |-> tx.nonce, price |-> tx.price, gas |-> tx.gas,
                  to |-> tx.to, value |-> tx.value, data |-> tx.data]

HashFrontier(tx)   == [kind |-> "tx", c |-> TxContent(tx), chain |-> NoChain]  \* FrontierSigner.Hash, sigHash
HashChainID(tx, c) == [kind |-> "tx", c |-> TxContent(tx), chain |-> c]        \* ChainIDSigner.Hash (c may be 0)

SignerHash(S, tx) == IF S.kind = "chainid" THEN HashChainID(tx, S.chain) ELSE HashFrontier(tx)

\* Signer.SignatureValues: the chain marker that WithSignature writes into V
SignatureValuesVc(S) == IF S.kind = "chainid" /\ S.chain # 0 THEN S.chain ELSE NoChain

\* types.SignTx(S, tx, key) followed by what WithSignature stores: [sig, vc]
SignTx(S, tx, k) ==
  [sig |-> Sign(k, IF SignTxUsesSignerHash THEN SignerHash(S, tx) ELSE HashFrontier(tx)),
   vc  |-> SignatureValuesVc(S)]
\* the same by hand: S.Hash(tx), crypto.Sign, tx.WithSignature(S, sig)
HashSign(S, tx, k) == [sig |-> Sign(k, SignerHash(S, tx)), vc |-> SignatureValuesVc(S)]

\* recoverPlain(hash, R, S, V, homestead = TRUE): the recovered address, NoAddr for an error or a stranger
RecoverPlain(hash, sig) == IF TxClass(sig.f) = "same" /\ sig.m = hash THEN sig.k ELSE NoAddr

(* types.Sender(S, tx) for a wire transaction tx = content + [vc, sig]: the address of the   *)
(* key that signed, or NoAddr (error, or an address nobody holds).                           *)
(*   HomesteadSigner:  V must be 27/28 -- a protected V fails ValidateSignatureValues        *)
(*   ChainIDSigner(c): unprotected -> Homestead rules (accepted on every chain);             *)
(*                     chain marker # c -> ErrInvalidChainId; else recover over Hash(tx, c)  *)
TxSender(S, tx) ==
  IF S.kind # "chainid"
  THEN IF tx.vc # NoChain THEN NoAddr ELSE RecoverPlain(HashFrontier(tx), tx.sig)
  ELSE IF tx.vc = NoChain THEN RecoverPlain(HashFrontier(tx), tx.sig)
       ELSE IF tx.vc # S.chain THEN NoAddr
       ELSE RecoverPlain(HashChainID(tx, S.chain), tx.sig)

(* Where C11 demands REJECTION (an error), not merely "another sender": a transaction whose chain marker is not  *)
(* the verifier's, and the malleable / malformed signature values that ValidateSignatureValues refuses whatever  *)
(* the recovery id is.  (The other dead forms - flipped recovery id, random bytes, odd V - may also recover an    *)
(* address nobody holds.)  TxSender and this verdict are FUNCTIONS of (S, tx): presenting the same transaction    *)
(* again (the sender cache of types.Sender) must give the same answer.                                            *)
TxRejectForms == {"highs", "r0", "s0", "rN", "sN", "zero"}
TxMustFail(S, tx) == \/ tx.sig.f \in TxRejectForms
                     \/ S.kind # "chainid" /\ tx.vc # NoChain
                     \/ S.kind = "chainid" /\ tx.vc # NoChain /\ tx.vc # S.chain
===============================================================================
