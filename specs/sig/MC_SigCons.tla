------------------------------ MODULE MC_SigCons ------------------------------
(***************************************************************************)
(* Model for C11, consensus messages: one honest signature, every way of   *)
(* presenting it.                                                          *)
(*                                                                         *)
(*   o   the ORIGINAL: a prevote, precommit or proposal with every field   *)
(*       over the three-value domain 0..2, signed by key o.k on chain      *)
(*       o.chain with the real signing code (DefaultPrivValidator          *)
(*       SignVote / SignProposal)                                          *)
(*   p   what the adversary PRESENTS with that signature: the same         *)
(*       message after up to MaxMut single-field mutations -- any field,   *)
(*       the message type (a vote offered as the other vote type or as a   *)
(*       proposal and vice versa), the verifier's chain id, the claimed    *)
(*       signer (address, index, or both), the form of the signature bytes *)
(*   Verdicts(o, p)  what each acceptance path of the code must answer     *)
(*       (operators of SigAlgebra)                                         *)
(*                                                                         *)
(* Binding / TypeBound / Complete state C11 on the algebra.  Every         *)
(* transition is printed (Dump) and replayed into the real code by         *)
(* harness/sig: sign o, build p around the same signature bytes, call      *)
(*   rv  types.VerifySignature and crypto.VerifySignature over the sign    *)
(*       bytes of p for the validator at p.vi                              *)
(*   ve  Vote.Verify                                                       *)
(*   av  VoteSet.AddVote on a fresh set for p's own (height, round, type)  *)
(*       and HeightVoteSet.AddVote (which routes to exactly that set)      *)
(*   cm  ValidatorSet.VerifyCommit on a commit that carries p in slot p.vi *)
(*       next to honest precommits of the other validators                 *)
(*   ev  evidence.VerifyDuplicateVote on p paired with an honest vote of   *)
(*       the claimed signer for another block                              *)
(*   wi  the consensus reactor's codec (MustEncode -> MsgFromProto ->      *)
(*       ValidateBasic) followed by ve / sp                                *)
(*   sp  the real ConsensusState.setProposal on a node at p's (height,     *)
(*       round) whose proposer is validator p.vi                           *)
(* and compare each verdict ("na": the path does not exist for that type). *)
(*                                                                         *)
(* Mutations that the wire types cannot express are DISABLED here rather   *)
(* than silently dropped:                                                  *)
(*   - a vote has no POL round (types.Vote has no such field; "pol" can    *)
(*     be mutated only while the presented message is a proposal);         *)
(*   - a proposal carries neither a type tag nor a validator address or    *)
(*     index (types.Proposal; the Type field of the protobuf message is    *)
(*     never filled in): its signer is whoever the verifier believes the   *)
(*     proposer to be, which is what "vi" stands for in a proposal;        *)
(*   - the chain id is never on the wire: "chain" is the verifier's.       *)
(***************************************************************************)
EXTENDS SigAlgebra, Json, TLC

CONSTANTS Base,        \* centre of the enumerated originals (a record like o)
          OrigRadius,  \* originals differ from Base in at most this many fields (9 = all)
          MaxMut,      \* number of mutations (1 = all single-field mutations)
          Forms        \* signature forms tried, subset of ConsForms

Val   == 0..2
Keys  == 1..3                  \* keys that sign / are claimed
Types == {"prevote", "precommit", "proposal"}
Vals  == <<1, 2, 3, 4>>        \* the verifier's validator set: index -> address; #4 only fills commits

VARIABLES o, p, hist
vars == <<o, p, hist>>

\* (the message type is not counted: every radius has all three kinds of message)
OrigFields == {"chain", "h", "r", "bh", "pt", "ph", "ts", "k"}
Dist(x) == Cardinality({fl \in OrigFields : x[fl] # Base[fl]})
           + (IF x.type = "proposal" /\ x.pol # Base.pol THEN 1 ELSE 0)

Origs == {x \in [type : Types, chain : Val, h : Val, r : Val, pol : Val, bh : Val, pt : Val, ph : Val,
                 ts : Val, k : Keys] :
            /\ x.type # "proposal" => x.pol = 0
            /\ Dist(x) <= OrigRadius}

\* the message as its signer built it
Honest(x) == [type |-> x.type, chain |-> x.chain, h |-> x.h, r |-> x.r, pol |-> x.pol,
              bh |-> x.bh, pt |-> x.pt, ph |-> x.ph, ts |-> x.ts, va |-> x.k, vi |-> x.k, f |-> "valid"]

Init == o \in Origs /\ p = Honest(o) /\ hist = <<>>

\* which mutations the wire type of q can express
MutFields(q) == {"type", "chain", "h", "r", "bh", "pt", "ph", "ts", "vi", "f"}
                \cup (IF q.type = "proposal" THEN {"pol"} ELSE {"va", "signer"})
Dom(fl) == CASE fl = "type" -> Types
             [] fl = "f"    -> Forms
             [] fl \in {"va", "vi", "signer"} -> Keys
             [] OTHER       -> Val

Apply(q, fl, v) ==
  CASE fl = "signer" -> [q EXCEPT !.va = v, !.vi = v]
    [] fl = "type"   -> IF v = "proposal" THEN [q EXCEPT !.type = v, !.va = q.vi]   \* no address on a proposal
                        ELSE [q EXCEPT !.type = v, !.pol = 0]                       \* no POL round on a vote
    [] fl = "vi"     -> IF q.type = "proposal" THEN [q EXCEPT !.vi = v, !.va = v] ELSE [q EXCEPT !.vi = v]
    [] OTHER         -> [q EXCEPT ![fl] = v]

Differs(q, fl, v) == IF fl = "signer" THEN q.va = q.vi /\ v # q.va ELSE q[fl] # v

Mutate == /\ Len(hist) < MaxMut
          /\ \E fl \in MutFields(p) : \E v \in Dom(fl) :
               /\ \A i \in 1..Len(hist) : hist[i][1] # fl   \* (twice the same field is one mutation)
               /\ Differs(p, fl, v)
               /\ p' = Apply(p, fl, v)
               /\ hist' = Append(hist, <<fl, v>>)
          /\ UNCHANGED o
\* the unmutated presentation (printed once per original)
Identity == hist = <<>> /\ hist' = <<<<"id", 0>>>> /\ UNCHANGED <<o, p>>

Next == Mutate \/ Identity
Spec == Init /\ [][Next]_vars
View == <<o, p>>

(***************************** expected verdicts *****************************)
Filler  == [bh |-> 9, pt |-> 9, ph |-> 9]   \* a complete block id outside the universe
Filler2 == [bh |-> 8, pt |-> 8, ph |-> 8]

OrigSig(x) == Sign(x.k, SignBytes(x.chain, Honest(x)))

\* the commit that carries q (a precommit) in slot q.vi, every other slot an honest precommit
\* of that validator for the commit's block
CommitOf(q, sig) ==
  LET cb == IF IsZeroBid(q) THEN Filler ELSE BlockID(q)
      hv(i) == [type |-> "precommit", h |-> q.h, r |-> q.r, pol |-> 0, bh |-> cb.bh, pt |-> cb.pt,
                ph |-> cb.ph, ts |-> q.ts, va |-> Vals[i], vi |-> i]
  IN [h |-> q.h, r |-> q.r, bh |-> cb.bh, pt |-> cb.pt, ph |-> cb.ph,
      sigs |-> [i \in 1..Len(Vals) |->
                  IF i = q.vi
                  THEN [flag |-> IF IsZeroBid(q) THEN "nil" ELSE "commit", va |-> q.va, ts |-> q.ts, sig |-> sig]
                  ELSE [flag |-> "commit", va |-> Vals[i], ts |-> q.ts,
                        sig |-> Sign(Vals[i], VoteSignBytes(q.chain, hv(i)))]]]

\* the pair offered as duplicate-vote evidence: q and an honest vote of the claimed signer for another block
EvidenceOf(q, sig) ==
  LET ob == IF BlockID(q) = Filler2 THEN Filler ELSE Filler2
      w  == [q EXCEPT !.bh = ob.bh, !.pt = ob.pt, !.ph = ob.ph, !.vi = q.va]   \* (index of that address)
  IN [a |-> q, b |-> w, sa |-> sig, sb |-> Sign(q.va, VoteSignBytes(q.chain, w))]

Verdicts(x, q) ==
  LET sig == Reform(OrigSig(x), q.f) IN
  IF q.type = "proposal"
  THEN LET sp == SetProposal([chain |-> q.chain, h |-> q.h, r |-> q.r, proposer |-> Vals[q.vi]], q, sig)
       IN [rv |-> VerifySig(Vals[q.vi], ProposalSignBytes(q.chain, q), sig),
           ve |-> "na", av |-> "na", cm |-> "na", ev |-> "na", sp |-> sp,
           wi |-> IF ProposalValidateBasic(q, sig) THEN sp ELSE "basic"]
  ELSE [rv |-> VerifySig(Vals[q.vi], VoteSignBytes(q.chain, q), sig),
        ve |-> VoteVerify(q.chain, Vals[q.vi], q, sig),
        av |-> AddVote([chain |-> q.chain, h |-> q.h, r |-> q.r, type |-> q.type, vals |-> Vals], q, sig),
        cm |-> IF q.type = "precommit"
               THEN LET c == CommitOf(q, sig)
                    IN VerifyCommit(q.chain, Vals, [bh |-> c.bh, pt |-> c.pt, ph |-> c.ph], q.h, c)
               ELSE "na",
        ev |-> VerifyDuplicateVote(q.chain, Vals, EvidenceOf(q, sig)),
        sp |-> "na",
        wi |-> VoteFromWire(q.chain, Vals[q.vi], q, sig)]

(******************************** the property ********************************)
SameContent(x, q) == /\ q.type = x.type /\ q.chain = x.chain /\ q.h = x.h /\ q.r = x.r
                     /\ BlockID(q) = BlockID(x) /\ q.ts = x.ts
                     /\ q.type = "proposal" => q.pol = x.pol

\* A signature is accepted for no other message and no other signer.  Which field names the
\* signer depends on the path (see SigAlgebra): address and index for Verify / AddVote / wire,
\* the slot index for commits and proposals, the address for evidence.
Binding ==
  LET x == Verdicts(o, p) IN
  /\ x.rv \in Accepting => SameContent(o, p) /\ p.vi = o.k
  /\ x.ve \in Accepting => SameContent(o, p) /\ p.va = o.k /\ p.vi = o.k
  /\ x.av \in Accepting => SameContent(o, p) /\ p.va = o.k /\ p.vi = o.k
  /\ x.wi \in Accepting => SameContent(o, p) /\ p.va = o.k /\ p.vi = o.k
  /\ x.cm \in Accepting => SameContent(o, p) /\ p.vi = o.k
  /\ x.ev \in Accepting => SameContent(o, p) /\ p.va = o.k
  /\ x.sp \in Accepting => SameContent(o, p) /\ p.vi = o.k
  /\ (\E fl \in DOMAIN x : x[fl] \in Accepting) => ConsClass(p.f) # "dead"

\* the cross-type clause on its own (what fails when the vote type is not signed)
TypeBound ==
  LET x == Verdicts(o, p) IN p.type # o.type => \A fl \in DOMAIN x : x[fl] \notin Accepting

\* and the honest message is accepted wherever it can be offered
Complete ==
  LET x == Verdicts(o, p) IN
  (SameContent(o, p) /\ p.va = o.k /\ p.vi = o.k /\ p.f = "valid") =>
     /\ x.rv = "ok" /\ x.ve \in {"ok", "na"} /\ x.av \in {"added", "na"} /\ x.cm \in {"ok", "na"}
     /\ x.ev \in {"ok", "na"} /\ x.sp \in {"set", "na"} /\ x.wi \in {"ok", "set", "basic"}

Dump == PrintT(ToJson([o |-> <<o.type, o.chain, o.h, o.r, o.pol, o.bh, o.pt, o.ph, o.ts, o.k>>,
                       m |-> hist', x |-> Verdicts(o', p')]))
===============================================================================
