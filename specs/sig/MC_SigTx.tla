------------------------------- MODULE MC_SigTx -------------------------------
(***************************************************************************)
(* Model for C11, transactions: one honestly signed transaction, every way *)
(* of presenting its signature.                                            *)
(*                                                                         *)
(*   o   the ORIGINAL: six content fields over 0..2 (to = 0 is the nil     *)
(*       recipient), key o.k, the signer it was signed with                *)
(*       (o.ss: NoChain = HomesteadSigner, c >= 0 = ChainIDSigner(c)) and  *)
(*       the way it was signed (o.meth: "signtx" = types.SignTx,           *)
(*       "hash" = signer.Hash + crypto.Sign + tx.WithSignature)            *)
(*   p   what is PRESENTED: content fields, the chain marker carried by V  *)
(*       (p.vc), the form of (V, R, S) (p.f) and the signer the verifier   *)
(*       uses (p.vs), after up to MaxMut single mutations of any of them   *)
(*   Verdict(o, p)  "signer" if types.Sender must return the address of    *)
(*       o.k, "other" if it must fail or return any other address          *)
(*                                                                         *)
(* The driver checks the verdict on every real path that derives a sender: *)
(* types.Sender on the transaction as built, on its RLP decoding (the wire *)
(* path), through AsMessage, and on an object whose sender cache was       *)
(* filled under the signing signer before.                                 *)
(*                                                                         *)
(* Chain id 0: ChainIDSigner(0).Hash covers "chain id 0" but               *)
(* SignatureValues writes an unprotected V, so signing by hand does not    *)
(* round-trip (V = 35/36 would); the model mirrors that and RoundTrip is   *)
(* stated for chain ids >= 1.  (o.meth = "signtx", o.ss = 0) is excluded:  *)
(* it behaves as ("hash", 0) does (before fix 6c7ba1a SignTx ignored the   *)
(* signer's hash and happened to produce a plain Homestead transaction).   *)
(***************************************************************************)
EXTENDS SigAlgebra, Json, TLC

CONSTANTS Base, OrigRadius, MaxMut,
          Forms,       \* subset of TxForms
          Chains       \* chain ids of ChainIDSigners, e.g. 0..3 (0 = the degenerate one)

Val     == 0..2
Keys    == 1..3
Signers == {NoChain} \cup Chains            \* NoChain = HomesteadSigner, c = ChainIDSigner(c)
SignerOf(n) == IF n = NoChain THEN [kind |-> "homestead", chain |-> NoChain]
               ELSE [kind |-> "chainid", chain |-> n]

VARIABLES o, p, hist
vars == <<o, p, hist>>

ContentFields == {"nonce", "price", "gas", "to", "value", "data"}
\* (signer and signing method are not counted: every radius has all of them)
OrigFields    == ContentFields \cup {"k"}
Dist(x) == Cardinality({fl \in OrigFields : x[fl] # Base[fl]})

Origs == {x \in [nonce : Val, price : Val, gas : Val, to : Val, value : Val, data : Val,
                 k : Keys, ss : Signers, meth : {"signtx", "hash"}] :
            /\ ~(x.meth = "signtx" /\ x.ss = 0)
            /\ Dist(x) <= OrigRadius}

\* signature and chain marker produced by the honest signer
Signed(x) == IF x.meth = "signtx" THEN SignTx(SignerOf(x.ss), x, x.k) ELSE HashSign(SignerOf(x.ss), x, x.k)

Honest(x) == [nonce |-> x.nonce, price |-> x.price, gas |-> x.gas, to |-> x.to, value |-> x.value,
              data |-> x.data, vc |-> Signed(x).vc, f |-> "valid", vs |-> x.ss]

Init == o \in Origs /\ p = Honest(o) /\ hist = <<>>

Dom(fl) == CASE fl = "f"  -> Forms
             [] fl = "vc" -> {NoChain} \cup Chains
             [] fl = "vs" -> Signers
             [] OTHER     -> Val

Mutate == /\ Len(hist) < MaxMut
          /\ \E fl \in ContentFields \cup {"vc", "vs", "f"} : \E v \in Dom(fl) :
               /\ \A i \in 1..Len(hist) : hist[i][1] # fl   \* (twice the same field is one mutation)
               /\ p[fl] # v
               /\ p' = [p EXCEPT ![fl] = v]
               /\ hist' = Append(hist, <<fl, v>>)
          /\ UNCHANGED o
Identity == hist = <<>> /\ hist' = <<<<"id", 0>>>> /\ UNCHANGED <<o, p>>

Next == Mutate \/ Identity
Spec == Init /\ [][Next]_vars
View == <<o, p>>

Wire(x, q) == [nonce |-> q.nonce, price |-> q.price, gas |-> q.gas, to |-> q.to, value |-> q.value,
               data |-> q.data, vc |-> q.vc, sig |-> Reform(Signed(x).sig, q.f)]

Verdict(x, q) == IF TxSender(SignerOf(q.vs), Wire(x, q)) = x.k THEN "signer" ELSE "other"
Accepted == Verdict(o, p) = "signer"

(******************************** the property ********************************)
SameContent == TxContent(o) = TxContent(p)
\* the chain the presented transaction is accepted "as": none for an unprotected V
AcceptedAs == IF p.vc = NoChain THEN NoChain ELSE p.vs

\* a signature is accepted for no other content, in no other form, for no other chain
Binding == Accepted => SameContent /\ p.f = "valid" /\ AcceptedAs = o.ss
\* signed for one chain id: rejected under every other signer
ChainBound == (o.ss # NoChain /\ p.vs # o.ss) => ~Accepted
\* malleable / malformed values are rejected
Malleable == TxClass(p.f) = "dead" => ~Accepted
\* what must fail is never accepted (consistency of the two verdicts the driver compares)
FailConsistent == TxMustFail(SignerOf(p.vs), Wire(o, p)) => ~Accepted
\* sign, then recover: the signer (chain ids >= 1 and Homestead)
RoundTrip == (SameContent /\ p.f = "valid" /\ p.vc = Honest(o).vc /\ p.vs = o.ss /\ o.ss # 0) => Accepted
\* design decision of the code, stated so that it is visible: an unprotected transaction is
\* accepted by every signer, i.e. it is NOT bound to a chain
UnprotectedEverywhere == (o.ss = NoChain /\ SameContent /\ p.f = "valid" /\ p.vc = NoChain) => Accepted

Dump == PrintT(ToJson([o |-> <<o.nonce, o.price, o.gas, o.to, o.value, o.data, o.k, o.ss, o.meth>>,
                       m |-> hist', x |-> Verdict(o', p'),
                       e |-> TxMustFail(SignerOf(p'.vs), Wire(o', p'))]))
===============================================================================
