------------------------------- MODULE BlockFields -------------------------------
(***************************************************************************)
(* Field-level tamper evidence of blocks.  Property C13, second sentence:   *)
(*   "Any change to a block's transactions, last commit, evidence or any    *)
(*    header field either changes the block hash or makes the block fail    *)
(*    validation against the chain state, so two different blocks           *)
(*    acceptable at a height never share an id."                            *)
(*                                                                         *)
(* A block is a record of ALL header fields + transactions + last commit    *)
(* (height, round, block id, per-validator flag / address / timestamp /     *)
(* signature) + evidence.  Hashes are injective by construction: a content  *)
(* hash IS the content it commits to (identity), the header hash is the     *)
(* header record, the part-set hash is the whole block (it is the Merkle    *)
(* root over the complete proto encoding, see PartSet.tla).                 *)
(*                                                                         *)
(* The operators transcribe, check by check and in the code's order,        *)
(*   Decode         types.BlockFromProto (header, data, evidence, commit    *)
(*                  decoding incl. Commit.ValidateBasic)                    *)
(*   ValidateBasic  types.Block.ValidateBasic                            *)
(*   ValidateState  kai/state/cstate/validation.go validateBlock            *)
(*   VerifyCommit   types.ValidatorSet.VerifyCommit                      *)
(*   MedianTime     cstate.MedianTime / types/time WeightedMedian           *)
(* and return the name of the first failing check ("ok" if none).           *)
(*                                                                         *)
(* Signatures are abstract: a signature is the record of what was signed    *)
(* and by whom, [by, h, r, bid, ts]; it verifies iff that record is what    *)
(* the verifier recomputes (unforgeability is trusted, C11 binds the        *)
(* signed bytes).  NOTE (as in the code): the sign bytes of a precommit     *)
(* cover chain id, height, round, block id and timestamp - NOT the          *)
(* validator address stored next to the signature in the CommitSig; the     *)
(* verifier takes the address from the validator set by position.           *)
(***************************************************************************)
EXTENDS Integers, Sequences, FiniteSets, TLC

(***************************** abstract values *****************************)
ZeroBid == [hash |-> 0, ptotal |-> 0, phash |-> 0]
IsZeroBid(b) == b.hash = 0 /\ b.ptotal = 0 /\ b.phash = 0          \* BlockID.IsZero

EmptySig == [by |-> -1, h |-> 0, r |-> 0, bid |-> ZeroBid, ts |-> 0]   \* a zero-length signature
FlagAbsent == 1
FlagCommit == 2
FlagNil    == 3
AbsentCS == [flag |-> FlagAbsent, addr |-> 0, ts |-> 0, sig |-> EmptySig]      \* NewCommitSigAbsent()

(* the commit record; present = FALSE models a nil *Commit (the proto field omitted) *)
NoCommit == [present |-> FALSE, height |-> 0, round |-> 0, bid |-> ZeroBid, sigs |-> <<>>]

(* content hashes: identity on the committed content *)
DataHash(txs)  == txs                                  \* Transactions.Hash / DeriveSha
EvHash(ev)     == [k \in 1..Len(ev) |-> ev[k].id]      \* EvidenceList.Hash (hash of each evidence's full bytes)
CommitHash(lc) == lc.sigs                              \* Commit.Hash: Merkle root over the CommitSigs ONLY -
                                                       \* height, round and block id of the commit are NOT covered
ZeroHash == <<>>                                       \* (a commit without signatures hashes to the zero hash too)

(* identifiers *)
HeaderHash(b) == b.h                                   \* Block.Hash() = Header.Hash(): all 13 header fields
PartsHash(b)  == b                                     \* PartSetHeader.Hash: Merkle root of the whole encoding
BlockIDOf(b)  == <<HeaderHash(b), PartsHash(b)>>       \* what votes and commits carry

(**************************** chain state (cstate.LatestBlockState) ****************************)
(* s = [lastHeight, initialHeight, lastBlockID, appHash, valHash, nextValHash, lastVals, vals,       *)
(*      lastBlockTime, maxEv]; lastVals is a sequence of [addr, power] (positional, as in the code), *)
(*      vals the set of current validator addresses                                                  *)

RECURSIVE SumPower(_, _)
SumPower(vals, S) == IF S = {} THEN 0 ELSE LET i == CHOOSE x \in S : TRUE IN vals[i].power + SumPower(vals, S \ {i})
TotalPower(vals) == SumPower(vals, DOMAIN vals)
PowerOfAddr(vals, a) == LET I == {i \in DOMAIN vals : vals[i].addr = a}
                        IN IF I = {} THEN 0 ELSE vals[CHOOSE i \in I : TRUE].power

(* CommitSig.ValidateBasic *)
SigBasicOK(cs) ==
  /\ cs.flag \in {FlagAbsent, FlagCommit, FlagNil}
  /\ (cs.flag = FlagAbsent => cs.addr = 0 /\ cs.ts = 0 /\ cs.sig = EmptySig)
  /\ (cs.flag # FlagAbsent => cs.sig # EmptySig)
(* Commit.ValidateBasic *)
CommitBasicOK(c) ==
  c.height >= 1 => /\ ~IsZeroBid(c.bid)
                   /\ Len(c.sigs) > 0
                   /\ \A k \in 1..Len(c.sigs) : SigBasicOK(c.sigs[k])

(* does signature k of commit c verify for the validator at position k *)
SigVerifies(c, k, vals) ==
  c.sigs[k].sig = [by |-> vals[k].addr, h |-> c.height, r |-> c.round,
                   bid |-> IF c.sigs[k].flag = FlagCommit THEN c.bid ELSE ZeroBid,
                   ts |-> c.sigs[k].ts]

(* ValidatorSet.VerifyCommit(chainID, blockID, height, commit) *)
VerifyCommit(vals, bid, height, c) ==
  IF ~c.present THEN "commit:nil"
  ELSE IF ~CommitBasicOK(c) THEN "commit:basic"
  ELSE IF Len(vals) # Len(c.sigs) THEN "commit:size"
  ELSE IF height # c.height THEN "commit:height"
  ELSE IF bid # c.bid THEN "commit:blockid"
  ELSE IF \E k \in 1..Len(c.sigs) : c.sigs[k].flag # FlagAbsent /\ ~SigVerifies(c, k, vals) THEN "commit:signature"
  ELSE IF SumPower(vals, {k \in 1..Len(c.sigs) : c.sigs[k].flag = FlagCommit}) <= (TotalPower(vals) * 2) \div 3
       THEN "commit:power"
  ELSE "ok"

(* cstate.MedianTime: weighted median of the timestamps of the non-absent signatures whose ADDRESS FIELD names   *)
(* a validator (weight = its power); 0 = the zero time when nothing qualifies                                     *)
RECURSIVE MedianWalk(_, _, _)
MedianWalk(S, c, m) ==      \* S: remaining indices, walk in increasing timestamp order
  IF S = {} THEN 0
  ELSE LET k == CHOOSE x \in S : \A y \in S : c.sigs[x].ts < c.sigs[y].ts \/ (c.sigs[x].ts = c.sigs[y].ts /\ x <= y)
           w == c.w[k]
       IN IF m <= w THEN c.sigs[k].ts ELSE MedianWalk(S \ {k}, c, m - w)
MedianTime(c, vals) ==
  LET Q  == {k \in 1..Len(c.sigs) : c.sigs[k].flag # FlagAbsent /\ PowerOfAddr(vals, c.sigs[k].addr) > 0}
      w  == [k \in 1..Len(c.sigs) |-> PowerOfAddr(vals, c.sigs[k].addr)]
      tp == SumPower([k \in 1..Len(c.sigs) |-> [power |-> w[k]]], Q)
  IN MedianWalk(Q, [sigs |-> c.sigs, w |-> w], tp \div 2)

(* types.BlockFromProto up to (not including) ValidateBasic: what the wire decoder refuses *)
Decode(b) ==
  IF b.lc.present /\ ~(CommitBasicOK(b.lc) /\ \A k \in 1..Len(b.lc.sigs) : SigBasicOK(b.lc.sigs[k]))
       THEN "decode:commit"      \* CommitFromProto: each CommitSig.FromProto validates itself, then Commit.ValidateBasic
  ELSE IF \E k \in 1..Len(b.ev) : ~b.ev[k].dec THEN "decode:evidence"
  ELSE IF \E k \in 1..Len(b.txs) : b.txs[k] < 0 THEN "decode:tx"      \* a transaction that is not valid RLP
  ELSE "ok"

(* Block.ValidateBasic.  Header.ValidateBasic is vacuous (ValidateHash on fixed-size arrays). *)
ValidateBasic(b) ==
  IF b.h.height > 1 /\ ~b.lc.present THEN "basic:nil-commit"
  ELSE IF b.h.height > 1 /\ ~CommitBasicOK(b.lc) THEN "basic:commit"
  ELSE IF ~b.lc.present /\ b.h.lcHash # ZeroHash THEN "basic:lchash"
  ELSE IF b.lc.present /\ b.h.lcHash # CommitHash(b.lc) THEN "basic:lchash"
  ELSE IF b.h.dataHash # DataHash(b.txs) THEN "basic:datahash"
  ELSE IF \E k \in 1..Len(b.ev) : ~b.ev[k].wf THEN "basic:evidence"
  ELSE IF b.h.evHash # EvHash(b.ev) THEN "basic:evhash"
  ELSE "ok"

(* validateBlock after ValidateBasic *)
ValidateState(s, b) ==
  IF b.h.height # s.lastHeight + 1 THEN "state:height"
  ELSE IF s.lastHeight = 0 /\ b.h.height # s.initialHeight THEN "state:height"
  ELSE IF b.h.lastBlockID # s.lastBlockID THEN "state:lastblockid"
  ELSE IF b.h.appHash # s.appHash THEN "state:apphash"
  ELSE IF b.h.valHash # s.valHash THEN "state:valhash"
  ELSE IF b.h.nextValHash # s.nextValHash THEN "state:nextvalhash"
  ELSE IF b.h.height = s.initialHeight /\ ~b.lc.present THEN "state:nil-commit"
         \* DEVIATION from the code, named: validateBlock evaluates len(block.LastCommit().Signatures) on a nil
         \* commit here (nil dereference).  Specified: the block is refused.
  ELSE IF b.h.height = s.initialHeight /\ Len(b.lc.sigs) # 0 THEN "state:initial-commit-sigs"
  ELSE IF b.h.height # s.initialHeight /\ VerifyCommit(s.lastVals, s.lastBlockID, b.h.height - 1, b.lc) # "ok"
       THEN "state:" \o VerifyCommit(s.lastVals, s.lastBlockID, b.h.height - 1, b.lc)
  ELSE IF b.h.height > s.initialHeight /\ ~(b.h.time > s.lastBlockTime) THEN "state:time-not-after"
  ELSE IF b.h.height > s.initialHeight /\ b.h.time # MedianTime(b.lc, s.lastVals) THEN "state:time-median"
  ELSE IF b.h.height = s.initialHeight /\ b.h.time # s.lastBlockTime THEN "state:time-genesis"
  ELSE IF b.h.height < s.initialHeight THEN "state:below-initial"
  ELSE IF Len(b.ev) > s.maxEv THEN "state:evidence-overflow"
  ELSE IF b.h.proposer \notin s.vals THEN "state:proposer"
  \* evidencePool.CheckEvidence: each item verified against the state, no duplicates
  ELSE IF \E k \in 1..Len(b.ev) : ~b.ev[k].ok THEN "state:evidence-invalid"
  ELSE IF \E k, l \in 1..Len(b.ev) : k < l /\ b.ev[k].id = b.ev[l].id THEN "state:evidence-duplicate"
  ELSE "ok"

(* what a node does with a block that arrives (consensus addProposalBlockPart -> BlockFromProto(ValidateBasic),  *)
(* then defaultDoPrevote / finalizeCommit -> ValidateBlock): the first failing stage                              *)
Receive(s, b) ==
  IF Decode(b) # "ok" THEN Decode(b)
  ELSE IF ValidateBasic(b) # "ok" THEN ValidateBasic(b)
  ELSE ValidateState(s, b)
Valid(s, b) == Receive(s, b) = "ok"

(***************************** the validation cache *****************************)
(* BlockExecutor.ValidateBlock keeps `cache[block.Hash()]` of the blocks that passed and answers nil for a block *)
(* whose HEADER hash is in it.  UseCache = FALSE is the specified behaviour (the verdict is a function of the    *)
(* state and the whole block); TRUE is the code as written, kept to let TLC show what it admits.                 *)
Accept(useCache, cache, s, b) ==
  IF Decode(b) # "ok" \/ ValidateBasic(b) # "ok" THEN FALSE      \* refused on receipt, never reaches the executor
  ELSE IF useCache /\ HeaderHash(b) \in cache THEN TRUE
  ELSE ValidateState(s, b) = "ok"
CacheAfter(cache, s, b, accepted) == IF accepted THEN cache \cup {HeaderHash(b)} ELSE cache
==================================================================================
