--------------------------------- MODULE PartSet ---------------------------------
(***************************************************************************)
(* Block parts: splitting a serialized block into parts with Merkle proofs  *)
(* and reassembling it on the receiving side (types/part_set.go).           *)
(* Property C13, part clauses:                                              *)
(*   - a block reassembled from its parts, in any arrival order, with       *)
(*     duplicates and bogus parts in between, is the original;              *)
(*   - a complete set yields exactly the data its header hash commits to;   *)
(*   - a part that does not belong at its index under that hash is rejected *)
(*     and cannot prevent the genuine part from being added later.          *)
(*                                                                         *)
(* Functional style: a part set is a record, every public call of the code  *)
(* is an operator returning [st, res]; the same operators serve the         *)
(* exhaustive model (MC_PartSet) and the replay into the real               *)
(* types.PartSet.                                                           *)
(*                                                                         *)
(* Data model.  The serialized block is a sequence `items` of leaf contents *)
(* (strings; the last one may be short - its length is immaterial here, the *)
(* driver varies it).  A part is the code's                                 *)
(*      Part{Index, Bytes, Proof: SimpleProof{Total, Index, LeafHash, Aunts}}*)
(* and the header is PartSetHeader{Total, Hash}.                            *)
(***************************************************************************)
EXTENDS Merkle, FiniteSets

CONSTANT BindIndex
(* BindIndex = TRUE : AS SPECIFIED - AddPart also requires Proof.Index = Index and      *)
(*                    Proof.Total = Total of the set (what the statement "a part that   *)
(*                    does not belong at its index under that hash is rejected" needs;  *)
(*                    upstream added exactly this check).                               *)
(* BindIndex = FALSE: AS WRITTEN in types/part_set.go at the pinned commit - only        *)
(*                    Proof.Verify(hash, bytes) is checked.  DELIBERATE DEVIATION of the *)
(*                    oracle from the code: the registered check uses TRUE; FALSE exists *)
(*                    so that TLC exhibits the consequence (MC_PartSet, AsWritten).      *)

ZeroHash == "zero"     \* common.BytesToHash(nil): header hash of the empty data
NoPart   == [index |-> -1, bytes |-> "", proof |-> NoProof]

HeaderHash(items) == IF Len(items) = 0 THEN ZeroHash ELSE Root(items)
HeaderOf(items)   == [total |-> Len(items), hash |-> HeaderHash(items)]

(* the parts NewPartSetFromData(data, partSize) builds (index 0-based) *)
PartOf(items, i) == [index |-> i, bytes |-> items[i + 1], proof |-> ProofOf(items, i)]

(* NewPartSetFromData: the full, immutable set of the proposer *)
NewFromData(items) == [total |-> Len(items), hash |-> HeaderHash(items),
                       parts |-> [k \in 1..Len(items) |-> PartOf(items, k - 1)],
                       count |-> Len(items)]
(* NewPartSetFromHeader: the empty set of a receiver *)
NewFromHeader(h) == [total |-> h.total, hash |-> h.hash,
                     parts |-> [k \in 1..h.total |-> NoPart], count |-> 0]

(* PartSet.AddPart.  Result classes (what the caller observes):                         *)
(*   "added"  (true,  nil)                                                              *)
(*   "dup"    (false, nil)                        slot already filled                   *)
(*   "index"  (false, ErrPartSetUnexpectedIndex)  Index >= Total                        *)
(*   "proof"  (false, ErrPartSetInvalidProof)                                           *)
(* The order of the tests is the code's (index, duplicate, proof).  A rejected part     *)
(* leaves the set unchanged.                                                            *)
AddPartG(ps, part, bind) ==
  IF part.index >= ps.total THEN [st |-> ps, res |-> "index"]
  ELSE IF ps.parts[part.index + 1] # NoPart THEN [st |-> ps, res |-> "dup"]
  ELSE IF ~Verify(part.proof, ps.hash, part.bytes) THEN [st |-> ps, res |-> "proof"]
  ELSE IF bind /\ (part.proof.index # part.index \/ part.proof.total # ps.total)
       THEN [st |-> ps, res |-> "proof"]
  ELSE [st  |-> [ps EXCEPT !.parts[part.index + 1] = part, !.count = @ + 1],
        res |-> "added"]
AddPart(ps, part)          == AddPartG(ps, part, BindIndex)   \* the oracle of the model
AddPartAsWritten(ps, part) == AddPartG(ps, part, FALSE)       \* what types/part_set.go does at the pinned commit

(* Observers *)
Count(ps)      == ps.count
IsComplete(ps) == ps.count = ps.total
Bits(ps)       == [k \in 1..ps.total |-> ps.parts[k] # NoPart]           \* BitArray()
Filled(ps)     == {k \in 1..ps.total : ps.parts[k] # NoPart}
(* GetReader + ReadAll: the concatenation of the parts' bytes, kept as the sequence of   *)
(* leaf contents (defined for complete sets only; the code panics otherwise)             *)
Read(ps)       == [k \in 1..ps.total |-> ps.parts[k].bytes]

(****************************** properties of a state ******************************)
(* `items` is the data the header was computed from                                     *)
CountExact(ps)          == ps.count = Cardinality(Filled(ps))
SlotsGenuine(ps, items) == \A k \in Filled(ps) : ps.parts[k].bytes = items[k]
CompleteIsOriginal(ps, items) == IsComplete(ps) => Read(ps) = items
(* the complete set yields data that hashes to the header hash                          *)
CompleteMatchesHeader(ps) == IsComplete(ps) => HeaderHash(Read(ps)) = ps.hash
(* whatever has been offered so far, the genuine part for an empty slot is accepted     *)
GenuineNeverBlocked(ps, items) ==
  \A k \in (1..ps.total) \ Filled(ps) : AddPart(ps, PartOf(items, k - 1)).res = "added"
==================================================================================
