------------------------------- MODULE MC_PartSet -------------------------------
(***************************************************************************)
(* Exhaustive model of a RECEIVING part set (NewPartSetFromHeader of the    *)
(* header of block A with `Total` parts): every sequence of offers drawn    *)
(* from                                                                     *)
(*   - the genuine parts of A (any order, any number of duplicates),        *)
(*   - every adversarial part derived from them by ONE field mutation       *)
(*     (see MkPart), parts of another block B with the same number of       *)
(*     parts, parts of a block C with one part more, an inner node offered  *)
(*     as a leaf, an index beyond the total, and the nil part.              *)
(* The state that TLC distinguishes (VIEW) is the part set itself plus the  *)
(* last `KeepRej` offers that were NOT added - so every reachable set is    *)
(* visited after every possible junk suffix of that length, which is what   *)
(* "cannot prevent the genuine part from being added later" quantifies over *)
(* on the implementation side.  `hist` is the path (hidden by the VIEW);    *)
(* every transition is printed by the ACTION_CONSTRAINT Dump and replayed   *)
(* into the real types.PartSet built from real block bytes.                 *)
(***************************************************************************)
EXTENDS PartSet, Json

CONSTANTS Total,     \* number of parts of the block (0..5)
          KeepRej,   \* how many trailing non-added offers are part of the view (0..2)
          MaxOps     \* bound on the number of offers (0 = unbounded)

Name(p, n) == [k \in 1..n |-> p \o ToString(k - 1)]
A == Name("a", Total)          \* the block whose header the receiver holds
B == Name("b", Total)          \* another block with the same number of parts
C == Name("c", Total + 1)      \* a block with one part more

Hdr == HeaderOf(A)
G(i) == PartOf(A, i)
Ix == 0..(Total - 1)

(* offer descriptors <<kind, i, j>> (uniform shape, also the wire format of the dump) *)
Offers ==
     {<<"gen", i, 0>> : i \in Ix}
  \cup {o \in {<<k, i, j>> : k \in {"reidx", "pswap"}, i \in Ix, j \in Ix} : o[2] # o[3]}
  \cup {o \in {<<"pidx", i, j>> : i \in Ix, j \in 0..Total} : o[2] # o[3]}
  \cup {<<"ptot", i, t>> : i \in Ix, t \in {Total - 1, Total + 1, Total + 2}}
  \cup {<<k, i, 0>> : k \in {"trunc", "ext", "truncfix", "empty", "adrop", "afirst", "aextra", "arev",
                             "other", "oproof", "obytes", "obytesfix"}, i \in Ix}
  \cup {<<"bigger", i, 0>> : i \in 0..Total}
  \cup {<<"oob", i, d>> : i \in Ix, d \in {0, 1}}
  \cup (IF Total >= 2 THEN {<<"inner", 0, 0>>} ELSE {})
  \cup (IF Total >= 3 THEN {<<"innerl", 0, 0>>} ELSE {})

(* history entries are <<kind, i, j, result as specified, result of the code as written>>; the second result  *)
(* is informative (it explains the harmless acceptances of parts whose proof META data was altered but whose  *)
(* bytes are the genuine ones for their index - see the driver)                                              *)
(* the abstract part an offer stands for; the Go driver builds the real part by the same rule *)
MkPart(o) ==
  LET k == o[1]  i == o[2]  j == o[3] IN
  CASE k = "gen"       -> G(i)
    [] k = "reidx"     -> [G(j) EXCEPT !.index = i]                  \* genuine part j offered with Index i
    [] k = "pswap"     -> [G(i) EXCEPT !.proof = G(j).proof]         \* proof of another leaf
    [] k = "pidx"      -> [G(i) EXCEPT !.proof.index = j]            \* Proof.Index altered
    [] k = "ptot"      -> [G(i) EXCEPT !.proof.total = j]            \* Proof.Total altered
    [] k = "trunc"     -> [G(i) EXCEPT !.bytes = @ \o "~t"]          \* last byte cut off
    [] k = "ext"       -> [G(i) EXCEPT !.bytes = @ \o "~e"]          \* one byte appended
    [] k = "truncfix"  -> [G(i) EXCEPT !.bytes = @ \o "~t", !.proof.leafHash = LeafHash(A[i + 1] \o "~t")]
    [] k = "empty"     -> [G(i) EXCEPT !.bytes = ""]
    [] k = "adrop"     -> [G(i) EXCEPT !.proof.aunts = MutAunts(@, "droplast")]
    [] k = "afirst"    -> [G(i) EXCEPT !.proof.aunts = MutAunts(@, "dropfirst")]
    [] k = "aextra"    -> [G(i) EXCEPT !.proof.aunts = MutAunts(@, "extra")]
    [] k = "arev"      -> [G(i) EXCEPT !.proof.aunts = MutAunts(@, "rev")]
    [] k = "other"     -> PartOf(B, i)                               \* part i of another block
    [] k = "oproof"    -> [G(i) EXCEPT !.proof = ProofOf(B, i)]
    [] k = "obytes"    -> [G(i) EXCEPT !.bytes = B[i + 1]]
    [] k = "obytesfix" -> [G(i) EXCEPT !.bytes = B[i + 1], !.proof.leafHash = LeafHash(B[i + 1])]
    [] k = "bigger"    -> PartOf(C, i)                               \* part of a block with another total
    [] k = "oob"       -> [G(i) EXCEPT !.index = Total + j]          \* Index >= Total
    [] k = "inner"     -> LET bz == InnerPre(Root(Left(A)), Root(Right(A)))   \* preimage of the root as a "leaf"
                          IN [index |-> 0, bytes |-> bz,
                              proof |-> [total |-> 1, index |-> 0, leafHash |-> LeafHash(bz), aunts |-> <<>>]]
    [] k = "innerl"    -> LET bz == InnerPre(Root(Left(Left(A))), Root(Right(Left(A))))
                          IN [index |-> 0, bytes |-> bz,
                              proof |-> [total |-> 2, index |-> 0, leafHash |-> LeafHash(bz),
                                         aunts |-> <<Root(Right(A))>>]]

PartTable == [o \in Offers |-> MkPart(o)]

VARIABLES ps, rej, hist
vars == <<ps, rej, hist>>

Init == ps = NewFromHeader(Hdr) /\ rej = <<>> /\ hist = <<>>

Trim(s) == IF Len(s) > KeepRej THEN SubSeq(s, Len(s) - KeepRej + 1, Len(s)) ELSE s

Offer(o) == LET r == AddPart(ps, PartTable[o])
            IN /\ ps' = r.st
               /\ rej' = IF r.res = "added" THEN rej ELSE Trim(Append(rej, o))
               /\ hist' = Append(hist, o \o <<r.res, AddPartAsWritten(ps, PartTable[o]).res>>)
(* AddPart(nil): never produced by the wire decoder (PartFromProto returns a part or an  *)
(* error); specified as a rejection that leaves the set unchanged                        *)
OfferNil == /\ UNCHANGED ps
            /\ rej' = Trim(Append(rej, <<"nil", 0, 0>>))
            /\ hist' = Append(hist, <<"nil", 0, 0, "nil", "nil">>)

Next == (\E o \in Offers : Offer(o)) \/ OfferNil
Bound == MaxOps = 0 \/ Len(hist) < MaxOps
Spec == Init /\ [][Next]_vars
View == <<ps, rej>>

Inv == /\ CountExact(ps)
       /\ SlotsGenuine(ps, A)
       /\ CompleteIsOriginal(ps, A)
       /\ CompleteMatchesHeader(ps)
       /\ GenuineNeverBlocked(ps, A)
(* a part that is not added leaves the set exactly as it was *)
RejectNoOp == \A o \in Offers : LET r == AddPart(ps, PartTable[o]) IN r.res # "added" => r.st = ps
(* only parts that belong at their index under the header hash are ever added *)
OnlyBelonging == \A o \in Offers : LET p == PartTable[o] IN
                   AddPart(ps, p).res = "added" => (p.index \in Ix /\ p.bytes = A[p.index + 1])
(* sender side: the set built from the data is complete, reads back the data and its     *)
(* parts are exactly the genuine offers                                                  *)
SenderOK == LET s == NewFromData(A) IN /\ IsComplete(s) /\ Read(s) = A /\ HeaderOf(A) = [total |-> s.total, hash |-> s.hash]
                                        /\ \A i \in Ix : AddPart(s, G(i)).res = "dup"

Obs(t) == [c |-> Count(t), b |-> Bits(t), d |-> IsComplete(t)]
Dump == PrintT(ToJson([h |-> hist', o |-> Obs(ps')]))
=================================================================================
