--------------------------------- MODULE Merkle ---------------------------------
(***************************************************************************)
(* The "simple" Merkle tree of lib/merkle (simple_tree.go, simple_proof.go, *)
(* hash.go) over an ABSTRACT hash algebra.  Property C13.                   *)
(*                                                                         *)
(* Hashes are terms, written as strings so that TLC compares them           *)
(* uniformly:                                                               *)
(*      LeafHash(x)      = "L(x)"        kaihash(0x00 || x)                 *)
(*      InnerHash(l, r)  = "I(l,r)"      kaihash(0x01 || l || r)            *)
(* Two terms are equal iff they are the same term: the algebra is injective *)
(* and leaf / inner hashes are domain separated (a leaf whose bytes are the *)
(* concatenation "l,r" of two child hashes hashes to "L(l,r)", never to     *)
(* "I(l,r)").  These are exactly the assumptions about the real hash that   *)
(* the conformance driver tests on the equalities / inequalities exercised  *)
(* (collision resistance itself is trusted).                                *)
(*                                                                         *)
(* Everything below is a transcription of the Go code; names of the Go      *)
(* functions are given next to each operator.                               *)
(***************************************************************************)
EXTENDS Integers, Sequences, TLC

LeafHash(x)     == "L(" \o x \o ")"                  \* leafHash
InnerHash(l, r) == "I(" \o l \o "," \o r \o ")"      \* innerHash
InnerPre(l, r)  == l \o "," \o r                     \* the byte string l || r (preimage of an inner node without prefix)
NilHash         == "nil"                             \* a nil []byte result (empty tree, malformed proof)

(* getSplitPoint: the largest power of two strictly smaller than n (n >= 2) *)
RECURSIVE Pow2Below(_, _)
Pow2Below(n, k) == IF 2 * k < n THEN Pow2Below(n, 2 * k) ELSE k
Split(n) == Pow2Below(n, 1)

Left(items)  == SubSeq(items, 1, Split(Len(items)))
Right(items) == SubSeq(items, Split(Len(items)) + 1, Len(items))

(* SimpleHashFromByteSlices / the root returned by SimpleProofsFromByteSlices *)
RECURSIVE Root(_)
Root(items) ==
  IF Len(items) = 0 THEN NilHash
  ELSE IF Len(items) = 1 THEN LeafHash(items[1])
  ELSE InnerHash(Root(Left(items)), Root(Right(items)))

(* trailsFromByteSlices + FlattenAunts: the aunts of leaf i (0-based), from the leaf's  *)
(* sibling up to a child of the root                                                    *)
RECURSIVE Aunts(_, _)
Aunts(items, i) ==
  IF Len(items) <= 1 THEN <<>>
  ELSE LET k == Split(Len(items))
       IN IF i < k THEN Append(Aunts(Left(items), i), Root(Right(items)))
                   ELSE Append(Aunts(Right(items), i - k), Root(Left(items)))

(* one entry of SimpleProofsFromByteSlices; a SimpleProof is                            *)
(*   [total, index, leafHash, aunts]   (fields Total, Index, LeafHash, Aunts)           *)
ProofOf(items, i) == [total    |-> Len(items),
                      index    |-> i,
                      leafHash |-> LeafHash(items[i + 1]),
                      aunts    |-> Aunts(items, i)]
NoProof == [total |-> 0, index |-> 0, leafHash |-> "", aunts |-> <<>>]

(* computeHashFromAunts *)
RECURSIVE Compute(_, _, _, _)
Compute(index, total, lh, aunts) ==
  IF index >= total \/ index < 0 \/ total <= 0 THEN NilHash
  ELSE IF total = 1 THEN (IF Len(aunts) # 0 THEN NilHash ELSE lh)
  ELSE IF Len(aunts) = 0 THEN NilHash
  ELSE LET k    == Split(total)
           last == aunts[Len(aunts)]
           rest == SubSeq(aunts, 1, Len(aunts) - 1)
       IN IF index < k
          THEN LET l == Compute(index, k, lh, rest)
               IN IF l = NilHash THEN NilHash ELSE InnerHash(l, last)
          ELSE LET r == Compute(index - k, total - k, lh, rest)
               IN IF r = NilHash THEN NilHash ELSE InnerHash(last, r)

(* SimpleProof.Verify(rootHash, leaf) = nil.  NOTE (as in the code): the proof's own    *)
(* Index and Total steer the recomputation but are not otherwise tied to anything —     *)
(* "Check sp.Index/sp.Total manually if needed".                                        *)
Verify(p, root, leaf) ==
  /\ p.leafHash = LeafHash(leaf)
  /\ Compute(p.index, p.total, p.leafHash, p.aunts) = root

(* Mutations of a proof used by the models (the driver applies the same to the real one) *)
MutAunts(a, how) ==
  CASE how = "same"      -> a
    [] how = "droplast"  -> IF Len(a) = 0 THEN a ELSE SubSeq(a, 1, Len(a) - 1)
    [] how = "dropfirst" -> IF Len(a) = 0 THEN a ELSE SubSeq(a, 2, Len(a))
    [] how = "extra"     -> Append(a, LeafHash("junk"))
    [] how = "rev"       -> [k \in 1..Len(a) |-> a[Len(a) + 1 - k]]
=================================================================================
