----------------------------- MODULE MC_BlockFields -----------------------------
(***************************************************************************)
(* The single-field mutation catalogue over a valid block, and every        *)
(* sequence of up to `Depth` validations of catalogue blocks by ONE block   *)
(* executor (fresh at first, then having accepted whatever it accepted).    *)
(*                                                                         *)
(* Two scenes:                                                              *)
(*   Initial = FALSE  block at height 3 on a chain with four validators of  *)
(*                    power 10 (last commit for block 2, round 1, all four  *)
(*                    signed, timestamps 110,120,130,140; one valid duplicate-vote *)
(*                    evidence; two transactions)                           *)
(*   Initial = TRUE   block at the initial height (empty last commit)       *)
(* The Go driver builds the same two scenes on real nodes and applies the   *)
(* same mutation, by name, to the real proto block.  A third real scene     *)
(* ("changed") is the height-3 scene on a chain whose validator set changes *)
(* exactly between heights 2 and 3 (validator 1: power 10 -> 40): the       *)
(* specification is the same - the last commit is judged, and the median    *)
(* time weighted, by the PREVIOUS set (S.lastVals) - so the same dump is     *)
(* replayed there.                                                          *)
(*                                                                         *)
(* A mutation is <<name, rehash>>: rehash = "yes" recomputes the header's   *)
(* content hash of the mutated part (DataHash / LastCommitHash /            *)
(* EvidenceHash) - the two ways a tampered block can be presented.          *)
(***************************************************************************)
EXTENDS BlockFields, Json

CONSTANTS Initial,    \* scene
          UseCache,   \* FALSE: as specified; TRUE: BlockExecutor.ValidateBlock as written (header-hash cache)
          Depth,      \* validations per executor
          Pairs       \* TRUE: also every ordered pair of DIFFERENT single mutations (thorough tier)

NV == 4
LastVals == [k \in 1..NV |-> [addr |-> k, power |-> 10]]
PrevBid == IF Initial THEN ZeroBid ELSE [hash |-> 2, ptotal |-> 1, phash |-> 2]
T0 == 100                                   \* time of the last block (genesis time in the initial scene)
TS(k) == 100 + 10 * k                       \* timestamp of validator k's precommit (spaced: "+1" is one nanosecond)

S == [lastHeight |-> IF Initial THEN 0 ELSE 2, initialHeight |-> 1, lastBlockID |-> PrevBid,
      appHash |-> 1, valHash |-> 1, nextValHash |-> 1,
      lastVals |-> IF Initial THEN <<>> ELSE LastVals, vals |-> 1..NV, lastBlockTime |-> T0, maxEv |-> 10]

GoodSig(k) == [flag |-> FlagCommit, addr |-> k, ts |-> TS(k),
               sig |-> [by |-> k, h |-> 2, r |-> 1, bid |-> PrevBid, ts |-> TS(k)]]
BaseCommit == IF Initial THEN [present |-> TRUE, height |-> 0, round |-> 0, bid |-> ZeroBid, sigs |-> <<>>]
              ELSE [present |-> TRUE, height |-> 2, round |-> 1, bid |-> PrevBid, sigs |-> [k \in 1..NV |-> GoodSig(k)]]
E1 == [id |-> 1, dec |-> TRUE, wf |-> TRUE, ok |-> TRUE]      \* a valid duplicate-vote evidence (validator 4, height 2)
E4 == [id |-> 4, dec |-> TRUE, wf |-> TRUE, ok |-> ~Initial]  \* a second valid one (validator 3); in the initial scene
                                                              \* no earlier height exists, so it cannot verify
BaseEv  == IF Initial THEN <<>> ELSE <<E1>>
BaseTxs == <<1, 2>>
Base == [h |-> [height |-> S.lastHeight + 1,
                time |-> IF Initial THEN T0 ELSE MedianTime(BaseCommit, LastVals),
                numTxs |-> 2, gasLimit |-> 1, lastBlockID |-> PrevBid, proposer |-> 1,
                lcHash |-> CommitHash(BaseCommit), dataHash |-> DataHash(BaseTxs),
                valHash |-> 1, nextValHash |-> 1, consHash |-> 1, appHash |-> 1, evHash |-> EvHash(BaseEv)],
         txs |-> BaseTxs, lc |-> BaseCommit, ev |-> BaseEv]

(********************************* the catalogue *********************************)
HeaderMuts == {"h.height+1", "h.height-1", "h.time+1", "h.time-early", "h.numTxs", "h.gasLimit",
               "h.lastBlockID.hash", "h.lastBlockID.phash", "h.lastBlockID.ptotal",
               "h.proposer.validator", "h.proposer.stranger", "h.lcHash", "h.dataHash", "h.evHash",
               "h.valHash", "h.nextValHash", "h.consHash", "h.appHash"}
TxMuts     == {"txs.drop", "txs.add", "txs.swap", "txs.alter", "txs.garbage"}
LcMetaMuts == {"lc.height-1", "lc.height+1", "lc.round+1", "lc.bid.hash", "lc.bid.phash", "lc.bid.ptotal"}
LcSigMuts  == {"lc.sig1.absent", "lc.sig4.absent", "lc.sig1.nilflag", "lc.sig1.ts", "lc.sig1.addr-stranger",
               "lc.sig1.addr-validator", "lc.sig1.badsig", "lc.sig.swap12", "lc.sig1.nosig", "lc.sig1.flag0",
               "lc.sigs.droplast", "lc.two-absent", "lc.sig34.absent", "lc.sig34.absent-retimed",
               "lc.sig34.nil-signed"}
LcMuts     == LcMetaMuts \cup {"lc.nil", "lc.sigs.extra"} \cup (IF Initial THEN {} ELSE LcSigMuts)
EvMuts     == IF Initial THEN {"ev.add"} ELSE {"ev.drop", "ev.alter", "ev.add", "ev.dup", "ev.malformed"}

Rehashable(n) == n \in (TxMuts \ {"txs.garbage"}) \cup {"lc.nil", "lc.sigs.extra"} \cup LcSigMuts \cup EvMuts
Names == {n \in HeaderMuts \cup TxMuts \cup LcMuts \cup EvMuts : ~(Initial /\ n = "lc.height-1")}
Singles == {<<n, "no">> : n \in Names} \cup {<<n, "yes">> : n \in {x \in Names : Rehashable(x)}}

SetSig(b, k, cs) == [b EXCEPT !.lc.sigs[k] = cs]
NilSigned(cs) == IF cs.flag = FlagCommit THEN [cs EXCEPT !.flag = FlagNil, !.sig.bid = ZeroBid] ELSE cs
(* a mutation that finds nothing to act on (possible only in pairs, e.g. after the commit was removed) is a no-op *)
NeedSigs(n) == CASE n \in {"lc.sig4.absent", "lc.sig34.absent", "lc.sig34.absent-retimed", "lc.sig34.nil-signed"} -> 4
                 [] n \in {"lc.two-absent", "lc.sig.swap12"} -> 2
                 [] n \in LcSigMuts -> 1
                 [] OTHER -> 0
Applicable(b, n) ==
  /\ (n \in {"txs.drop", "txs.alter"} => Len(b.txs) >= 1)
  /\ (n = "txs.swap" => Len(b.txs) >= 2)
  /\ (n \in LcMetaMuts \cup LcSigMuts \cup {"lc.sigs.extra"} => b.lc.present)
  /\ Len(b.lc.sigs) >= NeedSigs(n)
  /\ (n \in {"ev.alter", "ev.dup", "ev.malformed"} => Len(b.ev) >= 1)
Apply1(b, n) ==
  IF ~Applicable(b, n) THEN b ELSE
  CASE n = "h.height+1"  -> [b EXCEPT !.h.height = @ + 1]
    [] n = "h.height-1"  -> [b EXCEPT !.h.height = @ - 1]
    [] n = "h.time+1"    -> [b EXCEPT !.h.time = @ + 1]                  \* one nanosecond later
    [] n = "h.time-early"-> [b EXCEPT !.h.time = T0 - 50]                \* before the previous block
    [] n = "h.numTxs"    -> [b EXCEPT !.h.numTxs = 7]
    [] n = "h.gasLimit"  -> [b EXCEPT !.h.gasLimit = @ + 1]
    [] n = "h.lastBlockID.hash"   -> [b EXCEPT !.h.lastBlockID.hash = 77]
    [] n = "h.lastBlockID.phash"  -> [b EXCEPT !.h.lastBlockID.phash = 77]
    [] n = "h.lastBlockID.ptotal" -> [b EXCEPT !.h.lastBlockID.ptotal = @ + 1]
    [] n = "h.proposer.validator" -> [b EXCEPT !.h.proposer = 2]         \* another current validator
    [] n = "h.proposer.stranger"  -> [b EXCEPT !.h.proposer = 9]
    [] n = "h.lcHash"    -> [b EXCEPT !.h.lcHash = <<AbsentCS, AbsentCS>>]
    [] n = "h.dataHash"  -> [b EXCEPT !.h.dataHash = <<99>>]
    [] n = "h.evHash"    -> [b EXCEPT !.h.evHash = <<99>>]
    [] n = "h.valHash"   -> [b EXCEPT !.h.valHash = 77]
    [] n = "h.nextValHash" -> [b EXCEPT !.h.nextValHash = 77]
    [] n = "h.consHash"  -> [b EXCEPT !.h.consHash = 77]
    [] n = "h.appHash"   -> [b EXCEPT !.h.appHash = 77]
    [] n = "txs.drop"    -> [b EXCEPT !.txs = SubSeq(@, 1, Len(@) - 1)]
    [] n = "txs.add"     -> [b EXCEPT !.txs = Append(@, 3)]
    [] n = "txs.swap"    -> [b EXCEPT !.txs = <<@[2], @[1]>> \o SubSeq(@, 3, Len(@))]     \* the first two exchanged
    [] n = "txs.alter"   -> [b EXCEPT !.txs[1] = 5]
    [] n = "txs.garbage" -> [b EXCEPT !.txs = Append(@, -1)]             \* bytes that are not a transaction
    [] n = "lc.height-1" -> [b EXCEPT !.lc.height = @ - 1]
    [] n = "lc.height+1" -> [b EXCEPT !.lc.height = @ + 1]
    [] n = "lc.round+1"  -> [b EXCEPT !.lc.round = @ + 1]
    [] n = "lc.bid.hash" -> [b EXCEPT !.lc.bid.hash = 77]
    [] n = "lc.bid.phash"  -> [b EXCEPT !.lc.bid.phash = 77]
    [] n = "lc.bid.ptotal" -> [b EXCEPT !.lc.bid.ptotal = @ + 1]
    [] n = "lc.nil"        -> [b EXCEPT !.lc = NoCommit]
    [] n = "lc.sigs.extra" -> [b EXCEPT !.lc.sigs = Append(@, AbsentCS)]
    [] n = "lc.sigs.droplast" -> [b EXCEPT !.lc.sigs = SubSeq(@, 1, Len(@) - 1)]
    [] n = "lc.sig1.absent"   -> SetSig(b, 1, AbsentCS)                  \* the earliest timestamp disappears
    [] n = "lc.sig4.absent"   -> SetSig(b, 4, AbsentCS)                  \* the latest one: median unchanged
    [] n = "lc.two-absent"    -> SetSig(SetSig(b, 1, AbsentCS), 2, AbsentCS)
    \* half of the PREVIOUS set's power remains; in the driver's "changed" scene (validator 1's power raised from
    \* 10 to 40 at this very height) the two remaining signers hold 50 of the CURRENT set's 70
    [] n = "lc.sig34.absent"  -> SetSig(SetSig(b, 3, AbsentCS), 4, AbsentCS)
    \* ... and the header time re-computed as the median of what is left, so that only the power test can refuse it
    [] n = "lc.sig34.absent-retimed" ->
         LET b2 == SetSig(SetSig(b, 3, AbsentCS), 4, AbsentCS)
         IN [b2 EXCEPT !.h.time = IF b2.lc.present /\ S.lastVals # <<>> THEN MedianTime(b2.lc, S.lastVals) ELSE @]
    \* validators 3 and 4 VALIDLY signed nil precommits (same times: the median stays): every signature verifies, but
    \* only the votes FOR THE BLOCK count towards +2/3
    [] n = "lc.sig34.nil-signed" -> SetSig(SetSig(b, 3, NilSigned(b.lc.sigs[3])), 4, NilSigned(b.lc.sigs[4]))
    [] n = "lc.sig1.nilflag"  -> [b EXCEPT !.lc.sigs[1].flag = FlagNil]
    [] n = "lc.sig1.ts"       -> [b EXCEPT !.lc.sigs[1].ts = @ + 1]
    [] n = "lc.sig1.addr-stranger"  -> [b EXCEPT !.lc.sigs[1].addr = 9]
    [] n = "lc.sig1.addr-validator" -> [b EXCEPT !.lc.sigs[1].addr = 2]
    [] n = "lc.sig1.badsig"   -> [b EXCEPT !.lc.sigs[1].sig.by = 0]
    [] n = "lc.sig.swap12"    -> [b EXCEPT !.lc.sigs[1].sig = b.lc.sigs[2].sig, !.lc.sigs[2].sig = b.lc.sigs[1].sig]
    [] n = "lc.sig1.nosig"    -> [b EXCEPT !.lc.sigs[1].sig = EmptySig]
    [] n = "lc.sig1.flag0"    -> [b EXCEPT !.lc.sigs[1].flag = 0]
    [] n = "ev.drop"      -> [b EXCEPT !.ev = <<>>]
    \* evidence ids: odd = powers as signed, even = ValidatorPower altered; 5, 6 = the same with the votes in the wrong order
    [] n = "ev.alter"     -> [b EXCEPT !.ev[1].id = IF @ % 2 = 1 THEN @ + 1 ELSE @, !.ev[1].ok = FALSE]
    [] n = "ev.add"       -> [b EXCEPT !.ev = Append(@, E4)]
    [] n = "ev.dup"       -> [b EXCEPT !.ev = Append(@, E1)]
    [] n = "ev.malformed" -> [b EXCEPT !.ev[1].id = IF @ <= 2 THEN @ + 4 ELSE @, !.ev[1].dec = FALSE, !.ev[1].wf = FALSE,
                                       !.ev[1].ok = FALSE]
    [] n = "none"         -> b

Group(n) == IF n \in TxMuts THEN "txs" ELSE IF n \in EvMuts THEN "ev" ELSE IF n \in LcMuts \cup LcSigMuts THEN "lc" ELSE "h"
Rehash(b, n) ==
  CASE Group(n) = "txs" -> [b EXCEPT !.h.dataHash = DataHash(b.txs)]
    [] Group(n) = "ev"  -> [b EXCEPT !.h.evHash = EvHash(b.ev)]
    [] Group(n) = "lc"  -> [b EXCEPT !.h.lcHash = IF b.lc.present THEN CommitHash(b.lc) ELSE ZeroHash]
    [] OTHER            -> b
ApplyM(b, m) == IF m[2] = "yes" THEN Rehash(Apply1(b, m[1]), m[1]) ELSE Apply1(b, m[1])

(* a catalogue entry is a sequence of one or two mutations *)
None == <<<<"none", "no">>>>
Muts == {<<m>> : m \in Singles} \cup
        (IF Pairs THEN {<<m1, m2>> : m1 \in Singles, m2 \in Singles} \ {<<m, m>> : m \in Singles} ELSE {})
B(ms) == IF Len(ms) = 1 THEN ApplyM(Base, ms[1]) ELSE ApplyM(ApplyM(Base, ms[1]), ms[2])
BT == [ms \in Muts \cup {None} |-> B(ms)]

VARIABLES cache, hist
vars == <<cache, hist>>
Init == cache = {} /\ hist = <<>>

Class(ms) == IF Accept(UseCache, cache, S, BT[ms]) THEN "ok" ELSE Receive(S, BT[ms])
Validate(ms) ==
  LET b == BT[ms]  acc == Accept(UseCache, cache, S, b) IN
  /\ cache' = CacheAfter(cache, S, b, acc)
  /\ hist' = Append(hist, <<ms, Class(ms), HeaderHash(b) # HeaderHash(Base), BlockIDOf(b) # BlockIDOf(Base)>>)
(* the first validation of an executor is the genuine block or a single mutation (so that with Pairs the number  *)
(* of warm executors stays small); afterwards any catalogue block                                               *)
Firsts == {None} \cup {<<m>> : m \in Singles}
Next == Len(hist) < Depth /\ \E ms \in (IF Len(hist) = 0 /\ Depth > 1 THEN Firsts ELSE Muts \cup {None}) : Validate(ms)
Spec == Init /\ [][Next]_vars
View == <<cache, Len(hist)>>

(********************************* the property *********************************)
BaseValid == Valid(S, Base)
(* what an executor accepts is valid, whatever it has validated before *)
AcceptedIsValid == \A ms \in Muts : Accept(UseCache, cache, S, BT[ms]) => Valid(S, BT[ms])
(* tamper evidence, with "id" = BlockID (header hash + part-set header) *)
TamperEvidentId == \A ms \in Muts : BT[ms] # Base => (BlockIDOf(BT[ms]) # BlockIDOf(Base) \/ ~Accept(UseCache, cache, S, BT[ms]))
(* tamper evidence in the statement's first wording, with the block hash = header hash *)
TamperEvidentHash == \A ms \in Muts : BT[ms] # Base => (HeaderHash(BT[ms]) # HeaderHash(Base) \/ ~Accept(UseCache, cache, S, BT[ms]))
(* two different acceptable blocks never share an id *)
UniqueIds == \A m1, m2 \in Muts \cup {None} :
               (Accept(UseCache, cache, S, BT[m1]) /\ Accept(UseCache, cache, S, BT[m2]) /\ BT[m1] # BT[m2])
                  => BlockIDOf(BT[m1]) # BlockIDOf(BT[m2])
(* non-vacuity: some tampered blocks ARE acceptable (with another hash), some are refused at every stage *)
NonVacuousP ==
  /\ \E ms \in Muts : BT[ms] # Base /\ Valid(S, BT[ms])
  /\ \E ms \in Muts : Decode(BT[ms]) # "ok"
  /\ \E ms \in Muts : Decode(BT[ms]) = "ok" /\ ValidateBasic(BT[ms]) # "ok"
  /\ \E ms \in Muts : Decode(BT[ms]) = "ok" /\ ValidateBasic(BT[ms]) = "ok" /\ ValidateState(S, BT[ms]) # "ok"
ASSUME NonVacuous == NonVacuousP

Dump == PrintT(ToJson([h |-> hist']))
=================================================================================
