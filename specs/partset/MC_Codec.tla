--------------------------------- MODULE MC_Codec ---------------------------------
(* Enumeration of abstract records over the boundary values of Codec.tla.  No transitions: every initial      *)
(* state is one record, printed with its specified round-trip outcome; the driver (TestCodec) builds the real *)
(* object, sends it through ToProto/Marshal/Unmarshal/FromProto (and the consensus message envelope), blocks  *)
(* and commits also through kai/rawdb, and compares.                                                          *)
EXTENDS Codec, Json

CONSTANT Wide    \* TRUE: full products (thorough); FALSE: reduced products (quick)

VARIABLE c

Pick(S, small) == IF Wide THEN S ELSE small
Votes == [type : VoteTypes, height : Pick(U64, {"0", "b8", "max64"}), round : Pick(U32, {"1", "max32"}),
          index : Pick(U32, {"0", "max32"}), ts : Times, bid : BIDs, addr : Addrs, sig : Sigs]
Proposals == [height : U64, round : Pick(U32, {"1", "max32"}), pol : Pick(U32, {"0", "max31"}), ts : Times, bid : BIDs, sig : Sigs]
CSigs == [flag : Flags, addr : Addrs, ts : Pick(Times, {"zero", "late"}), sig : Pick(Sigs, {"empty", "sig65"})]
GoodCS == [flag |-> "commit", addr |-> "a1", ts |-> "late", sig |-> "sig65"]
Commits == [height : Pick(U64, {"0", "1", "max64"}), round : Pick(U32, {"1", "max32"}), bid : BIDs,
            sigs : {<<>>} \cup {<<s>> : s \in CSigs} \cup {<<GoodCS, s>> : s \in CSigs}]
Parts == [index : U32, size : {"empty", "one", "full", "over"}, leafhash : {"h32", "h31", "none"},
          aunts : {"none", "two", "short"}, ptotal : Pick(U64, {"1", "max64"}), pindex : Pick(U64, {"0", "max64"})]
(* blocks written to and read from the database: height, number of transactions / evidence / commit signatures, *)
(* size class (one part / several parts) and whether the seen commit has an absent signature                    *)
Blocks == [height : {"1", "2", "b8", "max32", "max63"}, ntx : {0, 1, 3}, nev : {0, 1}, nsig : {1, 4},
           big : BOOLEAN, seenabsent : BOOLEAN]

Init == \/ c \in {<<"vote", v>> : v \in Votes}
        \/ c \in {<<"proposal", p>> : p \in Proposals}
        \/ c \in {<<"commit", x>> : x \in Commits}
        \/ c \in {<<"part", p>> : p \in Parts}
        \/ c \in {<<"block", b>> : b \in Blocks}
Next == UNCHANGED c
Spec == Init /\ [][Next]_c

(* sanity of the specification itself: both outcomes occur for every decoded kind *)
Dump == PrintT(ToJson([k |-> c[1], x |-> c[2], r |-> RoundTrip(c[1], c[2])]))
===================================================================================
