---------------------------------- MODULE Codec ----------------------------------
(***************************************************************************)
(* Wire and database encodings (property C13, last clause: "blocks,         *)
(* commits, votes and proposals survive their wire and database encodings   *)
(* unchanged").                                                             *)
(*                                                                         *)
(* Abstractly an encoding is the identity on records; what has to be        *)
(* specified is WHICH records exist on the far side: the decoders           *)
(* (VoteFromProto, ProposalFromProto, CommitFromProto, PartFromProto,       *)
(* BlockMetaFromProto, and rawdb's readers built on them) run ValidateBasic *)
(* and refuse the rest.  RoundTrip(kind, x) is "same" for a record the      *)
(* decoder must return unchanged (every field, and therefore hash, sign     *)
(* bytes and re-encoding) and "error" for one it refuses.                   *)
(*                                                                         *)
(* Field values are SYMBOLIC boundary values (TLC integers are 32 bit); the *)
(* driver maps them: "max64" = 2^64-1, "b7"/"b8" = 127/128 (varint length   *)
(* boundary), times "zero" = time.Time{}, "epoch" = Unix 0, "ns" = 1 ns     *)
(* after the epoch, "late" = a date with nanoseconds, ...                   *)
(***************************************************************************)
EXTENDS Integers, Sequences, TLC

U64   == {"0", "1", "b7", "b8", "max32", "max63", "max64"}
U32   == {"0", "1", "b8", "max31", "max32"}
Times == {"zero", "epoch", "ns", "late"}
Sigs  == {"empty", "sig65", "one"}          \* signature bytes: none / 65 bytes / a single byte
Addrs == {"zero", "a1"}
BIDs  == {"zero", "complete", "hashonly", "partsonly", "maxtotal"}
          \* BlockID: zero / hash+parts / hash only / parts only / complete with Total = 2^32-1
VoteTypes == {"unknown", "prevote", "precommit", "proposal"}
Flags == {"f0", "absent", "commit", "nil", "f4"}

BidIsZero(b)     == b = "zero"
BidIsComplete(b) == b \in {"complete", "maxtotal"}

(* Vote.ValidateBasic *)
ValidVote(v) == /\ v.type \in {"prevote", "precommit"}
                /\ (BidIsZero(v.bid) \/ BidIsComplete(v.bid))
                /\ v.sig # "empty"
(* Proposal.ValidateBasic (since 2c4d547 the part count is bounded by MaxBlockPartsCount; before, a proposal with   *)
(* Total = 2^32-1 survived the codec and sized an allocation at the receiver)                                     *)
ValidProposal(p) == BidIsComplete(p.bid) /\ p.bid # "maxtotal" /\ p.sig # "empty"
(* CommitSig.ValidateBasic *)
ValidCommitSig(s) == /\ s.flag \in {"absent", "commit", "nil"}
                     /\ (s.flag = "absent" => s.addr = "zero" /\ s.ts = "zero" /\ s.sig = "empty")
                     /\ (s.flag # "absent" => s.sig # "empty")
(* CommitFromProto: every CommitSig is validated while it is decoded (CommitSig.FromProto), then              *)
(* Commit.ValidateBasic - which does not examine a commit of height 0, the empty commit of the first block    *)
ValidCommit(c) == /\ \A k \in 1..Len(c.sigs) : ValidCommitSig(c.sigs[k])
                  /\ (c.height # "0" => ~BidIsZero(c.bid) /\ Len(c.sigs) > 0)
(* Part.ValidateBasic + SimpleProof.ValidateBasic *)
ValidPart(p) == p.size # "over" /\ p.leafhash = "h32" /\ p.aunts # "short"

RoundTrip(kind, x) ==
  CASE kind = "vote"     -> IF ValidVote(x) THEN "same" ELSE "error"
    [] kind = "proposal" -> IF ValidProposal(x) THEN "same" ELSE "error"
    [] kind = "commit"   -> IF ValidCommit(x) THEN "same" ELSE "error"
    [] kind = "part"     -> IF ValidPart(x) THEN "same" ELSE "error"
    [] kind = "block"    -> "same"        \* blocks are built valid (see MC_Codec); rawdb must return them unchanged
==================================================================================
