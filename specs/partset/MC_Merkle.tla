-------------------------------- MODULE MC_Merkle --------------------------------
(***************************************************************************)
(* Exhaustive enumeration of proof checks for trees of n leaves, n in Ns    *)
(* (lib/merkle SimpleProofsFromByteSlices / SimpleProof.Verify).            *)
(* A state is one check: the genuine proof of leaf i of the tree over       *)
(* a0..a(n-1), with                                                         *)
(*   - Proof.Index replaced by jdx        (0..n+1)                          *)
(*   - Proof.Total replaced by tot        (0..n+3)                          *)
(*   - the aunts mutated by av           (same/droplast/dropfirst/extra/rev)*)
(*   - verified against the bytes of leaf `lf` (n = foreign bytes), with    *)
(*     the proof's LeafHash kept or recomputed for those bytes (lh)         *)
(* There are no transitions; every state is one evaluation of the real      *)
(* Verify by the driver (TestMerkle), which compares with verdict V.        *)
(***************************************************************************)
EXTENDS Merkle, Json

CONSTANTS Ns,         \* the numbers of leaves examined (a subset of 1..9)
          Wide        \* TRUE: every leaf as `lf`; FALSE: lf in {i, i+1 mod n, foreign}

Items(n) == [k \in 1..n |-> "a" \o ToString(k - 1)]
Content(n, lf) == IF lf = n THEN "zz" ELSE Items(n)[lf + 1]
(* evaluated once: roots and genuine proofs of every tree *)
RtF == [n \in Ns |-> Root(Items(n))]
PF  == [n \in Ns |-> [i \in 0..(n - 1) |-> ProofOf(Items(n), i)]]

VARIABLE c
Checks(n) == [n : {n}, i : 0..(n - 1), jdx : 0..(n + 1), tot : 0..(n + 3), lf : 0..n, lh : {"keep", "fix"},
              av : {"same", "droplast", "dropfirst", "extra", "rev"}]
Init == \E n \in Ns : c \in {x \in Checks(n) : Wide \/ x.lf \in {x.i, (x.i + 1) % n, n}}
Next == UNCHANGED c
Spec == Init /\ [][Next]_c

Mut(x) == LET p == PF[x.n][x.i]
          IN [total |-> x.tot, index |-> x.jdx,
              leafHash |-> IF x.lh = "fix" THEN LeafHash(Content(x.n, x.lf)) ELSE p.leafHash,
              aunts |-> MutAunts(p.aunts, x.av)]
V(x) == Verify(Mut(x), RtF[x.n], Content(x.n, x.lf))

(* every genuine proof verifies *)
Completeness == (c.jdx = c.i /\ c.tot = c.n /\ c.lf = c.i /\ c.av = "same") => V(c)
(* whatever is done to index, total and aunts: a proof verifies only against the bytes of the leaf the aunts  *)
(* were computed for                                                                                          *)
ContentSound == V(c) => c.lf = c.i
(* with the true total, a verifying proof names the true index: this is what lets a caller that compares     *)
(* Proof.Total and Proof.Index with what it expects (PartSet.AddPart AS SPECIFIED) conclude that the bytes   *)
(* are the leaf at that index                                                                                *)
PositionSound == (V(c) /\ c.tot = c.n) => (c.jdx = c.i /\ c.lf = c.i)
(* NOT an invariant (kept as documentation; the registered check confirms that TLC refutes it):              *)
(* Verify alone does not pin Proof.Total / Proof.Index - e.g. the proof of leaf 0 of a 4-leaf tree also       *)
(* verifies with Total = 3, that of leaf 2 with (Index, Total) = (4, 6)                                       *)
VerifyPinsMeta == V(c) => (c.jdx = c.i /\ c.tot = c.n)
(* the tree itself: every genuine path recomputes the root; the root is the inner hash of the two subtrees;   *)
(* domain separation: the preimage of the root offered as a single leaf does not hash to the root             *)
ASSUME RootOK == \A n \in Ns :
            /\ \A i \in 0..(n - 1) : Compute(i, n, LeafHash(Items(n)[i + 1]), Aunts(Items(n), i)) = RtF[n]
            /\ (n >= 2 => RtF[n] = InnerHash(Root(Left(Items(n))), Root(Right(Items(n)))))
            /\ (n >= 2 => LeafHash(InnerPre(Root(Left(Items(n))), Root(Right(Items(n))))) # RtF[n])

Dump == PrintT(ToJson([c |-> c, r |-> V(c)]))
==================================================================================
